// Command gen translates parts of the go-astits source tree into Gallina.
//
// It is the "regenerated" half of the tie between /repo and the Coq model
// (DESIGN.md section 1): on every run it parses the current working tree with
// go/parser and writes
//
//	Gen/Consts.v    every package level integer constant
//	Gen/Types.v     one Coq record per Go struct (field for field, in order)
//	Gen/CrcTable.v  the 256 literals of tableCRC32
//	Gen/Preds.v     the expression-only / straight-line functions listed in
//	                preds.go, translated statement by statement over Z with an
//	                explicit "mod 2^k" wherever Go's fixed width arithmetic wraps
//
// A function that leaves the accepted grammar makes the run fail (exit 2); the
// check reports that as a broken tie.
package main

import (
	"fmt"
	"go/ast"
	"go/parser"
	"go/token"
	"math/big"
	"os"
	"path/filepath"
	"sort"
	"strconv"
	"strings"
)

type pkg struct {
	fset    *token.FileSet
	consts  map[string]*ast.ValueSpec // name -> spec
	cidx    map[string]int            // index of the name inside its spec
	types   map[string]ast.Expr       // named non-struct types -> underlying
	structs map[string]*ast.StructType
	sorder  []string
	funcs   map[string]*ast.FuncDecl // "name" or "Recv.name"
	vars    map[string]*ast.ValueSpec
	imports map[string]bool // names under which the files import packages
	raw     *pkg            // the same files parsed again, without the substitution of local constants (normalise.go)
}

func die(format string, a ...interface{}) {
	fmt.Fprintf(os.Stderr, "gen: "+format+"\n", a...)
	os.Exit(2)
}

// load parses the package and applies the normalisations of normalise.go.
func load(dir string) *pkg {
	p := parseDir(dir)
	p.normalise(true)
	p.raw = parseDir(dir)
	p.raw.normalise(false)
	p.raw.raw = p.raw
	return p
}

func parseDir(dir string) *pkg {
	p := &pkg{imports: map[string]bool{}, fset: token.NewFileSet(), consts: map[string]*ast.ValueSpec{}, cidx: map[string]int{},
		types: map[string]ast.Expr{}, structs: map[string]*ast.StructType{}, funcs: map[string]*ast.FuncDecl{},
		vars: map[string]*ast.ValueSpec{}}
	names, _ := filepath.Glob(filepath.Join(dir, "*.go"))
	sort.Strings(names)
	for _, n := range names {
		if strings.HasSuffix(n, "_test.go") || strings.HasPrefix(filepath.Base(n), "verif_") {
			continue
		}
		f, err := parser.ParseFile(p.fset, n, nil, 0)
		if err != nil {
			die("parse %s: %v", n, err)
		}
		if f.Name.Name != "astits" {
			continue
		}
		for _, im := range f.Imports {
			if im.Name != nil {
				p.imports[im.Name.Name] = true
			} else if path, err := strconv.Unquote(im.Path.Value); err == nil {
				p.imports[path[strings.LastIndex(path, "/")+1:]] = true
			}
		}
		for _, d := range f.Decls {
			switch d := d.(type) {
			case *ast.GenDecl:
				for _, s := range d.Specs {
					switch s := s.(type) {
					case *ast.ValueSpec:
						for i, id := range s.Names {
							if d.Tok == token.CONST {
								p.consts[id.Name] = s
								p.cidx[id.Name] = i
							} else {
								p.vars[id.Name] = s
							}
						}
					case *ast.TypeSpec:
						if st, ok := s.Type.(*ast.StructType); ok {
							p.structs[s.Name.Name] = st
							p.sorder = append(p.sorder, s.Name.Name)
						} else {
							p.types[s.Name.Name] = s.Type
						}
					}
				}
			case *ast.FuncDecl:
				name := d.Name.Name
				if d.Recv != nil && len(d.Recv.List) == 1 {
					name = recvName(d.Recv.List[0].Type) + "." + name
				}
				p.funcs[name] = d
			}
		}
	}
	return p
}

func recvName(e ast.Expr) string {
	switch e := e.(type) {
	case *ast.StarExpr:
		return recvName(e.X)
	case *ast.Ident:
		return e.Name
	}
	return "?"
}

// ---------- constants ----------

func (p *pkg) constVal(name string, seen map[string]bool) (*big.Int, bool) {
	s, ok := p.consts[name]
	if !ok || seen[name] {
		return nil, false
	}
	seen[name] = true
	defer delete(seen, name)
	i := p.cidx[name]
	if i >= len(s.Values) {
		return nil, false
	}
	return p.evalConst(s.Values[i], seen)
}

func (p *pkg) evalConst(e ast.Expr, seen map[string]bool) (*big.Int, bool) {
	switch e := e.(type) {
	case *ast.BasicLit:
		switch e.Kind {
		case token.INT:
			v, ok := new(big.Int).SetString(strings.ReplaceAll(e.Value, "_", ""), 0)
			return v, ok
		case token.CHAR:
			r, _, _, err := strconv.UnquoteChar(e.Value[1:len(e.Value)-1], '\'')
			if err != nil {
				return nil, false
			}
			return big.NewInt(int64(r)), true
		case token.FLOAT:
			// only integral floats such as 1e9
			f, _, err := big.ParseFloat(e.Value, 0, 200, big.ToNearestEven)
			if err != nil || !f.IsInt() {
				return nil, false
			}
			v, _ := f.Int(nil)
			return v, true
		}
	case *ast.Ident:
		return p.constVal(e.Name, seen)
	case *ast.ParenExpr:
		return p.evalConst(e.X, seen)
	case *ast.CallExpr: // conversion
		if len(e.Args) == 1 {
			if id, ok := e.Fun.(*ast.Ident); ok {
				if w, _, isInt := p.intType(id.Name); isInt {
					v, ok := p.evalConst(e.Args[0], seen)
					if !ok {
						return nil, false
					}
					if w > 0 {
						m := new(big.Int).Lsh(big.NewInt(1), uint(w))
						v = new(big.Int).Mod(v, m)
					}
					return v, true
				}
			}
		}
	case *ast.UnaryExpr:
		v, ok := p.evalConst(e.X, seen)
		if !ok {
			return nil, false
		}
		if e.Op == token.SUB {
			return new(big.Int).Neg(v), true
		}
		if e.Op == token.ADD {
			return v, true
		}
	case *ast.BinaryExpr:
		a, ok1 := p.evalConst(e.X, seen)
		b, ok2 := p.evalConst(e.Y, seen)
		if !ok1 || !ok2 {
			return nil, false
		}
		switch e.Op {
		case token.ADD:
			return new(big.Int).Add(a, b), true
		case token.SUB:
			return new(big.Int).Sub(a, b), true
		case token.MUL:
			return new(big.Int).Mul(a, b), true
		case token.QUO:
			if b.Sign() == 0 {
				return nil, false
			}
			return new(big.Int).Quo(a, b), true
		case token.SHL:
			return new(big.Int).Lsh(a, uint(b.Int64())), true
		case token.SHR:
			return new(big.Int).Rsh(a, uint(b.Int64())), true
		case token.OR:
			return new(big.Int).Or(a, b), true
		case token.AND:
			return new(big.Int).And(a, b), true
		case token.XOR:
			return new(big.Int).Xor(a, b), true
		}
	}
	return nil, false
}

// intType reports, for a type name, its width in bits when unsigned (0 when it
// is a signed/unbounded integer modelled without wrap) and whether it is an
// integer type at all.
func (p *pkg) intType(name string) (width int, signed bool, ok bool) {
	switch name {
	case "uint8", "byte":
		return 8, false, true
	case "uint16":
		return 16, false, true
	case "uint32":
		return 32, false, true
	case "uint64", "uint":
		return 64, false, true
	case "int", "int64", "int32", "int16", "int8", "rune":
		return 0, true, true
	}
	if u, ok := p.types[name]; ok {
		if id, ok := u.(*ast.Ident); ok {
			return p.intType(id.Name)
		}
	}
	return 0, false, false
}

func coqZ(v *big.Int) string {
	if v.Sign() < 0 {
		return "(" + v.String() + ")"
	}
	return v.String()
}

func (p *pkg) emitConsts() string {
	var names []string
	for n := range p.consts {
		names = append(names, n)
	}
	sort.Strings(names)
	var b strings.Builder
	b.WriteString("(* Generated from /repo by go/gen on every run. Do not edit. *)\nFrom Coq Require Import ZArith.\nOpen Scope Z_scope.\n\n")
	for _, n := range names {
		if v, ok := p.constVal(n, map[string]bool{}); ok {
			fmt.Fprintf(&b, "Definition C_%s : Z := %s.\n", n, coqZ(v))
		}
	}
	// composite literals of wrapping counters: newWrappingCounter(<const>) call sites
	return b.String()
}

// ---------- CRC table ----------

func (p *pkg) emitCrcTable() string {
	s, ok := p.vars["tableCRC32"]
	if !ok || len(s.Values) != 1 {
		die("tableCRC32 not found")
	}
	cl, ok := s.Values[0].(*ast.CompositeLit)
	if !ok {
		die("tableCRC32 is not a composite literal")
	}
	at, ok := cl.Type.(*ast.ArrayType)
	if !ok {
		die("tableCRC32 is not an array")
	}
	if id, ok := at.Elt.(*ast.Ident); !ok || id.Name != "uint32" {
		die("tableCRC32 element type is not uint32")
	}
	var b strings.Builder
	b.WriteString("(* Generated from /repo/crc32_table.go by go/gen on every run. Do not edit. *)\nFrom Coq Require Import ZArith List.\nImport ListNotations.\nOpen Scope Z_scope.\n\nDefinition tableCRC32 : list Z := [\n")
	for i, e := range cl.Elts {
		if _, isKV := e.(*ast.KeyValueExpr); isKV {
			die("tableCRC32 uses keyed elements")
		}
		v, ok := p.evalConst(e, map[string]bool{})
		if !ok {
			die("tableCRC32 entry %d is not a constant", i)
		}
		v = new(big.Int).Mod(v, new(big.Int).Lsh(big.NewInt(1), 32))
		sep := ";"
		if i == len(cl.Elts)-1 {
			sep = ""
		}
		fmt.Fprintf(&b, "  %s%s\n", v.String(), sep)
	}
	b.WriteString("].\n")
	return b.String()
}

func writeIfChanged(path, content string) {
	old, err := os.ReadFile(path)
	if err == nil && string(old) == content {
		return
	}
	if err := os.WriteFile(path, []byte(content), 0o644); err != nil {
		die("write %s: %v", path, err)
	}
}

func main() {
	if len(os.Args) != 3 {
		die("usage: gen <repo dir> <out dir>")
	}
	p := load(os.Args[1])
	out := os.Args[2]
	writeIfChanged(filepath.Join(out, "Consts.v"), p.emitConsts())
	writeIfChanged(filepath.Join(out, "CrcTable.v"), p.emitCrcTable())
	writeIfChanged(filepath.Join(out, "Types.v"), p.emitTypes())
	writeIfChanged(filepath.Join(out, "Preds.v"), p.emitPreds())
	writeIfChanged(filepath.Join(out, "PoolGen.v"), p.emitStateful())
	writeIfChanged(filepath.Join(out, "MuxGen.v"), p.emitMuxGen())
	writeIfChanged(filepath.Join(out, "ParseGen.v"), p.emitParseGen())
	writeIfChanged(filepath.Join(out, "DemuxGen.v"), p.raw.emitDemuxGen())
	writeIfChanged(filepath.Join(out, "PsiGen.v"), p.emitPsiGen())
	writeIfChanged(filepath.Join(out, "Alias.v"), p.emitAlias()+p.emitGlobals())
	writeIfChanged(filepath.Join(out, "WriteGen.v"), p.emitWriteGen())
	writeIfChanged(filepath.Join(out, "PsiWriteGen.v"), p.emitPsiWriteGen())
	writeIfChanged(filepath.Join(out, "RestGen.v"), p.emitRestGen())
	writeIfChanged(filepath.Join(out, "RestData.v"), p.emitRestData())
	writeIfChanged(filepath.Join(out, "RestDesc.v"), p.emitRestDesc())
}
