package main

// Gen/RestGen.v: the small functions of /repo that the other translators leave out.
//
//   * program_map.go (newProgramMap, existsUnlocked, setUnlocked, unsetUnlocked, toPATDataUnlocked): the
//     map[uint32]uint16 is an abstract type with its operations as Section variables (map_make, map_get, map_set,
//     map_delete, map_len, map_range: the entries in the order the runtime happens to enumerate them); a method that
//     writes the map returns the receiver with the new map (a Go map is a reference: every holder of the programMap
//     sees the write, which is why the Demuxer and its packet pool share one); the mutex is outside the models;
//   * clock_reference.go (Duration, Time) with every int64 / time.Duration operation under an explicit two's
//     complement wrap (sint_wrap 64), so that "no intermediate overflows for a 33-bit base" is a statement about the
//     regenerated expression; time.Time is the pair of arguments handed to time.Unix;
//   * straight-line leftovers in the grammar of preds.go (calcPESDataLength, StreamType.IsVideo / IsAudio,
//     DescriptorParentalRatingItem.MinimumAge, calcPMTProgramInfoLength, calcDescriptorUserDefinedLength,
//     calcDescriptorExtensionLength). A slice compared with nil gets a companion boolean parameter <name>_nil_
//     (lists do not tell a nil slice from an empty one; the equality lemmas assume <name>_nil_ = true -> the list is
//     empty, which is what Go guarantees).
//
// The functions are translated by the statement / expression translator of preds.go (tr), extended through
// trTypeHook / trExprHook / trStmtHook with the idioms above. Whatever leaves the grammar raises a genError: the
// function is replaced by a NOT TRANSLATED comment, "gen: not translated:" goes to stderr, Proofs/RestGen*.v stop
// compiling and the check reports the broken lemma.

import (
	"fmt"
	"go/ast"
	"go/token"
	"os"
	"sort"
	"strings"
)

type restState struct {
	signed  bool            // int / int64 / time.Duration arithmetic wraps explicitly
	pm      bool            // programMap is a record around the abstract map
	nilPar  map[string]bool // slice parameters of the current function that are compared with nil
	mapUsed map[string]bool
}

var rest *restState

var tyRestMap = &ty{k: "opaque", name: "map_uint32_uint16"}
var tyRestTime = &ty{k: "opaque", name: "time_Time"}

func restS64() *ty { return &ty{k: "int", sw: 64} }

func restTypeHook(t *tr, e ast.Expr) *ty {
	switch e := e.(type) {
	case *ast.MapType:
		k, ok1 := e.Key.(*ast.Ident)
		v, ok2 := e.Value.(*ast.Ident)
		if ok1 && ok2 && k.Name == "uint32" && v.Name == "uint16" {
			return tyRestMap
		}
		t.fail(e, "unsupported map type")
	case *ast.Ident:
		if rest.signed && (e.Name == "int64" || e.Name == "int") {
			return restS64()
		}
	case *ast.SelectorExpr:
		if x, ok := e.X.(*ast.Ident); ok && x.Name == "time" {
			switch e.Sel.Name {
			case "Duration":
				if rest.signed {
					return restS64()
				}
			case "Time":
				return tyRestTime
			}
		}
	}
	return nil
}

func isTimeSel(e ast.Expr, name string) bool {
	s, ok := e.(*ast.SelectorExpr)
	return ok && isIdent(s.X, "time") && s.Sel.Name == name
}

func restExprHook(t *tr, e ast.Expr) (string, *ty, bool) {
	switch e := e.(type) {
	case *ast.BinaryExpr:
		// slice parameter compared with nil: the companion boolean
		if (e.Op == token.EQL || e.Op == token.NEQ) && isIdent(e.Y, "nil") {
			if id, ok := e.X.(*ast.Ident); ok && rest.nilPar[id.Name] {
				s := cname(id.Name) + "_nil_"
				if e.Op == token.NEQ {
					s = "(negb " + s + ")"
				}
				return s, tBool, true
			}
			if _, isId := e.X.(*ast.Ident); !isId {
				// a pointer field compared with nil
				xs, xt := t.expr(e.X)
				if xt.k == "opt" {
					s := "(match " + xs + " with Some _ => true | None => false end)"
					if e.Op == token.EQL {
						s = "(negb " + s + ")"
					}
					return s, tBool, true
				}
			}
		}
	case *ast.StarExpr:
		// *x of a pointer to a slice: only under `if x != nil` (checked by restDerefsGuarded before the translation)
		xs, xt := t.expr(e.X)
		if xt.k == "opt" && xt.elem.k == "bytes" {
			return "(match " + xs + " with Some v_ => v_ | None => [] end)", tBytes, true
		}
	case *ast.CallExpr:
		switch f := e.Fun.(type) {
		case *ast.Ident:
			switch f.Name {
			case "make":
				if len(e.Args) == 1 {
					if _, ok := e.Args[0].(*ast.MapType); ok {
						t.goType(e.Args[0])
						rest.mapUsed["map_make"] = true
						return "map_make", tyRestMap, true
					}
				}
				if len(e.Args) == 3 {
					// make([]T, 0, len(x)): the empty slice; a capacity that is a length cannot be negative
					at, ok := e.Args[0].(*ast.ArrayType)
					lit, ok2 := e.Args[1].(*ast.BasicLit)
					c, ok3 := e.Args[2].(*ast.CallExpr)
					if ok && at.Len == nil && ok2 && lit.Value == "0" && ok3 && isIdent(c.Fun, "len") && len(c.Args) == 1 {
						t.expr(c.Args[0])
						lt := t.goType(at)
						if lt.k != "list" {
							t.fail(e, "make of a byte slice")
						}
						return "(@nil " + lt.elem.coq() + ")", lt, true
					}
				}
				t.fail(e, "unsupported make")
			case "len":
				if len(e.Args) == 1 {
					s, st := t.expr(e.Args[0])
					if st == tyRestMap {
						rest.mapUsed["map_len"] = true
						return "(map_len " + s + ")", tInt, true
					}
				}
			case "append":
				if len(e.Args) != 2 || e.Ellipsis.IsValid() {
					t.fail(e, "append with other than one element")
				}
				xs, xt := t.expr(e.Args[0])
				if xt.k != "list" {
					t.fail(e, "append to a non-list")
				}
				vs, vt := t.expr(e.Args[1])
				return "(" + xs + " ++ [" + t.coerce(vs, vt, xt.elem, e) + "])", xt, true
			case "int", "int64":
				if rest.signed && len(e.Args) == 1 {
					s, st := t.expr(e.Args[0])
					if st.k != "int" && st.k != "untyped" {
						t.fail(e, "conversion of a non-integer")
					}
					if st.k == "int" && (st.sw > 0 || (st.w > 0 && st.w < 64)) {
						return s, restS64(), true
					}
					return wrap(s, restS64()), restS64(), true
				}
			}
		case *ast.SelectorExpr:
			if isTimeSel(f, "Duration") && rest.signed && len(e.Args) == 1 {
				s, st := t.expr(e.Args[0])
				if st.k == "int" && st.sw == 64 {
					return s, restS64(), true
				}
				return wrap(s, restS64()), restS64(), true
			}
			if isTimeSel(f, "Unix") && len(e.Args) == 2 {
				a, _ := t.expr(e.Args[0])
				b, bt := t.expr(e.Args[1])
				if bt.k != "int" {
					t.fail(e, "time.Unix of a non-integer")
				}
				return "(" + a + ", " + b + ")", tyRestTime, true
			}
			if f.Sel.Name == "Nanoseconds" && len(e.Args) == 0 && rest.signed {
				s, st := t.expr(f.X)
				if st.k == "int" && st.sw == 64 {
					return s, restS64(), true // Duration.Nanoseconds() is int64(d)
				}
			}
		}
	case *ast.IndexExpr:
		xs, xt := t.expr(e.X)
		if xt == tyRestMap {
			// m[k] of a missing key is the zero value
			ks := restKey(t, e.Index)
			rest.mapUsed["map_get"] = true
			return "(match map_get " + xs + " " + ks + " with Some v_ => v_ | None => 0 end)", &ty{k: "int", w: 16}, true
		}
	}
	return "", nil, false
}

// restKey translates a key expression of the map[uint32]uint16.
func restKey(t *tr, e ast.Expr) string {
	s, st := t.expr(e)
	if st.k == "untyped" {
		return wrap(s, &ty{k: "int", w: 32})
	}
	if st.k != "int" || st.w != 32 {
		t.fail(e, "map key is not a uint32")
	}
	return s
}

func restStmtHook(t *tr, list []ast.Stmt, k func() string) (string, bool) {
	restOf := func() string { return t.stmts(list[1:], k) }
	switch s := list[0].(type) {
	case *ast.AssignStmt:
		// _, ok = m[k]
		if len(s.Lhs) == 2 && len(s.Rhs) == 1 && isIdent(s.Lhs[0], "_") {
			ix, ok := s.Rhs[0].(*ast.IndexExpr)
			okv, ok2 := s.Lhs[1].(*ast.Ident)
			if ok && ok2 {
				xs, xt := t.expr(ix.X)
				if xt == tyRestMap {
					ks := restKey(t, ix.Index)
					rest.mapUsed["map_get"] = true
					t.bind(okv.Name, tBool, okv.Pos())
					return "let " + cname(okv.Name) + " := (match map_get " + xs + " " + ks + " with Some _ => true | None => false end) in\n  " + restOf(), true
				}
			}
		}
		// m[k] = v
		if len(s.Lhs) == 1 && len(s.Rhs) == 1 && s.Tok == token.ASSIGN {
			if ix, ok := s.Lhs[0].(*ast.IndexExpr); ok {
				xs, xt := t.expr(ix.X)
				if xt == tyRestMap {
					ks := restKey(t, ix.Index)
					vs, vt := t.expr(s.Rhs[0])
					if vt.k == "untyped" {
						vs = wrap(vs, &ty{k: "int", w: 16})
					} else if vt.k != "int" || vt.w != 16 {
						t.fail(s, "map value is not a uint16")
					}
					rest.mapUsed["map_set"] = true
					return t.assign(ix.X, token.ASSIGN, "(map_set "+xs+" "+ks+" "+vs+")", tyRestMap, s) + restOf(), true
				}
			}
		}
	case *ast.ExprStmt:
		// delete(m, k)
		if c, ok := s.X.(*ast.CallExpr); ok && isIdent(c.Fun, "delete") && len(c.Args) == 2 {
			xs, xt := t.expr(c.Args[0])
			if xt != tyRestMap {
				t.fail(s, "delete on something else than the map")
			}
			ks := restKey(t, c.Args[1])
			rest.mapUsed["map_delete"] = true
			return t.assign(c.Args[0], token.ASSIGN, "(map_delete "+xs+" "+ks+")", tyRestMap, s) + restOf(), true
		}
	case *ast.RangeStmt:
		xs, xt := t.expr(s.X)
		if xt == tyRestMap {
			return restMapRange(t, s, xs) + restOf(), true
		}
	}
	return "", false
}

// restMapRange translates `for k, v := range m { body }` (body only assigns outer locals) as a fold_left over
// map_range m, the entries in the order the runtime enumerates them.
func restMapRange(t *tr, s *ast.RangeStmt, xs string) string {
	kid, ok1 := s.Key.(*ast.Ident)
	vid, ok2 := s.Value.(*ast.Ident)
	if !ok1 || !ok2 || s.Tok != token.DEFINE {
		t.fail(s, "range over the map without key and value variables")
	}
	if hasReturn(s.Body.List) {
		t.fail(s, "return inside loop")
	}
	ast.Inspect(s.Body, func(n ast.Node) bool {
		if b, ok := n.(*ast.BranchStmt); ok {
			t.fail(b, "break/continue inside loop")
		}
		return true
	})
	set := map[string]bool{}
	t.assigned(s.Body.List, set)
	var acc []string
	for v := range set {
		if _, ok := t.env[v]; ok {
			acc = append(acc, v)
		}
	}
	t.sortDecl(acc)
	if len(acc) == 0 {
		return ""
	}
	bound := map[string]bool{kid.Name: true, vid.Name: true}
	for _, a := range acc {
		bound[a] = true
	}
	closure := t.freeVars(s.Body, bound)
	t.nloop++
	name := fmt.Sprintf("%s_loop%d", strings.ReplaceAll(t.fn, ".", "_"), t.nloop)
	saved := t.copyEnv()
	t.bind(kid.Name, &ty{k: "int", w: 32}, kid.Pos())
	t.bind(vid.Name, &ty{k: "int", w: 16}, vid.Pos())
	body := t.stmts(s.Body.List, func() string { return tuple(acc) })
	var params, cargs, accTy []string
	for _, c := range closure {
		params = append(params, fmt.Sprintf("(%s : %s)", cname(c), saved[c].coq()))
		cargs = append(cargs, cname(c))
	}
	for _, a := range acc {
		accTy = append(accTy, saved[a].coq())
	}
	accT := strings.Join(accTy, " * ")
	def := fmt.Sprintf("Definition %s %s (acc_ : %s) (e_ : Z * Z) : %s :=\n  let %s := acc_ in\n  let '(%s, %s) := e_ in\n  %s.\n\n",
		name, strings.Join(params, " "), accT, accT, tuplePat(acc), cname(kid.Name), cname(vid.Name), body)
	*t.loops = append(*t.loops, def)
	t.env = saved
	call := name
	if len(cargs) > 0 {
		call = "(" + name + " " + strings.Join(cargs, " ") + ")"
	}
	rest.mapUsed["map_range"] = true
	return "let " + tuplePat(acc) + " := fold_left " + call + " (map_range " + xs + ") " + tuple(acc) + " in\n  "
}

// sliceNilParams lists the slice parameters the body compares with nil.
func (t *tr) sliceNilParams(d *ast.FuncDecl) map[string]bool {
	out := map[string]bool{}
	for _, f := range d.Type.Params.List {
		if _, ok := f.Type.(*ast.ArrayType); !ok {
			continue
		}
		for _, id := range f.Names {
			if usesNil(d.Body, id.Name) {
				out[id.Name] = true
			}
		}
	}
	return out
}

// restDerefsGuarded refuses a function in which a dereference *E is not inside the body of an `if E != nil`.
func (t *tr) restDerefsGuarded(d *ast.FuncDecl) {
	var walk func(n ast.Node, nonNil map[string]bool)
	walk = func(n ast.Node, nonNil map[string]bool) {
		ast.Inspect(n, func(x ast.Node) bool {
			switch x := x.(type) {
			case *ast.IfStmt:
				if b, ok := x.Cond.(*ast.BinaryExpr); ok && b.Op == token.NEQ && isIdent(b.Y, "nil") && x.Init == nil {
					inner := map[string]bool{gsrc(b.X): true}
					for k := range nonNil {
						inner[k] = true
					}
					walk(x.Body, inner)
					if x.Else != nil {
						walk(x.Else, nonNil)
					}
					return false
				}
			case *ast.ArrayType, *ast.MapType, *ast.FuncType:
				return false // a type, not a dereference
			case *ast.StarExpr:
				if !nonNil[gsrc(x.X)] {
					t.fail(x, "dereference outside `if %s != nil`", gsrc(x.X))
				}
			}
			return true
		})
	}
	walk(d.Body, map[string]bool{})
}

// restFunction translates one declaration with tr. A function without results returns the final value of its
// receiver (a method that writes the map the receiver holds).
func (p *pkg) restFunction(key string) string {
	d, ok := p.funcs[key]
	if !ok {
		panic(genError{fmt.Sprintf("function %s not found in /repo", key)})
	}
	var loops []string
	t := &tr{p: p, fn: key, env: map[string]*ty{}, optPar: map[string]bool{}, loops: &loops}
	rest.nilPar = t.sliceNilParams(d)
	t.restDerefsGuarded(d)
	var params []string
	var sig []*ty
	addParam := func(name string, te ast.Expr, pos token.Pos) {
		typ := t.goType(te)
		if typ.k == "opt" && !usesNil(d.Body, name) {
			typ = typ.elem
		}
		t.bind(name, typ, pos)
		sig = append(sig, typ)
		params = append(params, fmt.Sprintf("(%s : %s)", cname(name), typ.coq()))
		if rest.nilPar[name] {
			params = append(params, fmt.Sprintf("(%s_nil_ : bool)", cname(name)))
		}
	}
	recvVar := ""
	if d.Recv != nil {
		f := d.Recv.List[0]
		if len(f.Names) != 1 {
			t.fail(d, "unnamed receiver")
		}
		recvVar = f.Names[0].Name
		addParam(recvVar, f.Type, f.Pos())
	}
	for _, f := range d.Type.Params.List {
		for _, id := range f.Names {
			addParam(id.Name, f.Type, id.Pos())
		}
	}
	pre := ""
	var resTy []*ty
	if d.Type.Results != nil {
		for _, f := range d.Type.Results.List {
			typ := t.goType(f.Type)
			if typ.k == "opt" {
				typ = typ.elem
			}
			if len(f.Names) == 0 {
				resTy = append(resTy, typ)
			}
			for _, id := range f.Names {
				resTy = append(resTy, typ)
				t.results = append(t.results, id.Name)
				t.bind(id.Name, typ, id.Pos())
				pre += "let " + cname(id.Name) + " := " + typ.zero() + " in\n  "
			}
		}
	}
	t.resTy = resTy
	// nil guards on optional (pointer) parameters: if x == nil { return v }
	body := d.Body.List
	guards := ""
	nguards := 0
	for len(body) > 0 {
		is, ok := body[0].(*ast.IfStmt)
		if !ok || is.Else != nil || is.Init != nil || len(is.Body.List) != 1 {
			break
		}
		b, ok := is.Cond.(*ast.BinaryExpr)
		if !ok || b.Op != token.EQL || !isIdent(b.Y, "nil") {
			break
		}
		x, ok := b.X.(*ast.Ident)
		if !ok || t.env[x.Name] == nil || t.env[x.Name].k != "opt" {
			break
		}
		rs, ok := is.Body.List[0].(*ast.ReturnStmt)
		if !ok {
			break
		}
		inner := t.env[x.Name].elem
		guards += "match " + cname(x.Name) + " with None => " + t.ret(rs) + " | Some " + cname(x.Name) + " =>\n  "
		t.env[x.Name] = inner // below the guard the variable is the record
		nguards++
		body = body[1:]
	}
	var expr, rt string
	if len(resTy) == 0 {
		if recvVar == "" {
			t.fail(d, "function without results and without receiver")
		}
		if hasReturn(body) {
			t.fail(d, "return in a function without results")
		}
		expr = t.stmts(body, func() string { return cname(recvVar) })
		rt = sig[0].coq()
	} else {
		expr = t.stmts(body, func() string {
			if len(t.results) == 0 {
				t.fail(d, "function falls off its end without named results")
			}
			return tuple(t.results)
		})
		var rts []string
		for _, r := range resTy {
			rts = append(rts, r.coq())
		}
		rt = strings.Join(rts, " * ")
		translated[key] = true
		funcSig[key] = sig
		if len(resTy) == 1 {
			funcRes[key] = resTy[0]
		} else {
			funcRes[key] = &ty{k: "tuple"}
		}
	}
	expr = pre + guards + expr + strings.Repeat(" end", nguards)
	name := strings.ReplaceAll(key, ".", "_")
	return strings.Join(loops, "") + fmt.Sprintf("Definition %s %s : %s :=\n  %s.\n\n", name, strings.Join(params, " "), rt, expr)
}

type restEntry struct {
	key    string
	signed bool
}

const restGenHeader = `(* Generated from the CURRENT source of /repo (program_map.go, clock_reference.go and straight-line leftovers of
   data_pes.go, data_pmt.go, descriptor.go) by go/gen (restgen.go) on every run. Do not edit.
   program_map.go: the map[uint32]uint16 is an abstract type; its operations are the Section variables map_make
   (make), map_get (None = no entry), map_set, map_delete, map_len and map_range (the entries, in the order the
   runtime enumerates them: unspecified). A method that writes the map returns the receiver holding the new map (in
   Go the map is shared by reference: every holder of the programMap sees the write). The mutex is outside the models.
   clock_reference.go: every int64 / time.Duration operation is under sint_wrap 64 (two's complement wrap), so that
   "no intermediate overflows" is a statement about this expression; time.Time is the pair (sec, nsec) handed to
   time.Unix. A slice parameter x that the source compares with nil has a companion x_nil_ : bool.
   Proofs/RestGenEq.v proves the hand models equal to / refined by these definitions. *)
From Coq Require Import ZArith List Bool.
Require Import Gen.Consts Gen.Types Gen.Preds.
Import ListNotations.
Open Scope Z_scope.

(* an intN value after an operation: the mathematical result reduced to [-2^(n-1), 2^(n-1)) *)
Definition sint_wrap (n : Z) (z : Z) : Z := (z + 2 ^ (n - 1)) mod 2 ^ n - 2 ^ (n - 1).

`

var restProgramMap = []string{"newProgramMap", "programMap.existsUnlocked", "programMap.setUnlocked", "programMap.unsetUnlocked", "programMap.toPATDataUnlocked"}

var restPlain = []restEntry{
	{"ClockReference.Duration", true},
	{"ClockReference.Time", true},
	{"calcPESDataLength", false},
	{"StreamType.IsVideo", false},
	{"StreamType.IsAudio", false},
	{"DescriptorParentalRatingItem.MinimumAge", false},
	{"calcDescriptorUserDefinedLength", false},
	{"calcDescriptorExtensionLength", false},
}

func (p *pkg) emitRestGen() string {
	rest = &restState{mapUsed: map[string]bool{}}
	opaqueTypes["map_uint32_uint16"] = "map_uint32_uint16"
	opaqueTypes["time_Time"] = "(Z * Z)"
	trTypeHook, trExprHook, trStmtHook = restTypeHook, restExprHook, restStmtHook
	defer func() {
		trTypeHook, trExprHook, trStmtHook = nil, nil, nil
		delete(emittedStructs, "programMap")
		rest = nil
	}()
	var b strings.Builder
	b.WriteString(restGenHeader)
	isolate := func(what string, f func() string) {
		defer func() {
			if r := recover(); r != nil {
				ge, ok := r.(genError)
				if !ok {
					panic(r)
				}
				fmt.Fprintf(os.Stderr, "gen: not translated: %s\n", ge.msg)
				fmt.Fprintf(&b, "(* NOT TRANSLATED (%s left the translator's grammar): %s *)\n\n", what, strings.ReplaceAll(strings.ReplaceAll(ge.msg, "*)", "* )"), "(*", "( *"))
			}
		}()
		b.WriteString(f())
	}
	// ---- program_map.go ----
	b.WriteString("(* ---- program_map.go ---- *)\nSection ProgramMap.\nContext {map_uint32_uint16 : Type}.\nVariable map_make : map_uint32_uint16.\nVariable map_get : map_uint32_uint16 -> Z -> option Z.\nVariable map_set : map_uint32_uint16 -> Z -> Z -> map_uint32_uint16.\nVariable map_delete : map_uint32_uint16 -> Z -> map_uint32_uint16.\nVariable map_len : map_uint32_uint16 -> Z.\nVariable map_range : map_uint32_uint16 -> list (Z * Z).\n\n")
	isolate("type programMap", func() string {
		st, ok := p.structs["programMap"]
		if !ok {
			panic(genError{"struct programMap not found in /repo"})
		}
		t := &tr{p: p, fn: "type programMap", env: map[string]*ty{}}
		if len(st.Fields.List) != 1 || len(st.Fields.List[0].Names) != 1 || st.Fields.List[0].Names[0].Name != "p" || t.goType(st.Fields.List[0].Type) != tyRestMap {
			panic(genError{"type programMap: expected the single field p map[uint32]uint16"})
		}
		emittedStructs["programMap"] = true
		return "Record programMap := mk_programMap { programMap_p : map_uint32_uint16 }.\n\n"
	})
	if emittedStructs["programMap"] {
		saved := opaqueTypes["programMap"]
		delete(opaqueTypes, "programMap")
		for _, key := range restProgramMap {
			key := key
			isolate(key, func() string { return p.restFunction(key) })
		}
		opaqueTypes["programMap"] = saved
	}
	b.WriteString("End ProgramMap.\n\n")
	// ---- the rest ----
	b.WriteString("(* ---- clock_reference.go, data_pes.go, data_pmt.go, descriptor.go ---- *)\n")
	for _, e := range restPlain {
		e := e
		rest.signed = e.signed
		isolate(e.key, func() string { return p.restFunction(e.key) })
	}
	rest.signed = false
	isolate("NewDemuxer", func() string { return p.restNewDemuxer() })
	return b.String()
}

// ---------- Gen/RestData.v: PSIData.toData through the control-flow translator of demuxgen.go ----------

const restDataHeader = `(* Generated from the CURRENT source of /repo/data_psi.go by go/gen (restgen.go, with the statement translator of
   demuxgen.go) on every run. Do not edit.
   PSIData.toData in the outcome monad of Gen/DemuxGen.v: Done v, or Panicked where the Go code would dereference nil
   (a section that has syntax data but no header). W is the world (nothing here reads or changes it).
   Proofs/RestGenData.v proves psi_to_data of Model/Psi.v equal to it. *)
From Coq Require Import ZArith List Bool String.
Require Import Base.Iter Gen.Consts Gen.Types Gen.Preds Gen.DemuxGen.
Import ListNotations.
Open Scope Z_scope.

`

func (p *pkg) emitRestData() string {
	var b strings.Builder
	b.WriteString(restDataHeader)
	p.emitGSections(&b, []gsection{{name: "ToData", entries: []string{"PSIData.toData"}}})
	return b.String()
}

// ---------- NewDemuxer and the DemuxerOpt* options (Section NewDemuxer of Gen/RestGen.v) ----------
//
// Grammar (anything else is a genError):
//   type Demuxer struct: fields of type pkg.T (abstract type pkg_T), a named func type F (option F: a func value may be
//     nil), *S (option S_t, S_t abstract), int, []*T for a struct T of Gen/Types.v;
//   an option: func X(a T) func(*Demuxer) { return func(d *Demuxer) { d.f = e } } with e the parameter or one call of a
//     function outside the package applied to it;
//   NewDemuxer: `d = &Demuxer{f: e, ...}`, then assignments `d.f = g(d.h)`, then `for _, opt := range opts { opt(d) }`,
//     then `return`; e is a parameter or a call f() / f(nil) / f(x) of a function, which becomes a Section variable
//     typed from the field it is stored in (nothing is assumed about it: newPacketPool may return nil as far as the
//     translation is concerned).

type ndField struct {
	name, coq string
	opt       bool // the Coq type is an option
}

type ndGen struct {
	p      *pkg
	t      *tr
	types  []string        // abstract types, in order of first use
	seen   map[string]bool // abstract types / variables declared
	vars   []string        // Section variables (external functions)
	fields []ndField
	fidx   map[string]int
	argT   map[string]string // declared parameter type of each Section variable
}

func (g *ndGen) abs(name string) string {
	if !g.seen[name] {
		g.seen[name] = true
		g.types = append(g.types, name)
	}
	return name
}

// typ maps a Go type to its Coq type; opt reports a nil-able value (option).
func (g *ndGen) typ(e ast.Expr) (string, bool) {
	switch e := e.(type) {
	case *ast.SelectorExpr:
		if x, ok := e.X.(*ast.Ident); ok {
			return g.abs(x.Name + "_" + e.Sel.Name), false
		}
	case *ast.StarExpr:
		if id, ok := e.X.(*ast.Ident); ok {
			if _, ok := g.p.structs[id.Name]; ok {
				return "(option " + g.abs(id.Name+"_t") + ")", true
			}
		}
	case *ast.Ident:
		if u, ok := g.p.types[e.Name]; ok {
			if _, ok := u.(*ast.FuncType); ok {
				return "(option " + g.abs(e.Name) + ")", true
			}
		}
		if e.Name == "int" {
			return "Z", false
		}
	case *ast.ArrayType:
		lt := g.t.goType(e)
		if lt.k == "list" && lt.elem.k == "struct" {
			return lt.coq(), false
		}
	}
	g.t.fail(e, "NewDemuxer: unsupported type")
	return "", false
}

func (g *ndGen) zero(f ndField, n ast.Node) string {
	switch {
	case f.opt:
		return "None"
	case f.coq == "Z":
		return "0"
	case strings.HasPrefix(f.coq, "(list "):
		return "[]"
	}
	g.t.fail(n, "NewDemuxer: field %s has no zero value in the model and is not set", f.name)
	return ""
}

// update renders d with field f replaced by v.
func (g *ndGen) update(d, f, v string) string {
	var fs []string
	for _, x := range g.fields {
		val := "(Demuxer_" + x.name + " " + d + ")"
		if x.name == f {
			val = v
		}
		fs = append(fs, "Demuxer_"+x.name+" := "+val)
	}
	return "{| " + strings.Join(fs, "; ") + " |}"
}

// value translates the right-hand side stored into field f: a parameter, or a call of a function (a Section variable).
func (g *ndGen) value(e ast.Expr, f ndField, params map[string]string, dvar string) string {
	switch e := e.(type) {
	case *ast.Ident:
		pt, ok := params[e.Name]
		if !ok {
			g.t.fail(e, "NewDemuxer: %s is not a parameter", e.Name)
		}
		if pt != f.coq {
			g.t.fail(e, "NewDemuxer: parameter %s : %s stored in a field of type %s", e.Name, pt, f.coq)
		}
		return cname(e.Name)
	case *ast.CallExpr:
		var fname string
		switch fn := e.Fun.(type) {
		case *ast.Ident:
			fname = fn.Name
		case *ast.SelectorExpr:
			if x, ok := fn.X.(*ast.Ident); ok {
				fname = x.Name + "_" + fn.Sel.Name
			}
		}
		if fname == "" || len(e.Args) > 1 {
			g.t.fail(e, "NewDemuxer: unsupported call")
		}
		argT, arg := "", ""
		if len(e.Args) == 1 {
			switch a := e.Args[0].(type) {
			case *ast.Ident:
				if a.Name == "nil" {
					// the callee's parameter type: from its declaration when it is a function of the package
					if d, ok := g.p.funcs[fname]; ok && len(d.Type.Params.List) == 1 {
						argT, _ = g.typ(d.Type.Params.List[0].Type)
					} else if at, ok := g.argT[fname]; ok && strings.HasPrefix(at, "(option ") {
						argT = at // an external function already applied to a value (the options are translated first)
					} else {
						g.t.fail(a, "NewDemuxer: nil handed to %s, whose parameter type is not known", fname)
					}
					arg = "None"
				} else if pt, ok := params[a.Name]; ok {
					argT, arg = "(option "+pt+")", "(Some "+cname(a.Name)+")"
					if strings.HasPrefix(pt, "(option ") {
						argT, arg = pt, cname(a.Name)
					}
				} else {
					g.t.fail(a, "NewDemuxer: unsupported argument")
				}
			case *ast.SelectorExpr:
				if !isIdent(a.X, dvar) {
					g.t.fail(a, "NewDemuxer: unsupported argument")
				}
				i, ok := g.fidx[a.Sel.Name]
				if !ok {
					g.t.fail(a, "NewDemuxer: unknown field %s", a.Sel.Name)
				}
				argT, arg = g.fields[i].coq, "(Demuxer_"+a.Sel.Name+" "+dvar+")"
			default:
				g.t.fail(a, "NewDemuxer: unsupported argument")
			}
		}
		typ := f.coq
		if argT != "" {
			typ = argT + " -> " + f.coq
		}
		decl := fmt.Sprintf("Variable %s : %s.\n", fname, typ)
		if !g.seen["var:"+fname] {
			g.seen["var:"+fname] = true
			g.argT[fname] = argT
			g.seen["decl:"+decl] = true
			g.vars = append(g.vars, decl)
		} else if !g.seen["decl:"+decl] {
			g.t.fail(e, "NewDemuxer: %s is used at two types", fname)
		}
		if arg == "" {
			return fname
		}
		return "(" + fname + " " + arg + ")"
	}
	g.t.fail(e, "NewDemuxer: unsupported value")
	return ""
}

func (p *pkg) restNewDemuxer() string {
	t := &tr{p: p, fn: "NewDemuxer", env: map[string]*ty{}}
	g := &ndGen{p: p, t: t, seen: map[string]bool{}, fidx: map[string]int{}, argT: map[string]string{}}
	st, ok := p.structs["Demuxer"]
	if !ok {
		panic(genError{"struct Demuxer not found in /repo"})
	}
	for _, f := range st.Fields.List {
		c, opt := g.typ(f.Type)
		for _, id := range f.Names {
			g.fidx[id.Name] = len(g.fields)
			g.fields = append(g.fields, ndField{id.Name, c, opt})
		}
	}
	isOptType := func(e ast.Expr) bool {
		ft, ok := e.(*ast.FuncType)
		if !ok || ft.Results != nil && len(ft.Results.List) > 0 || len(ft.Params.List) != 1 {
			return false
		}
		s, ok := ft.Params.List[0].Type.(*ast.StarExpr)
		return ok && isIdent(s.X, "Demuxer")
	}
	// the options, in source order
	type optDef struct {
		name, par, parT, body string
		pos                   token.Pos
	}
	var opts []optDef
	var optNames []string
	for name, d := range p.funcs {
		if d.Recv == nil && d.Type.Results != nil && len(d.Type.Results.List) == 1 && isOptType(d.Type.Results.List[0].Type) {
			optNames = append(optNames, name)
		}
	}
	sort.Slice(optNames, func(i, j int) bool { return p.funcs[optNames[i]].Pos() < p.funcs[optNames[j]].Pos() })
	for _, name := range optNames {
		d := p.funcs[name]
		t.fn = name
		if len(d.Type.Params.List) != 1 || len(d.Type.Params.List[0].Names) != 1 || len(d.Body.List) != 1 {
			t.fail(d, "option: expected one parameter and one statement")
		}
		par := d.Type.Params.List[0].Names[0].Name
		parT, _ := g.typ(d.Type.Params.List[0].Type)
		rs, ok := d.Body.List[0].(*ast.ReturnStmt)
		if !ok || len(rs.Results) != 1 {
			t.fail(d, "option: expected return func(d *Demuxer) {...}")
		}
		fl, ok := rs.Results[0].(*ast.FuncLit)
		if !ok || !isOptType(fl.Type) || len(fl.Type.Params.List[0].Names) != 1 || len(fl.Body.List) != 1 {
			t.fail(d, "option: expected a closure with one statement")
		}
		dv := fl.Type.Params.List[0].Names[0].Name
		as, ok := fl.Body.List[0].(*ast.AssignStmt)
		if !ok || as.Tok != token.ASSIGN || len(as.Lhs) != 1 || len(as.Rhs) != 1 {
			t.fail(fl, "option: expected d.f = e")
		}
		sel, ok := as.Lhs[0].(*ast.SelectorExpr)
		if !ok || !isIdent(sel.X, dv) {
			t.fail(as, "option: expected d.f = e")
		}
		i, ok := g.fidx[sel.Sel.Name]
		if !ok {
			t.fail(as, "option: unknown field %s", sel.Sel.Name)
		}
		v := g.value(as.Rhs[0], g.fields[i], map[string]string{par: parT}, dv)
		opts = append(opts, optDef{name, par, parT, g.update("d_", sel.Sel.Name, v), d.Pos()})
	}
	sort.Slice(opts, func(i, j int) bool { return opts[i].pos < opts[j].pos })
	if len(opts) == 0 {
		panic(genError{"NewDemuxer: no option found"})
	}
	// the constructor
	t.fn = "NewDemuxer"
	d, ok := p.funcs["NewDemuxer"]
	if !ok {
		panic(genError{"function NewDemuxer not found in /repo"})
	}
	params := map[string]string{}
	var pdecl []string
	optsVar := ""
	for _, f := range d.Type.Params.List {
		for _, id := range f.Names {
			if el, ok := f.Type.(*ast.Ellipsis); ok && isOptType(el.Elt) {
				optsVar = id.Name
				pdecl = append(pdecl, fmt.Sprintf("(%s : list DemuxerOpt)", cname(id.Name)))
				continue
			}
			c, _ := g.typ(f.Type)
			params[id.Name] = c
			pdecl = append(pdecl, fmt.Sprintf("(%s : %s)", cname(id.Name), c))
		}
	}
	if optsVar == "" || d.Type.Results == nil || len(d.Type.Results.List) != 1 || len(d.Type.Results.List[0].Names) != 1 {
		t.fail(d, "NewDemuxer: expected opts ...func(*Demuxer) and one named result")
	}
	dv := d.Type.Results.List[0].Names[0].Name
	body := d.Body.List
	if len(body) < 3 {
		t.fail(d, "NewDemuxer: unexpected body")
	}
	var out strings.Builder
	// d = &Demuxer{...}
	as, ok := body[0].(*ast.AssignStmt)
	if !ok || as.Tok != token.ASSIGN || len(as.Lhs) != 1 || !isIdent(as.Lhs[0], dv) || len(as.Rhs) != 1 {
		t.fail(body[0], "NewDemuxer: expected d = &Demuxer{...}")
	}
	ue, ok := as.Rhs[0].(*ast.UnaryExpr)
	if !ok || ue.Op != token.AND {
		t.fail(body[0], "NewDemuxer: expected d = &Demuxer{...}")
	}
	cl, ok := ue.X.(*ast.CompositeLit)
	if !ok || !isIdent(cl.Type, "Demuxer") {
		t.fail(body[0], "NewDemuxer: expected d = &Demuxer{...}")
	}
	vals := map[string]string{}
	for _, el := range cl.Elts {
		kv, ok := el.(*ast.KeyValueExpr)
		if !ok {
			t.fail(el, "NewDemuxer: unkeyed composite literal")
		}
		k := kv.Key.(*ast.Ident).Name
		i, ok := g.fidx[k]
		if !ok {
			t.fail(kv, "NewDemuxer: unknown field %s", k)
		}
		vals[k] = g.value(kv.Value, g.fields[i], params, "")
	}
	var fs []string
	for _, f := range g.fields {
		v, ok := vals[f.name]
		if !ok {
			v = g.zero(f, cl)
		}
		fs = append(fs, "Demuxer_"+f.name+" := "+v)
	}
	fmt.Fprintf(&out, "  let %s := {| %s |} in\n", cname(dv), strings.Join(fs, "; "))
	// d.f = g(d.h) ...
	i := 1
	for ; i < len(body)-2; i++ {
		as, ok := body[i].(*ast.AssignStmt)
		if !ok || as.Tok != token.ASSIGN || len(as.Lhs) != 1 || len(as.Rhs) != 1 {
			t.fail(body[i], "NewDemuxer: expected d.f = e")
		}
		sel, ok := as.Lhs[0].(*ast.SelectorExpr)
		if !ok || !isIdent(sel.X, dv) {
			t.fail(body[i], "NewDemuxer: expected d.f = e")
		}
		fi, ok := g.fidx[sel.Sel.Name]
		if !ok {
			t.fail(as, "NewDemuxer: unknown field %s", sel.Sel.Name)
		}
		fmt.Fprintf(&out, "  let %s := %s in\n", cname(dv), g.update(cname(dv), sel.Sel.Name, g.value(as.Rhs[0], g.fields[fi], params, dv)))
	}
	// for _, opt := range opts { opt(d) }
	rs, ok := body[i].(*ast.RangeStmt)
	if !ok || !isIdent(rs.X, optsVar) || rs.Value == nil || (rs.Key != nil && !isIdent(rs.Key, "_")) || len(rs.Body.List) != 1 {
		t.fail(body[i], "NewDemuxer: expected for _, opt := range opts { opt(d) }")
	}
	es, ok := rs.Body.List[0].(*ast.ExprStmt)
	if !ok {
		t.fail(body[i], "NewDemuxer: expected opt(d)")
	}
	call, ok := es.X.(*ast.CallExpr)
	if !ok || !isIdent(call.Fun, rs.Value.(*ast.Ident).Name) || len(call.Args) != 1 || !isIdent(call.Args[0], dv) {
		t.fail(body[i], "NewDemuxer: expected opt(d)")
	}
	fmt.Fprintf(&out, "  let %s := fold_left (fun d_ o_ => DemuxerOpt_apply o_ d_) %s %s in\n", cname(dv), cname(optsVar), cname(dv))
	if r, ok := body[i+1].(*ast.ReturnStmt); !ok || len(r.Results) != 0 {
		t.fail(body[i+1], "NewDemuxer: expected a bare return")
	}
	fmt.Fprintf(&out, "  %s.\n\n", cname(dv))

	var b strings.Builder
	b.WriteString("(* ---- demuxer.go: NewDemuxer and its options ---- *)\nSection NewDemuxer.\n")
	fmt.Fprintf(&b, "Context {%s : Type}.\n", strings.Join(g.types, " "))
	for _, v := range g.vars {
		b.WriteString(v)
	}
	b.WriteString("\nRecord Demuxer := mk_Demuxer {\n")
	for i, f := range g.fields {
		sep := ";"
		if i == len(g.fields)-1 {
			sep = ""
		}
		fmt.Fprintf(&b, "  Demuxer_%s : %s%s\n", f.name, f.coq, sep)
	}
	b.WriteString("}.\n\n(* the options of the package: every function returning a closure that takes the Demuxer *)\nInductive DemuxerOpt : Type :=\n")
	for _, o := range opts {
		fmt.Fprintf(&b, "| %s (%s : %s)\n", o.name, cname(o.par), o.parT)
	}
	b.WriteString(".\n\nDefinition DemuxerOpt_apply (o_ : DemuxerOpt) (d_ : Demuxer) : Demuxer :=\n  match o_ with\n")
	for _, o := range opts {
		fmt.Fprintf(&b, "  | %s %s => %s\n", o.name, cname(o.par), o.body)
	}
	b.WriteString("  end.\n\n")
	fmt.Fprintf(&b, "Definition NewDemuxer %s : Demuxer :=\n%s", strings.Join(pdecl, " "), out.String())
	b.WriteString("End NewDemuxer.\n\n")
	return b.String()
}

// ---------- Gen/RestDesc.v: the two descriptor parsers psigen.go leaves out ----------

const restDescHeader = `(* Generated from the CURRENT source of /repo/descriptor.go by go/gen (restgen.go, with the statement translator of
   demuxgen.go) on every run. Do not edit.
   newDescriptorISO639LanguageAndAudioType (run-time slice bounds: Panicked on an empty descriptor body) and
   newDescriptorExtension (a shadowed variable; &b of a local slice that is assigned once: the pointer's target is the
   slice) in the outcome monad of Gen/DemuxGen.v. The *BytesIterator parameter is returned with the results;
   newDescriptorExtensionSupplementaryAudio is a Section variable typed from its Go declaration.
   Proofs/RestGenDesc2.v relates new_descriptor_iso639 / new_descriptor_extension of Model/Desc.v to them. *)
From Coq Require Import ZArith List Bool String.
Require Import Base.Iter Gen.Consts Gen.Types Gen.Preds Gen.DemuxGen.
Import ListNotations.
Open Scope Z_scope.

`

func (p *pkg) emitRestDesc() string {
	var b strings.Builder
	b.WriteString(restDescHeader)
	p.emitGSections(&b, []gsection{{name: "DescriptorLeftovers", entries: []string{"newDescriptorISO639LanguageAndAudioType", "newDescriptorExtension"}}})
	return b.String()
}
