(* Property C16 — returned results are never mutated later; independent instances do not interfere
   (theorems only; proofs in Proofs/AliasProofs.v). *)
From Coq Require Import ZArith List Bool String.
Require Import Base.Iter Gen.Types Gen.Alias Model.Packet Model.Reader Model.Demux Model.Muxer Proofs.DemuxProofs Proofs.AliasProofs.
Import ListNotations.
Open Scope Z_scope.

(* the table of every place where a parser obtains a byte slice from an iterator is regenerated from the source on
   every run (Gen/Alias.v): no NextBytesNoCopy result — a view of the demuxer's reused read buffer or of the pooled
   scratch buffer — can flow into what a parser returns or stores *)
Theorem C16_no_alias : forall s, In s alias_sites -> as_kind s = ANoCopy -> as_escapes s = false.
Proof. exact no_view_escapes_forall. Qed.
Print Assumptions C16_no_alias.

Theorem C16_no_alias_table : forallb site_ok alias_sites = true.
Proof. exact no_view_escapes. Qed.
Print Assumptions C16_no_alias_table.

(* the table of every package-level variable of the package, regenerated on every run (Gen/Alias.v): each is an error
   value, a read-only table, an unassigned scalar or the sync.Pool wrapper — no buffer or other mutable state is shared
   by the Demuxers and Muxers of one process (the interleaving theorems below are about per-instance state only; this
   is what entitles them to ignore everything else) *)
Theorem C16_no_shared_globals : forall g, In g global_vars -> gv_class g <> GShared.
Proof. exact no_shared_globals_forall. Qed.
Print Assumptions C16_no_shared_globals.
(* two demuxers whose calls are interleaved in ANY order (calls being the atomic steps) each return exactly what they
   return when run alone — for every stream, option set and schedule *)
Theorem C16_demuxers_independent : forall P prs skip sched sa sb,
  fst (interleave P prs skip sched sa sb) = calls P prs skip (calls_of InstA sched) sa /\
  snd (interleave P prs skip sched sa sb) = calls P prs skip (calls_of InstB sched) sb.
Proof. exact demuxers_independent. Qed.
Print Assumptions C16_demuxers_independent.

Theorem C16_muxers_independent : forall sched sa sb,
  fst (interleave_mux sched sa sb) = snd (mux_run sa (ops_of InstA sched)) /\
  snd (interleave_mux sched sa sb) = snd (mux_run sb (ops_of InstB sched)).
Proof. exact muxers_independent. Qed.
Print Assumptions C16_muxers_independent.
