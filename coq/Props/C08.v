(* Property C08 — demuxer output depends on the stream's bytes, not on how they are read or framed
   (theorems only; proofs in Proofs/ReaderProofs.v and Proofs/DemuxProofs.v). *)
From Coq Require Import ZArith List Bool.
Require Import Base.Iter Gen.Consts Gen.Types Model.Packet Model.Reader Model.Demux Proofs.ReaderProofs Proofs.DemuxProofs.
Import ListNotations.
Open Scope Z_scope.

(* io.ReadFull: for EVERY chunk schedule (each Read hands out between 1 and c bytes, c arbitrary per call, down to
   1-byte reads), with or without a failing offset, the loop ends with the count, the error and the reader position
   of the closed form the demuxer model uses *)
Theorem C08_readfull_chunks : forall chunks r n got, 0 <= got <= n ->
  (Z.to_nat (n - got) < length chunks)%nat ->
  read_full_loop chunks r n got = read_full_result r n got.
Proof. exact read_full_loop_chunks. Qed.
Print Assumptions C08_readfull_chunks.

Theorem C08_readfull_any_two_chunkings : forall chunks chunks' r n, 0 <= n ->
  (Z.to_nat n < length chunks)%nat -> (Z.to_nat n < length chunks')%nat ->
  read_full_loop chunks r n 0 = read_full_loop chunks' r n 0.
Proof. exact read_full_any_chunking. Qed.
Print Assumptions C08_readfull_any_two_chunkings.

(* auto-detection on a seekable reader: the size is found and the reader is back at byte 0, nothing lost or altered *)
Theorem C08_detect_seekable : forall r size, fresh r -> r_kind r = Seekable -> r_fault r = None -> 0 < r_total r ->
  nth 0 (window r) 0 = syncByte -> find_sync (window r) 0 = Some size ->
  auto_detect r = (Ok size, r).
Proof. exact auto_detect_seekable. Qed.
Print Assumptions C08_detect_seekable.

(* ... on a bufio.Reader: the window is only peeked *)
Theorem C08_detect_bufio : forall r size, fresh r -> r_kind r = Bufio -> r_fault r = None -> 0 < r_total r ->
  nth 0 (window r) 0 = syncByte -> find_sync (window r) 0 = Some size ->
  auto_detect r = (Ok size, r).
Proof. exact auto_detect_bufio. Qed.
Print Assumptions C08_detect_bufio.

(* ... on a reader that can neither seek nor peek: exactly the first two packets are consumed (the documented resync) *)
Theorem C08_detect_plain : forall r size, fresh r -> r_kind r = Plain -> r_fault r = None ->
  detect_window <= r_total r -> 2 * size <= r_total r -> detect_window <= 2 * size ->
  nth 0 (window r) 0 = syncByte -> find_sync (window r) 0 = Some size ->
  auto_detect r = (Ok size, r_advance r (2 * size)).
Proof. exact auto_detect_plain. Qed.
Print Assumptions C08_detect_plain.

(* the size that is found is the distance to the first sync byte at an index >= 188 *)
Theorem C08_find_sync : forall bs idx size, find_sync bs idx = Some size ->
  idx <= size /\ C_MpegTsPacketSize <= size /\ nth (Z.to_nat (size - idx)) bs 0 = syncByte /\
  (forall j, idx <= j < size -> C_MpegTsPacketSize <= j -> nth (Z.to_nat (j - idx)) bs 0 <> syncByte).
Proof. exact find_sync_spec. Qed.
Print Assumptions C08_find_sync.

(* hence: for every sequence of NextPacket / NextData calls, every unit parser, skipper and packets parser, a demuxer
   that detects the size returns exactly what a demuxer configured with that size returns *)
Theorem C08_auto_equals_explicit : forall P prs skip r size cs, size <> 0 -> auto_detect r = (Ok size, r) ->
  calls P prs skip cs (init_dstate r 0) = calls P prs skip cs (init_dstate r size).
Proof. exact auto_equals_explicit. Qed.
Print Assumptions C08_auto_equals_explicit.

(* the premises are satisfiable: two 188-byte packets *)
Example C08_detectable :
  let data := (71 :: repeat 0 187) ++ (71 :: repeat 0 187) in
  let r := new_reader data None Seekable in
  fresh r /\ nth 0 (window r) 0 = syncByte /\ find_sync (window r) 0 = Some 188.
Proof. vm_compute. repeat split; reflexivity. Qed.

(* NOT proved here (full statement kept): a stream in 188+k-byte packets yields the packets of its 188-byte form.
   It holds of the model (parsePacket seeks to len-188+1 after the sync byte) and is exercised on every run by the
   `wide-explicit` / `wide-auto` correspondence cases and the oracle. *)
Definition C08_wide_full : Prop := forall skip extra rest, Z.of_nat (length rest) = 187 ->
  run_iter (parse_packet skip) (syncByte :: extra ++ rest) = run_iter (parse_packet skip) (syncByte :: rest).
