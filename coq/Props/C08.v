(* Property C08 — demuxer output depends on the stream's bytes, not on how they are read or framed
   (theorems only; proofs in Proofs/ReaderProofs.v, Proofs/DemuxProofs.v and Proofs/WideProofs.v). *)
From Coq Require Import ZArith List Bool.
Require Import Base.Bits Base.Iter Gen.Consts Gen.Types Model.Packet Model.Reader Model.Demux Model.DemuxFull Model.Muxer
  Proofs.ReaderProofs Proofs.DemuxProofs Proofs.WideProofs.
Import ListNotations.
Open Scope Z_scope.

(* io.ReadFull: for EVERY chunk schedule (each Read hands out between 1 and c bytes, c arbitrary per call, down to
   1-byte reads), with or without a failing offset, the loop ends with the count, the error and the reader position
   of the closed form the demuxer model uses *)
Theorem C08_readfull_chunks : forall chunks r n got, 0 <= got <= n ->
  (Z.to_nat (n - got) < length chunks)%nat ->
  read_full_loop chunks r n got = read_full_result r n got.
Proof. exact read_full_loop_chunks. Qed.
Print Assumptions C08_readfull_chunks.

Theorem C08_readfull_any_two_chunkings : forall chunks chunks' r n, 0 <= n ->
  (Z.to_nat n < length chunks)%nat -> (Z.to_nat n < length chunks')%nat ->
  read_full_loop chunks r n 0 = read_full_loop chunks' r n 0.
Proof. exact read_full_any_chunking. Qed.
Print Assumptions C08_readfull_any_two_chunkings.

(* auto-detection on a seekable reader: the size is found and the reader is back at byte 0, nothing lost or altered *)
Theorem C08_detect_seekable : forall r size, fresh r -> r_kind r = Seekable -> r_fault r = None -> 0 < r_total r ->
  nth 0 (window r) 0 = syncByte -> find_sync (window r) 0 = Some size ->
  auto_detect r = (Ok size, r).
Proof. exact auto_detect_seekable. Qed.
Print Assumptions C08_detect_seekable.

(* ... on a bufio.Reader: the window is only peeked *)
Theorem C08_detect_bufio : forall r size, fresh r -> r_kind r = Bufio -> r_fault r = None -> 0 < r_total r ->
  nth 0 (window r) 0 = syncByte -> find_sync (window r) 0 = Some size ->
  auto_detect r = (Ok size, r).
Proof. exact auto_detect_bufio. Qed.
Print Assumptions C08_detect_bufio.

(* ... on a reader that can neither seek nor peek: exactly the first two packets are consumed (the documented resync) *)
Theorem C08_detect_plain : forall r size, fresh r -> r_kind r = Plain -> r_fault r = None ->
  detect_window <= r_total r -> 2 * size <= r_total r -> detect_window <= 2 * size ->
  nth 0 (window r) 0 = syncByte -> find_sync (window r) 0 = Some size ->
  auto_detect r = (Ok size, r_advance r (2 * size)).
Proof. exact auto_detect_plain. Qed.
Print Assumptions C08_detect_plain.

(* the size that is found is the distance to the first sync byte at an index >= 188 *)
Theorem C08_find_sync : forall bs idx size, find_sync bs idx = Some size ->
  idx <= size /\ C_MpegTsPacketSize <= size /\ nth (Z.to_nat (size - idx)) bs 0 = syncByte /\
  (forall j, idx <= j < size -> C_MpegTsPacketSize <= j -> nth (Z.to_nat (j - idx)) bs 0 <> syncByte).
Proof. exact find_sync_spec. Qed.
Print Assumptions C08_find_sync.

(* hence: for every sequence of NextPacket / NextData calls, every unit parser, skipper and packets parser, a demuxer
   that detects the size returns exactly what a demuxer configured with that size returns *)
Theorem C08_auto_equals_explicit : forall P prs skip r size cs, size <> 0 -> auto_detect r = (Ok size, r) ->
  calls P prs skip cs (init_dstate r 0) = calls P prs skip cs (init_dstate r size).
Proof. exact auto_equals_explicit. Qed.
Print Assumptions C08_auto_equals_explicit.

(* the premises are satisfiable: two 188-byte packets *)
Example C08_detectable :
  let data := (71 :: repeat 0 187) ++ (71 :: repeat 0 187) in
  let r := new_reader data None Seekable in
  fresh r /\ nth 0 (window r) 0 = syncByte /\ find_sync (window r) 0 = Some 188.
Proof. vm_compute. repeat split; reflexivity. Qed.

(* ---- (e) wide packets: a stream carried in 188+k-byte packets yields the packets of its 188-byte form ---- *)

(* parsePacket on a buffer of 1 + k + 187 bytes returns what it returns on the first byte followed by the last 187:
   for EVERY k (192, 204, anything), every skipper and ALL byte values (no well-formedness assumed: errors and, were
   there any, panics are the same too).  After the sync byte the parser seeks to len-188+1 and only ever uses offsets
   relative to that point; the proof is a shift-invariance theorem for the iterator monad (Proofs/WideProofs.v: sim). *)
Theorem C08_wide : forall skip extra rest, Z.of_nat (length rest) = 187 ->
  run_iter (parse_packet skip) (syncByte :: extra ++ rest) = run_iter (parse_packet skip) (syncByte :: rest).
Proof. exact parse_packet_wide_sync. Qed.
Print Assumptions C08_wide.

(* the same for a buffer that does not start with the sync byte (both report ErrPacketMustStartWithASyncByte) *)
Theorem C08_wide_any_first_byte : forall skip x extra rest, Z.of_nat (length rest) = 187 ->
  run_iter (parse_packet skip) (x :: extra ++ rest) = run_iter (parse_packet skip) (x :: rest).
Proof. exact parse_packet_wide. Qed.
Print Assumptions C08_wide_any_first_byte.

(* the PacketSkipper is shown the same header and adaptation field *)
Theorem C08_wide_skipper_view : forall x extra rest, Z.of_nat (length rest) = 187 ->
  res_map fst (run_iter parse_packet_head (x :: extra ++ rest)) = res_map fst (run_iter parse_packet_head (x :: rest)).
Proof. exact parse_packet_head_wide. Qed.
Print Assumptions C08_wide_skipper_view.

(* [narrow b] = first byte of b followed by its last 187 bytes: the 188-byte form of a wide packet *)
Theorem C08_narrow_of_wide : forall x extra rest, length rest = 187%nat -> narrow (x :: extra ++ rest) = x :: rest.
Proof. exact narrow_wide. Qed.
Print Assumptions C08_narrow_of_wide.

(* streams: on a list of buffers of at least 188 bytes each, successive NextPacket calls (with any skipper) return
   exactly what they return on the list of the 188-byte forms, and leave the corresponding remainder *)
Theorem C08_wide_stream_step : forall skip bufs, Forall wide_enough bufs ->
  fst (first_unskipped skip (map narrow bufs)) = fst (first_unskipped skip bufs) /\
  snd (first_unskipped skip (map narrow bufs)) = map narrow (snd (first_unskipped skip bufs)).
Proof. exact first_unskipped_narrow. Qed.
Print Assumptions C08_wide_stream_step.

(* ... every result of every call up to the end of the stream *)
Theorem C08_wide_stream_all : forall skip fuel bufs, Forall wide_enough bufs ->
  all_packets fuel skip (map narrow bufs) = all_packets fuel skip bufs.
Proof. exact all_packets_narrow. Qed.
Print Assumptions C08_wide_stream_all.

(* ... and packetBuffer.next itself: a reader over size-byte packets (size = 188+k given explicitly) and a reader over
   their 188-byte forms deliver the same packet or error at every position, whatever trails the last whole packet *)
Theorem C08_wide_packet_buffer : forall skip size bufs fuel fuel' r r' tail tail', C_MpegTsPacketSize <= size ->
  reader_ok r -> r_rest r = concat bufs ++ tail -> Forall (buf_ok size) bufs -> Z.of_nat (length tail) < size ->
  reader_ok r' -> r_rest r' = concat (map narrow bufs) ++ tail' -> Z.of_nat (length tail') < C_MpegTsPacketSize ->
  (length bufs < fuel)%nat -> (length bufs < fuel')%nat ->
  fst (fst (pb_next fuel skip size r)) = fst (fst (pb_next fuel' skip C_MpegTsPacketSize r')) /\
  (fst (first_unskipped skip bufs) <> Err E_nomore ->
   r_rest (snd (fst (pb_next fuel skip size r))) = concat (snd (first_unskipped skip bufs)) ++ tail /\
   r_rest (snd (fst (pb_next fuel' skip C_MpegTsPacketSize r'))) = concat (map narrow (snd (first_unskipped skip bufs))) ++ tail').
Proof. exact pb_next_wide. Qed.
Print Assumptions C08_wide_packet_buffer.

(* the hypotheses are satisfiable and the conclusion is not vacuous: a 192-byte packet (4 bytes of timecode-like
   filler between the sync byte and the header) with an adaptation field (PCR) and a payload parses to a packet, the
   one its 188-byte form parses to *)
Example C08_wide_192 :
  let rest := [65; 0; 48; 7; 16; 0; 0; 0; 1; 126; 0] ++ repeat 170 176 in
  let extra := [1; 2; 71; 4] in
  Z.of_nat (length rest) = 187 /\
  is_ok (run_iter (parse_packet no_skip) (syncByte :: extra ++ rest)) = true /\
  run_iter (parse_packet no_skip) (syncByte :: extra ++ rest) = run_iter (parse_packet no_skip) (syncByte :: rest) /\
  narrow (syncByte :: extra ++ rest) = syncByte :: rest.
Proof. vm_compute. repeat split; reflexivity. Qed.

(* ---- (e) at the level of the property text: the whole demuxer, packets and data ---- *)

(* a stream of size-byte packets (size = 188+k given explicitly through the packet-size option; any k), followed by any
   short tail, read through any kind of reader: EVERY sequence of NextPacket / NextData calls -- any unit parsers,
   packets parser, skipper -- returns exactly what it returns on the stream of the 188-byte forms read with size 188.
   Proof: simulation between the two runs (same data buffer, pool and program map; the readers hold n buffers and
   their narrow forms), with C08_wide for each packet read *)
Theorem C08_wide_demux : forall P prs skip size, C_MpegTsPacketSize <= size -> forall cs bufs tail tail' k k',
  Forall (sized size) bufs -> Z.of_nat (length tail) < size -> Z.of_nat (length tail') < C_MpegTsPacketSize ->
  calls P prs skip cs (init_dstate (new_reader (concat bufs ++ tail) None k) size) =
  calls P prs skip cs (init_dstate (new_reader (concat (map narrow bufs) ++ tail') None k') C_MpegTsPacketSize).
Proof. exact calls_wide. Qed.
Print Assumptions C08_wide_demux.

(* satisfiable and not vacuous: a stream written by the muxer model (PAT, PMT, PES, tables again, PES), each packet
   widened to 204 bytes by 16 bytes after the sync byte (one of them a 0x47), read with size 204 and a truncated
   trailing packet: NextPacket (the first PAT, raw), then NextData to the end -- the packet, then 4 tables and
   2 PES come out (the first PMT is dropped: its PAT was consumed by NextPacket), then ErrNoMorePackets -- the same as
   from the 188-byte stream *)
Definition ex_wide_es : PMTElementaryStream :=
  {| PMTElementaryStream_ElementaryPID := 256; PMTElementaryStream_ElementaryStreamDescriptors := [];
     PMTElementaryStream_StreamType := 27 |}.
Definition ex_wide_md : MuxerData :=
  {| MuxerData_PID := 256; MuxerData_AdaptationField := None;
     MuxerData_PES := Some {| PESData_Data := [1; 2; 3; 4; 5];
                              PESData_Header := Some {| PESHeader_OptionalHeader := None; PESHeader_PacketLength := 0;
                                                        PESHeader_StreamID := 191 |} |} |}.
Definition ex_wide_packets : list (list Z) :=
  map (@concat Z) (concat (map mo_groups (snd (mux_run (new_muxer 40)
    [MAdd ex_wide_es; MSetPCR 256; MWriteTables; MWriteData ex_wide_md; MWriteTables; MWriteData ex_wide_md])))).
Definition widen (extra b : list Z) : list Z := match b with [] => [] | x :: t => x :: extra ++ t end.

Example C08_wide_demux_example :
  let extra := [0; 1; 71; 3; 4; 5; 6; 7; 8; 9; 10; 11; 12; 13; 14; 15] in
  let bufs := map (widen extra) ex_wide_packets in
  let tail := firstn 100 (nth 0 bufs []) in
  let cs := CallPacket :: repeat CallData 10 in
  length bufs = 8%nat /\ Forall (sized 204) bufs /\ map narrow bufs = ex_wide_packets /\
  Z.of_nat (length tail) < 204 /\
  map (@is_ok _) (calls full_parsers None no_skip cs (init_dstate (new_reader (concat bufs ++ tail) None Plain) 204)) =
    [true; true; true; true; true; true; true; false; false; false; false] /\
  calls full_parsers None no_skip cs (init_dstate (new_reader (concat bufs ++ tail) None Plain) 204) =
  calls full_parsers None no_skip cs (init_dstate (new_reader (concat ex_wide_packets ++ [71; 0]) None Seekable) 188).
Proof.
  intros extra bufs tail cs.
  assert (Hall : Forall (sized 204) bufs) by (vm_compute; repeat constructor).
  assert (Hn : map narrow bufs = ex_wide_packets) by (vm_compute; reflexivity).
  split; [vm_compute; reflexivity|]. split; [exact Hall|]. split; [exact Hn|].
  split; [vm_compute; reflexivity|]. split; [vm_compute; reflexivity|].
  rewrite <- Hn. apply (calls_wide full_parsers None no_skip 204); [discriminate|exact Hall|vm_compute; reflexivity|vm_compute; reflexivity].
Qed.

(* ---- packet size detection IS the source ----
   Gen/DemuxGen.v (Section PacketBuffer) is translated from the current /repo/packet_buffer.go on every run
   (go/gen/demuxgen.go): rewind, peek, autoDetectPacketSize (with its deferred Discard and its search loop) and
   newPacketBuffer.  rewind_reader, auto_detect and new_packet_buffer, about which the theorems above speak, are those
   regenerated functions with the reader operations instantiated by the model (Proofs/DemuxGenEq.v: io.ReadFull =
   read_full, Peek = what read_full would deliver without consuming it, Discard, Seek(0, 0) = r_seek0, the type
   assertions answered by the reader's kind), for EVERY reader whose bookkeeping is consistent (rest_len), of every
   kind, with or without an injected failure — which is EExt wr for an arbitrary wr (it may wrap io.EOF): the same
   size or error class (ErrNoMorePackets recognisable with ==), the same reader position afterwards, never Panicked.
   A seek back by 193 bytes instead of to 0, errors.Is in place of == for io.EOF / io.ErrUnexpectedEOF /
   ErrNoMorePackets, another window, another rule for the second sync byte: each breaks one of these proofs. *)
Require Import Gen.DemuxGen Proofs.DemuxGenEq Proofs.DemuxGenEqDetect.

Theorem C08_rewind_is_source : forall r pm g c,
  DemuxGen.rewind mworld rkind unit as_seeker_m seek_m (r_kind r) (mk_mworld r pm g c) =
  Done (fst (rewind_reader r), None, mk_mworld (snd (rewind_reader r)) pm g c).
Proof. exact rewind_reader_is_generated. Qed.
Print Assumptions C08_rewind_is_source.

Theorem C08_detect_is_source : forall (wr : gerr) r pm g c, rest_len r ->
  match autoDetectPacketSize mworld rkind unit as_seeker_m seek_m unit as_bufio_m (peek_m wr) (read_full_m wr) discard_m
          (r_kind r) (mk_mworld r pm g c) with
  | Done (size, err, w') =>
      w' = mk_mworld (snd (auto_detect r)) pm g c /\ res_rel_exact (Some size) err (fst (auto_detect r))
  | _ => False
  end.
Proof. exact auto_detect_is_generated. Qed.
Print Assumptions C08_detect_is_source.

Theorem C08_new_packet_buffer_is_source : forall (wr : gerr) r opt sk pm g c, rest_len r ->
  match newPacketBuffer mworld rkind unit as_seeker_m seek_m unit as_bufio_m (peek_m wr) (read_full_m wr) discard_m
          (r_kind r) opt sk (mk_mworld r pm g c) with
  | Done (pb, err, w') =>
      w' = mk_mworld (snd (new_packet_buffer r opt)) pm g c /\
      res_rel_exact (option_map (fun rec => mk_pbuf (packetBuffer_packetSize rkind rec)) pb) err
                    (fst (new_packet_buffer r opt)) /\
      (forall rec, pb = Some rec ->
         packetBuffer_s rkind rec = sk /\ packetBuffer_r rkind rec = r_kind r /\
         packetBuffer_packetReadBuffer rkind rec = [])
  | _ => False
  end.
Proof. exact new_packet_buffer_is_generated. Qed.
Print Assumptions C08_new_packet_buffer_is_source.

(* rest_len holds for every reader the model builds and is kept by reading and by seeking back *)
Theorem C08_rest_len_new : forall data f k, rest_len (new_reader data f k).
Proof. exact rest_len_new. Qed.
Print Assumptions C08_rest_len_new.

(* NewDemuxer and the DemuxerOpt* options are regenerated too (Gen/RestGen.v, go/gen/restgen.go: the options as the
   inductive DemuxerOpt with DemuxerOpt_apply, `for _, opt := range opts { opt(d) }` as a fold).  Instantiated with the
   model's types (new_demuxer of Proofs/RestGenDemux.v: reader, pbuf, pool, the regenerated programMap / newProgramMap, the
   empty pool for newPacketPool) the Demuxer it builds is, for EVERY option list, init_dstate r size — the initial state of
   every theorem above — where size is what the last DemuxerOptPacketSize set, 0 (auto-detection) when there is none: no
   packet buffer yet (the size is read when the first packet is asked for), empty data buffer, empty pool, empty program
   map.  A constructor that ignores the packet size option breaks this proof. *)
Require Import Gen.RestGen Proofs.RestGenPm Proofs.RestGenDemux.
Theorem C08_new_demuxer_is_source : forall (PP PS : Type) r (opts : list (gopt PP PS)),
  let d := new_demuxer PP PS r opts in
  dstate_of PP PS d = init_dstate r (opts_packet_size PP PS opts 0) /\
  Demuxer_optPacketSize d = opts_packet_size PP PS opts 0 /\
  Demuxer_optPacketsParser d = opts_parser PP PS opts None /\
  Demuxer_optPacketSkipper d = opts_skipper PP PS opts None /\
  Demuxer_dataBuffer d = [] /\ Demuxer_packetBuffer d = None /\ Demuxer_packetPool d = Some [] /\
  Demuxer_programMap d = Some (newProgramMap lm_make) /\ Demuxer_r d = r.
Proof. exact new_demuxer_is_generated. Qed.
Print Assumptions C08_new_demuxer_is_source.
Theorem C08_new_demuxer_packet_size : forall (PP PS : Type) r n,
  dstate_of PP PS (new_demuxer PP PS r [DemuxerOptPacketSize n]) = init_dstate r n /\
  dstate_of PP PS (new_demuxer PP PS r []) = init_dstate r 0.
Proof. exact new_demuxer_packet_size. Qed.
Print Assumptions C08_new_demuxer_packet_size.
