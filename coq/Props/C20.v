(* Property C20 — Rewind restarts demuxing from a clean state (theorems only; proofs in Proofs/DemuxProofs.v). *)
From Coq Require Import ZArith List Bool.
Require Import Base.Iter Gen.Types Model.Packet Model.Pool Model.Reader Model.Demux Proofs.ReaderProofs Proofs.DemuxProofs.
Import ListNotations.
Open Scope Z_scope.

(* for EVERY state (any number of calls before, mid-unit, sections still buffered, explicit or detected size):
   Rewind on a seekable reader reports offset 0 and leaves an empty data buffer, no packet buffer, an empty pool and
   the reader at byte 0; only the program map (and the size option) survive *)
Theorem C20_rewind_clean : forall s, r_kind (d_reader s) = Seekable ->
  fst (rewind s) = 0 /\
  d_buffer (snd (rewind s)) = [] /\ d_pb (snd (rewind s)) = None /\ d_pool (snd (rewind s)) = [] /\
  d_pm (snd (rewind s)) = d_pm s /\ d_opt_size (snd (rewind s)) = d_opt_size s /\
  d_reader (snd (rewind s)) = r_seek0 (d_reader s).
Proof. exact rewind_clean. Qed.
Print Assumptions C20_rewind_clean.

(* the reader after Rewind is a fresh reader of the same stream: detection and reading start from the first byte *)
Theorem C20_reader_fresh : forall r, r_total r = Z.of_nat (length (r_all r)) -> fresh (r_seek0 r).
Proof. exact rewind_reader_fresh. Qed.
Print Assumptions C20_reader_fresh.

(* NOT proved here (full statement kept): the retained program map cannot change the output of a stream whose PMT PIDs
   carry no packet before a PAT listing them is delivered.  Checked on every run by correspondence (every number of
   calls before the Rewind, repeated rewinds) and by the oracle against a fresh Demuxer. *)
Definition C20_pm_monotone_full : Prop := forall P prs skip r opt pm0 cs,
  (forall x, In x pm0 -> True (* x is registered by a PAT of the stream before any packet of PID x *)) ->
  calls P prs skip cs (with_pm (init_dstate r opt) pm0) = calls P prs skip cs (init_dstate r opt).
