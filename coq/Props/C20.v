(* Property C20 — Rewind restarts demuxing from a clean state (theorems only; proofs in Proofs/DemuxProofs.v and Proofs/RewindProofs.v). *)
From Coq Require Import ZArith List Bool.
Require Import Base.Iter Gen.Types Model.Packet Model.Pool Model.Reader Model.Demux Model.DemuxFull Model.Muxer
  Proofs.ReaderProofs Proofs.DemuxProofs Proofs.RewindProofs.
Import ListNotations.
Open Scope Z_scope.

(* for EVERY state (any number of calls before, mid-unit, sections still buffered, explicit or detected size):
   Rewind on a seekable reader reports offset 0 and leaves an empty data buffer, no packet buffer, an empty pool and
   the reader at byte 0; only the program map (and the size option) survive *)
Theorem C20_rewind_clean : forall s, r_kind (d_reader s) = Seekable ->
  fst (rewind s) = 0 /\
  d_buffer (snd (rewind s)) = [] /\ d_pb (snd (rewind s)) = None /\ d_pool (snd (rewind s)) = [] /\
  d_pm (snd (rewind s)) = d_pm s /\ d_opt_size (snd (rewind s)) = d_opt_size s /\
  d_reader (snd (rewind s)) = r_seek0 (d_reader s).
Proof. exact rewind_clean. Qed.
Print Assumptions C20_rewind_clean.

(* the reader after Rewind is a fresh reader of the same stream: detection and reading start from the first byte *)
Theorem C20_reader_fresh : forall r, r_total r = Z.of_nat (length (r_all r)) -> fresh (r_seek0 r).
Proof. exact rewind_reader_fresh. Qed.
Print Assumptions C20_reader_fresh.

(* ---- the retained program map cannot change the output ("no residue") ----

   The program map is consulted in two places only: packetAccumulator.add, for the PID of the packet being added (are
   complete PSI sections flushed at once?), and parseData/isPSIPayload, for the PID of the group being parsed.
   [calls_pf pm0 P prs skip cs s0] follows the run of the FRESH demuxer (state s0, calls cs) and says that at each of
   these consultations the PID concerned, if it is in the retained map pm0, is already in the fresh run's own map
   (agree pm0 pm x := pm_mem pm0 x = true -> pm_mem pm x = true): the stream's PATs precede its PMTs.
   For every unit parser P, packets parser prs, skipper, reader (any kind, with or without fault), size option: *)
Theorem C20_pm_monotone : forall P prs skip r opt pm0 cs,
  calls_pf pm0 P prs skip cs (init_dstate r opt) ->
  calls P prs skip cs (with_pm (init_dstate r opt) pm0) = calls P prs skip cs (init_dstate r opt).
Proof. exact pm_monotone. Qed.
Print Assumptions C20_pm_monotone.

(* the same with the hypothesis on arriving packets only: [calls_pk] constrains just the packets that reach the pool
   (add_ok: a packet with a payload and without transport_error whose PID is in pm0 arrives only when the fresh run has
   registered that PID); that the groups parsed later, including those of the end-of-stream drain, are then fine too
   follows from a pool invariant (a queue holds packets of its own PID; a PID that has a queue passed add_ok; the
   demuxer never unregisters a PID) *)
Theorem C20_pm_monotone_packets : forall P prs skip r opt pm0 cs,
  calls_pk pm0 P prs skip cs (init_dstate r opt) ->
  calls P prs skip cs (with_pm (init_dstate r opt) pm0) = calls P prs skip cs (init_dstate r opt).
Proof. exact pm_monotone_packets. Qed.
Print Assumptions C20_pm_monotone_packets.

Theorem C20_packets_hypothesis_suffices : forall pm0 P prs skip cs s,
  pinv pm0 s -> calls_pk pm0 P prs skip cs s -> calls_pf pm0 P prs skip cs s.
Proof. exact calls_of_pk. Qed.
Print Assumptions C20_packets_hypothesis_suffices.

(* the simulation behind both: two states that differ only in the program map (the second holding pm0 in addition) and
   in the ghost logs return the same results for every sequence of calls *)
Theorem C20_simulation : forall pm0 P prs skip cs s s', st_rel pm0 s s' -> calls_pf pm0 P prs skip cs s ->
  calls P prs skip cs s' = calls P prs skip cs s.
Proof. exact calls_sim. Qed.
Print Assumptions C20_simulation.

(* ---- C20: Rewind ---- *)

(* at ANY state s whose reader is seekable (no reachability assumption at all), Rewind reports offset 0 and every
   sequence of calls after it returns what a fresh demuxer on the same stream (same bytes from offset 0, same fault,
   same size option) returns *)
Theorem C20_rewind_any_state : forall P prs skip s cs, r_kind (d_reader s) = Seekable ->
  calls_pf (d_pm s) P prs skip cs (init_dstate (r_seek0 (d_reader s)) (d_opt_size s)) ->
  fst (rewind s) = 0 /\
  calls P prs skip cs (snd (rewind s)) = calls P prs skip cs (init_dstate (r_seek0 (d_reader s)) (d_opt_size s)).
Proof. exact rewind_equals_fresh. Qed.
Print Assumptions C20_rewind_any_state.

(* the form of the property text: a demuxer created on a seekable reader r, after ANY history of NextPacket / NextData
   calls and earlier Rewinds ([run_ops]: in the middle of a unit, with parsed sections still buffered, at end of
   stream, after an error), answers Rewind with 0 and then delivers, from the first packet again, exactly what a freshly
   created demuxer on r delivers -- for every further sequence of calls, given that the fresh run is PAT-first with
   respect to the map retained at that point *)
Theorem C20_rewind : forall P prs skip r opt ops cs, fresh r -> r_kind r = Seekable ->
  let s := run_ops P prs skip ops (init_dstate r opt) in
  calls_pk (d_pm s) P prs skip cs (init_dstate r opt) ->
  fst (rewind s) = 0 /\ calls P prs skip cs (snd (rewind s)) = calls P prs skip cs (init_dstate r opt).
Proof. exact rewind_any_history_packets. Qed.
Print Assumptions C20_rewind.

Theorem C20_rewind_consultations : forall P prs skip r opt ops cs, fresh r -> r_kind r = Seekable ->
  let s := run_ops P prs skip ops (init_dstate r opt) in
  calls_pf (d_pm s) P prs skip cs (init_dstate r opt) ->
  fst (rewind s) = 0 /\ calls P prs skip cs (snd (rewind s)) = calls P prs skip cs (init_dstate r opt).
Proof. exact rewind_any_history. Qed.
Print Assumptions C20_rewind_consultations.

(* the hypothesis is monotone in the retained map, so ONE hypothesis about the stream -- it is PAT-first with respect
   to a set pm1 of PMT PIDs -- covers every rewind point of every history at which the retained map lies within pm1 *)
Theorem C20_hypothesis_monotone : forall pm0 pm1 P prs skip cs, pm_sub pm0 pm1 -> forall s,
  calls_pk pm1 P prs skip cs s -> calls_pk pm0 P prs skip cs s.
Proof. exact calls_pk_sub. Qed.
Print Assumptions C20_hypothesis_monotone.

Theorem C20_rewind_within : forall P prs skip r opt ops cs pm1, fresh r -> r_kind r = Seekable ->
  let s := run_ops P prs skip ops (init_dstate r opt) in
  pm_sub (d_pm s) pm1 -> calls_pk pm1 P prs skip cs (init_dstate r opt) ->
  fst (rewind s) = 0 /\ calls P prs skip cs (snd (rewind s)) = calls P prs skip cs (init_dstate r opt).
Proof. exact rewind_any_history_within. Qed.
Print Assumptions C20_rewind_within.

(* ---- the hypotheses are satisfiable, and the PAT-first hypothesis is needed ---- *)

(* a stream written by the muxer model: PAT, PMT (PID 4096), PES on PID 256, tables again, PES; real unit parsers *)
Definition ex_es : PMTElementaryStream :=
  {| PMTElementaryStream_ElementaryPID := 256; PMTElementaryStream_ElementaryStreamDescriptors := [];
     PMTElementaryStream_StreamType := 27 |}.
Definition ex_md : MuxerData :=
  {| MuxerData_PID := 256; MuxerData_AdaptationField := None;
     MuxerData_PES := Some {| PESData_Data := [1; 2; 3; 4; 5];
                              PESData_Header := Some {| PESHeader_OptionalHeader := None; PESHeader_PacketLength := 0;
                                                        PESHeader_StreamID := 191 |} |} |}.
Definition ex_bytes : list Z :=
  concat (map mout_bytes (snd (mux_run (new_muxer 40)
    [MAdd ex_es; MSetPCR 256; MWriteTables; MWriteData ex_md; MWriteTables; MWriteData ex_md]))).
Definition ex_reader : reader := new_reader ex_bytes None Seekable.

(* NextData, NextData, NextPacket, NextData (PAT, PMT, a raw packet, PMT: PID 4096 is registered, units pending), then
   Rewind: the hypothesis of C20_rewind holds for ten further calls, and those calls do deliver data (6 tables, 2 PES,
   then ErrNoMorePackets) *)
Example C20_pat_first_example :
  let ops := [OpCall CallData; OpCall CallData; OpCall CallPacket; OpCall CallData] in
  let s := run_ops full_parsers None no_skip ops (init_dstate ex_reader 188) in
  let cs := repeat CallData 10 in
  fresh ex_reader /\ r_kind ex_reader = Seekable /\ d_pm s = [4096] /\
  calls_pk (d_pm s) full_parsers None no_skip cs (init_dstate ex_reader 188) /\
  map (@is_ok _) (calls full_parsers None no_skip cs (snd (rewind s))) =
    [true; true; true; true; true; true; true; true; false; false].
Proof. vm_compute. repeat split; intros; congruence. Qed.

(* without the hypothesis the statement is false: with PID 256 (the PES PID, never registered by this stream) in the
   retained map the PES units are parsed as PSI and lost.  This is why the property is stated for streams whose PAT
   precedes their PMTs; it is not reachable by rewinding on this stream (d_pm only ever holds PIDs a PAT announced). *)
Example C20_pat_first_needed :
  let cs := repeat CallData 8 in
  calls full_parsers None no_skip cs (with_pm (init_dstate ex_reader 188) [256]) <>
  calls full_parsers None no_skip cs (init_dstate ex_reader 188).
Proof. intros cs H. apply (f_equal (map (@is_ok _))) in H. vm_compute in H. discriminate. Qed.

(* ---- rewind IS the source ----
   Gen/DemuxGen.v (Section Demuxer) is translated from the current /repo/demuxer.go on every run
   (go/gen/demuxgen.go).  The model's rewind, about which every theorem above speaks, is the regenerated
   Demuxer.Rewind with its abstract operations instantiated by the model (Proofs/DemuxGenEq.v: the world = reader,
   program map and ghost logs; newPacketPool = a fresh empty pool; rewind(r) = rewind_reader): same data buffer, no
   packet buffer, same pool, same offset, no error, same world — whatever packet buffer, packets parser and skipper the
   Demuxer held.  A Rewind that no longer recreates the pool, keeps the data buffer, forgets the program map or calls
   anything else breaks this proof; no generated case has to reach the difference. *)
Require Import Gen.DemuxGen Proofs.DemuxGenEq Proofs.DemuxGenEqRewind.

Theorem C20_rewind_is_source : forall s pb prs sk,
  Demuxer_Rewind mworld unit unit gpb pool unit unit new_pool_m rewind_m
    tt (d_buffer s) tt (d_opt_size s) prs sk pb (d_pool s) tt tt (world_of s) =
  Done (d_buffer (snd (Demux.rewind s)), @None gpb, d_pool (snd (Demux.rewind s)), fst (Demux.rewind s), @None gerr,
        world_of (snd (Demux.rewind s))) /\
  d_pb (snd (Demux.rewind s)) = None /\ d_opt_size (snd (Demux.rewind s)) = d_opt_size s.
Proof. exact rewind_is_generated. Qed.
Print Assumptions C20_rewind_is_source.

(* The map Rewind keeps is the regenerated program_map.go (Gen/RestGen.v): Demuxer_Rewind above hands the SAME
   dmx.programMap to the new packet pool and calls neither newProgramMap nor setUnlocked / unsetUnlocked, and for EVERY
   implementation of map[uint32]uint16 that satisfies the three laws of a finite map the Go map and the model's d_pm answer
   alike (pm_abs: existsUnlocked m pid = pm_mem pm pid) in a fresh Demuxer, after every setUnlocked and hence after every
   history of registrations — the list Demux.rewind leaves in place.  The association list of Model/Muxer.v is such an
   implementation (C02_program_map_is_source). *)
Require Import Gen.RestGen Proofs.RestGenPm.
Theorem C20_program_map_is_source :
  forall (M : Type) (mk : M) (get : M -> Z -> option Z) (set : M -> Z -> Z -> M) (del : M -> Z -> M),
  (forall k, get mk k = None) ->
  (forall m k v k', get (set m k v) k' = if Z.eqb k' k then Some v else get m k') ->
  (forall m k k', get (del m k) k' = if Z.eqb k' k then None else get m k') ->
  pm_abs get (newProgramMap mk) [] /\
  (forall m pm pid n, pm_abs get m pm -> pm_abs get (programMap_setUnlocked set m pid n) (pm_add pm pid)) /\
  (forall m pm pid, pm_abs get m pm ->
     pm_abs get (programMap_unsetUnlocked del m pid) (filter (fun q => negb (Z.eqb q pid)) pm)) /\
  (forall regs, pm_abs get (fold_left (fun m e => programMap_setUnlocked set m (fst e) (snd e)) regs (newProgramMap mk))
                       (fold_left pm_add (map fst regs) [])).
Proof. exact program_map_demux_any_map. Qed.
Print Assumptions C20_program_map_is_source.
(* the hypotheses are satisfiable: the association list is a lawful map *)
Example C20_program_map_is_source_inhabited :
  (forall k, lm_get lm_make k = None) /\
  (forall m k v k', lm_get (lm_set m k v) k' = if Z.eqb k' k then Some v else lm_get m k') /\
  (forall m k k', lm_get (lm_del m k) k' = if Z.eqb k' k then None else lm_get m k').
Proof. exact (conj lm_get_make (conj lm_get_set lm_get_del)). Qed.
