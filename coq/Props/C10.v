(* C10 — the section checksum is exactly CRC-32/MPEG-2 for every byte string.
   Statements only; proofs are in Proofs/CrcProofs.v.  computeCRC32, updateCRC32,
   updateCRC32_loop1, tableCRC32 and C_crc32Polynomial are regenerated from
   crc32.go / crc32_table.go on every run (Gen/). *)
From Coq Require Import ZArith List.
Require Import Gen.Consts Gen.CrcTable Gen.Preds Spec.CrcSpec Proofs.CrcProofs.
Import ListNotations.
Open Scope Z_scope.

(* every table entry is the reference register after clocking 8 zero bits from (i << 24) *)
Theorem C10_table : forall i, 0 <= i < 256 ->
  nth (Z.to_nat i) tableCRC32 0 = bytestep (i * 2 ^ 24) 0.
Proof. exact table_entry. Qed.
Print Assumptions C10_table.

Theorem C10_table_length : length tableCRC32 = 256%nat.
Proof. exact table_length. Qed.
Print Assumptions C10_table_length.

(* one byte step of the code = eight reference bit steps, for all 2^32 states and 256 bytes *)
Theorem C10_step : forall c b, 0 <= c < 2 ^ 32 -> 0 <= b < 256 ->
  updateCRC32_loop1 c b = bytestep c b.
Proof. exact step_eq. Qed.
Print Assumptions C10_step.

(* the checksum of every byte string is CRC-32/MPEG-2 *)
Theorem C10_message : forall msg, Forall (fun b => 0 <= b < 256) msg ->
  computeCRC32 msg = crc32_mpeg2 msg.
Proof. exact compute_eq. Qed.
Print Assumptions C10_message.

(* feeding the input in pieces gives the value of one pass (any state, any split, any bytes) *)
Theorem C10_chunks : forall c a b, updateCRC32 (updateCRC32 c a) b = updateCRC32 c (a ++ b).
Proof. exact update_chunks. Qed.
Print Assumptions C10_chunks.

(* a message followed by its big-endian checksum has residue 0 *)
Theorem C10_residue : forall msg, Forall (fun b => 0 <= b < 256) msg ->
  computeCRC32 (msg ++ be32 (computeCRC32 msg)) = 0.
Proof. exact residue. Qed.
Print Assumptions C10_residue.

(* non-vacuity: the standard check value of CRC-32/MPEG-2 *)
Example C10_check_value :
  computeCRC32 [49; 50; 51; 52; 53; 54; 55; 56; 57] = 0x0376E6E7 /\
  crc32_mpeg2 [49; 50; 51; 52; 53; 54; 55; 56; 57] = 0x0376E6E7.
Proof. split; vm_compute; reflexivity. Qed.
