(* Property C19 — PacketSkipper equals deleting packets; PacketsParser sees each unit exactly once
   (theorems only; proofs in Proofs/DemuxProofs.v and Proofs/SafeProofs.v). *)
From Coq Require Import ZArith List Bool.
Require Import Base.Bits Base.Iter Gen.Consts Gen.Types Model.Packet Model.Pool Model.Reader Model.Demux
  Proofs.DemuxProofs Proofs.SafeProofs.
Import ListNotations.
Open Scope Z_scope.

(* the skipper is consulted on header + adaptation field and its answer changes nothing else of the parse *)
Theorem C19_skip_local : forall skip b,
  run_iter (parse_packet skip) b = if skipped skip b then Err E_skipped else run_iter (parse_packet no_skip) b.
Proof. exact parse_packet_skip. Qed.
Print Assumptions C19_skip_local.

(* what successive NextPacket calls return with a skipper is what they return, without one, on the stream from
   which the selected packets were deleted — for every stream (list of packet-sized buffers) and every predicate *)
Theorem C19_skipper_is_deletion : forall skip fuel bufs,
  all_packets fuel skip bufs = all_packets fuel no_skip (kept skip bufs).
Proof. exact skipper_is_deletion_all. Qed.
Print Assumptions C19_skipper_is_deletion.

(* a skipped packet is never returned *)
Theorem C19_never_returned : forall skip bufs p, fst (first_unskipped skip bufs) = Ok p ->
  exists b, In b bufs /\ skipped skip b = false /\ run_iter (parse_packet no_skip) b = Ok p.
Proof. exact skipped_never_returned. Qed.
Print Assumptions C19_never_returned.

(* packetBuffer.next over a reader IS first_unskipped over the reader's packet-sized buffers: result, reader state
   and the bytes left (any packet size >= 188, any byte values, a truncated tail at the end) *)
Theorem C19_reader_refinement : forall skip size bufs fuel r tail, C_MpegTsPacketSize <= size ->
  reader_ok r -> r_rest r = concat bufs ++ tail -> Forall (buf_ok size) bufs ->
  Z.of_nat (length tail) < size -> (length bufs < fuel)%nat ->
  fst (fst (pb_next fuel skip size r)) = fst (first_unskipped skip bufs) /\
  reader_ok (snd (fst (pb_next fuel skip size r))) /\
  (fst (first_unskipped skip bufs) <> Err E_nomore ->
   r_rest (snd (fst (pb_next fuel skip size r))) = concat (snd (first_unskipped skip bufs)) ++ tail).
Proof. exact pb_next_refines. Qed.
Print Assumptions C19_reader_refinement.

(* PacketsParser: skip=false (no data) leaves the default output unchanged; skip=true substitutes exactly its data *)
Theorem C19_parser_false : forall P f pm ps, f ps = Ok ([], false) ->
  parse_data P (Some f) pm ps = parse_data P None pm ps.
Proof. exact parser_skip_false. Qed.
Print Assumptions C19_parser_false.

Theorem C19_parser_true : forall P f pm ps ds, f ps = Ok (ds, true) -> parse_data P (Some f) pm ps = Ok ds.
Proof. exact parser_skip_true. Qed.
Print Assumptions C19_parser_true.

(* the groups handed to parseData (and so to the PacketsParser) are never empty *)
Theorem C19_groups_nonempty : forall P prs skip fuel s, Forall (fun g => g <> []) (d_groups s) ->
  Forall (fun g => g <> []) (d_groups (snd (next_data_loop P prs skip fuel s))).
Proof. exact groups_nonempty. Qed.
Print Assumptions C19_groups_nonempty.

(* ---- packetBuffer.next IS the source ----
   Gen/DemuxGen.v (Section PacketBuffer) is translated from the current /repo/packet_buffer.go on every run
   (go/gen/demuxgen.go).  packet_buffer_next, through which every theorem above sees packetBuffer.next, is the
   regenerated function with io.ReadFull and parsePacket instantiated by the model's read_full and parse_packet
   (Proofs/DemuxGenEq.v): same packet or error class (ErrNoMorePackets recognisable with ==, as NextPacket needs), same
   reader afterwards, same packets handed to the skipper, the read buffer kept at the packet size; Panicked exactly for
   a negative packet size.  The reader's own failure is EExt wr for an arbitrary wr (it may wrap io.EOF): replacing
   `err == io.EOF` by errors.Is, bounding the packets skipped in a row, or changing which errors are wrapped breaks
   this proof.  Fuel S (packets_left r size) suffices.  Hypotheses: the reader's bookkeeping is consistent (true of
   every reader the model builds and keeps), and parse_packet never answers with the "no more packets" code
   (C03_packet_no_panic: its errors are generic / sync / skipped). *)
Require Import Gen.DemuxGen Proofs.DemuxGenEq Proofs.DemuxGenEqBuf.

Theorem C19_next_is_source : forall (err_of : Z -> gerr),
  (forall c, code_x (err_of c) = norm c) -> (forall c, gerr_is (err_of c) e_skipped = (c =? E_skipped)) ->
  forall (wr : gerr) skip, (forall bs c, run_iter (parse_packet skip) bs = Err c -> c <> E_nomore) ->
  forall size r pm g cons kd buf, size <> 0 -> rest_len r ->
  match packetBuffer_next mworld rkind (read_full_m wr) (parse_packet_m err_of) size (Some (embed_skip skip)) kd buf
          (S (packets_left r size)) (mk_mworld r pm g cons) with
  | Done (buf', p, err, w') =>
      res_rel_exact p err (fst (fst (packet_buffer_next skip (mk_pbuf size) r))) /\
      w' = mk_mworld (snd (fst (packet_buffer_next skip (mk_pbuf size) r))) pm g
                     (cons ++ snd (packet_buffer_next skip (mk_pbuf size) r)) /\
      Z.of_nat (length buf') = size
  | Panicked => fst (fst (packet_buffer_next skip (mk_pbuf size) r)) = Panic
  | OutOfFuel => False
  end.
Proof. exact pb_next_is_generated. Qed.
Print Assumptions C19_next_is_source.

(* the three hypotheses on the representation of errors are satisfiable *)
Theorem C19_errors_representable :
  (forall c, gerr_eqb (err_of_plain ENew c) e_nomore = (c =? E_nomore)) /\
  (forall c, code_x (err_of_plain ENew c) = norm c) /\
  (forall c, gerr_is (err_of_plain ENew c) e_skipped = (c =? E_skipped)).
Proof.
  split; [apply err_of_plain_ok|split; [apply err_of_plain_ok|]].
  intros c. unfold err_of_plain, E_nomore, E_injected, E_sync, E_skipped.
  destruct (Z.eqb_spec c 1); [subst; reflexivity|]. destruct (Z.eqb_spec c 7); [subst; reflexivity|].
  destruct (Z.eqb_spec c 2); [subst; reflexivity|]. destruct (Z.eqb_spec c 3); [subst; reflexivity|]. reflexivity.
Qed.
Print Assumptions C19_errors_representable.

(* NewDemuxer and the options DemuxerOptPacketSkipper / DemuxerOptPacketsParser are regenerated too (Gen/RestGen.v,
   go/gen/restgen.go).  For EVERY option list the regenerated constructor (instantiated with the model's types:
   new_demuxer of Proofs/RestGenDemux.v) stores as packet skipper and as packets parser exactly what the last option of
   that kind handed over (nil when there is none: every packet is kept, every group parsed by the library), and the rest
   of the state is init_dstate: the `skip` and `prs` arguments of the theorems above are the callbacks of the options.
   An option that stores its callback in another field, or a constructor that resets them, breaks this proof. *)
Require Import Gen.RestGen Proofs.RestGenPm Proofs.RestGenDemux.
Theorem C19_options_are_source : forall (PP PS : Type) r (opts : list (gopt PP PS)),
  let d := new_demuxer PP PS r opts in
  dstate_of PP PS d = init_dstate r (opts_packet_size PP PS opts 0) /\
  Demuxer_optPacketSize d = opts_packet_size PP PS opts 0 /\
  Demuxer_optPacketsParser d = opts_parser PP PS opts None /\
  Demuxer_optPacketSkipper d = opts_skipper PP PS opts None /\
  Demuxer_dataBuffer d = [] /\ Demuxer_packetBuffer d = None /\ Demuxer_packetPool d = Some [] /\
  Demuxer_programMap d = Some (newProgramMap lm_make) /\ Demuxer_r d = r.
Proof. exact new_demuxer_is_generated. Qed.
Print Assumptions C19_options_are_source.
Example C19_options_are_source_inhabited : forall r,
  let d := new_demuxer nat nat r [DemuxerOptPacketSize 192; DemuxerOptPacketSkipper (Some 1%nat); DemuxerOptLogger tt;
                                  DemuxerOptPacketsParser (Some 2%nat); DemuxerOptPacketSize 204;
                                  DemuxerOptPacketSkipper None] in
  dstate_of nat nat d = init_dstate r 204 /\ Demuxer_optPacketsParser d = Some 2%nat /\ Demuxer_optPacketSkipper d = None.
Proof. exact new_demuxer_example. Qed.

(* ---- parseData's dispatch — the PacketsParser consulted first, its skip flag, what happens to the data it returns —
   IS the source (the statement of C02_parse_data_is_source, quoted here because C19_parser_false / _true are about
   exactly this function: a fallback that hands out the parser's data although it said skip = false changes
   Gen/DemuxGen.v and this proof stops checking) ---- *)
Require Import Proofs.DemuxGenEqParse.
Theorem C19_parse_data_is_source : forall (W : Type) (get : W -> Z -> outcome (list Z * W)),
  (forall w n, 0 <= n -> exists bs w', get w n = Done (bs, w') /\ Z.of_nat (length bs) = n) ->
  forall (err_of : Z -> gerr), (forall c, code_x (err_of c) = norm c) ->
  forall psi_parse to_data pes_parse ps gprs pm w, generic_errors gprs ->
  match parseData W get (psi_m W err_of psi_parse) (to_data_m W to_data) (pes_m W err_of pes_parse)
                  ps gprs (pm_mem pm) w with
  | Done (ds, None, _) => parse_data (parsers_of psi_parse to_data pes_parse) (option_map unembed_parser gprs) pm ps = Ok ds
  | Done (_, Some e, _) =>
      exists c, parse_data (parsers_of psi_parse to_data pes_parse) (option_map unembed_parser gprs) pm ps = Err c /\
                code_x e = norm c
  | Panicked | OutOfFuel =>
      parse_data (parsers_of psi_parse to_data pes_parse) (option_map unembed_parser gprs) pm ps = Panic
  end.
Proof. exact parse_data_is_generated. Qed.
Print Assumptions C19_parse_data_is_source.
