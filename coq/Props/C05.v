(* Property C05 — continuity counters advance by one per payload packet (theorems only; proofs in Proofs/MuxerProofs.v).

   Vocabulary (Spec/MuxSpec.v): a run of the model yields per call a [part]: result, n, the groups of Write calls and,
   as ghost output, the Packet records that were serialised completely ([pa_pkts]); [muxer_pkts] drops the packet a
   WritePacket call was handed (its counter is the caller's); [payload_ccs pid] are the 4-bit continuity counters of
   the payload-carrying packets of a PID; [emitted_ccs pid] collects them over a run.
   Hypotheses: no call of the history panicked (nil dereference in the caller's structures) and every WriteData got an
   adaptation field whose writer-internal members are zero on entry (DESIGN.md S1). *)
From Coq Require Import ZArith List.
Require Import Base.Iter Base.Wr Gen.Consts Gen.Types Model.Packet Model.Muxer Spec.MuxSpec Proofs.MuxerProofs Proofs.MuxerExamples.
Import ListNotations.
Open Scope Z_scope.

(* a call that emits no payload packet on a PID consumes no counter value of that PID: failed WriteTables (the PAT
   counter advanced by generatePAT is restored), failed or empty WriteData, adaptation-field-only packets *)
Theorem C05_no_burn : forall period ops o s' p,
  let s := fst (mux_run_parts (new_muxer period) ops) in
  no_panic (snd (mux_run_parts (new_muxer period) ops)) -> Forall op_entry_ok ops -> op_entry_ok o ->
  mux_step_part s o = (s', p) -> pa_res p <> Panic ->
  (forall pid c, pid <> C_PIDPAT -> pid <> C_pmtStartPID -> es_cc pid s = Some c ->
     payload_ccs pid (muxer_pkts o p) = [] -> removes pid o p = false -> es_cc pid s' = Some c) /\
  (payload_ccs C_PIDPAT (muxer_pkts o p) = [] -> ms_pat_cc s' = ms_pat_cc s) /\
  (payload_ccs C_pmtStartPID (muxer_pkts o p) = [] -> ms_pmt_cc s' = ms_pmt_cc s).
Proof. exact no_burn. Qed.
Print Assumptions C05_no_burn.

(* elementary streams: over the WHOLE history the counters of consecutive payload packets of a PID step by one mod 16;
   a PID that is removed and added again (explicitly, or by automatic assignment) carries on where it stopped *)
Theorem C05_cc : forall period ops pid, pid <> C_PIDPAT -> pid <> C_pmtStartPID ->
  no_panic (snd (mux_run_parts (new_muxer period) ops)) -> Forall op_entry_ok ops ->
  chain16 (emitted_ccs pid (combine ops (snd (mux_run_parts (new_muxer period) ops)))).
Proof. exact cc_chain_es. Qed.
Print Assumptions C05_cc.

(* PAT (pat = true) and PMT (pat = false): one chain over the whole run, as long as no elementary stream is ever
   configured on the table's own PID (explicit PID 0x1000, or an automatic PID after nextPID wrapped: S2) *)
Theorem C05_cc_tables : forall (pat : bool) period ops,
  no_panic (snd (mux_run_parts (new_muxer period) ops)) -> Forall op_entry_ok ops ->
  Forall (fun st => es_mem (table_pid pat) (ms_es st) = false) (mux_states (new_muxer period) ops) ->
  chain16 (emitted_ccs (table_pid pat) (combine ops (snd (mux_run_parts (new_muxer period) ops)))).
Proof. exact cc_chain_tables. Qed.
Print Assumptions C05_cc_tables.

(* the ghost packets are what is on the wire: group by group a call's Write calls concatenate to the serialisation of
   its packets, and the first four bytes of a serialised packet are the sync byte, the 13-bit PID,
   payload_unit_start_indicator, the payload flag and the 4-bit continuity_counter of the Packet record *)
Theorem C05_packets_are_bytes : forall s o,
  map (@concat Z) (pa_groups (snd (mux_step_part s o))) = map pkt_bytes (pa_pkts (snd (mux_step_part s o))) /\
  Forall (fun q => exists its, enc_packet q C_MpegTsPacketSize = Ok its) (pa_pkts (snd (mux_step_part s o))).
Proof. exact step_part_tied. Qed.
Print Assumptions C05_packets_are_bytes.

Theorem C05_header_readback : forall p target its, enc_packet p target = Ok its ->
  exists b1 b2 b3 tail,
    bytes_of_items its = syncByte :: b1 :: b2 :: b3 :: tail /\
    (b1 mod 32) * 256 + b2 = pkt_pid p mod 8192 /\
    (b1 / 64) mod 2 = Z.b2z (PacketHeader_PayloadUnitStartIndicator (Packet_Header p)) /\
    (b3 / 16) mod 2 = Z.b2z (pkt_has_payload p) /\
    b3 mod 16 = pkt_cc p.
Proof. exact packet_header_readback. Qed.
Print Assumptions C05_header_readback.

(* the hypotheses are met by a concrete history; its counters *)
Example C05_example :
  no_panic (snd ex_run) /\ Forall op_entry_ok ex_ops /\
  emitted_ccs 257 (combine ex_ops (snd ex_run)) = [0; 1; 2; 3; 4; 5; 6; 7; 8; 9; 10; 11; 12; 13; 14; 15; 0; 1; 2; 3; 4] /\
  emitted_ccs 256 (combine ex_ops (snd ex_run)) = [0; 1] /\
  emitted_ccs C_PIDPAT (combine ex_ops (snd ex_run)) = [0; 1; 2; 3].
Proof. split; [exact ex_no_panic|]. split; [exact ex_entry_ok|]. vm_compute. repeat split. Qed.

(* ---- the functions that create, keep and restore the counters ARE the source ----
   Gen/MuxGen.v is translated from the current /repo/muxer.go on every run (go/gen/muxgen*.go). add_es / remove_es
   (the counter of a removed PID is kept in removedCCs and handed back when the PID is added again) and
   write_tables (the snapshot of the six counters and flags, restored when a table cannot be generated) are those
   regenerated functions; a cap on removedCCs, a narrowed snapshot or a reordered generatePAT / generatePMT changes
   Gen/MuxGen.v and breaks these proofs without a generated history having to reach the change. *)
Require Import Gen.Preds Gen.MuxGen Model.Psi Model.Desc Proofs.MuxGenEq.
Import ListNotations.
Open Scope Z_scope.

Theorem C05_add_remove_is_source : forall s,
  (forall es pb,
     add_es s es = add_of_gen s (Muxer_AddElementaryStream ge_get ge_set gr_del gr_get (S (S (length (ms_es s))))
                                   (pmt_of s) (ms_pmt_updated s) (ms_next_pid s) pb (ms_es s) (ms_removed s) es)) /\
  (forall pid pb,
     remove_es s pid =
     remove_of_gen s (Muxer_RemoveElementaryStream ge_del ge_get gr_set (pmt_of s) (ms_pmt_updated s) pb (ms_es s)
                        (ms_removed s) pid)) /\
  (forall es, new_es_context es = ctx_mod (newEsContext es)).
Proof.
  intros s. split; [exact (add_es_of_generated s)|]. split; [exact (remove_es_of_generated s)|exact new_es_context_is_generated].
Qed.
Print Assumptions C05_add_remove_is_source.

(* the association lists of the model behave as the two Go maps *)
Theorem C05_maps_are_maps : forall (l : list (Z * esctx)) (r : list (Z * wrappingCounter)) k c cc x,
  (ge_get (ge_set l k (ctx_gen c)) x = (if k =? x then Some (ctx_gen c) else ge_get l x) /\
   ge_get (ge_del l k) x = (if k =? x then None else ge_get l x)) /\
  (gr_get (gr_set r k cc) x = (if k =? x then Some cc else gr_get r x) /\
   gr_get (gr_del r k) x = (if k =? x then None else gr_get r x)).
Proof. intros. split; [apply ge_map_model|apply gr_map_model]. Qed.
Print Assumptions C05_maps_are_maps.

(* WriteTables: snapshot, generatePAT, generatePMT, restore on error, the two writes *)
Theorem C05_restore_is_source : forall s pb mb buf, pa_res (snd (write_tables s)) <> Panic ->
  let '(w, pmu, pmtu, patv, pmtv, patcc, pmtcc, _, _, _, n, e) :=
    Muxer_WriteTables calc_descriptor_length calc_pmt_section_length g_write to_pat g_wpsi g_wpkt
      (@nil (list Z)) C_MpegTsPacketSize mux_pm (ms_pm_updated s) (pmt_of s) (ms_pmt_updated s)
      (ms_pat_version s) (ms_pmt_version s) (ms_pat_cc s) (ms_pmt_cc s) pb mb buf in
  fst (write_tables s) = set_tables s patv pmtv patcc pmtcc pmu pmtu /\
  mout_of_part (snd (write_tables s)) = mk_mout (terr_res e) n (groups_of w).
Proof. exact write_tables_of_generated. Qed.
Print Assumptions C05_restore_is_source.

(* ---- the packetisation is the source ----
   Where WriteData takes the continuity counter (ctx.cc.get() for the packet literal, ctx.cc.inc() only in the branch that
   writes payload) is read off muxer.go on every run: go/gen (writegen.go) translates the packetisation loop into
   Gen/WriteGen.v (Muxer_WriteData_rest; the context the map points to is threaded as a value and stored back), and for
   every state and argument on which the model's write_data does not panic the translated prefix of Gen/MuxGen.v applied
   to it returns the model's result, count and Write calls and leaves every stream's counter - and the two table
   counters - as the model does.  An edit of the loop (the counter taken once per call, incremented for a packet without
   payload, ...) regenerates Gen/WriteGen.v and this theorem (Proofs/WriteGenMux.v) stops checking. *)
Require Import Gen.WriteGen Proofs.WriteGenBase Proofs.WriteGenMux.
Theorem C05_write_data_is_source : forall s d pb mb buf,
  pa_res (snd (write_data s d)) <> Panic ->
  exists s',
    Muxer_WriteData_until_loop calc_descriptor_length calc_pmt_section_length g_write ge_get to_pat g_wpsi g_wpkt
      (wd_ret_src s) (wd_rest_src s)
      (@nil (list Z)) C_MpegTsPacketSize (ms_period s) mux_pm (ms_pm_updated s) (pmt_of s) (ms_pmt_updated s)
      (ms_pat_version s) (ms_pmt_version s) (ms_pat_cc s) (ms_pmt_cc s) pb mb buf (ms_es s) (ms_retransmit s) d
    = Some (s', flat_of (snd (write_data s d))) /\
    (forall pid, option_map ec_cc (es_find pid (ms_es s')) = option_map ec_cc (es_find pid (ms_es (fst (write_data s d))))) /\
    ms_pat_cc s' = ms_pat_cc (fst (write_data s d)) /\ ms_pmt_cc s' = ms_pmt_cc (fst (write_data s d)).
Proof. exact write_data_counters_are_source. Qed.
Print Assumptions C05_write_data_is_source.
(* the translated WriteData runs: 400 payload bytes behind an adaptation field are three payload packets, the stream's
   counter goes from its initial 16 to 2 (16 -> 0, 1, 2: the writer keeps the low four bits) *)
Example C05_write_data_is_source_inhabited :
  let s := fst (mux_run_parts (new_muxer 2) [MAdd (ex_es 257); MSetPCR 257]) in
  let d := ex_data 257 (Some ex_af) 400 in
  exists s',
    Muxer_WriteData_until_loop calc_descriptor_length calc_pmt_section_length g_write ge_get to_pat g_wpsi g_wpkt
      (wd_ret_src s) (wd_rest_src s)
      (@nil (list Z)) C_MpegTsPacketSize (ms_period s) mux_pm (ms_pm_updated s) (pmt_of s) (ms_pmt_updated s)
      (ms_pat_version s) (ms_pmt_version s) (ms_pat_cc s) (ms_pmt_cc s) [] [] [] (ms_es s) (ms_retransmit s) d
    = Some (s', flat_of (snd (write_data s d))) /\
    option_map (fun c => wrappingCounter_get (ec_cc c)) (es_find 257 (ms_es s)) = Some 16 /\
    option_map (fun c => wrappingCounter_get (ec_cc c)) (es_find 257 (ms_es s')) = Some 2.
Proof. eexists. split; [vm_compute; reflexivity|]. split; vm_compute; reflexivity. Qed.
