(* Property C05 (theorems only; proofs in Proofs/MuxerProofs.v). *)
