(* Property C14 — descriptors; declared lengths always match emitted bytes (theorems only; proofs in Proofs/DescProofs.v).
   Model: Model/Desc.v (hand-written from descriptor.go, run against the implementation on every check);
   calcDescriptor<X>Length: Gen/Preds.v (re-translated from descriptor.go on every run);
   Spec: Spec/DescSpec.v (body sizes from the standards as plain integers, the TLV split as a relation on bytes). *)
From Coq Require Import ZArith List Lia.
Require Import Base.Bits Base.Iter Base.Wr Gen.Consts Gen.Types Gen.Preds Model.Desc Spec.DescSpec Spec.DvbSpec Spec.DescSpec2 Proofs.DescProofs Proofs.DescRoundTrip2 Proofs.DescRoundTrip3 Proofs.DescRoundTrip4 Proofs.DescRoundTripAll Proofs.DescWrite2.
Import ListNotations.
Open Scope Z_scope.

(* (a) writeDescriptorsWithLength: the 12-bit loop length is the number of bytes that follow it and every
   length byte is the number of body bytes behind it — for ARBITRARY Descriptor_Length fields (the theorem does
   not mention them).  Guard: no body exceeds 255 bytes (no uint8 wrap in calcDescriptorLength) and the loop
   fits its 12-bit length.  items_bytes_ok: byte strings hold bytes (the invariant of Go's []byte).
   loop_bytes ds bodies = tag_1, length_1, body_1, tag_2, ... with length_k = calc_descriptor_length d_k. *)
Theorem C14_len : forall ds out,
  enc_descriptors_with_length ds = Ok out -> items_bytes_ok out ->
  Forall (fun d => desc_size d < 256) ds -> loop_size ds < 4096 ->
  let bytes := bytes_of_items out in
  exists hdr bodies,
    bytes = hdr ++ loop_bytes ds bodies /\ zlen hdr = 2 /\
    Forall2 (fun d b => zlen b = calc_descriptor_length d /\ zlen b = desc_size d) ds bodies /\
    bitsf bytes 4 12 = zlen bytes - 2 /\
    zlen bytes = 2 + loop_size ds.
Proof. exact descriptors_with_length_exact. Qed.
Print Assumptions C14_len.

(* the guard is satisfiable, with struct Length fields that are wrong (99), left 0, and a list-valued body *)
Definition ex_ds : list Descriptor :=
  [ set_StreamIdentifier (desc_hdr 82 99) {| DescriptorStreamIdentifier_ComponentTag := 7 |};
    set_Unknown (desc_hdr 3 0) {| DescriptorUnknown_Content := [1; 2; 3]; DescriptorUnknown_Tag := 3 |};
    set_Content (desc_hdr 84 200) {| DescriptorContent_Items :=
      [ {| DescriptorContentItem_ContentNibbleLevel1 := 1; DescriptorContentItem_ContentNibbleLevel2 := 2; DescriptorContentItem_UserByte := 3 |};
        {| DescriptorContentItem_ContentNibbleLevel1 := 15; DescriptorContentItem_ContentNibbleLevel2 := 0; DescriptorContentItem_UserByte := 255 |} ] |} ].
Example C14_len_example : exists out,
  enc_descriptors_with_length ex_ds = Ok out /\ items_bytes_ok out /\
  Forall (fun d => desc_size d < 256) ex_ds /\ loop_size ex_ds < 4096 /\
  bytes_of_items out = [240; 14; 82; 1; 7; 3; 3; 1; 2; 3; 84; 4; 18; 3; 240; 255].
Proof.
  eexists. split; [vm_compute; reflexivity|]. split; [repeat constructor; cbv; intuition discriminate|].
  split; [repeat constructor|]. split; reflexivity.
Qed.

(* what happens in general, including uint8 wrap: the length byte is the body size modulo 256; the body is
   written in full unless that residue is 0, in which case no body is written at all *)
Theorem C14_len_any : forall d its, enc_descriptor d = Ok its -> items_bytes_ok its ->
  exists body,
    bytes_of_items its = [Descriptor_Tag d mod 256; calc_descriptor_length d mod 256] ++ body /\
    calc_descriptor_length d = desc_size d mod 256 /\
    zlen body = (if desc_size d mod 256 =? 0 then 0 else desc_size d).
Proof. exact descriptor_any_len. Qed.
Print Assumptions C14_len_any.

(* a 256-byte body announces 0 and writes nothing; a 300-byte body announces 44 and writes 300 bytes *)
Example C14_wrap_256 :
  res_map bytes_of_items (enc_descriptor (set_Unknown (desc_hdr 3 0) {| DescriptorUnknown_Content := repeat 170 256; DescriptorUnknown_Tag := 3 |}))
  = Ok [3; 0].
Proof. vm_compute. reflexivity. Qed.
Example C14_wrap_300 :
  res_map (fun its => (firstn 2 (bytes_of_items its), zlen (bytes_of_items its)))
    (enc_descriptor (set_Unknown (desc_hdr 3 0) {| DescriptorUnknown_Content := repeat 170 300; DescriptorUnknown_Tag := 3 |}))
  = Ok ([3; 44], 302).
Proof. vm_compute. reflexivity. Qed.

(* (b) parseDescriptors never shifts what follows.  First with the body parser abstracted: ANY function that
   returns Ok/Err/Panic and leaves the byte slice of the iterator alone (body_pres).  On success the result is
   tlv_parse: the loop is split at tag/length boundaries only — entry k starts where entry k-1 started plus 2
   plus its declared length — and descriptor k is what the body parser returns when it is run on the untouched
   buffer at entry k's own body with entry k's own declared end, independently of what the earlier bodies
   consumed; the iterator is left at the end of the last entry. *)
Theorem C14_tlv_any_body : forall body bs pos ds i', body_pres body ->
  parse_descriptors_with body (mk_iter bs pos) = Ok (ds, i') ->
  0 <= pos /\ pos + 2 <= zlen bs /\ ibs i' = bs /\
  tlv_parse desc_hdr body bs (pos + 2 + loop_length_at bs pos) (pos + 2) ds (ioff i').
Proof. exact parse_descriptors_tlv. Qed.
Print Assumptions C14_tlv_any_body.

(* instantiated with the 23 typed parsers, unknown and user-defined tags: the tags and lengths returned are
   exactly the TLV entries of the loop (tlv_chain is a function of the bytes alone: tlv_chain_det), and the
   iterator ends at the first entry boundary at or after the declared end of the loop *)
Theorem C14_tlv : forall bs pos ds i', bytes_ok bs ->
  parse_descriptors (mk_iter bs pos) = Ok (ds, i') ->
  let endp := pos + 2 + loop_length_at bs pos in
  ibs i' = bs /\
  tlv_parse desc_hdr parse_descriptor_body bs endp (pos + 2) ds (ioff i') /\
  exists es, tlv_chain bs endp (pos + 2) es (ioff i') /\
             map (fun d => (Descriptor_Tag d, Descriptor_Length d)) ds = map (fun e => (snd (fst e), snd e)) es /\
             endp <= ioff i'.
Proof. exact parse_descriptors_framing. Qed.
Print Assumptions C14_tlv.

Theorem C14_tlv_entries_unique : forall bs endp pos es fin, tlv_chain bs endp pos es fin ->
  forall es' fin', tlv_chain bs endp pos es' fin' -> es' = es /\ fin' = fin.
Proof. exact tlv_chain_det. Qed.
Print Assumptions C14_tlv_entries_unique.

(* exactly 2 + loop length bytes are consumed iff the last entry ends at the declared end of the loop *)
Theorem C14_tlv_consumed : forall bs endp pos es fin, tlv_chain bs endp pos es fin ->
  (es = [] /\ fin = pos) \/ (es <> [] /\ exists p t l, last es (0, 0, 0) = (p, t, l) /\ fin = p + 2 + l).
Proof. exact tlv_chain_exact. Qed.
Print Assumptions C14_tlv_consumed.

(* an AVC video descriptor (4 body bytes) declared with length 2: its parser reads into the next entry, yet
   the stream identifier that follows is decoded from its own boundary *)
Example C14_tlv_example :
  match parse_descriptors (new_iter [240; 7; 40; 2; 1; 2; 82; 1; 9]) with
  | Ok ([a; s], i) => (Descriptor_Tag a, Descriptor_Length a, Descriptor_StreamIdentifier s, ioff i)
                      = (40, 2, Some {| DescriptorStreamIdentifier_ComponentTag := 9 |}, 9)
  | _ => False
  end.
Proof. vm_compute. reflexivity. Qed.

(* an entry that overruns the declared loop end (loop length 2, entry of 2 + 5 bytes): the parser follows the
   entry's own length, the iterator ends at 9, beyond 2 + 2 *)
Example C14_tlv_overrun_example :
  match parse_descriptors (new_iter [240; 2; 82; 5; 1; 2; 3; 4; 5; 77]) with
  | Ok ([s], i) => (Descriptor_Length s, ioff i) = (5, 9)
  | _ => False
  end.
Proof. vm_compute. reflexivity. Qed.

(* (c) round trips, one descriptor in a loop with its 12-bit length: parsing what writeDescriptorsWithLength emits
   for d (whose Descriptor_Length and foreign bodies are arbitrary) yields the body of d under the header (tag,
   size), and the iterator stops behind the loop.  Domains: numeric fields within their width (byte_range = 0..255),
   bodies of 1..255 bytes.  (The byte strings written are compared with the independent Go reference encoder
   by the implementation-side oracle on every run.) *)
Theorem C14_rt_stream_identifier : forall d v out rest,
  Descriptor_Tag d = 82 -> Descriptor_StreamIdentifier d = Some v ->
  byte_range (DescriptorStreamIdentifier_ComponentTag v) ->
  enc_descriptors_with_length [d] = Ok out -> items_bytes_ok out ->
  parse_descriptors (new_iter (bytes_of_items out ++ rest)) =
    Ok ([set_StreamIdentifier (desc_hdr 82 1) v], mk_iter (bytes_of_items out ++ rest) 5).
Proof. exact rt_stream_identifier. Qed.
Print Assumptions C14_rt_stream_identifier.

Theorem C14_rt_data_stream_alignment : forall d v out rest,
  Descriptor_Tag d = 6 -> Descriptor_DataStreamAlignment d = Some v ->
  byte_range (DescriptorDataStreamAlignment_Type v) ->
  enc_descriptors_with_length [d] = Ok out -> items_bytes_ok out ->
  parse_descriptors (new_iter (bytes_of_items out ++ rest)) =
    Ok ([set_DataStreamAlignment (desc_hdr 6 1) v], mk_iter (bytes_of_items out ++ rest) 5).
Proof. exact rt_data_stream_alignment. Qed.
Print Assumptions C14_rt_data_stream_alignment.

Theorem C14_rt_user_defined : forall d out rest,
  128 <= Descriptor_Tag d <= 254 -> 0 < zlen (Descriptor_UserDefined d) < 256 ->
  enc_descriptors_with_length [d] = Ok out -> items_bytes_ok out ->
  parse_descriptors (new_iter (bytes_of_items out ++ rest)) =
    Ok ([set_UserDefined (desc_hdr (Descriptor_Tag d) (zlen (Descriptor_UserDefined d))) (Descriptor_UserDefined d)],
        mk_iter (bytes_of_items out ++ rest) (4 + zlen (Descriptor_UserDefined d))).
Proof. exact rt_user_defined. Qed.
Print Assumptions C14_rt_user_defined.

Theorem C14_rt_unknown : forall d v out rest,
  0 <= Descriptor_Tag d < 256 -> is_user_defined (Descriptor_Tag d) = false -> ~ In (Descriptor_Tag d) typed_tags ->
  Descriptor_Unknown d = Some v -> DescriptorUnknown_Tag v = Descriptor_Tag d -> 0 < zlen (DescriptorUnknown_Content v) < 256 ->
  enc_descriptors_with_length [d] = Ok out -> items_bytes_ok out ->
  parse_descriptors (new_iter (bytes_of_items out ++ rest)) =
    Ok ([set_Unknown (desc_hdr (Descriptor_Tag d) (zlen (DescriptorUnknown_Content v))) v],
        mk_iter (bytes_of_items out ++ rest) (4 + zlen (DescriptorUnknown_Content v))).
Proof. exact rt_unknown. Qed.
Print Assumptions C14_rt_unknown.

Theorem C14_rt_network_name : forall d v out rest,
  Descriptor_Tag d = 64 -> Descriptor_NetworkName d = Some v -> 0 < zlen (DescriptorNetworkName_Name v) < 256 ->
  enc_descriptors_with_length [d] = Ok out -> items_bytes_ok out ->
  parse_descriptors (new_iter (bytes_of_items out ++ rest)) =
    Ok ([set_NetworkName (desc_hdr 64 (zlen (DescriptorNetworkName_Name v))) v],
        mk_iter (bytes_of_items out ++ rest) (4 + zlen (DescriptorNetworkName_Name v))).
Proof. exact rt_network_name. Qed.
Print Assumptions C14_rt_network_name.

Theorem C14_rt_private_data_indicator : forall d v out rest,
  Descriptor_Tag d = 15 -> Descriptor_PrivateDataIndicator d = Some v ->
  0 <= DescriptorPrivateDataIndicator_Indicator v < 2 ^ 32 ->
  enc_descriptors_with_length [d] = Ok out -> items_bytes_ok out ->
  parse_descriptors (new_iter (bytes_of_items out ++ rest)) =
    Ok ([set_PrivateDataIndicator (desc_hdr 15 4) v], mk_iter (bytes_of_items out ++ rest) 8).
Proof. exact rt_private_data_indicator. Qed.
Print Assumptions C14_rt_private_data_indicator.

Theorem C14_rt_private_data_specifier : forall d v out rest,
  Descriptor_Tag d = 95 -> Descriptor_PrivateDataSpecifier d = Some v ->
  0 <= DescriptorPrivateDataSpecifier_Specifier v < 2 ^ 32 ->
  enc_descriptors_with_length [d] = Ok out -> items_bytes_ok out ->
  parse_descriptors (new_iter (bytes_of_items out ++ rest)) =
    Ok ([set_PrivateDataSpecifier (desc_hdr 95 4) v], mk_iter (bytes_of_items out ++ rest) 8).
Proof. exact rt_private_data_specifier. Qed.
Print Assumptions C14_rt_private_data_specifier.

(* Bitrate is a multiple of 50 below 50 * 2^22 *)
Theorem C14_rt_maximum_bitrate : forall d v k out rest,
  Descriptor_Tag d = 14 -> Descriptor_MaximumBitrate d = Some v ->
  DescriptorMaximumBitrate_Bitrate v = k * 50 -> 0 <= k < 2 ^ 22 ->
  enc_descriptors_with_length [d] = Ok out -> items_bytes_ok out ->
  parse_descriptors (new_iter (bytes_of_items out ++ rest)) =
    Ok ([set_MaximumBitrate (desc_hdr 14 3) v], mk_iter (bytes_of_items out ++ rest) 7).
Proof. exact rt_maximum_bitrate. Qed.
Print Assumptions C14_rt_maximum_bitrate.

Theorem C14_rt_registration : forall d v out rest,
  Descriptor_Tag d = 5 -> Descriptor_Registration d = Some v ->
  0 <= DescriptorRegistration_FormatIdentifier v < 2 ^ 32 ->
  zlen (DescriptorRegistration_AdditionalIdentificationInfo v) < 252 ->
  enc_descriptors_with_length [d] = Ok out -> items_bytes_ok out ->
  parse_descriptors (new_iter (bytes_of_items out ++ rest)) =
    Ok ([set_Registration (desc_hdr 5 (4 + zlen (DescriptorRegistration_AdditionalIdentificationInfo v))) v],
        mk_iter (bytes_of_items out ++ rest) (8 + zlen (DescriptorRegistration_AdditionalIdentificationInfo v))).
Proof. exact rt_registration. Qed.
Print Assumptions C14_rt_registration.

(* language code of exactly 3 bytes *)
Theorem C14_rt_iso639 : forall d v out rest,
  Descriptor_Tag d = 10 -> Descriptor_ISO639LanguageAndAudioType d = Some v ->
  length (DescriptorISO639LanguageAndAudioType_Language v) = 3%nat ->
  byte_range (DescriptorISO639LanguageAndAudioType_Type v) ->
  enc_descriptors_with_length [d] = Ok out -> items_bytes_ok out ->
  parse_descriptors (new_iter (bytes_of_items out ++ rest)) =
    Ok ([set_ISO639LanguageAndAudioType (desc_hdr 10 4) v], mk_iter (bytes_of_items out ++ rest) 8).
Proof. exact rt_iso639. Qed.
Print Assumptions C14_rt_iso639.

Theorem C14_rt_service : forall d v out rest,
  Descriptor_Tag d = 72 -> Descriptor_Service d = Some v -> byte_range (DescriptorService_Type v) ->
  3 + zlen (DescriptorService_Provider v) + zlen (DescriptorService_Name v) < 256 ->
  enc_descriptors_with_length [d] = Ok out -> items_bytes_ok out ->
  parse_descriptors (new_iter (bytes_of_items out ++ rest)) =
    Ok ([set_Service (desc_hdr 72 (3 + zlen (DescriptorService_Provider v) + zlen (DescriptorService_Name v))) v],
        mk_iter (bytes_of_items out ++ rest) (4 + (3 + zlen (DescriptorService_Provider v) + zlen (DescriptorService_Name v)))).
Proof. exact rt_service. Qed.
Print Assumptions C14_rt_service.

(* all three constraint flags, both picture flags, 5 compatible-flag bits *)
Theorem C14_rt_avc_video : forall d v out rest,
  Descriptor_Tag d = 40 -> Descriptor_AVCVideo d = Some v ->
  byte_range (DescriptorAVCVideo_ProfileIDC v) -> byte_range (DescriptorAVCVideo_LevelIDC v) ->
  0 <= DescriptorAVCVideo_CompatibleFlags v < 32 ->
  enc_descriptors_with_length [d] = Ok out -> items_bytes_ok out ->
  parse_descriptors (new_iter (bytes_of_items out ++ rest)) =
    Ok ([set_AVCVideo (desc_hdr 40 4) v], mk_iter (bytes_of_items out ++ rest) 8).
Proof. exact rt_avc_video. Qed.
Print Assumptions C14_rt_avc_video.

(* the hypotheses of the round trips are satisfiable: a stream identifier whose struct Length is wrong *)
Example C14_rt_example :
  let d := set_StreamIdentifier (desc_hdr 82 77) {| DescriptorStreamIdentifier_ComponentTag := 200 |} in
  exists out, enc_descriptors_with_length [d] = Ok out /\ items_bytes_ok out /\
              bytes_of_items out = [240; 3; 82; 1; 200].
Proof. eexists. split; [vm_compute; reflexivity|]. split; [repeat constructor|reflexivity]. Qed.

(* (d) writing yields the reference encoding.  writeDescriptor emits tag, size, body (any tag, any value whose body
   is 1..255 bytes); the bodies of the byte-aligned tags are the layouts of Spec/DescSpec.v (EN 300 468 6.2,
   ISO/IEC 13818-1 2.6).  The remaining tags (bit-packed: AC-3, Enhanced AC-3, AVC, component, extended event,
   extension, local time offset, maximum bitrate, teletext, VBI) are compared with the independent Go reference
   encoder by the implementation-side oracle on every run. *)
Theorem C14_write_descriptor : forall d bi, enc_descriptor_body d = Ok bi -> items_bytes_ok bi ->
  0 <= Descriptor_Tag d < 256 -> 0 < desc_size d < 256 ->
  res_map bytes_of_items (enc_descriptor d) = Ok ([Descriptor_Tag d; desc_size d] ++ bytes_of_items bi).
Proof. exact write_descriptor_bytes. Qed.
Print Assumptions C14_write_descriptor.

Theorem C14_write_bodies :
  (forall v, byte_range (DescriptorStreamIdentifier_ComponentTag v) -> bytes_of_items (enc_stream_identifier v) = ref_stream_identifier v) /\
  (forall v, byte_range (DescriptorDataStreamAlignment_Type v) -> bytes_of_items (enc_data_stream_alignment v) = ref_data_stream_alignment v) /\
  (forall v, bytes_ok (DescriptorRegistration_AdditionalIdentificationInfo v) -> bytes_of_items (enc_registration v) = ref_registration v) /\
  (forall v, bytes_of_items (enc_private_data_indicator v) = ref_private_data_indicator v) /\
  (forall v, bytes_of_items (enc_private_data_specifier v) = ref_private_data_specifier v) /\
  (forall v, length (DescriptorISO639LanguageAndAudioType_Language v) = 3%nat -> bytes_ok (DescriptorISO639LanguageAndAudioType_Language v) ->
             byte_range (DescriptorISO639LanguageAndAudioType_Type v) -> bytes_of_items (enc_iso639 v) = ref_iso639 v) /\
  (forall v, bytes_ok (DescriptorNetworkName_Name v) -> bytes_of_items (enc_network_name v) = ref_network_name v) /\
  (forall v, bytes_ok (DescriptorUnknown_Content v) -> bytes_of_items (enc_unknown v) = ref_unknown v) /\
  (forall v, byte_range (DescriptorService_Type v) -> bytes_ok (DescriptorService_Provider v) -> bytes_ok (DescriptorService_Name v) ->
             zlen (DescriptorService_Provider v) < 256 -> zlen (DescriptorService_Name v) < 256 -> bytes_of_items (enc_service v) = ref_service v) /\
  (forall v, length (DescriptorShortEvent_Language v) = 3%nat -> bytes_ok (DescriptorShortEvent_Language v) ->
             bytes_ok (DescriptorShortEvent_EventName v) -> bytes_ok (DescriptorShortEvent_Text v) ->
             zlen (DescriptorShortEvent_EventName v) < 256 -> zlen (DescriptorShortEvent_Text v) < 256 ->
             bytes_of_items (enc_short_event v) = ref_short_event v) /\
  (forall v, Forall (fun it => length (DescriptorParentalRatingItem_CountryCode it) = 3%nat /\ bytes_ok (DescriptorParentalRatingItem_CountryCode it) /\
                               byte_range (DescriptorParentalRatingItem_Rating it)) (DescriptorParentalRating_Items v) ->
             bytes_of_items (enc_parental_rating v) = ref_parental_rating v) /\
  (forall v, Forall (fun it => length (DescriptorSubtitlingItem_Language it) = 3%nat /\ bytes_ok (DescriptorSubtitlingItem_Language it) /\
                               byte_range (DescriptorSubtitlingItem_Type it)) (DescriptorSubtitling_Items v) ->
             bytes_of_items (enc_subtitling v) = ref_subtitling v) /\
  (forall v, Forall (fun it => 0 <= DescriptorContentItem_ContentNibbleLevel1 it < 16 /\ 0 <= DescriptorContentItem_ContentNibbleLevel2 it < 16 /\
                               byte_range (DescriptorContentItem_UserByte it)) (DescriptorContent_Items v) ->
             bytes_of_items (enc_content v) = ref_content v).
Proof.
  repeat split.
  - exact write_stream_identifier. - exact write_data_stream_alignment. - exact write_registration.
  - exact write_private_data_indicator. - exact write_private_data_specifier. - exact write_iso639.
  - exact write_network_name. - exact write_unknown. - exact write_service. - exact write_short_event.
  - exact write_parental_rating. - exact write_subtitling. - exact write_content.
Qed.
Print Assumptions C14_write_bodies.

(* (e) loops of 0..n descriptors of mixed tags.  entry_rt d d': the tag is a byte, the body fits 255 bytes, and
   either the body is empty and d' is the bare header (S7: an empty list or name comes back as "no body") or the
   body-level round trip body_rt of d's tag holds.  Parsing what writeDescriptorsWithLength emits for the whole loop
   yields the entry-wise results, and the iterator stops exactly 2 + loop_size bytes on, whatever follows. *)
Theorem C14_loop_roundtrip : forall ds ds' out rest,
  enc_descriptors_with_length ds = Ok out -> items_bytes_ok out -> loop_size ds < 4096 ->
  Forall2 entry_rt ds ds' ->
  parse_descriptors (new_iter (bytes_of_items out ++ rest)) = Ok (ds', mk_iter (bytes_of_items out ++ rest) (2 + loop_size ds)).
Proof. exact loop_roundtrip. Qed.
Print Assumptions C14_loop_roundtrip.

(* the tags for which body_rt is proved, with their domains (any Descriptor_Length, any foreign bodies in d) *)
Theorem C14_body_roundtrips :
  (forall d v, Descriptor_Tag d = 82 -> Descriptor_StreamIdentifier d = Some v -> byte_range (DescriptorStreamIdentifier_ComponentTag v) ->
     body_rt d (set_StreamIdentifier (desc_hdr 82 1) v)) /\
  (forall d v, Descriptor_Tag d = 6 -> Descriptor_DataStreamAlignment d = Some v -> byte_range (DescriptorDataStreamAlignment_Type v) ->
     body_rt d (set_DataStreamAlignment (desc_hdr 6 1) v)) /\
  (forall d, 128 <= Descriptor_Tag d <= 254 -> 0 < zlen (Descriptor_UserDefined d) < 256 ->
     body_rt d (set_UserDefined (desc_hdr (Descriptor_Tag d) (zlen (Descriptor_UserDefined d))) (Descriptor_UserDefined d))) /\
  (forall d v, Descriptor_Tag d = 64 -> Descriptor_NetworkName d = Some v -> 0 < zlen (DescriptorNetworkName_Name v) < 256 ->
     body_rt d (set_NetworkName (desc_hdr 64 (zlen (DescriptorNetworkName_Name v))) v)) /\
  (forall d v, 0 <= Descriptor_Tag d < 256 -> is_user_defined (Descriptor_Tag d) = false -> ~ In (Descriptor_Tag d) typed_tags ->
     Descriptor_Unknown d = Some v -> DescriptorUnknown_Tag v = Descriptor_Tag d -> 0 < zlen (DescriptorUnknown_Content v) < 256 ->
     body_rt d (set_Unknown (desc_hdr (Descriptor_Tag d) (zlen (DescriptorUnknown_Content v))) v)) /\
  (forall d v, Descriptor_Tag d = 15 -> Descriptor_PrivateDataIndicator d = Some v -> 0 <= DescriptorPrivateDataIndicator_Indicator v < 2 ^ 32 ->
     body_rt d (set_PrivateDataIndicator (desc_hdr 15 4) v)) /\
  (forall d v, Descriptor_Tag d = 95 -> Descriptor_PrivateDataSpecifier d = Some v -> 0 <= DescriptorPrivateDataSpecifier_Specifier v < 2 ^ 32 ->
     body_rt d (set_PrivateDataSpecifier (desc_hdr 95 4) v)) /\
  (forall d v k, Descriptor_Tag d = 14 -> Descriptor_MaximumBitrate d = Some v -> DescriptorMaximumBitrate_Bitrate v = k * 50 -> 0 <= k < 2 ^ 22 ->
     body_rt d (set_MaximumBitrate (desc_hdr 14 3) v)) /\
  (forall d v, Descriptor_Tag d = 5 -> Descriptor_Registration d = Some v -> 0 <= DescriptorRegistration_FormatIdentifier v < 2 ^ 32 ->
     zlen (DescriptorRegistration_AdditionalIdentificationInfo v) < 252 ->
     body_rt d (set_Registration (desc_hdr 5 (4 + zlen (DescriptorRegistration_AdditionalIdentificationInfo v))) v)) /\
  (forall d v, Descriptor_Tag d = 10 -> Descriptor_ISO639LanguageAndAudioType d = Some v ->
     length (DescriptorISO639LanguageAndAudioType_Language v) = 3%nat -> byte_range (DescriptorISO639LanguageAndAudioType_Type v) ->
     body_rt d (set_ISO639LanguageAndAudioType (desc_hdr 10 4) v)) /\
  (forall d v, Descriptor_Tag d = 72 -> Descriptor_Service d = Some v -> byte_range (DescriptorService_Type v) ->
     3 + zlen (DescriptorService_Provider v) + zlen (DescriptorService_Name v) < 256 ->
     body_rt d (set_Service (desc_hdr 72 (3 + zlen (DescriptorService_Provider v) + zlen (DescriptorService_Name v))) v)) /\
  (forall d v, Descriptor_Tag d = 40 -> Descriptor_AVCVideo d = Some v -> byte_range (DescriptorAVCVideo_ProfileIDC v) ->
     byte_range (DescriptorAVCVideo_LevelIDC v) -> 0 <= DescriptorAVCVideo_CompatibleFlags v < 32 ->
     body_rt d (set_AVCVideo (desc_hdr 40 4) v)).
Proof.
  repeat split.
  - exact brt_stream_identifier. - exact brt_data_stream_alignment. - exact brt_user_defined. - exact brt_network_name.
  - exact brt_unknown. - exact brt_private_data_indicator. - exact brt_private_data_specifier. - exact brt_maximum_bitrate.
  - exact brt_registration. - exact brt_iso639. - exact brt_service. - exact brt_avc_video.
Qed.
Print Assumptions C14_body_roundtrips.

(* a mixed loop inside the hypotheses: stream identifier (struct Length wrong), an empty content descriptor
   (zero items: comes back as the bare header), a user-defined descriptor; 0xAB follows the loop *)
Definition ex_mixed : list Descriptor :=
  [ set_StreamIdentifier (desc_hdr 82 99) {| DescriptorStreamIdentifier_ComponentTag := 7 |};
    set_Content (desc_hdr 84 3) {| DescriptorContent_Items := [] |};
    set_UserDefined (desc_hdr 200 0) [1; 2; 3] ].
Definition ex_mixed_parsed : list Descriptor :=
  [ set_StreamIdentifier (desc_hdr 82 1) {| DescriptorStreamIdentifier_ComponentTag := 7 |};
    desc_hdr 84 0;
    set_UserDefined (desc_hdr 200 3) [1; 2; 3] ].
Example C14_loop_example : Forall2 entry_rt ex_mixed ex_mixed_parsed /\
  exists out, enc_descriptors_with_length ex_mixed = Ok out /\
    bytes_of_items out = [240; 10; 82; 1; 7; 84; 0; 200; 3; 1; 2; 3] /\
    parse_descriptors (new_iter (bytes_of_items out ++ [171])) = Ok (ex_mixed_parsed, mk_iter (bytes_of_items out ++ [171]) 12).
Proof.
  split.
  - apply Forall2_cons; [|apply Forall2_cons; [|apply Forall2_cons; [|apply Forall2_nil]]].
    + split; [cbv; intuition discriminate|]. split; [reflexivity|]. right. split; [reflexivity|].
      apply brt_stream_identifier; [reflexivity|reflexivity|cbv; intuition discriminate].
    + split; [cbv; intuition discriminate|]. split; [reflexivity|]. left. split; reflexivity.
    + split; [cbv; intuition discriminate|]. split; [reflexivity|]. right. split; [reflexivity|].
      apply (brt_user_defined (set_UserDefined (desc_hdr 200 0) [1; 2; 3])); cbv; intuition discriminate.
  - eexists. split; [vm_compute; reflexivity|]. split; vm_compute; reflexivity.
Qed.

(* ================= (c, continued) the remaining typed tags ==========   Same statement shape as above.  List-valued bodies: every item inside its field widths (wf_<tag>_item), at least one
   item (a zero-item body is written as length 0 and comes back as the bare header: S7, covered by entry_rt in
   C14_loop_roundtrip) and at most as many as fit 255 bytes.  Language / country codes are exactly 3 bytes. *)

Theorem C14_rt_content : forall d v out rest,
  Descriptor_Tag d = 84 -> Descriptor_Content d = Some v -> Forall wf_content_item (DescriptorContent_Items v) ->
  0 < zlen (DescriptorContent_Items v) < 128 ->
  enc_descriptors_with_length [d] = Ok out -> items_bytes_ok out ->
  parse_descriptors (new_iter (bytes_of_items out ++ rest)) =
    Ok ([set_Content (desc_hdr 84 (2 * zlen (DescriptorContent_Items v))) v],
        mk_iter (bytes_of_items out ++ rest) (4 + 2 * zlen (DescriptorContent_Items v))).
Proof. exact rt_content. Qed.
Print Assumptions C14_rt_content.

Theorem C14_rt_parental_rating : forall d v out rest,
  Descriptor_Tag d = 85 -> Descriptor_ParentalRating d = Some v -> Forall wf_parental_rating_item (DescriptorParentalRating_Items v) ->
  0 < zlen (DescriptorParentalRating_Items v) < 64 ->
  enc_descriptors_with_length [d] = Ok out -> items_bytes_ok out ->
  parse_descriptors (new_iter (bytes_of_items out ++ rest)) =
    Ok ([set_ParentalRating (desc_hdr 85 (4 * zlen (DescriptorParentalRating_Items v))) v],
        mk_iter (bytes_of_items out ++ rest) (4 + 4 * zlen (DescriptorParentalRating_Items v))).
Proof. exact rt_parental_rating. Qed.
Print Assumptions C14_rt_parental_rating.

Theorem C14_rt_subtitling : forall d v out rest,
  Descriptor_Tag d = 89 -> Descriptor_Subtitling d = Some v -> Forall wf_subtitling_item (DescriptorSubtitling_Items v) ->
  0 < zlen (DescriptorSubtitling_Items v) < 32 ->
  enc_descriptors_with_length [d] = Ok out -> items_bytes_ok out ->
  parse_descriptors (new_iter (bytes_of_items out ++ rest)) =
    Ok ([set_Subtitling (desc_hdr 89 (8 * zlen (DescriptorSubtitling_Items v))) v],
        mk_iter (bytes_of_items out ++ rest) (4 + 8 * zlen (DescriptorSubtitling_Items v))).
Proof. exact rt_subtitling. Qed.
Print Assumptions C14_rt_subtitling.

(* teletext pages: the writer emits the two 4-bit digits Page/10 and Page%10, so every Page below 160 comes back
   (the standard's two BCD digits are 0..99) *)
Theorem C14_rt_teletext : forall d v out rest,
  Descriptor_Tag d = 86 -> Descriptor_Teletext d = Some v -> Forall wf_teletext_item (DescriptorTeletext_Items v) ->
  0 < zlen (DescriptorTeletext_Items v) < 52 ->
  enc_descriptors_with_length [d] = Ok out -> items_bytes_ok out ->
  parse_descriptors (new_iter (bytes_of_items out ++ rest)) =
    Ok ([set_Teletext (desc_hdr 86 (5 * zlen (DescriptorTeletext_Items v))) v],
        mk_iter (bytes_of_items out ++ rest) (4 + 5 * zlen (DescriptorTeletext_Items v))).
Proof. exact rt_teletext. Qed.
Print Assumptions C14_rt_teletext.

Theorem C14_rt_vbi_teletext : forall d v out rest,
  Descriptor_Tag d = 70 -> Descriptor_VBITeletext d = Some v -> Forall wf_teletext_item (DescriptorTeletext_Items v) ->
  0 < zlen (DescriptorTeletext_Items v) < 52 ->
  enc_descriptors_with_length [d] = Ok out -> items_bytes_ok out ->
  parse_descriptors (new_iter (bytes_of_items out ++ rest)) =
    Ok ([set_VBITeletext (desc_hdr 70 (5 * zlen (DescriptorTeletext_Items v))) v],
        mk_iter (bytes_of_items out ++ rest) (4 + 5 * zlen (DescriptorTeletext_Items v))).
Proof. exact rt_vbi_teletext. Qed.
Print Assumptions C14_rt_vbi_teletext.

(* the hypotheses are satisfiable: two teletext pages (struct Length wrong), the bytes written, and what comes back *)
Definition ex_teletext : DescriptorTeletext := {| DescriptorTeletext_Items :=
  [ {| DescriptorTeletextItem_Language := [102; 114; 97]; DescriptorTeletextItem_Magazine := 7; DescriptorTeletextItem_Page := 99;
       DescriptorTeletextItem_Type := 31 |};
    {| DescriptorTeletextItem_Language := [101; 110; 103]; DescriptorTeletextItem_Magazine := 1; DescriptorTeletextItem_Page := 159;
       DescriptorTeletextItem_Type := 2 |} ] |}.
Example C14_rt_teletext_example :
  Forall wf_teletext_item (DescriptorTeletext_Items ex_teletext) /\
  exists out, enc_descriptors_with_length [set_Teletext (desc_hdr 86 3) ex_teletext] = Ok out /\ items_bytes_ok out /\
    bytes_of_items out = [240; 12; 86; 10; 102; 114; 97; 255; 153; 101; 110; 103; 17; 249].
Proof.
  split; [repeat constructor; cbv; intuition discriminate|].
  eexists. split; [vm_compute; reflexivity|]. split; [repeat constructor; cbv; intuition discriminate|reflexivity].
Qed.
(* outside the domain: page 160 is written as digits (16 mod 16, 0) and comes back as page 0 *)
Example C14_teletext_page_160 :
  let it p := {| DescriptorTeletextItem_Language := [102; 114; 97]; DescriptorTeletextItem_Magazine := 0; DescriptorTeletextItem_Page := p;
                 DescriptorTeletextItem_Type := 1 |} in
  res_bind (enc_descriptors_with_length [set_Teletext (desc_hdr 86 0) {| DescriptorTeletext_Items := [it 160] |}])
    (fun out => res_map (fun r => map Descriptor_Teletext (fst r)) (parse_descriptors (new_iter (bytes_of_items out))))
  = Ok [Some {| DescriptorTeletext_Items := [it 0] |}].
Proof. vm_compute. reflexivity. Qed.

Theorem C14_rt_short_event : forall d v out rest,
  Descriptor_Tag d = 77 -> Descriptor_ShortEvent d = Some v -> length (DescriptorShortEvent_Language v) = 3%nat ->
  5 + zlen (DescriptorShortEvent_EventName v) + zlen (DescriptorShortEvent_Text v) < 256 ->
  enc_descriptors_with_length [d] = Ok out -> items_bytes_ok out ->
  parse_descriptors (new_iter (bytes_of_items out ++ rest)) =
    Ok ([set_ShortEvent (desc_hdr 77 (5 + zlen (DescriptorShortEvent_EventName v) + zlen (DescriptorShortEvent_Text v))) v],
        mk_iter (bytes_of_items out ++ rest) (4 + (5 + zlen (DescriptorShortEvent_EventName v) + zlen (DescriptorShortEvent_Text v)))).
Proof. exact rt_short_event. Qed.
Print Assumptions C14_rt_short_event.

(* wf_component: both 4-bit fields, both bytes, 3-byte language code, text of at most 249 bytes *)
Theorem C14_rt_component : forall d v out rest,
  Descriptor_Tag d = 80 -> Descriptor_Component d = Some v -> wf_component v ->
  enc_descriptors_with_length [d] = Ok out -> items_bytes_ok out ->
  parse_descriptors (new_iter (bytes_of_items out ++ rest)) =
    Ok ([set_Component (desc_hdr 80 (6 + zlen (DescriptorComponent_Text v))) v],
        mk_iter (bytes_of_items out ++ rest) (4 + (6 + zlen (DescriptorComponent_Text v)))).
Proof. exact rt_component. Qed.
Print Assumptions C14_rt_component.

(* AC-3 / Enhanced AC-3: all 16 / 256 flag combinations; an optional byte whose flag is clear is not transmitted, so it
   must hold 0 to come back (opt_ok); additional info of any length that fits *)
Theorem C14_rt_ac3 : forall d v out rest,
  Descriptor_Tag d = 106 -> Descriptor_AC3 d = Some v -> wf_ac3 v ->
  enc_descriptors_with_length [d] = Ok out -> items_bytes_ok out ->
  parse_descriptors (new_iter (bytes_of_items out ++ rest)) =
    Ok ([set_AC3 (desc_hdr 106 (size_ac3 v)) v], mk_iter (bytes_of_items out ++ rest) (4 + size_ac3 v)).
Proof. exact rt_ac3. Qed.
Print Assumptions C14_rt_ac3.

Theorem C14_rt_enhanced_ac3 : forall d v out rest,
  Descriptor_Tag d = 122 -> Descriptor_EnhancedAC3 d = Some v -> wf_enhanced_ac3 v ->
  enc_descriptors_with_length [d] = Ok out -> items_bytes_ok out ->
  parse_descriptors (new_iter (bytes_of_items out ++ rest)) =
    Ok ([set_EnhancedAC3 (desc_hdr 122 (size_enhanced_ac3 v)) v], mk_iter (bytes_of_items out ++ rest) (4 + size_enhanced_ac3 v)).
Proof. exact rt_enhanced_ac3. Qed.
Print Assumptions C14_rt_enhanced_ac3.

(* extension: tag 6 with the supplementary audio body (and no raw bytes), or any other extension tag with raw bytes
   (possibly none) and no typed body *)
Theorem C14_rt_extension : forall d v out rest,
  Descriptor_Tag d = 127 -> Descriptor_Extension d = Some v -> wf_extension v ->
  enc_descriptors_with_length [d] = Ok out -> items_bytes_ok out ->
  parse_descriptors (new_iter (bytes_of_items out ++ rest)) =
    Ok ([set_Extension (desc_hdr 127 (size_extension v)) v], mk_iter (bytes_of_items out ++ rest) (4 + size_extension v)).
Proof. exact rt_extension. Qed.
Print Assumptions C14_rt_extension.

(* extended event: 0..n items, each description and content with its own length byte; length_of_items is computed *)
Theorem C14_rt_extended_event : forall d v out rest,
  Descriptor_Tag d = 78 -> Descriptor_ExtendedEvent d = Some v -> wf_extended_event v ->
  enc_descriptors_with_length [d] = Ok out -> items_bytes_ok out ->
  parse_descriptors (new_iter (bytes_of_items out ++ rest)) =
    Ok ([set_ExtendedEvent (desc_hdr 78 (size_extended_event v)) v], mk_iter (bytes_of_items out ++ rest) (4 + size_extended_event v)).
Proof. exact rt_extended_event. Qed.
Print Assumptions C14_rt_extended_event.

(* VBI data: services of the six line-based kinds with 0..255 lines each, services of any other kind without lines *)
Theorem C14_rt_vbi_data : forall d v out rest,
  Descriptor_Tag d = 69 -> Descriptor_VBIData d = Some v -> Forall wf_vbi_service (DescriptorVBIData_Services v) ->
  0 < size_vbi_data v < 256 ->
  enc_descriptors_with_length [d] = Ok out -> items_bytes_ok out ->
  parse_descriptors (new_iter (bytes_of_items out ++ rest)) =
    Ok ([set_VBIData (desc_hdr 69 (size_vbi_data v)) v], mk_iter (bytes_of_items out ++ rest) (4 + size_vbi_data v)).
Proof. exact rt_vbi_data. Qed.
Print Assumptions C14_rt_vbi_data.

(* satisfiability: an AC-3 descriptor with two of the four optional bytes; a VBI data descriptor with a teletext
   service of two lines, a service of a non line-based kind (3) and a WSS service without lines; an extended event
   with two items *)
Definition ex_ac3 : DescriptorAC3 := {| DescriptorAC3_AdditionalInfo := [1; 2]; DescriptorAC3_ASVC := 0; DescriptorAC3_BSID := 8;
  DescriptorAC3_ComponentType := 66; DescriptorAC3_HasASVC := false; DescriptorAC3_HasBSID := true; DescriptorAC3_HasComponentType := true;
  DescriptorAC3_HasMainID := false; DescriptorAC3_MainID := 0 |}.
Definition ex_vbi : DescriptorVBIData := {| DescriptorVBIData_Services :=
  [ {| DescriptorVBIDataService_DataServiceID := 1; DescriptorVBIDataService_Descriptors :=
         [ {| DescriptorVBIDataDescriptor_FieldParity := true; DescriptorVBIDataDescriptor_LineOffset := 7 |};
           {| DescriptorVBIDataDescriptor_FieldParity := false; DescriptorVBIDataDescriptor_LineOffset := 31 |} ] |};
    {| DescriptorVBIDataService_DataServiceID := 3; DescriptorVBIDataService_Descriptors := [] |};
    {| DescriptorVBIDataService_DataServiceID := 7; DescriptorVBIDataService_Descriptors := [] |} ] |}.
Definition ex_extended_event : DescriptorExtendedEvent := {| DescriptorExtendedEvent_ISO639LanguageCode := [102; 114; 97];
  DescriptorExtendedEvent_Items :=
    [ {| DescriptorExtendedEventItem_Content := [9]; DescriptorExtendedEventItem_Description := [7; 8] |};
      {| DescriptorExtendedEventItem_Content := []; DescriptorExtendedEventItem_Description := [] |} ];
  DescriptorExtendedEvent_LastDescriptorNumber := 15; DescriptorExtendedEvent_Number := 1; DescriptorExtendedEvent_Text := [65] |}.
Example C14_rt_examples2 :
  wf_ac3 ex_ac3 /\ Forall wf_vbi_service (DescriptorVBIData_Services ex_vbi) /\ wf_extended_event ex_extended_event /\
  res_map bytes_of_items (enc_descriptors_with_length
    [set_AC3 (desc_hdr 106 0) ex_ac3; set_VBIData (desc_hdr 69 9) ex_vbi; set_ExtendedEvent (desc_hdr 78 0) ex_extended_event]) =
  Ok [240; 34; 106; 5; 207; 66; 8; 1; 2; 69; 9; 1; 2; 231; 223; 3; 1; 255; 7; 0;
      78; 14; 31; 102; 114; 97; 7; 2; 7; 8; 1; 9; 0; 0; 1; 65].
Proof.
  split; [cbv; intuition discriminate|]. split; [repeat constructor; cbv; intuition discriminate|].
  split; [cbv; intuition discriminate|]. vm_compute. reflexivity.
Qed.

(* local time offset: 1..19 items; country code of 3 bytes, 6-bit region id, both offsets whole minutes hh:mm with
   two BCD digits each (bcd_minutes: hh 00..99, mm 00..59), time of change any second from 1900-03-01 00:00:00 to
   2038-04-22 23:59:59 UTC (dvb_time_range: the range of the 16-bit MJD; the date arithmetic is property C15) *)
Theorem C14_rt_local_time_offset : forall d v out rest,
  Descriptor_Tag d = 88 -> Descriptor_LocalTimeOffset d = Some v ->
  Forall wf_local_time_offset_item (DescriptorLocalTimeOffset_Items v) ->
  0 < zlen (DescriptorLocalTimeOffset_Items v) < 20 ->
  enc_descriptors_with_length [d] = Ok out -> items_bytes_ok out ->
  parse_descriptors (new_iter (bytes_of_items out ++ rest)) =
    Ok ([set_LocalTimeOffset (desc_hdr 88 (13 * zlen (DescriptorLocalTimeOffset_Items v))) v],
        mk_iter (bytes_of_items out ++ rest) (4 + 13 * zlen (DescriptorLocalTimeOffset_Items v))).
Proof. exact rt_local_time_offset. Qed.
Print Assumptions C14_rt_local_time_offset.

(* satisfiable: France, region 0, +01:00 now, +02:00 from 1993-10-13 12:45:00 UTC (the example date of EN 300 468
   Annex C: MJD 0xC079) *)
Definition ex_lto : DescriptorLocalTimeOffset := {| DescriptorLocalTimeOffset_Items :=
  [ {| DescriptorLocalTimeOffsetItem_CountryCode := [70; 82; 65]; DescriptorLocalTimeOffsetItem_CountryRegionID := 0;
       DescriptorLocalTimeOffsetItem_LocalTimeOffset := spec_duration_ns 1 0 0; DescriptorLocalTimeOffsetItem_LocalTimeOffsetPolarity := false;
       DescriptorLocalTimeOffsetItem_NextTimeOffset := spec_duration_ns 2 0 0; DescriptorLocalTimeOffsetItem_TimeOfChange := 750516300 |} ] |}.
Example C14_rt_local_time_offset_example :
  Forall wf_local_time_offset_item (DescriptorLocalTimeOffset_Items ex_lto) /\
  res_map bytes_of_items (enc_descriptors_with_length [set_LocalTimeOffset (desc_hdr 88 0) ex_lto]) =
  Ok [240; 15; 88; 13; 70; 82; 65; 2; 1; 0; 192; 121; 18; 69; 0; 2; 0].
Proof.
  split; [|vm_compute; reflexivity]. repeat constructor; try (cbv; intuition discriminate).
  - exists 1, 0. repeat split; lia.
  - exists 2, 0. repeat split; lia.
Qed.

(* ================= (e, continued) loops mixing ALL tags ==========   body_rt for the thirteen tags added above (C14_body_roundtrips has the other twelve classes), then the loop theorem
   with the domain spelled out: wf_entry d d' = tag a byte, body at most 255 bytes, and either the body is empty and d'
   is the bare header (S7) or typed_rt d d' — the inductive predicate in Proofs/DescRoundTripAll.v whose 25 constructors
   are exactly the hypotheses of the 25 per-class round trips (23 typed tags, unknown, user-defined). *)
Theorem C14_body_roundtrips2 :
  (forall d v, Descriptor_Tag d = 106 -> Descriptor_AC3 d = Some v -> wf_ac3 v -> body_rt d (set_AC3 (desc_hdr 106 (size_ac3 v)) v)) /\
  (forall d v, Descriptor_Tag d = 122 -> Descriptor_EnhancedAC3 d = Some v -> wf_enhanced_ac3 v ->
     body_rt d (set_EnhancedAC3 (desc_hdr 122 (size_enhanced_ac3 v)) v)) /\
  (forall d v, Descriptor_Tag d = 80 -> Descriptor_Component d = Some v -> wf_component v ->
     body_rt d (set_Component (desc_hdr 80 (6 + zlen (DescriptorComponent_Text v))) v)) /\
  (forall d v, Descriptor_Tag d = 84 -> Descriptor_Content d = Some v -> Forall wf_content_item (DescriptorContent_Items v) ->
     body_rt d (set_Content (desc_hdr 84 (2 * zlen (DescriptorContent_Items v))) v)) /\
  (forall d v, Descriptor_Tag d = 78 -> Descriptor_ExtendedEvent d = Some v -> wf_extended_event v ->
     body_rt d (set_ExtendedEvent (desc_hdr 78 (size_extended_event v)) v)) /\
  (forall d v, Descriptor_Tag d = 127 -> Descriptor_Extension d = Some v -> wf_extension v ->
     body_rt d (set_Extension (desc_hdr 127 (size_extension v)) v)) /\
  (forall d v, Descriptor_Tag d = 88 -> Descriptor_LocalTimeOffset d = Some v ->
     Forall wf_local_time_offset_item (DescriptorLocalTimeOffset_Items v) ->
     body_rt d (set_LocalTimeOffset (desc_hdr 88 (13 * zlen (DescriptorLocalTimeOffset_Items v))) v)) /\
  (forall d v, Descriptor_Tag d = 85 -> Descriptor_ParentalRating d = Some v ->
     Forall wf_parental_rating_item (DescriptorParentalRating_Items v) ->
     body_rt d (set_ParentalRating (desc_hdr 85 (4 * zlen (DescriptorParentalRating_Items v))) v)) /\
  (forall d v, Descriptor_Tag d = 77 -> Descriptor_ShortEvent d = Some v -> length (DescriptorShortEvent_Language v) = 3%nat ->
     5 + zlen (DescriptorShortEvent_EventName v) + zlen (DescriptorShortEvent_Text v) < 256 ->
     body_rt d (set_ShortEvent (desc_hdr 77 (5 + zlen (DescriptorShortEvent_EventName v) + zlen (DescriptorShortEvent_Text v))) v)) /\
  (forall d v, Descriptor_Tag d = 89 -> Descriptor_Subtitling d = Some v -> Forall wf_subtitling_item (DescriptorSubtitling_Items v) ->
     body_rt d (set_Subtitling (desc_hdr 89 (8 * zlen (DescriptorSubtitling_Items v))) v)) /\
  (forall d v, Descriptor_Tag d = 86 -> Descriptor_Teletext d = Some v -> Forall wf_teletext_item (DescriptorTeletext_Items v) ->
     body_rt d (set_Teletext (desc_hdr 86 (5 * zlen (DescriptorTeletext_Items v))) v)) /\
  (forall d v, Descriptor_Tag d = 69 -> Descriptor_VBIData d = Some v -> Forall wf_vbi_service (DescriptorVBIData_Services v) ->
     body_rt d (set_VBIData (desc_hdr 69 (size_vbi_data v)) v)) /\
  (forall d v, Descriptor_Tag d = 70 -> Descriptor_VBITeletext d = Some v -> Forall wf_teletext_item (DescriptorTeletext_Items v) ->
     body_rt d (set_VBITeletext (desc_hdr 70 (5 * zlen (DescriptorTeletext_Items v))) v)).
Proof.
  repeat split.
  - exact brt_ac3. - exact brt_enhanced_ac3. - exact brt_component. - exact brt_content. - exact brt_extended_event.
  - exact brt_extension. - exact brt_local_time_offset. - exact brt_parental_rating. - exact brt_short_event.
  - exact brt_subtitling. - exact brt_teletext. - exact brt_vbi_data. - exact brt_vbi_teletext.
Qed.
Print Assumptions C14_body_roundtrips2.

Theorem C14_loop_roundtrip_all_tags : forall ds ds' out rest,
  enc_descriptors_with_length ds = Ok out -> items_bytes_ok out -> loop_size ds < 4096 ->
  Forall2 wf_entry ds ds' ->
  parse_descriptors (new_iter (bytes_of_items out ++ rest)) = Ok (ds', mk_iter (bytes_of_items out ++ rest) (2 + loop_size ds)).
Proof. exact loop_roundtrip_all. Qed.
Print Assumptions C14_loop_roundtrip_all_tags.

(* every descriptor that comes back carries the tag written and the body size as its Length *)
Theorem C14_loop_roundtrip_headers : forall d d', wf_entry d d' ->
  Descriptor_Tag d' = Descriptor_Tag d /\ Descriptor_Length d' = desc_size d.
Proof. exact wf_entry_header. Qed.
Print Assumptions C14_loop_roundtrip_headers.

(* a loop inside the domain: AC-3, teletext, an empty content descriptor (comes back as the bare header), VBI data,
   local time offset, extended event; every struct Length is wrong *)
Definition ex_all : list Descriptor :=
  [ set_AC3 (desc_hdr 106 0) ex_ac3; set_Teletext (desc_hdr 86 3) ex_teletext; set_Content (desc_hdr 84 9) {| DescriptorContent_Items := [] |};
    set_VBIData (desc_hdr 69 1) ex_vbi; set_LocalTimeOffset (desc_hdr 88 0) ex_lto; set_ExtendedEvent (desc_hdr 78 200) ex_extended_event ].
Definition ex_all_parsed : list Descriptor :=
  [ set_AC3 (desc_hdr 106 5) ex_ac3; set_Teletext (desc_hdr 86 10) ex_teletext; desc_hdr 84 0;
    set_VBIData (desc_hdr 69 9) ex_vbi; set_LocalTimeOffset (desc_hdr 88 13) ex_lto; set_ExtendedEvent (desc_hdr 78 14) ex_extended_event ].
Example C14_loop_all_tags_example : Forall2 wf_entry ex_all ex_all_parsed /\ loop_size ex_all = 63.
Proof.
  split; [|reflexivity].
  repeat (apply Forall2_cons; [split; [cbv; intuition discriminate|]; split; [reflexivity|]|]); [| | | | | |apply Forall2_nil].
  - right. split; [reflexivity|]. apply (trt_ac3 _ ex_ac3); [reflexivity|reflexivity|cbv; intuition discriminate].
  - right. split; [reflexivity|]. apply (trt_teletext _ ex_teletext); [reflexivity|reflexivity|repeat constructor; cbv; intuition discriminate].
  - left. split; reflexivity.
  - right. split; [reflexivity|]. apply (trt_vbi_data _ ex_vbi); [reflexivity|reflexivity|repeat constructor; cbv; intuition discriminate].
  - right. split; [reflexivity|]. apply (trt_local_time_offset _ ex_lto); [reflexivity|reflexivity|].
    destruct C14_rt_local_time_offset_example as [H _]. exact H.
  - right. split; [reflexivity|]. apply (trt_extended_event _ ex_extended_event); [reflexivity|reflexivity|cbv; intuition discriminate].
Qed.

(* observation (not in the domain): the teletext page byte holds two 4-bit digits; the parser computes tens*10+units
   without checking that the digits are decimal, so the bytes 0x1A and 0x20 both read as page 20 and the byte 0xFA
   reads as page 160, which the writer emits as 0x00 *)
Example C14_teletext_hex_digits :
  map (fun pb => res_map (fun r => map (fun d => option_map (fun t => map DescriptorTeletextItem_Page (DescriptorTeletext_Items t)) (Descriptor_Teletext d)) (fst r))
                   (parse_descriptors (new_iter [240; 7; 86; 5; 102; 114; 97; 8; pb]))) [26; 32; 250]
  = [Ok [Some [20]]; Ok [Some [20]]; Ok [Some [160]]].
Proof. vm_compute. reflexivity. Qed.

(* ================= (d, continued) reference layouts of the bit-packed tags ==========   Spec/DescSpec2.v gives the body of each remaining tag as integer arithmetic on the field values (flag * 2^k, field
   * 2^k, reserved bits 1), written from EN 300 468 6.2 / 6.4 / Annex D and ISO/IEC 13818-1 2.6; the writers of
   Model/Desc.v emit exactly those bytes.  Teletext covers VBI teletext (same body).  With C14_write_bodies and
   C14_write_descriptor (tag, size, body) every one of the 23 typed tags is written as its reference encoding. *)
Theorem C14_write_bodies2 :
  (forall v, byte_range (DescriptorAC3_ComponentType v) -> byte_range (DescriptorAC3_BSID v) -> byte_range (DescriptorAC3_MainID v) ->
             byte_range (DescriptorAC3_ASVC v) -> bytes_ok (DescriptorAC3_AdditionalInfo v) ->
             bytes_of_items (enc_ac3 v) = ref_ac3 v) /\
  (forall v, byte_range (DescriptorEnhancedAC3_ComponentType v) -> byte_range (DescriptorEnhancedAC3_BSID v) ->
             byte_range (DescriptorEnhancedAC3_MainID v) -> byte_range (DescriptorEnhancedAC3_ASVC v) ->
             byte_range (DescriptorEnhancedAC3_SubStream1 v) -> byte_range (DescriptorEnhancedAC3_SubStream2 v) ->
             byte_range (DescriptorEnhancedAC3_SubStream3 v) -> bytes_ok (DescriptorEnhancedAC3_AdditionalInfo v) ->
             bytes_of_items (enc_enhanced_ac3 v) = ref_enhanced_ac3 v) /\
  (forall v, byte_range (DescriptorAVCVideo_ProfileIDC v) -> byte_range (DescriptorAVCVideo_LevelIDC v) ->
             0 <= DescriptorAVCVideo_CompatibleFlags v < 32 -> bytes_of_items (enc_avc_video v) = ref_avc_video v) /\
  (forall v, wf_component v -> bytes_ok (DescriptorComponent_ISO639LanguageCode v) -> bytes_ok (DescriptorComponent_Text v) ->
             bytes_of_items (enc_component v) = ref_component v) /\
  (forall v, wf_extended_event v -> bytes_ok (DescriptorExtendedEvent_ISO639LanguageCode v) ->
             Forall (fun it => bytes_ok (DescriptorExtendedEventItem_Description it) /\ bytes_ok (DescriptorExtendedEventItem_Content it))
                    (DescriptorExtendedEvent_Items v) ->
             bytes_ok (DescriptorExtendedEvent_Text v) -> bytes_of_items (enc_extended_event v) = ref_extended_event v) /\
  (forall v its, wf_extension v -> enc_extension v = Ok its -> items_bytes_ok its -> bytes_of_items its = ref_extension v) /\
  (forall v, 0 <= DescriptorMaximumBitrate_Bitrate v / 50 < 2 ^ 22 -> bytes_of_items (enc_maximum_bitrate v) = ref_maximum_bitrate v) /\
  (forall v, Forall wf_teletext_item (DescriptorTeletext_Items v) ->
             Forall (fun it => bytes_ok (DescriptorTeletextItem_Language it)) (DescriptorTeletext_Items v) ->
             bytes_of_items (enc_teletext v) = ref_teletext v) /\
  (forall v, Forall wf_vbi_service (DescriptorVBIData_Services v) -> bytes_of_items (enc_vbi_data v) = ref_vbi_data v) /\
  (forall v, Forall wf_local_time_offset_item (DescriptorLocalTimeOffset_Items v) ->
             Forall (fun it => bytes_ok (DescriptorLocalTimeOffsetItem_CountryCode it)) (DescriptorLocalTimeOffset_Items v) ->
             bytes_of_items (enc_local_time_offset v) = ref_local_time_offset v).
Proof.
  repeat split.
  - exact write_ac3. - exact write_enhanced_ac3. - exact write_avc_video. - exact write_component. - exact write_extended_event.
  - exact write_extension. - exact write_maximum_bitrate. - exact write_teletext. - exact write_vbi_data. - exact write_local_time_offset.
Qed.
Print Assumptions C14_write_bodies2.

(* the reference layouts on the examples above (values computed from the Spec definitions alone) *)
Example C14_ref_layout_examples :
  ref_ac3 ex_ac3 = [207; 66; 8; 1; 2] /\ ref_teletext ex_teletext = [102; 114; 97; 255; 153; 101; 110; 103; 17; 249] /\
  ref_vbi_data ex_vbi = [1; 2; 231; 223; 3; 1; 255; 7; 0] /\
  ref_extended_event ex_extended_event = [31; 102; 114; 97; 7; 2; 7; 8; 1; 9; 0; 0; 1; 65] /\
  ref_local_time_offset ex_lto = [70; 82; 65; 2; 1; 0; 192; 121; 18; 69; 0; 2; 0].
Proof. repeat split; vm_compute; reflexivity. Qed.

(* ================= (c, continued) the loop inside a larger buffer ==========   C14_loop_roundtrip_at_offset: the statement of C14_loop_roundtrip_all_tags for a loop that lies at ANY offset of a
   buffer -- arbitrary bytes `pre` before it and `rest` behind it -- with parseDescriptors started at that offset, which
   is how the PMT / SDT / NIT / EIT / TOT parsers call it: the result is the entry-wise parsed form (all 25 classes of
   typed_rt, zero-item bodies as bare headers) and the iterator stops right behind the loop.  The body parsers that
   read with absolute positions (offsetEnd, i.Offset(), i.Len()) are covered: body_rt is stated at any position.
   C14_loop_body_at_offset: the same for the loop body writeDescriptors emits behind ANY two bytes that carry its
   length in their low 12 bits (the SDT and the EIT put running_status / free_CA_mode in the four bits in front).
   C14_loop_roundtrip_at_cursor: the same for an iterator given by what lies at its offset. *)
Require Import Proofs.DescOffset.

Theorem C14_loop_roundtrip_at_offset : forall ds ds' out pre rest,
  enc_descriptors_with_length ds = Ok out -> items_bytes_ok out -> loop_size ds < 4096 ->
  Forall2 wf_entry ds ds' ->
  let buf := pre ++ bytes_of_items out ++ rest in
  parse_descriptors (mk_iter buf (zlen pre)) = Ok (ds', mk_iter buf (zlen pre + 2 + loop_size ds)).
Proof. exact loop_roundtrip_at. Qed.
Print Assumptions C14_loop_roundtrip_at_offset.

Theorem C14_loop_body_at_offset : forall ds ds' its pre h0 h1 rest,
  enc_descriptors ds = Ok its -> items_bytes_ok its -> Forall2 wf_entry ds ds' ->
  (h0 mod 16) * 256 + h1 mod 256 = loop_size ds ->
  let buf := pre ++ h0 :: h1 :: bytes_of_items its ++ rest in
  parse_descriptors (mk_iter buf (zlen pre)) = Ok (ds', mk_iter buf (zlen pre + 2 + loop_size ds)).
Proof. exact loop_body_at. Qed.
Print Assumptions C14_loop_body_at_offset.

Theorem C14_loop_roundtrip_at_cursor : forall ds ds' out i rest,
  enc_descriptors_with_length ds = Ok out -> items_bytes_ok out -> loop_size ds < 4096 ->
  Forall2 wf_entry ds ds' ->
  0 <= ioff i -> skipn (Z.to_nat (ioff i)) (ibs i) = bytes_of_items out ++ rest ->
  parse_descriptors i = Ok (ds', mk_iter (ibs i) (ioff i + 2 + loop_size ds)).
Proof. exact loop_roundtrip_cursor. Qed.
Print Assumptions C14_loop_roundtrip_at_cursor.

(* what comes back is a normal form of the writer: it is written as the same items (hence the same bytes), has the
   same sizes and length bytes, and parses back to itself -- entry by entry and for whole loops (the two length sums are
   the uint16 one of calcDescriptorsLength and the int one of generatePMT) *)
Theorem C14_parsed_form_is_normal : forall ds ds', Forall2 wf_entry ds ds' ->
  enc_descriptors ds' = enc_descriptors ds /\ loop_size ds' = loop_size ds /\
  calc_descriptors_length ds' = calc_descriptors_length ds /\
  (forall a, fold_left (fun k d => k + (2 + calc_descriptor_length d)) ds' a =
             fold_left (fun k d => k + (2 + calc_descriptor_length d)) ds a) /\
  Forall2 wf_entry ds' ds'.
Proof. exact wf_entries_same. Qed.
Print Assumptions C14_parsed_form_is_normal.

(* the domain is inhabited by the six-tag loop ex_all above (AC-3, teletext, empty content, VBI data, local time offset,
   extended event; every struct Length wrong), placed behind five arbitrary bytes and in front of two: parsing at offset
   5 returns ex_all_parsed and stops at 5 + 2 + 63 *)
Example C14_loop_at_offset_example :
  exists out, enc_descriptors_with_length ex_all = Ok out /\ items_bytes_ok out /\
    parse_descriptors (mk_iter ([1; 2; 3; 4; 5] ++ bytes_of_items out ++ [171; 205]) 5) =
      Ok (ex_all_parsed, mk_iter ([1; 2; 3; 4; 5] ++ bytes_of_items out ++ [171; 205]) 70).
Proof.
  eexists. split; [vm_compute; reflexivity|]. split; [repeat constructor; cbv; intuition discriminate|].
  vm_compute. reflexivity.
Qed.
(* ---- the descriptor loop above is the source ----
   parse_descriptors -- the 12-bit loop length (bs[0]&0xf)<<8 | bs[1], the `for i.Offset() < offsetEnd` loop, the tag
   and length bytes, the user-defined range 0x80..0xfe, the switch on the tag with its 24 cases, and the unconditional
   Seek to the declared end of every descriptor -- is equal, as a computation in the iterator monad and on every iterator
   whose bytes are in 0..255, to the definition that go/gen (psigen.go) translates from the CURRENT source of
   parseDescriptors into Gen/PsiGen.v, its 23 Section Variables newDescriptor* instantiated with the body parsers of
   Model/Desc.v; 21 of those body parsers (all but the extension descriptor's tag switch -- its supplementary-audio body
   is covered -- and the ISO 639 descriptor, which slice with run-time bounds) and the two BCD duration parsers of dvb.go
   are regenerated as well and proved equal one by one, item loops and optional bytes included.  The model's loops run
   on offsetEnd - offset + 1 rounds of fuel, the generated ones on input length + 1: the proofs show that both are enough.
   An edit of parseDescriptors -- the loop length masked with 0x3, the Seek made conditional, a case dropped -- or of a
   body parser regenerates Gen/PsiGen.v and this theorem (Proofs/PsiGenDesc.v, PsiGenDesc2.v) stops checking; so does a
   NextBytes that becomes a NextBytesNoCopy where the model copies the slice because the result retains it (the two have
   the same meaning in the iterator monad -- aliasing is C16's subject -- but the proof scripts insist on it). *)
Require Import Model.Dvb Gen.PsiGen Proofs.ParseGenBits Proofs.PsiGenSim Proofs.PsiGenDesc Proofs.PsiGenDesc2.
Theorem C14_loop_is_source :
  same_on_bytes parse_descriptors
    (PsiGen.parseDescriptors
       new_descriptor_ac3 new_descriptor_avc_video new_descriptor_component new_descriptor_content
       new_descriptor_data_stream_alignment new_descriptor_enhanced_ac3 new_descriptor_extended_event new_descriptor_extension
       new_descriptor_iso639 new_descriptor_local_time_offset new_descriptor_maximum_bitrate new_descriptor_network_name
       new_descriptor_parental_rating new_descriptor_private_data_indicator new_descriptor_private_data_specifier
       new_descriptor_registration new_descriptor_service new_descriptor_short_event new_descriptor_stream_identifier
       new_descriptor_subtitling new_descriptor_teletext new_descriptor_unknown new_descriptor_vbi_data) /\
  (forall e, same_on_bytes (new_descriptor_ac3 e) (PsiGen.newDescriptorAC3 e)) /\
  same_on_bytes new_descriptor_avc_video PsiGen.newDescriptorAVCVideo /\
  (forall e, same_on_bytes (new_descriptor_component e) (PsiGen.newDescriptorComponent e)) /\
  (forall e, same_on_bytes (new_descriptor_content e) (PsiGen.newDescriptorContent e)) /\
  same_on_bytes new_descriptor_data_stream_alignment PsiGen.newDescriptorDataStreamAlignment /\
  (forall e, same_on_bytes (new_descriptor_enhanced_ac3 e) (PsiGen.newDescriptorEnhancedAC3 e)) /\
  same_on_bytes new_descriptor_extended_event PsiGen.newDescriptorExtendedEvent /\
  (forall e, same_on_bytes (new_descriptor_extension_supplementary_audio e) (PsiGen.newDescriptorExtensionSupplementaryAudio e)) /\
  (forall e, same_on_bytes (new_descriptor_local_time_offset e)
               (PsiGen.newDescriptorLocalTimeOffset Model.Dvb.parse_dvb_duration_minutes Model.Dvb.parse_dvb_time e)) /\
  same_on_bytes new_descriptor_maximum_bitrate PsiGen.newDescriptorMaximumBitrate /\
  (forall e, same_on_bytes (new_descriptor_network_name e) (PsiGen.newDescriptorNetworkName e)) /\
  (forall e, same_on_bytes (new_descriptor_parental_rating e) (PsiGen.newDescriptorParentalRating e)) /\
  same_on_bytes new_descriptor_private_data_indicator PsiGen.newDescriptorPrivateDataIndicator /\
  same_on_bytes new_descriptor_private_data_specifier PsiGen.newDescriptorPrivateDataSpecifier /\
  (forall e, same_on_bytes (new_descriptor_registration e) (PsiGen.newDescriptorRegistration e)) /\
  same_on_bytes new_descriptor_service PsiGen.newDescriptorService /\
  same_on_bytes new_descriptor_short_event PsiGen.newDescriptorShortEvent /\
  same_on_bytes new_descriptor_stream_identifier PsiGen.newDescriptorStreamIdentifier /\
  (forall e, same_on_bytes (new_descriptor_subtitling e) (PsiGen.newDescriptorSubtitling e)) /\
  (forall e, same_on_bytes (new_descriptor_teletext e) (PsiGen.newDescriptorTeletext e)) /\
  (forall t l, same_on_bytes (new_descriptor_unknown t l) (PsiGen.newDescriptorUnknown t l)) /\
  (forall e, same_on_bytes (new_descriptor_vbi_data e) (PsiGen.newDescriptorVBIData e)) /\
  same_on_bytes Model.Dvb.parse_dvb_duration_minutes PsiGen.parseDVBDurationMinutes /\
  same_on_bytes Model.Dvb.parse_dvb_duration_seconds PsiGen.parseDVBDurationSeconds.
Proof. exact descriptor_loop_is_source. Qed.
Print Assumptions C14_loop_is_source.
(* the translated parsers run: the written loop of the six-descriptor example above (63 bytes behind the length field:
   AC-3, teletext, an empty content descriptor, VBI data, local time offset, extended event), decoded by the generated
   loop with the GENERATED body parsers where they exist, gives what the model gives: six descriptors *)
Example C14_loop_is_source_inhabited :
  match enc_descriptors_with_length ex_all with
  | Ok its =>
      let bs := bytes_of_items its in
      andb (bytes_okb bs)
           (match run_iter (PsiGen.parseDescriptors
                   PsiGen.newDescriptorAC3 PsiGen.newDescriptorAVCVideo PsiGen.newDescriptorComponent PsiGen.newDescriptorContent
                   PsiGen.newDescriptorDataStreamAlignment PsiGen.newDescriptorEnhancedAC3 PsiGen.newDescriptorExtendedEvent new_descriptor_extension
                   new_descriptor_iso639 (PsiGen.newDescriptorLocalTimeOffset PsiGen.parseDVBDurationMinutes Model.Dvb.parse_dvb_time)
                   PsiGen.newDescriptorMaximumBitrate PsiGen.newDescriptorNetworkName
                   PsiGen.newDescriptorParentalRating PsiGen.newDescriptorPrivateDataIndicator PsiGen.newDescriptorPrivateDataSpecifier
                   PsiGen.newDescriptorRegistration PsiGen.newDescriptorService PsiGen.newDescriptorShortEvent PsiGen.newDescriptorStreamIdentifier
                   PsiGen.newDescriptorSubtitling PsiGen.newDescriptorTeletext PsiGen.newDescriptorUnknown PsiGen.newDescriptorVBIData) bs,
                  run_iter parse_descriptors bs with
            | Ok a, Ok b => andb (length a =? 6)%nat (length b =? 6)%nat
            | _, _ => false
            end)
  | _ => false
  end = true.
Proof. vm_compute. reflexivity. Qed.

(* ---- the descriptor writers are the source ----
   Every theorem of this file about writing (C14_len, C14_tlv, the round trips, C14_write_bodies) speaks about
   calc_descriptor_length, calc_descriptors_length, enc_descriptor, enc_descriptors, enc_descriptors_with_length and the
   body encoders enc_* of Model/Desc.v. Each is, for every argument, what go/gen (psiwritegen.go) translates from the CURRENT
   source of descriptor.go into Gen/PsiWriteGen.v: calcDescriptorLength (the tag switch), calcDescriptorsLength (the uint16
   accumulation: skipping empty descriptors, adding in uint8, trusting d.Length change the regenerated definition),
   writeDescriptor (tag, uint8 length, dispatch with its nil dereferences, count), writeDescriptors,
   writeDescriptorsWithLength, the 24 body writers and the DVB time / duration writers around their float core
   (Proofs/PsiWriteGenDesc.v, PsiWriteGenBodies.v, PsiWriteGenDvb.v; wfn_sim / wfe_sim of Proofs/PsiWriteGenBase.v). Not
   regenerated: calcDescriptorUserDefinedLength, calcDescriptorExtensionLength (hand models) and the float64 /
   package-time expressions of dvb.go (the integer functions of Model/DvbDate.v, C15). *)
Require Import Gen.MuxGen Gen.WriteGen Gen.PsiWriteGen Proofs.WriteGenBase Proofs.PsiWriteGenBase Proofs.PsiWriteGenDvb
  Proofs.PsiWriteGenAll.
Theorem C14_writers_are_source :
  (forall d, gcalcDescriptorLength d = calc_descriptor_length d) /\
  (forall ds, gcalcDescriptorsLength ds = calc_descriptors_length ds) /\
  (forall d, wfn_sim (gwriteDescriptor d) (enc_descriptor d) (descriptor_written d)) /\
  (forall ds, wfn_sim (gwriteDescriptors ds) (enc_descriptors ds) (descriptors_written ds)) /\
  (forall ds, wfn_sim (gwriteDescriptorsWithLength ds) (enc_descriptors_with_length ds) (descriptors_written ds + 2)).
Proof. exact descriptor_writers_are_source. Qed.
Print Assumptions C14_writers_are_source.
Theorem C14_body_writers_are_source :
  (forall d, wfe_sim (PsiWriteGen.writeDescriptorUserDefined d) (Ok [WBytes d])) /\
  (forall d, wfe_sim (PsiWriteGen.writeDescriptorAC3 d) (Ok (enc_ac3 d))) /\
  (forall d, wfe_sim (PsiWriteGen.writeDescriptorAVCVideo d) (Ok (enc_avc_video d))) /\
  (forall d, wfe_sim (PsiWriteGen.writeDescriptorComponent d) (Ok (enc_component d))) /\
  (forall d, wfe_sim (PsiWriteGen.writeDescriptorContent d) (Ok (enc_content d))) /\
  (forall d, wfe_sim (PsiWriteGen.writeDescriptorDataStreamAlignment d) (Ok (enc_data_stream_alignment d))) /\
  (forall d, wfe_sim (PsiWriteGen.writeDescriptorEnhancedAC3 d) (Ok (enc_enhanced_ac3 d))) /\
  (forall d, wfe_sim (PsiWriteGen.writeDescriptorExtendedEvent d) (Ok (enc_extended_event d))) /\
  (forall d, wfe_sim (PsiWriteGen.writeDescriptorExtensionSupplementaryAudio d) (Ok (enc_extension_supplementary_audio d))) /\
  (forall d, wfe_sim (PsiWriteGen.writeDescriptorExtension d) (enc_extension d)) /\
  (forall d, wfe_sim (PsiWriteGen.writeDescriptorISO639LanguageAndAudioType d) (Ok (enc_iso639 d))) /\
  (forall d, wfe_sim (gwriteDescriptorLocalTimeOffset d) (Ok (enc_local_time_offset d))) /\
  (forall d, wfe_sim (PsiWriteGen.writeDescriptorMaximumBitrate d) (Ok (enc_maximum_bitrate d))) /\
  (forall d, wfe_sim (PsiWriteGen.writeDescriptorNetworkName d) (Ok (enc_network_name d))) /\
  (forall d, wfe_sim (PsiWriteGen.writeDescriptorParentalRating d) (Ok (enc_parental_rating d))) /\
  (forall d, wfe_sim (PsiWriteGen.writeDescriptorPrivateDataIndicator d) (Ok (enc_private_data_indicator d))) /\
  (forall d, wfe_sim (PsiWriteGen.writeDescriptorPrivateDataSpecifier d) (Ok (enc_private_data_specifier d))) /\
  (forall d, wfe_sim (PsiWriteGen.writeDescriptorRegistration d) (Ok (enc_registration d))) /\
  (forall d, wfe_sim (PsiWriteGen.writeDescriptorService d) (Ok (enc_service d))) /\
  (forall d, wfe_sim (PsiWriteGen.writeDescriptorShortEvent d) (Ok (enc_short_event d))) /\
  (forall d, wfe_sim (PsiWriteGen.writeDescriptorStreamIdentifier d) (Ok (enc_stream_identifier d))) /\
  (forall d, wfe_sim (PsiWriteGen.writeDescriptorSubtitling d) (Ok (enc_subtitling d))) /\
  (forall d, wfe_sim (PsiWriteGen.writeDescriptorTeletext d) (Ok (enc_teletext d))) /\
  (forall d, wfe_sim (PsiWriteGen.writeDescriptorVBIData d) (Ok (enc_vbi_data d))) /\
  (forall d, wfe_sim (PsiWriteGen.writeDescriptorUnknown d) (Ok (enc_unknown d))) /\
  (forall d, wfn_sim (gwriteDVBDurationMinutes d) (Ok (enc_dvb_duration_minutes d)) 2) /\
  (forall d, wfn_sim (gwriteDVBDurationSeconds d) (Ok (enc_dvb_duration_seconds d)) 3) /\
  (forall t, wfn_sim (gwriteDVBTime t) (Ok (enc_dvb_time t)) 5).
Proof. exact descriptor_bodies_are_source. Qed.
Print Assumptions C14_body_writers_are_source.
(* the translated descriptor writer runs inside the translated PMT writer: a user-defined program descriptor and a
   stream identifier descriptor; and on its own: the two descriptors behind their 12-bit loop length, 10 bytes *)
Example C14_writers_are_source_inhabited :
  snd (gwritePSIData ex_psi) = Some (30, ENil) /\
  Ok (bytes_of_items (map snd (fst (gwritePSIData ex_psi)))) = Model.Psi.write_psi_data ex_psi /\
  snd (gwriteDescriptorsWithLength [ex_desc_user; ex_desc_stream_id]) = Some (10, ENil) /\
  bytes_of_items (map snd (fst (gwriteDescriptorsWithLength [ex_desc_user; ex_desc_stream_id]))) =
    [240; 8; 200; 3; 1; 2; 3; 82; 1; 7].
Proof. vm_compute. repeat split. Qed.

(* the two length functions calc_descriptor_length still took from the hand model are regenerated too (Gen/RestGen.v,
   go/gen/restgen.go): calcDescriptorExtensionLength IS calc_extension_length; calcDescriptorUserDefinedLength IS
   calc_user_defined_length (the `d == nil` test of the source is a companion boolean of the regenerated function — a list
   does not tell a nil slice from an empty one — and Go guarantees a nil slice has length 0). *)
Require Import Gen.RestGen Proofs.RestGenDesc.
Theorem C14_leftover_lengths_are_source :
  (forall d, calcDescriptorExtensionLength d = calc_extension_length d) /\
  (forall d d_nil, (d_nil = true -> d = []) -> calcDescriptorUserDefinedLength d d_nil = calc_user_defined_length d).
Proof. exact (conj extension_length_is_generated user_defined_length_is_generated). Qed.
Print Assumptions C14_leftover_lengths_are_source.
Example C14_leftover_lengths_are_source_inhabited :
  calcDescriptorExtensionLength (Some {| DescriptorExtension_SupplementaryAudio := None; DescriptorExtension_Tag := 1;
                                         DescriptorExtension_Unknown := Some [1; 2; 3] |}) = 4 /\
  calcDescriptorUserDefinedLength [1; 2] false = 2 /\ calcDescriptorUserDefinedLength [] true = 0.
Proof. exact extension_length_example. Qed.

(* the two descriptor parsers go/gen/psigen.go leaves out are regenerated too (Gen/RestDesc.v: go/gen/restgen.go through the
   statement translator of go/gen/demuxgen.go, outcome monad; the *BytesIterator parameter is returned with the results):
   newDescriptorISO639LanguageAndAudioType with its run-time slice bounds — Panicked on an empty descriptor body, where the
   model has ipanic — and newDescriptorExtension (shadowed variable, &b of a local slice).  im_rel: Done (i', Some v, nil)
   with Ok (v, i') for the same descriptor and iterator, Done with an error with Err, Panicked with Panic. *)
Require Import Gen.DemuxGen Gen.RestDesc Proofs.RestGenDesc2.
Theorem C14_leftover_parsers_are_source : forall (W : Type) i offsetEnd (w : W),
  im_rel W (newDescriptorISO639LanguageAndAudioType W i offsetEnd w) (new_descriptor_iso639 offsetEnd i) w /\
  im_rel W (newDescriptorExtension W (sa_m W) i offsetEnd w) (new_descriptor_extension offsetEnd i) w.
Proof. exact (fun W i o w => conj (iso639_is_generated W i o w) (extension_is_generated W i o w)). Qed.
Print Assumptions C14_leftover_parsers_are_source.
Example C14_leftover_parsers_are_source_inhabited :
  newDescriptorISO639LanguageAndAudioType unit (new_iter [101; 110; 103; 3]) 4 tt =
    Done (mk_iter [101; 110; 103; 3] 4,
          Some {| DescriptorISO639LanguageAndAudioType_Language := [101; 110; 103]; DescriptorISO639LanguageAndAudioType_Type := 3 |},
          None, tt) /\
  newDescriptorISO639LanguageAndAudioType unit (new_iter [1; 2]) 0 tt = Panicked /\
  new_descriptor_iso639 0 (new_iter [1; 2]) = Panic /\
  newDescriptorExtension unit (sa_m unit) (new_iter [9; 7; 8]) 3 tt =
    Done (mk_iter [9; 7; 8] 3,
          Some {| DescriptorExtension_SupplementaryAudio := None; DescriptorExtension_Tag := 9; DescriptorExtension_Unknown := Some [7; 8] |},
          None, tt).
Proof. exact descriptor_leftovers_run. Qed.
