(* Property C14 — descriptors; declared lengths always match emitted bytes (theorems only; proofs in Proofs/DescProofs.v).
   Model: Model/Desc.v (hand-written from descriptor.go, run against the implementation on every check);
   calcDescriptor<X>Length: Gen/Preds.v (re-translated from descriptor.go on every run);
   Spec: Spec/DescSpec.v (body sizes from the standards as plain integers, the TLV split as a relation on bytes). *)
From Coq Require Import ZArith List Lia.
Require Import Base.Bits Base.Iter Base.Wr Gen.Consts Gen.Types Gen.Preds Model.Desc Spec.DescSpec Proofs.DescProofs.
Import ListNotations.
Open Scope Z_scope.

(* (a) writeDescriptorsWithLength: the 12-bit loop length is the number of bytes that follow it and every
   length byte is the number of body bytes behind it — for ARBITRARY Descriptor_Length fields (the theorem does
   not mention them).  Guard: no body exceeds 255 bytes (no uint8 wrap in calcDescriptorLength) and the loop
   fits its 12-bit length.  items_bytes_ok: byte strings hold bytes (the invariant of Go's []byte).
   loop_bytes ds bodies = tag_1, length_1, body_1, tag_2, ... with length_k = calc_descriptor_length d_k. *)
Theorem C14_len : forall ds out,
  enc_descriptors_with_length ds = Ok out -> items_bytes_ok out ->
  Forall (fun d => desc_size d < 256) ds -> loop_size ds < 4096 ->
  let bytes := bytes_of_items out in
  exists hdr bodies,
    bytes = hdr ++ loop_bytes ds bodies /\ zlen hdr = 2 /\
    Forall2 (fun d b => zlen b = calc_descriptor_length d /\ zlen b = desc_size d) ds bodies /\
    bitsf bytes 4 12 = zlen bytes - 2 /\
    zlen bytes = 2 + loop_size ds.
Proof. exact descriptors_with_length_exact. Qed.
Print Assumptions C14_len.

(* the guard is satisfiable, with struct Length fields that are wrong (99), left 0, and a list-valued body *)
Definition ex_ds : list Descriptor :=
  [ set_StreamIdentifier (desc_hdr 82 99) {| DescriptorStreamIdentifier_ComponentTag := 7 |};
    set_Unknown (desc_hdr 3 0) {| DescriptorUnknown_Content := [1; 2; 3]; DescriptorUnknown_Tag := 3 |};
    set_Content (desc_hdr 84 200) {| DescriptorContent_Items :=
      [ {| DescriptorContentItem_ContentNibbleLevel1 := 1; DescriptorContentItem_ContentNibbleLevel2 := 2; DescriptorContentItem_UserByte := 3 |};
        {| DescriptorContentItem_ContentNibbleLevel1 := 15; DescriptorContentItem_ContentNibbleLevel2 := 0; DescriptorContentItem_UserByte := 255 |} ] |} ].
Example C14_len_example : exists out,
  enc_descriptors_with_length ex_ds = Ok out /\ items_bytes_ok out /\
  Forall (fun d => desc_size d < 256) ex_ds /\ loop_size ex_ds < 4096 /\
  bytes_of_items out = [240; 14; 82; 1; 7; 3; 3; 1; 2; 3; 84; 4; 18; 3; 240; 255].
Proof.
  eexists. split; [vm_compute; reflexivity|]. split; [repeat constructor; cbv; intuition discriminate|].
  split; [repeat constructor|]. split; reflexivity.
Qed.

(* what happens in general, including uint8 wrap: the length byte is the body size modulo 256; the body is
   written in full unless that residue is 0, in which case no body is written at all *)
Theorem C14_len_any : forall d its, enc_descriptor d = Ok its -> items_bytes_ok its ->
  exists body,
    bytes_of_items its = [Descriptor_Tag d mod 256; calc_descriptor_length d mod 256] ++ body /\
    calc_descriptor_length d = desc_size d mod 256 /\
    zlen body = (if desc_size d mod 256 =? 0 then 0 else desc_size d).
Proof.
  intros d its H Hok. destruct (enc_descriptor_bytes d its H Hok) as (body & E & Hl & _).
  destruct (emitted_wrap d) as [Ec Ee]. exists body. rewrite <- Ee. auto.
Qed.
Print Assumptions C14_len_any.

(* a 256-byte body announces 0 and writes nothing; a 300-byte body announces 44 and writes 300 bytes *)
Example C14_wrap_256 :
  res_map bytes_of_items (enc_descriptor (set_Unknown (desc_hdr 3 0) {| DescriptorUnknown_Content := repeat 170 256; DescriptorUnknown_Tag := 3 |}))
  = Ok [3; 0].
Proof. vm_compute. reflexivity. Qed.
Example C14_wrap_300 :
  res_map (fun its => (firstn 2 (bytes_of_items its), zlen (bytes_of_items its)))
    (enc_descriptor (set_Unknown (desc_hdr 3 0) {| DescriptorUnknown_Content := repeat 170 300; DescriptorUnknown_Tag := 3 |}))
  = Ok ([3; 44], 302).
Proof. vm_compute. reflexivity. Qed.

(* (b) parseDescriptors never shifts what follows.  First with the body parser abstracted: ANY function that
   returns Ok/Err/Panic and leaves the byte slice of the iterator alone (body_pres).  On success the result is
   tlv_parse: the loop is split at tag/length boundaries only — entry k starts where entry k-1 started plus 2
   plus its declared length — and descriptor k is what the body parser returns when it is run on the untouched
   buffer at entry k's own body with entry k's own declared end, independently of what the earlier bodies
   consumed; the iterator is left at the end of the last entry. *)
Theorem C14_tlv_any_body : forall body bs pos ds i', body_pres body ->
  parse_descriptors_with body (mk_iter bs pos) = Ok (ds, i') ->
  0 <= pos /\ pos + 2 <= zlen bs /\ ibs i' = bs /\
  tlv_parse desc_hdr body bs (pos + 2 + loop_length_at bs pos) (pos + 2) ds (ioff i').
Proof. exact parse_descriptors_tlv. Qed.
Print Assumptions C14_tlv_any_body.

(* instantiated with the 23 typed parsers, unknown and user-defined tags: the tags and lengths returned are
   exactly the TLV entries of the loop (tlv_chain is a function of the bytes alone: tlv_chain_det), and the
   iterator ends at the first entry boundary at or after the declared end of the loop *)
Theorem C14_tlv : forall bs pos ds i', bytes_ok bs ->
  parse_descriptors (mk_iter bs pos) = Ok (ds, i') ->
  let endp := pos + 2 + loop_length_at bs pos in
  ibs i' = bs /\
  tlv_parse desc_hdr parse_descriptor_body bs endp (pos + 2) ds (ioff i') /\
  exists es, tlv_chain bs endp (pos + 2) es (ioff i') /\
             map (fun d => (Descriptor_Tag d, Descriptor_Length d)) ds = map (fun e => (snd (fst e), snd e)) es /\
             endp <= ioff i'.
Proof. exact parse_descriptors_framing. Qed.
Print Assumptions C14_tlv.

Theorem C14_tlv_entries_unique : forall bs endp pos es fin, tlv_chain bs endp pos es fin ->
  forall es' fin', tlv_chain bs endp pos es' fin' -> es' = es /\ fin' = fin.
Proof. exact tlv_chain_det. Qed.
Print Assumptions C14_tlv_entries_unique.

(* exactly 2 + loop length bytes are consumed iff the last entry ends at the declared end of the loop *)
Theorem C14_tlv_consumed : forall bs endp pos es fin, tlv_chain bs endp pos es fin ->
  (es = [] /\ fin = pos) \/ (es <> [] /\ exists p t l, last es (0, 0, 0) = (p, t, l) /\ fin = p + 2 + l).
Proof. exact tlv_chain_exact. Qed.
Print Assumptions C14_tlv_consumed.

(* an AVC video descriptor (4 body bytes) declared with length 2: its parser reads into the next entry, yet
   the stream identifier that follows is decoded from its own boundary *)
Example C14_tlv_example :
  match parse_descriptors (new_iter [240; 7; 40; 2; 1; 2; 82; 1; 9]) with
  | Ok ([a; s], i) => (Descriptor_Tag a, Descriptor_Length a, Descriptor_StreamIdentifier s, ioff i)
                      = (40, 2, Some {| DescriptorStreamIdentifier_ComponentTag := 9 |}, 9)
  | _ => False
  end.
Proof. vm_compute. reflexivity. Qed.

(* an entry that overruns the declared loop end (loop length 2, entry of 2 + 5 bytes): the parser follows the
   entry's own length, the iterator ends at 9, beyond 2 + 2 *)
Example C14_tlv_overrun_example :
  match parse_descriptors (new_iter [240; 2; 82; 5; 1; 2; 3; 4; 5; 77]) with
  | Ok ([s], i) => (Descriptor_Length s, ioff i) = (5, 9)
  | _ => False
  end.
Proof. vm_compute. reflexivity. Qed.
