(* Property C14 — descriptors; declared lengths always match emitted bytes (theorems only; proofs in Proofs/DescProofs.v).
   Model: Model/Desc.v (hand-written from descriptor.go, run against the implementation on every check);
   calcDescriptor<X>Length: Gen/Preds.v (re-translated from descriptor.go on every run);
   Spec: Spec/DescSpec.v (body sizes from the standards as plain integers, the TLV split as a relation on bytes). *)
From Coq Require Import ZArith List Lia.
Require Import Base.Bits Base.Iter Base.Wr Gen.Consts Gen.Types Gen.Preds Model.Desc Spec.DescSpec Proofs.DescProofs.
Import ListNotations.
Open Scope Z_scope.

(* (a) writeDescriptorsWithLength: the 12-bit loop length is the number of bytes that follow it and every
   length byte is the number of body bytes behind it — for ARBITRARY Descriptor_Length fields (the theorem does
   not mention them).  Guard: no body exceeds 255 bytes (no uint8 wrap in calcDescriptorLength) and the loop
   fits its 12-bit length.  items_bytes_ok: byte strings hold bytes (the invariant of Go's []byte).
   loop_bytes ds bodies = tag_1, length_1, body_1, tag_2, ... with length_k = calc_descriptor_length d_k. *)
Theorem C14_len : forall ds out,
  enc_descriptors_with_length ds = Ok out -> items_bytes_ok out ->
  Forall (fun d => desc_size d < 256) ds -> loop_size ds < 4096 ->
  let bytes := bytes_of_items out in
  exists hdr bodies,
    bytes = hdr ++ loop_bytes ds bodies /\ zlen hdr = 2 /\
    Forall2 (fun d b => zlen b = calc_descriptor_length d /\ zlen b = desc_size d) ds bodies /\
    bitsf bytes 4 12 = zlen bytes - 2 /\
    zlen bytes = 2 + loop_size ds.
Proof. exact descriptors_with_length_exact. Qed.
Print Assumptions C14_len.

(* the guard is satisfiable, with struct Length fields that are wrong (99), left 0, and a list-valued body *)
Definition ex_ds : list Descriptor :=
  [ set_StreamIdentifier (desc_hdr 82 99) {| DescriptorStreamIdentifier_ComponentTag := 7 |};
    set_Unknown (desc_hdr 3 0) {| DescriptorUnknown_Content := [1; 2; 3]; DescriptorUnknown_Tag := 3 |};
    set_Content (desc_hdr 84 200) {| DescriptorContent_Items :=
      [ {| DescriptorContentItem_ContentNibbleLevel1 := 1; DescriptorContentItem_ContentNibbleLevel2 := 2; DescriptorContentItem_UserByte := 3 |};
        {| DescriptorContentItem_ContentNibbleLevel1 := 15; DescriptorContentItem_ContentNibbleLevel2 := 0; DescriptorContentItem_UserByte := 255 |} ] |} ].
Example C14_len_example : exists out,
  enc_descriptors_with_length ex_ds = Ok out /\ items_bytes_ok out /\
  Forall (fun d => desc_size d < 256) ex_ds /\ loop_size ex_ds < 4096 /\
  bytes_of_items out = [240; 14; 82; 1; 7; 3; 3; 1; 2; 3; 84; 4; 18; 3; 240; 255].
Proof.
  eexists. split; [vm_compute; reflexivity|]. split; [repeat constructor; cbv; intuition discriminate|].
  split; [repeat constructor|]. split; reflexivity.
Qed.

(* what happens in general, including uint8 wrap: the length byte is the body size modulo 256; the body is
   written in full unless that residue is 0, in which case no body is written at all *)
Theorem C14_len_any : forall d its, enc_descriptor d = Ok its -> items_bytes_ok its ->
  exists body,
    bytes_of_items its = [Descriptor_Tag d mod 256; calc_descriptor_length d mod 256] ++ body /\
    calc_descriptor_length d = desc_size d mod 256 /\
    zlen body = (if desc_size d mod 256 =? 0 then 0 else desc_size d).
Proof.
  intros d its H Hok. destruct (enc_descriptor_bytes d its H Hok) as (body & E & Hl & _).
  destruct (emitted_wrap d) as [Ec Ee]. exists body. rewrite <- Ee. auto.
Qed.
Print Assumptions C14_len_any.

(* a 256-byte body announces 0 and writes nothing; a 300-byte body announces 44 and writes 300 bytes *)
Example C14_wrap_256 :
  res_map bytes_of_items (enc_descriptor (set_Unknown (desc_hdr 3 0) {| DescriptorUnknown_Content := repeat 170 256; DescriptorUnknown_Tag := 3 |}))
  = Ok [3; 0].
Proof. vm_compute. reflexivity. Qed.
Example C14_wrap_300 :
  res_map (fun its => (firstn 2 (bytes_of_items its), zlen (bytes_of_items its)))
    (enc_descriptor (set_Unknown (desc_hdr 3 0) {| DescriptorUnknown_Content := repeat 170 300; DescriptorUnknown_Tag := 3 |}))
  = Ok ([3; 44], 302).
Proof. vm_compute. reflexivity. Qed.
