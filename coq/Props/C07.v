(* Property C07 — what is delivered for a PID depends only on that PID's packets (theorems only; proofs in Proofs/PoolProofs.v).
   A step is a packet together with the program map in force when it arrives (the set of PMT PIDs registered by the
   PATs delivered so far): that is the only way another PID can influence x, and the property names it. *)
From Coq Require Import ZArith List Bool.
Require Import Base.Iter Gen.Types Gen.Preds Model.Pool Model.PoolRun Proofs.PoolProofs.
Import ListNotations.
Open Scope Z_scope.

(* the pool's behaviour for PID x is its accumulator run over x's own payload-carrying, error-free packets:
   same pending queue, same flushed groups in the same order — for every packet sequence and every starting pool *)
Theorem C07_per_pid : forall x xs pl,
  qof (fst (pool_run pl xs)) x = fst (acc_run x (qof pl x) xs) /\
  groups_of x (snd (pool_run pl xs)) = snd (acc_run x (qof pl x) xs).
Proof. exact per_pid. Qed.
Print Assumptions C07_per_pid.

(* any two order-preserving merges of the same per-PID sequences give every PID the same groups and the same
   pending queue (hence the same end-of-stream flush for that PID) *)
Theorem C07_merge : forall x xs ys,
  filter (fun s => relevant x (snd s)) xs = filter (fun s => relevant x (snd s)) ys ->
  groups_of x (snd (pool_run [] xs)) = groups_of x (snd (pool_run [] ys)) /\
  qof (fst (pool_run [] xs)) x = qof (fst (pool_run [] ys)) x.
Proof. exact merge_independent. Qed.
Print Assumptions C07_merge.

(* null packets, adaptation-field-only packets, transport-error packets and packets of other PIDs (garbage included),
   inserted anywhere, change nothing for PID x *)
Theorem C07_inserts : forall x s1 s2 s, relevant x (snd s) = false ->
  groups_of x (snd (pool_run [] (s1 ++ s :: s2))) = groups_of x (snd (pool_run [] (s1 ++ s2))) /\
  qof (fst (pool_run [] (s1 ++ s :: s2))) x = qof (fst (pool_run [] (s1 ++ s2))) x.
Proof. exact insert_irrelevant. Qed.
Print Assumptions C07_inserts.

(* the end-of-stream drain hands out the non-empty queues in increasing PID order, each exactly once *)
Theorem C07_drain_order : forall pl fuel, (length pl < fuel)%nat ->
  dump_all fuel pl = map snd (drain_groups pl).
Proof. exact dump_all_drain. Qed.
Print Assumptions C07_drain_order.

(* the premises are satisfiable: a null packet is irrelevant for PID 256 *)
Example C07_null_irrelevant :
  relevant 256 {| Packet_AdaptationField := None;
                  Packet_Header := {| PacketHeader_ContinuityCounter := 3; PacketHeader_HasAdaptationField := false;
                                      PacketHeader_HasPayload := true; PacketHeader_PayloadUnitStartIndicator := false;
                                      PacketHeader_PID := 8191; PacketHeader_TransportErrorIndicator := false;
                                      PacketHeader_TransportPriority := false; PacketHeader_TransportScramblingControl := 0 |};
                  Packet_Payload := [1; 2; 3] |} = false.
Proof. reflexivity. Qed.

(* ---- the pool of the theorems above IS the source ----
   Gen/PoolGen.v is translated from the current /repo/packet_pool.go on every run (go/gen/stateful.go). pool_add is the
   regenerated packetPool.addUnlocked (TEI / no-payload filters, lookup-or-create of the accumulator under
   uint32(PID), delegation to add); pool_dump is the regenerated packetPool.dumpUnlocked (visit the keys in increasing
   order, delete each, stop at the first non-empty queue). The Go map is the model's association list: gen_get /
   gen_set / gen_delete / gen_keys, which on sorted pools (every reachable pool: pool_run_sorted) are a finite map
   with its keys in increasing order. *)
Require Import Gen.PoolGen Proofs.PoolGenEq.

Theorem C07_pool_is_source : forall pm pl p,
  pool_add pm pl p = packetPool_addUnlocked (gen_get pm) gen_set is_psi_complete pl (Some (pm_mem pm)) p.
Proof. exact pool_add_is_generated. Qed.
Print Assumptions C07_pool_is_source.

(* the key range is that of uint32 (the Go map's key type); PIDs are 13 bits *)
Theorem C07_dump_is_source : forall pm bpm pl, keys_in_range pl ->
  pool_dump pl = packetPool_dumpUnlocked (gen_get pm) gen_delete gen_keys pl bpm.
Proof. exact pool_dump_is_generated. Qed.
Print Assumptions C07_dump_is_source.

Theorem C07_acc_is_source : forall pm pid q p,
  acc_add pm pid q p = packetAccumulator_add is_psi_complete pid (Some (pm_mem pm)) q p.
Proof. exact acc_add_is_generated. Qed.
Print Assumptions C07_acc_is_source.

(* the association list behaves as the Go map on sorted pools: what was stored is read back, other keys are
   untouched, a deleted key is absent, and the keys come out in increasing order, all of them *)
Theorem C07_map_model : forall pm pl k a x,
  (packetAccumulator_pid a = k -> packetAccumulator_programMap a = Some (pm_mem pm) ->
   gen_get pm (gen_set pl k a) k = Some a) /\
  (x <> k -> gen_get pm (gen_set pl k a) x = gen_get pm pl x) /\
  (sorted pl -> gen_get pm (gen_delete pl k) k = None) /\
  (x <> k -> gen_get pm (gen_delete pl k) x = gen_get pm pl x) /\
  (sorted pl -> increasing (gen_keys pl)) /\
  (In k (gen_keys pl) <-> gen_get pm pl k <> None).
Proof. exact map_model. Qed.
Print Assumptions C07_map_model.

(* the range premise of C07_dump_is_source is preserved by everything the pool does with packets whose PID fits *)
Theorem C07_keys_in_range : forall pm pl p, keys_in_range pl -> 0 <= pid_of p < 4294967296 ->
  keys_in_range (fst (pool_add pm pl p)) /\ keys_in_range (fst (pool_dump pl)).
Proof. exact keys_in_range_preserved. Qed.
Print Assumptions C07_keys_in_range.
