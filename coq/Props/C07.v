(* Property C07 — what is delivered for a PID depends only on that PID's packets (theorems only; proofs in Proofs/PoolProofs.v).
   A step is a packet together with the program map in force when it arrives (the set of PMT PIDs registered by the
   PATs delivered so far): that is the only way another PID can influence x, and the property names it. *)
From Coq Require Import ZArith List Bool.
Require Import Base.Iter Gen.Types Gen.Preds Model.Pool Model.PoolRun Proofs.PoolProofs.
Import ListNotations.
Open Scope Z_scope.

(* the pool's behaviour for PID x is its accumulator run over x's own payload-carrying, error-free packets:
   same pending queue, same flushed groups in the same order — for every packet sequence and every starting pool *)
Theorem C07_per_pid : forall x xs pl,
  qof (fst (pool_run pl xs)) x = fst (acc_run x (qof pl x) xs) /\
  groups_of x (snd (pool_run pl xs)) = snd (acc_run x (qof pl x) xs).
Proof. exact per_pid. Qed.
Print Assumptions C07_per_pid.

(* any two order-preserving merges of the same per-PID sequences give every PID the same groups and the same
   pending queue (hence the same end-of-stream flush for that PID) *)
Theorem C07_merge : forall x xs ys,
  filter (fun s => relevant x (snd s)) xs = filter (fun s => relevant x (snd s)) ys ->
  groups_of x (snd (pool_run [] xs)) = groups_of x (snd (pool_run [] ys)) /\
  qof (fst (pool_run [] xs)) x = qof (fst (pool_run [] ys)) x.
Proof. exact merge_independent. Qed.
Print Assumptions C07_merge.

(* null packets, adaptation-field-only packets, transport-error packets and packets of other PIDs (garbage included),
   inserted anywhere, change nothing for PID x *)
Theorem C07_inserts : forall x s1 s2 s, relevant x (snd s) = false ->
  groups_of x (snd (pool_run [] (s1 ++ s :: s2))) = groups_of x (snd (pool_run [] (s1 ++ s2))) /\
  qof (fst (pool_run [] (s1 ++ s :: s2))) x = qof (fst (pool_run [] (s1 ++ s2))) x.
Proof. exact insert_irrelevant. Qed.
Print Assumptions C07_inserts.

(* the end-of-stream drain hands out the non-empty queues in increasing PID order, each exactly once *)
Theorem C07_drain_order : forall pl fuel, (length pl < fuel)%nat ->
  dump_all fuel pl = map snd (drain_groups pl).
Proof. exact dump_all_drain. Qed.
Print Assumptions C07_drain_order.

(* the premises are satisfiable: a null packet is irrelevant for PID 256 *)
Example C07_null_irrelevant :
  relevant 256 {| Packet_AdaptationField := None;
                  Packet_Header := {| PacketHeader_ContinuityCounter := 3; PacketHeader_HasAdaptationField := false;
                                      PacketHeader_HasPayload := true; PacketHeader_PayloadUnitStartIndicator := false;
                                      PacketHeader_PID := 8191; PacketHeader_TransportErrorIndicator := false;
                                      PacketHeader_TransportPriority := false; PacketHeader_TransportScramblingControl := 0 |};
                  Packet_Payload := [1; 2; 3] |} = false.
Proof. reflexivity. Qed.
