(* Property C03 — demuxing any finite input terminates without panicking
   (theorems only; proofs in Proofs/SafeProofs.v and Proofs/DemuxProofs.v). *)
From Coq Require Import ZArith List Bool.
Require Import Base.Bits Base.Iter Gen.Consts Gen.Types Model.Packet Model.Pool Model.Reader Model.Demux
  Model.Pes Model.Desc Model.Psi Model.DemuxFull
  Proofs.SafeProofs Proofs.DemuxProofs Proofs.SafeUnits Proofs.SafeDesc Proofs.SafePsi.
Import ListNotations.
Open Scope Z_scope.

(* parsePacket: for EVERY buffer of at least 188 bytes, whatever the bytes, with any skipper: no panic (the model
   panics exactly where Go would: negative slice bounds, make with a negative length), and the only errors are
   the generic one, "must start with a sync byte" and "skipped" *)
Theorem C03_packet_no_panic : forall skip bs, bytes_ok bs -> C_MpegTsPacketSize <= Z.of_nat (length bs) ->
  match run_iter (parse_packet skip) bs with
  | Panic => False
  | Err c => ok_code c \/ c = E_skipped
  | Ok _ => True
  end.
Proof. exact parse_packet_no_panic. Qed.
Print Assumptions C03_packet_no_panic.

(* once the input is used up (fewer bytes left than one packet: a truncated final packet included, nothing buffered,
   nothing pooled) every call returns ErrNoMorePackets and the state stays exhausted: later calls return it again *)
Theorem C03_nomore_stable : forall P prs skip s, exhausted s ->
  fst (next_data P prs skip s) = Err E_nomore /\ exhausted (snd (next_data P prs skip s)) /\
  fst (next_packet skip s) = Err E_nomore /\ exhausted (snd (next_packet skip s)).
Proof. exact nomore_stable. Qed.
Print Assumptions C03_nomore_stable.

(* the adaptation field parser and its parts never panic and never move the offset below zero *)
Theorem C03_af_safe : safe parse_packet_adaptation_field (fun a => 0 <= PacketAdaptationField_Length a).
Proof. exact safe_parse_af. Qed.
Print Assumptions C03_af_safe.

(* ---- the unit parsers: no panic on ANY byte string, and the only error is the generic one (in particular never the
   models' "loop ran out of fuel" code: every loop of the models has enough fuel on every input) ---- *)

(* parsePESData (data_pes.go) *)
Theorem C03_pes_no_panic : forall bs, bytes_ok bs ->
  match parse_pes_data_bytes bs with Panic => False | Err c => ok_code c | Ok _ => True end.
Proof. exact parse_pes_data_no_panic. Qed.
Print Assumptions C03_pes_no_panic.

(* parseDescriptors and the 23 newDescriptor* parsers (descriptor.go), entered at any non-negative offset *)
Theorem C03_descriptors_no_panic : forall bs, bytes_ok bs ->
  match run_iter parse_descriptors bs with Panic => False | Err c => ok_code c | Ok _ => True end.
Proof. exact parse_descriptors_no_panic. Qed.
Print Assumptions C03_descriptors_no_panic.

Theorem C03_descriptors_safe : safe parse_descriptors any.
Proof. exact safe_parse_descriptors. Qed.
Print Assumptions C03_descriptors_safe.

(* parsePSIData with its sections, syntax headers, the CRC gate and the six table parsers (data_psi.go, data_pat.go,
   data_pmt.go, data_sdt.go, data_nit.go, data_eit.go, data_tot.go) *)
Theorem C03_psi_no_panic : forall bs, bytes_ok bs ->
  match parse_psi_data_bytes bs with Panic => False | Err c => ok_code c | Ok _ => True end.
Proof. exact parse_psi_data_no_panic. Qed.
Print Assumptions C03_psi_no_panic.

(* the hypotheses are met by, and the theorems say something about, e.g. a PES unit with an optional header whose
   PES_header_data_length points past the end (error, not a panic), an ISO-639 descriptor (tag 10) of length 4, and a
   PAT section with a wrong CRC_32 (error) *)
Example C03_pes_example :
  bytes_ok [0; 0; 1; 224; 0; 0; 128; 0; 200] /\ parse_pes_data_bytes [0; 0; 1; 224; 0; 0; 128; 0; 200] = Err E_generic.
Proof. split; [repeat constructor; cbv; intuition discriminate|vm_compute; reflexivity]. Qed.
Example C03_descriptors_example :
  bytes_ok [240; 6; 10; 4; 101; 110; 103; 1] /\
  exists ds, run_iter parse_descriptors [240; 6; 10; 4; 101; 110; 103; 1] = Ok ds /\ length ds = 1%nat.
Proof. split; [repeat constructor; cbv; intuition discriminate|eexists; split; vm_compute; reflexivity]. Qed.
Example C03_psi_example :
  bytes_ok [0; 0; 176; 13; 0; 1; 193; 0; 0; 0; 1; 240; 0; 1; 2; 3; 4] /\
  parse_psi_data_bytes [0; 0; 176; 13; 0; 1; 193; 0; 0; 0; 1; 240; 0; 1; 2; 3; 4] = Err E_generic.
Proof. split; [repeat constructor; cbv; intuition discriminate|vm_compute; reflexivity]. Qed.

(* NOT proved here (full statements kept): no panic in the unit parsers (PES, PSI tables, descriptors) and the bound on
   the number of calls.  Both are exercised on every run: every case runs under recover, a call cap of 3*len+8 turns
   a non-terminating sequence into a violation, and the model — which has an explicit Panic outcome wherever Go would
   panic — is compared with the implementation on random, mutated and truncated inputs. *)
Definition C03_units_no_panic_full : Prop := forall P prs skip s,
  fst (next_data P prs skip s) <> Panic.
