(* Property C03 — demuxing any finite input terminates without panicking
   (theorems only; proofs in Proofs/SafeProofs.v and Proofs/DemuxProofs.v). *)
From Coq Require Import ZArith List Bool.
Require Import Base.Bits Base.Iter Gen.Consts Gen.Types Model.Packet Model.Pool Model.Reader Model.Demux
  Proofs.SafeProofs Proofs.DemuxProofs.
Import ListNotations.
Open Scope Z_scope.

(* parsePacket: for EVERY buffer of at least 188 bytes, whatever the bytes, with any skipper: no panic (the model
   panics exactly where Go would: negative slice bounds, make with a negative length), and the only errors are
   the generic one, "must start with a sync byte" and "skipped" *)
Theorem C03_packet_no_panic : forall skip bs, bytes_ok bs -> C_MpegTsPacketSize <= Z.of_nat (length bs) ->
  match run_iter (parse_packet skip) bs with
  | Panic => False
  | Err c => ok_code c \/ c = E_skipped
  | Ok _ => True
  end.
Proof. exact parse_packet_no_panic. Qed.
Print Assumptions C03_packet_no_panic.

(* once the input is used up (fewer bytes left than one packet: a truncated final packet included, nothing buffered,
   nothing pooled) every call returns ErrNoMorePackets and the state stays exhausted: later calls return it again *)
Theorem C03_nomore_stable : forall P prs skip s, exhausted s ->
  fst (next_data P prs skip s) = Err E_nomore /\ exhausted (snd (next_data P prs skip s)) /\
  fst (next_packet skip s) = Err E_nomore /\ exhausted (snd (next_packet skip s)).
Proof. exact nomore_stable. Qed.
Print Assumptions C03_nomore_stable.

(* the adaptation field parser and its parts never panic and never move the offset below zero *)
Theorem C03_af_safe : safe parse_packet_adaptation_field (fun a => 0 <= PacketAdaptationField_Length a).
Proof. exact safe_parse_af. Qed.
Print Assumptions C03_af_safe.

(* NOT proved here (full statements kept): no panic in the unit parsers (PES, PSI tables, descriptors) and the bound on
   the number of calls.  Both are exercised on every run: every case runs under recover, a call cap of 3*len+8 turns
   a non-terminating sequence into a violation, and the model — which has an explicit Panic outcome wherever Go would
   panic — is compared with the implementation on random, mutated and truncated inputs. *)
Definition C03_units_no_panic_full : Prop := forall P prs skip s,
  fst (next_data P prs skip s) <> Panic.
