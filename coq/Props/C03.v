(* Property C03 — demuxing any finite input terminates without panicking
   (theorems only; proofs in Proofs/SafeProofs.v and Proofs/DemuxProofs.v). *)
From Coq Require Import ZArith List Bool Lia.
Require Import Base.Bits Base.Iter Gen.Consts Gen.Types Model.Packet Model.Pool Model.Reader Model.Demux
  Model.Pes Model.Desc Model.Psi Model.DemuxFull
  Proofs.SafeProofs Proofs.DemuxProofs Proofs.SafeUnits Proofs.SafeDesc Proofs.SafePsi Proofs.SafeDemux Proofs.SafeBound
  Proofs.SafeEnd.
Import ListNotations.
Open Scope Z_scope.

(* parsePacket: for EVERY buffer of at least 188 bytes, whatever the bytes, with any skipper: no panic (the model
   panics exactly where Go would: negative slice bounds, make with a negative length), and the only errors are
   the generic one, "must start with a sync byte" and "skipped" *)
Theorem C03_packet_no_panic : forall skip bs, bytes_ok bs -> C_MpegTsPacketSize <= Z.of_nat (length bs) ->
  match run_iter (parse_packet skip) bs with
  | Panic => False
  | Err c => ok_code c \/ c = E_skipped
  | Ok _ => True
  end.
Proof. exact parse_packet_no_panic. Qed.
Print Assumptions C03_packet_no_panic.

(* once the input is used up (fewer bytes left than one packet: a truncated final packet included, nothing buffered,
   nothing pooled) every call returns ErrNoMorePackets and the state stays exhausted: later calls return it again *)
Theorem C03_nomore_stable : forall P prs skip s, exhausted s ->
  fst (next_data P prs skip s) = Err E_nomore /\ exhausted (snd (next_data P prs skip s)) /\
  fst (next_packet skip s) = Err E_nomore /\ exhausted (snd (next_packet skip s)).
Proof. exact nomore_stable. Qed.
Print Assumptions C03_nomore_stable.

(* the adaptation field parser and its parts never panic and never move the offset below zero *)
Theorem C03_af_safe : safe parse_packet_adaptation_field (fun a => 0 <= PacketAdaptationField_Length a).
Proof. exact safe_parse_af. Qed.
Print Assumptions C03_af_safe.

(* ---- the unit parsers: no panic on ANY byte string, and the only error is the generic one (in particular never the
   models' "loop ran out of fuel" code: every loop of the models has enough fuel on every input) ---- *)

(* parsePESData (data_pes.go) *)
Theorem C03_pes_no_panic : forall bs, bytes_ok bs ->
  match parse_pes_data_bytes bs with Panic => False | Err c => ok_code c | Ok _ => True end.
Proof. exact parse_pes_data_no_panic. Qed.
Print Assumptions C03_pes_no_panic.

(* parseDescriptors and the 23 newDescriptor* parsers (descriptor.go), entered at any non-negative offset *)
Theorem C03_descriptors_no_panic : forall bs, bytes_ok bs ->
  match run_iter parse_descriptors bs with Panic => False | Err c => ok_code c | Ok _ => True end.
Proof. exact parse_descriptors_no_panic. Qed.
Print Assumptions C03_descriptors_no_panic.

Theorem C03_descriptors_safe : safe parse_descriptors any.
Proof. exact safe_parse_descriptors. Qed.
Print Assumptions C03_descriptors_safe.

(* parsePSIData with its sections, syntax headers, the CRC gate and the six table parsers (data_psi.go, data_pat.go,
   data_pmt.go, data_sdt.go, data_nit.go, data_eit.go, data_tot.go) *)
Theorem C03_psi_no_panic : forall bs, bytes_ok bs ->
  match parse_psi_data_bytes bs with Panic => False | Err c => ok_code c | Ok _ => True end.
Proof. exact parse_psi_data_no_panic. Qed.
Print Assumptions C03_psi_no_panic.

(* the hypotheses are met by, and the theorems say something about, e.g. a PES unit with an optional header whose
   PES_header_data_length points past the end (error, not a panic), an ISO-639 descriptor (tag 10) of length 4, and a
   PAT section with a wrong CRC_32 (error) *)
Example C03_pes_example :
  bytes_ok [0; 0; 1; 224; 0; 0; 128; 0; 200] /\ parse_pes_data_bytes [0; 0; 1; 224; 0; 0; 128; 0; 200] = Err E_generic.
Proof. split; [repeat constructor; cbv; intuition discriminate|vm_compute; reflexivity]. Qed.
Example C03_descriptors_example :
  bytes_ok [240; 6; 10; 4; 101; 110; 103; 1] /\
  exists ds, run_iter parse_descriptors [240; 6; 10; 4; 101; 110; 103; 1] = Ok ds /\ length ds = 1%nat.
Proof. split; [repeat constructor; cbv; intuition discriminate|eexists; split; vm_compute; reflexivity]. Qed.
Example C03_psi_example :
  bytes_ok [0; 0; 176; 13; 0; 1; 193; 0; 0; 0; 1; 240; 0; 1; 2; 3; 4] /\
  parse_psi_data_bytes [0; 0; 176; 13; 0; 1; 193; 0; 0; 0; 1; 240; 0; 1; 2; 3; 4] = Err E_generic.
Proof. split; [repeat constructor; cbv; intuition discriminate|vm_compute; reflexivity]. Qed.

(* ---- C03_no_panic: the whole Demuxer ---- *)

(* [reachable prs skip s] (Proofs/SafeDemux.v): s is the state of a Demuxer created over bytes_ok data with any reader
   kind (plain / seekable / bufio), with or without an injected reader fault, packet size option 0 (auto-detect) or
   >= 188, followed by any sequence of NextPacket / NextData / Rewind, with the PES / PSI / descriptor parsers of
   Model/Pes.v, Psi.v, Desc.v, any PacketSkipper, and no PacketsParser or one that does not itself panic.
   In every such state neither NextPacket nor NextData panics. *)
Theorem C03_no_panic : forall prs skip s, parser_no_panic prs -> reachable prs skip s ->
  fst (next_packet skip s) <> Panic /\ fst (next_data full_parsers prs skip s) <> Panic.
Proof. exact no_panic_reachable. Qed.
Print Assumptions C03_no_panic.

(* the invariant behind it, for every reachable state *)
Theorem C03_reachable_invariant : forall prs skip s, parser_no_panic prs -> reachable prs skip s -> dinv s.
Proof. exact reachable_inv. Qed.
Print Assumptions C03_reachable_invariant.

(* the hypotheses are satisfiable and the statement is not vacuous: one 188-byte packet on the PAT PID whose payload is a
   pointer_field and stuffing; the state after one NextData is reachable (and that call returned ErrNoMorePackets after
   parsing the unit); a PacketsParser that never panics *)
Definition C03_example_stream : list Z := [71; 64; 0; 16; 0] ++ repeat 255 183.
Example C03_no_panic_example :
  let s0 := init_dstate (new_reader C03_example_stream None Seekable) 188 in
  bytes_ok C03_example_stream /\ reachable None no_skip (snd (next_data full_parsers None no_skip s0)) /\
  fst (next_data full_parsers None no_skip s0) = Err E_nomore /\
  length (d_groups (snd (next_data full_parsers None no_skip s0))) = 1%nat /\
  parser_no_panic (Some (fun ps => Ok ([], false))).
Proof.
  assert (Hb : bytes_ok C03_example_stream) by (apply bytes_okb_ok; vm_compute; reflexivity).
  cbv zeta. split; [exact Hb|]. split; [apply reach_data; apply reach_init; [exact Hb|right; unfold C_MpegTsPacketSize; lia]|].
  split; [vm_compute; reflexivity|]. split; [vm_compute; reflexivity|]. intros ps. discriminate.
Qed.

(* without the reachability hypothesis the statement is false (this is why C03_units_no_panic_full below cannot be a
   theorem as it stands): a state whose packet buffer has a negative size panics in make([]byte, packetSize) *)
Theorem C03_unreachable_state_panics :
  exists s, fst (next_data full_parsers None no_skip s) = Panic.
Proof.
  exists (mk_dstate [] (Some (mk_pbuf (-1))) [] [] (new_reader [] None Plain) 0 [] []). vm_compute. reflexivity.
Qed.
Print Assumptions C03_unreachable_state_panics.

(* ---- C03_progress / C03_bound: termination (reader that does not fail) ---- *)

(* [dinv2 s] = the invariant above + the reader has no injected fault + the pool is sorted by PID; it holds of every
   state reached from a fresh Demuxer over bytes_ok data by NextPacket / NextData (C03_nofault_invariant).
   [potential s] = bytes left in the reader + (length of the input while no packet buffer exists) + number of buffered
   data + for every pool entry 1 + (1 + payload length) per packet held.  [parser_bounded prs]: a PacketsParser, if
   any, returns at most as many data as the weight (packets + payload bytes) of the group it is given. *)

(* every call keeps the invariant, never increases the potential, and strictly decreases it unless it returns
   ErrNoMorePackets: it consumed reader bytes, or popped the data buffer, or removed pool content *)
Theorem C03_progress : forall prs skip c s, parser_no_panic prs -> parser_bounded prs -> dinv2 s ->
  dinv2 (snd (call full_parsers prs skip c s)) /\
  potential (snd (call full_parsers prs skip c s)) <= potential s /\
  (fst (call full_parsers prs skip c s) <> Err E_nomore -> potential (snd (call full_parsers prs skip c s)) < potential s).
Proof. exact call_potential. Qed.
Print Assumptions C03_progress.

Theorem C03_potential_nonneg : forall s, dinv2 s -> 0 <= potential s.
Proof. exact potential_nonneg. Qed.
Print Assumptions C03_potential_nonneg.

Theorem C03_nofault_invariant : forall prs skip s, parser_no_panic prs -> parser_bounded prs ->
  reachable_nofault prs skip s -> dinv2 s.
Proof. exact reachable_nofault_inv2. Qed.
Print Assumptions C03_nofault_invariant.

(* hence: from any state, any sequence of more than potential(s) calls (NextPacket and NextData in any order, errors
   ignored by the caller) contains one that returns ErrNoMorePackets *)
Theorem C03_calls_reach_nomore : forall prs skip, parser_no_panic prs -> parser_bounded prs -> forall cs s, dinv2 s ->
  potential s < Z.of_nat (length cs) -> In (Err E_nomore) (calls full_parsers prs skip cs s).
Proof. exact calls_reach_nomore. Qed.
Print Assumptions C03_calls_reach_nomore.

(* from a fresh Demuxer (any reader kind, size option 0 or >= 188, any skipper) the potential is 2 * length input:
   among the first 2 * length input + 1 calls — a fortiori among the first 3 * length input + 3 — one returns
   ErrNoMorePackets *)
Theorem C03_bound : forall prs skip data k opt cs, parser_no_panic prs -> parser_bounded prs -> bytes_ok data ->
  (opt = 0 \/ C_MpegTsPacketSize <= opt) -> 3 * Z.of_nat (length data) + 3 <= Z.of_nat (length cs) ->
  In (Err E_nomore) (calls full_parsers prs skip cs (init_dstate (new_reader data None k) opt)).
Proof. exact bound_from_start_3. Qed.
Print Assumptions C03_bound.

Theorem C03_bound_2n : forall prs skip data k opt cs, parser_no_panic prs -> parser_bounded prs -> bytes_ok data ->
  (opt = 0 \/ C_MpegTsPacketSize <= opt) -> 2 * Z.of_nat (length data) < Z.of_nat (length cs) ->
  In (Err E_nomore) (calls full_parsers prs skip cs (init_dstate (new_reader data None k) opt)).
Proof. exact bound_from_start. Qed.
Print Assumptions C03_bound_2n.

(* the first ErrNoMorePackets of NextData leaves nothing buffered, nothing pooled and nothing in the reader, and from
   then on EVERY call, of either kind, with any parsers / skipper, returns ErrNoMorePackets *)
Theorem C03_nomore_absorbing : forall prs skip s, dinv2 s -> fst (next_data full_parsers prs skip s) = Err E_nomore ->
  forall P' prs' skip' cs, Forall (fun x => x = Err E_nomore) (calls P' prs' skip' cs (snd (next_data full_parsers prs skip s))).
Proof. exact nomore_absorbing. Qed.
Print Assumptions C03_nomore_absorbing.

(* NextPacket returns ErrNoMorePackets only when the reader is used up (a truncated final packet is consumed and
   treated as end of stream), and then keeps returning it *)
Theorem C03_packet_nomore_stable : forall skip s, dinv2 s -> fst (next_packet skip s) = Err E_nomore ->
  rem (d_reader (snd (next_packet skip s))) = 0 /\
  forall skip', fst (next_packet skip' (snd (next_packet skip s))) = Err E_nomore.
Proof. intros skip s Hs E. split; [exact (next_packet_nomore skip s Hs E)|exact (next_packet_nomore_stable skip s Hs E)]. Qed.
Print Assumptions C03_packet_nomore_stable.

(* a truncated final packet (fewer bytes left than the packet size) is end of stream, not an error, and is consumed *)
Theorem C03_truncated_tail : forall skip s pb, dinv2 s -> d_pb s = Some pb -> rem (d_reader s) < pb_size pb ->
  fst (next_packet skip s) = Err E_nomore /\ rem (d_reader (snd (next_packet skip s))) = 0.
Proof. exact truncated_tail. Qed.
Print Assumptions C03_truncated_tail.

(* hypotheses satisfiable, statements not vacuous: the one-packet stream above followed by a truncated packet (100 bytes):
   NextData parses the unit, reaches the truncated tail and returns ErrNoMorePackets; potential 576 at the start;
   the never-panicking, never-producing PacketsParser is bounded *)
Example C03_bound_example :
  let data := C03_example_stream ++ repeat 71 100 in
  let s0 := init_dstate (new_reader data None Plain) 188 in
  dinv2 s0 /\ potential s0 = 576 /\
  calls full_parsers None no_skip [CallData; CallPacket; CallData] s0 = [Err E_nomore; Err E_nomore; Err E_nomore] /\
  parser_bounded (Some (fun ps => Ok ([], false))).
Proof.
  cbv zeta. split; [apply init_inv2; [apply bytes_okb_ok; vm_compute; reflexivity|right; unfold C_MpegTsPacketSize; lia]|].
  split; [vm_compute; reflexivity|]. split; [vm_compute; reflexivity|].
  intros ps ds b E. inversion E; subst. cbn [length]. apply gw_nonneg.
Qed.

(* The statement this file carried before C03_no_panic was proved, kept for the record: over ALL states and ALL unit
   parsers it is false (C03_unreachable_state_panics); its provable content is C03_no_panic. *)
Definition C03_units_no_panic_full : Prop := forall P prs skip s,
  fst (next_data P prs skip s) <> Panic.

(* ---- isPSIComplete IS the source ----
   Gen/DemuxGen.v (Section PsiComplete) is translated from the current /repo/data.go on every run
   (go/gen/demuxgen.go): the payload-length loop, bytesPool.get, the copy loop, the walk over the section headers
   (`for i.HasBytesLeft()` with its break and early returns) and the final comparison. is_psi_complete, through which
   every theorem above (and C02 / C06 / C07) sees isPSIComplete, is that regenerated function: for every world and
   every bytesPool.get that returns a slice of the requested length, on payload bytes in 0..255, with fuel
   S (payload length) the generated function terminates with exactly is_psi_complete (no panic, fuel not exhausted).
   A "fast path", a changed mask or a reordered test in isPSIComplete breaks this proof; no generated case has to
   reach it. *)
Require Import Gen.DemuxGen Proofs.DemuxGenEqPsi.

Theorem C03_psi_complete_is_source : forall (W : Type) (get : W -> Z -> outcome (list Z * W)),
  (forall w n, 0 <= n -> exists bs w', get w n = Done (bs, w') /\ Z.of_nat (length bs) = n) ->
  forall ps w, bytes_ok (concat_payload ps) ->
  exists w', isPSIComplete W get ps (S (length (concat_payload ps))) w = Done (is_psi_complete ps, w').
Proof. exact psi_complete_is_generated. Qed.
Print Assumptions C03_psi_complete_is_source.

(* ---- NextData, whose termination and panic-freedom the theorems above establish, IS the source ----
   (the same statement as C02_next_data_is_source; Proofs/DemuxGenEqData.v.)  `ps == nil` in place of `len(ps) == 0`
   after addUnlocked, a break / continue slip in the end-of-stream dump loop, an error compared with errors.Is instead
   of ==: each changes Gen/DemuxGen.v (or makes the translator refuse NextData) and this proof stops checking. *)
Require Import Proofs.DemuxGenEq Proofs.DemuxGenEqData.

Theorem C03_next_data_is_source : forall (err_of : Z -> gerr),
  (forall c, gerr_eqb (err_of c) e_nomore = (c =? E_nomore)) -> (forall c, code_x (err_of c) = norm c) ->
  forall P prs skip s f2, (length (d_pool s) + nd_fuel s < f2)%nat ->
  match Demuxer_NextData mworld unit unit gpb pool unit unit pm_set_m ctx_err_m (new_pb_m err_of) (pb_next_m err_of)
          pool_dump_m (parse_data_m err_of P) pool_add_m
          tt (d_buffer s) tt (d_opt_size s) (go_prs err_of prs) (go_sk skip) (with_sk skip (d_pb s)) (d_pool s) tt tt
          (nd_fuel s) f2 (world_of s) with
  | Done (buf', pb', pl', d, err, w') =>
      res_rel d err (fst (next_data P prs skip s)) /\
      pb' = with_sk skip (d_pb (snd (next_data P prs skip s))) /\
      snd (next_data P prs skip s) = state_of buf' (d_pb (snd (next_data P prs skip s))) pl' (d_opt_size s) w'
  | Panicked => fst (next_data P prs skip s) = Panic
  | OutOfFuel => fst (next_data P prs skip s) = Err E_generic
  end.
Proof. exact next_data_is_generated. Qed.
Print Assumptions C03_next_data_is_source.

(* ---- the PSI / descriptor parsers whose panic-freedom C03_psi_no_panic and C03_descriptors_no_panic establish ARE the
   source (the statements of C09_gate_is_source and C14_loop_is_source, quoted here: a nil syntax dereferenced for a
   section of one to four bytes, a descriptor body indexed without a length check — such an edit regenerates
   Gen/PsiGen.v and these proofs stop checking, whether or not a generated stream reaches it) ---- *)
Require Import Model.Dvb Gen.PsiGen Proofs.ParseGenBits Proofs.PsiGenSim Proofs.PsiGenEq Proofs.PsiGenDesc2.
Theorem C03_psi_parsers_are_source :
  same_on_bytes parse_psi_section (PsiGen.parsePSISection parse_dvb_duration_seconds parse_dvb_time parse_descriptors) /\
  same_on_bytes parse_psi_data (PsiGen.parsePSIData parse_dvb_duration_seconds parse_dvb_time parse_descriptors) /\
  (forall bs, bytes_ok bs ->
     parse_psi_data_bytes bs = run_iter (PsiGen.parsePSIData parse_dvb_duration_seconds parse_dvb_time parse_descriptors) bs).
Proof. pose proof psi_gate_is_source as H. tauto. Qed.
Print Assumptions C03_psi_parsers_are_source.
Theorem C03_descriptors_are_source : descriptor_parsers_tie.
Proof. exact descriptor_loop_is_source. Qed.
Print Assumptions C03_descriptors_are_source.
