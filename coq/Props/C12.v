(* Property C12 — PES headers and timestamps per ISO 13818-1 2.4.3.6-7 (theorems only; proofs in Proofs/). *)
From Coq Require Import ZArith List.
Require Import Base.Bits Base.Iter Base.Wr Gen.Consts Gen.Types Gen.Preds Model.Clock Model.Pes Proofs.ClockProofs.
Import ListNotations.
Open Scope Z_scope.

(* PTS / DTS: prefix(4) + 3/1/15/1/15/1 with marker bits, all 2^33 values, any prefix, anything behind it *)
Theorem C12_pts_roundtrip : forall flag base rest, 0 <= base < 2 ^ 33 ->
  parse_pts_or_dts (new_iter (bytes_of_items (enc_pts_or_dts flag (mk_cr base 0)) ++ rest)) =
  Ok (mk_cr base 0, mk_iter (bytes_of_items (enc_pts_or_dts flag (mk_cr base 0)) ++ rest) 5).
Proof. exact pts_roundtrip. Qed.
Print Assumptions C12_pts_roundtrip.

(* ESCR: reserved(2) + 3/1/15/1/15/1 + extension(9) + marker, all 2^33 x 2^9 values *)
Theorem C12_escr_roundtrip : forall base ext rest, 0 <= base < 2 ^ 33 -> 0 <= ext < 2 ^ 9 ->
  parse_escr (new_iter (bytes_of_items (enc_escr (mk_cr base ext)) ++ rest)) =
  Ok (mk_cr base ext, mk_iter (bytes_of_items (enc_escr (mk_cr base ext)) ++ rest) 6).
Proof. exact escr_roundtrip. Qed.
Print Assumptions C12_escr_roundtrip.
