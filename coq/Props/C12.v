(* Property C12 — PES headers and timestamps per ISO 13818-1 2.4.3.6-7 (theorems only; proofs in Proofs/). *)
From Coq Require Import ZArith List.
Require Import Base.Bits Base.Iter Base.Wr Gen.Consts Gen.Types Gen.Preds Model.Clock Model.Pes Spec.PesSpec
  Proofs.ClockProofs Proofs.PesProofs Proofs.PesRoundTrip.
Import ListNotations.
Open Scope Z_scope.

(* PTS / DTS: prefix(4) + 3/1/15/1/15/1 with marker bits, all 2^33 values, any prefix, anything behind it *)
Theorem C12_pts_roundtrip : forall flag base rest, 0 <= base < 2 ^ 33 ->
  parse_pts_or_dts (new_iter (bytes_of_items (enc_pts_or_dts flag (mk_cr base 0)) ++ rest)) =
  Ok (mk_cr base 0, mk_iter (bytes_of_items (enc_pts_or_dts flag (mk_cr base 0)) ++ rest) 5).
Proof. exact pts_roundtrip. Qed.
Print Assumptions C12_pts_roundtrip.

(* ESCR: reserved(2) + 3/1/15/1/15/1 + extension(9) + marker, all 2^33 x 2^9 values *)
Theorem C12_escr_roundtrip : forall base ext rest, 0 <= base < 2 ^ 33 -> 0 <= ext < 2 ^ 9 ->
  parse_escr (new_iter (bytes_of_items (enc_escr (mk_cr base ext)) ++ rest)) =
  Ok (mk_cr base ext, mk_iter (bytes_of_items (enc_escr (mk_cr base ext)) ++ rest) 6).
Proof. exact escr_roundtrip. Qed.
Print Assumptions C12_escr_roundtrip.

(* ClockReference.Duration(): inside the property's range (33-bit base, 9-bit extension) it is
   base*10^9/90000 + ext*10^9/27000000 (each term truncated; Z.div = Z.quot on non-negative operands),
   every int64 intermediate stays below 2^63, and the result lies less than 2 ns below the exact rational
   value base/90kHz + ext/27MHz (both sides scaled by 27 000 000) *)
Theorem C12_duration : forall base ext, 0 <= base < 2 ^ 33 -> 0 <= ext < 2 ^ 9 ->
  let d := cr_duration (mk_cr base ext) in
  d = base * 10 ^ 9 / 90000 + ext * 10 ^ 9 / 27000000
  /\ 0 <= base * 10 ^ 9 < 2 ^ 63 /\ 0 <= ext * 10 ^ 9 < 2 ^ 63
  /\ 0 <= base * 10 ^ 9 / 90000 < 2 ^ 63 /\ 0 <= ext * 10 ^ 9 / 27000000 < 2 ^ 63 /\ 0 <= d < 2 ^ 63
  /\ 27000000 * d <= 300 * (base * 10 ^ 9) + ext * 10 ^ 9 < 27000000 * (d + 2).
Proof. exact duration_spec. Qed.
Print Assumptions C12_duration.

(* PES_packet_length as written: 0 for the video stream ids 0xE0 / 0xFD or when payload + optional header
   exceed 65535, otherwise payload + optional header length (no optional header for 0xBE / 0xBF);
   IsVideoStream, hasPESOptionalHeader and calcPESOptionalHeaderLength are the definitions regenerated from data_pes.go *)
Theorem C12_length_rule : forall h n,
  pes_packet_length h n =
    (if orb (PESHeader_StreamID h =? 224) (PESHeader_StreamID h =? 253) then 0
     else if n + opt_len_of h >? 65535 then 0
     else n + opt_len_of h)
  /\ forall its k, enc_pes_header h n = Ok (its, k) ->
       exists rest, its = [WBits 24 1; wu8 (PESHeader_StreamID h); wu16 (pes_packet_length h n)] ++ rest.
Proof. intros h n. split; [apply length_rule | apply enc_pes_header_head]. Qed.
Print Assumptions C12_length_rule.

(* payload boundaries: for every byte string on which parsePESHeader succeeds (header h, whatever it contains),
   with L = PES_packet_length and hdr = 3 + PES_header_data_length (0 without optional header):
   L > 0: the data are exactly the L - hdr bytes behind the header, an error when fewer are available or when
   L ends inside the header; L = 0: everything up to the end of the unit *)
Theorem C12_payload : forall bs h ds de i',
  parse_pes_header (mk_iter bs 3) = Ok ((h, ds, de), i') ->
  let L := PESHeader_PacketLength h in
  let hdr := match PESHeader_OptionalHeader h with
             | Some oh => 3 + PESOptionalHeader_HeaderLength oh | None => 0 end in
  let len := Z.of_nat (length bs) in
  bytes_ok bs ->
  (L > 0 -> hdr <= L -> 6 + L <= len ->
     parse_pes_data_bytes bs = Ok {| PESData_Data := slice bs (6 + hdr) (6 + L); PESData_Header := Some h |}
     /\ Z.of_nat (length (slice bs (6 + hdr) (6 + L))) = L - hdr) /\
  (L > 0 -> len < 6 + L -> parse_pes_data_bytes bs = Err E_generic) /\
  (L > 0 -> L < hdr -> parse_pes_data_bytes bs = Err E_generic) /\
  (L = 0 -> 6 + hdr <= len ->
     parse_pes_data_bytes bs = Ok {| PESData_Data := skipn (Z.to_nat (6 + hdr)) bs; PESData_Header := Some h |}) /\
  (L = 0 -> len < 6 + hdr -> parse_pes_data_bytes bs = Err E_generic).
Proof. exact payload_rule. Qed.
Print Assumptions C12_payload.

(* parse (write v) = observed v, full strength: for EVERY writable header v (Spec.PesSpec.wf_header: any stream id;
   for ids with an optional header every field within its width - all 2^2 scrambling values, all flag
   combinations, PTS/DTS/ESCR over all 2^33 x 2^9 values, ES rate 0..2^22-1, every trick mode, copy info,
   16 bytes of private data, sequence counter, P-STD buffer, extension 2 of 0..127 bytes; the two parts the writer
   does not support, CRC and pack header, absent) and every payload: writePESHeader succeeds, reports the number of
   bytes it produced, and parsePESData on header ++ payload returns exactly the payload and the header with its derived
   fields filled in (marker bits '10', PES_header_data_length = sum of the parts present, PES_extension_field_length,
   PES_packet_length by the length rule). *)
Theorem C12_parse_write_header : forall h payload, wf_header h -> bytes_ok payload ->
  exists its n, enc_pes_header h (Z.of_nat (length payload)) = Ok (its, n) /\
    n = Z.of_nat (length (bytes_of_items its)) /\
    parse_pes_data_bytes (bytes_of_items its ++ payload) =
      Ok {| PESData_Data := payload;
            PESData_Header := Some (observed_header h (Z.of_nat (length payload))) |}.
Proof. exact parse_write_header. Qed.
Print Assumptions C12_parse_write_header.

(* the regenerated calcPESOptionalHeaderDataLength (uint8 arithmetic, from data_pes.go) never wraps on a writable
   header: it is the sum of the sizes of the parts present, at most 170 *)
Theorem C12_header_data_length : forall h, wf_opt h ->
  calcPESOptionalHeaderDataLength h = ref_header_data_length h /\ 0 <= ref_header_data_length h <= 170.
Proof. intros h W. split; [apply calc_len_eq | apply ref_len_range]; exact W. Qed.
Print Assumptions C12_header_data_length.
