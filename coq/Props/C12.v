(* Property C12 — PES headers and timestamps per ISO 13818-1 2.4.3.6-7 (theorems only; proofs in Proofs/). *)
From Coq Require Import ZArith List.
Require Import Base.Bits Base.Iter Base.Wr Gen.Consts Gen.Types Gen.Preds Model.Clock Model.Pes Spec.PesSpec
  Proofs.ClockProofs Proofs.PesProofs Proofs.PesRoundTrip Proofs.PesParseRef.
Import ListNotations.
Open Scope Z_scope.

(* PTS / DTS: prefix(4) + 3/1/15/1/15/1 with marker bits, all 2^33 values, any prefix, anything behind it *)
Theorem C12_pts_roundtrip : forall flag base rest, 0 <= base < 2 ^ 33 ->
  parse_pts_or_dts (new_iter (bytes_of_items (enc_pts_or_dts flag (mk_cr base 0)) ++ rest)) =
  Ok (mk_cr base 0, mk_iter (bytes_of_items (enc_pts_or_dts flag (mk_cr base 0)) ++ rest) 5).
Proof. exact pts_roundtrip. Qed.
Print Assumptions C12_pts_roundtrip.

(* ESCR: reserved(2) + 3/1/15/1/15/1 + extension(9) + marker, all 2^33 x 2^9 values *)
Theorem C12_escr_roundtrip : forall base ext rest, 0 <= base < 2 ^ 33 -> 0 <= ext < 2 ^ 9 ->
  parse_escr (new_iter (bytes_of_items (enc_escr (mk_cr base ext)) ++ rest)) =
  Ok (mk_cr base ext, mk_iter (bytes_of_items (enc_escr (mk_cr base ext)) ++ rest) 6).
Proof. exact escr_roundtrip. Qed.
Print Assumptions C12_escr_roundtrip.

(* ClockReference.Duration(): inside the property's range (33-bit base, 9-bit extension) it is
   base*10^9/90000 + ext*10^9/27000000 (each term truncated; Z.div = Z.quot on non-negative operands),
   every int64 intermediate stays below 2^63, and the result lies less than 2 ns below the exact rational
   value base/90kHz + ext/27MHz (both sides scaled by 27 000 000) *)
Theorem C12_duration : forall base ext, 0 <= base < 2 ^ 33 -> 0 <= ext < 2 ^ 9 ->
  let d := cr_duration (mk_cr base ext) in
  d = base * 10 ^ 9 / 90000 + ext * 10 ^ 9 / 27000000
  /\ 0 <= base * 10 ^ 9 < 2 ^ 63 /\ 0 <= ext * 10 ^ 9 < 2 ^ 63
  /\ 0 <= base * 10 ^ 9 / 90000 < 2 ^ 63 /\ 0 <= ext * 10 ^ 9 / 27000000 < 2 ^ 63 /\ 0 <= d < 2 ^ 63
  /\ 27000000 * d <= 300 * (base * 10 ^ 9) + ext * 10 ^ 9 < 27000000 * (d + 2).
Proof. exact duration_spec. Qed.
Print Assumptions C12_duration.

(* PES_packet_length as written: 0 for the video stream ids 0xE0 / 0xFD or when payload + optional header
   exceed 65535, otherwise payload + optional header length (no optional header for 0xBE / 0xBF);
   IsVideoStream, hasPESOptionalHeader and calcPESOptionalHeaderLength are the definitions regenerated from data_pes.go *)
Theorem C12_length_rule : forall h n,
  pes_packet_length h n =
    (if orb (PESHeader_StreamID h =? 224) (PESHeader_StreamID h =? 253) then 0
     else if n + opt_len_of h >? 65535 then 0
     else n + opt_len_of h)
  /\ forall its k, enc_pes_header h n = Ok (its, k) ->
       exists rest, its = [WBits 24 1; wu8 (PESHeader_StreamID h); wu16 (pes_packet_length h n)] ++ rest.
Proof. intros h n. split; [apply length_rule | apply enc_pes_header_head]. Qed.
Print Assumptions C12_length_rule.

(* payload boundaries: for every byte string on which parsePESHeader succeeds (header h, whatever it contains),
   with L = PES_packet_length and hdr = 3 + PES_header_data_length (0 without optional header):
   L > 0: the data are exactly the L - hdr bytes behind the header, an error when fewer are available or when
   L ends inside the header; L = 0: everything up to the end of the unit *)
Theorem C12_payload : forall bs h ds de i',
  parse_pes_header (mk_iter bs 3) = Ok ((h, ds, de), i') ->
  let L := PESHeader_PacketLength h in
  let hdr := match PESHeader_OptionalHeader h with
             | Some oh => 3 + PESOptionalHeader_HeaderLength oh | None => 0 end in
  let len := Z.of_nat (length bs) in
  bytes_ok bs ->
  (L > 0 -> hdr <= L -> 6 + L <= len ->
     parse_pes_data_bytes bs = Ok {| PESData_Data := slice bs (6 + hdr) (6 + L); PESData_Header := Some h |}
     /\ Z.of_nat (length (slice bs (6 + hdr) (6 + L))) = L - hdr) /\
  (L > 0 -> len < 6 + L -> parse_pes_data_bytes bs = Err E_generic) /\
  (L > 0 -> L < hdr -> parse_pes_data_bytes bs = Err E_generic) /\
  (L = 0 -> 6 + hdr <= len ->
     parse_pes_data_bytes bs = Ok {| PESData_Data := skipn (Z.to_nat (6 + hdr)) bs; PESData_Header := Some h |}) /\
  (L = 0 -> len < 6 + hdr -> parse_pes_data_bytes bs = Err E_generic).
Proof. exact payload_rule. Qed.
Print Assumptions C12_payload.

(* parse (write v) = observed v, full strength: for EVERY writable header v (Spec.PesSpec.wf_header: any stream id;
   for ids with an optional header every field within its width - all 2^2 scrambling values, all flag
   combinations, PTS/DTS/ESCR over all 2^33 x 2^9 values, ES rate 0..2^22-1, every trick mode, copy info,
   16 bytes of private data, sequence counter, P-STD buffer, extension 2 of 0..127 bytes; the two parts the writer
   does not support, CRC and pack header, absent) and every payload: writePESHeader succeeds, reports the number of
   bytes it produced, and parsePESData on header ++ payload returns exactly the payload and the header with its derived
   fields filled in (marker bits '10', PES_header_data_length = sum of the parts present, PES_extension_field_length,
   PES_packet_length by the length rule). *)
Theorem C12_parse_write_header : forall h payload, wf_header h -> bytes_ok payload ->
  exists its n, enc_pes_header h (Z.of_nat (length payload)) = Ok (its, n) /\
    n = Z.of_nat (length (bytes_of_items its)) /\
    parse_pes_data_bytes (bytes_of_items its ++ payload) =
      Ok {| PESData_Data := payload;
            PESData_Header := Some (observed_header h (Z.of_nat (length payload))) |}.
Proof. exact parse_write_header. Qed.
Print Assumptions C12_parse_write_header.

(* the regenerated calcPESOptionalHeaderDataLength (uint8 arithmetic, from data_pes.go) never wraps on a writable
   header: it is the sum of the sizes of the parts present, at most 170 *)
Theorem C12_header_data_length : forall h, wf_opt h ->
  calcPESOptionalHeaderDataLength h = ref_header_data_length h /\ 0 <= ref_header_data_length h <= 170.
Proof. intros h W. split; [apply calc_len_eq | apply ref_len_range]; exact W. Qed.
Print Assumptions C12_header_data_length.

(* decoding, full strength: parsePESData on the ISO 13818-1 reference encoding (Spec.PesSpec.ref_pes_bytes, written as
   (width, value) fields from 2.4.3.6) of ANY well-formed header (Spec.PesSpec.wf_all) returns every field - including
   the parts the library cannot write: any 16-bit previous_PES_packet_CRC, a pack_header_field with its pack header
   bytes, and any number of stuffing bytes that PES_header_data_length can express - for every stream id the library
   gives an optional header, every PES_packet_length L and anything behind the header:
   L = 0: all the bytes behind the header; L > 0: exactly L - (3 + PES_header_data_length) bytes; an error when L ends
   inside the header or beyond the available bytes. *)
Theorem C12_parse_ref : forall sid L h pack st rest,
  0 <= sid < 256 -> 0 <= L < 65536 -> lib_has_optional_header sid = true -> wf_all h pack st ->
  let bs := ref_pes_bytes sid L h pack st ++ rest in
  let H := {| PESHeader_OptionalHeader := Some (observed_all h st); PESHeader_PacketLength := L; PESHeader_StreamID := sid |} in
  let hdr := 3 + ref_header_data_length_all h + Z.of_nat st in
  (L = 0 -> parse_pes_data_bytes bs = Ok {| PESData_Data := rest; PESData_Header := Some H |}) /\
  (L > 0 -> hdr <= L -> L - hdr <= Z.of_nat (length rest) ->
     parse_pes_data_bytes bs = Ok {| PESData_Data := firstn (Z.to_nat (L - hdr)) rest; PESData_Header := Some H |}) /\
  (L > 0 -> L < hdr \/ Z.of_nat (length rest) < L - hdr -> parse_pes_data_bytes bs = Err E_generic).
Proof. exact parse_ref. Qed.
Print Assumptions C12_parse_ref.

(* the same for the stream ids without optional header (padding_stream 0xBE, private_stream_2 0xBF) *)
Theorem C12_parse_ref_noopt : forall sid L rest,
  0 <= sid < 256 -> 0 <= L < 65536 -> lib_has_optional_header sid = false ->
  let bs := ref_pes_bytes_noopt sid L ++ rest in
  let H := {| PESHeader_OptionalHeader := None; PESHeader_PacketLength := L; PESHeader_StreamID := sid |} in
  (L = 0 -> parse_pes_data_bytes bs = Ok {| PESData_Data := rest; PESData_Header := Some H |}) /\
  (L > 0 -> L <= Z.of_nat (length rest) ->
     parse_pes_data_bytes bs = Ok {| PESData_Data := firstn (Z.to_nat L) rest; PESData_Header := Some H |}) /\
  (L > 0 -> Z.of_nat (length rest) < L -> parse_pes_data_bytes bs = Err E_generic).
Proof. exact parse_ref_noopt. Qed.
Print Assumptions C12_parse_ref_noopt.

(* encoding: for every writable optional header writePESOptionalHeader emits exactly the reference encoding
   (no pack header, no stuffing), bit for bit, and reports its length *)
Theorem C12_write_ref : forall h, wf_opt h ->
  exists its n, enc_pes_optional_header h = Ok (its, n) /\
    bytes_of_items its = ref_opt_bytes h [] 0 /\ n = Z.of_nat (length (ref_opt_bytes h [] 0)).
Proof. exact write_ref. Qed.
Print Assumptions C12_write_ref.

(* ... and writePESHeader emits the reference encoding of the whole packet header: start code prefix, stream id,
   PES_packet_length by the length rule, then (for ids with an optional header) the optional header *)
Theorem C12_write_ref_header : forall h n, wf_header h -> 0 <= n ->
  let sid := PESHeader_StreamID h in
  let L := ref_packet_length sid (ref_opt_len h) n in
  exists its k, enc_pes_header h n = Ok (its, k) /\ k = Z.of_nat (length (bytes_of_items its)) /\
    bytes_of_items its =
      match PESHeader_OptionalHeader h with
      | Some oh => if lib_has_optional_header sid then ref_pes_bytes sid L oh [] 0 else ref_pes_bytes_noopt sid L
      | None => ref_pes_bytes_noopt sid L
      end.
Proof. exact write_ref_header. Qed.
Print Assumptions C12_write_ref_header.

(* ---- the parsers above are the source ----
   Every parser of data_pes.go that the theorems of this file mention (parse_pts_or_dts, parse_escr, parse_dsm_trick_mode,
   parse_pes_optional_header, parse_pes_header, parse_pes_data / parse_pes_data_bytes) is equal, as a computation in the
   iterator monad and on every iterator whose bytes are in 0..255, to the definition that go/gen (itermonad.go) translates
   from the CURRENT source of parsePTSOrDTS / parseESCR / parseDSMTrickMode / parsePESOptionalHeader / parsePESHeader /
   parsePESData into Gen/ParseGen.v.  An edit of one of these Go functions regenerates Gen/ParseGen.v and this theorem
   (Proofs/ParseGenPes.v, Proofs/ParseGenEq.v) stops checking. *)
Require Import Gen.ParseGen Proofs.ParseGenBits Proofs.ParseGenEq Proofs.ParseGenPes.
Theorem C12_parsers_are_source :
  same_on_bytes parse_pts_or_dts ParseGen.parsePTSOrDTS /\
  same_on_bytes parse_escr ParseGen.parseESCR /\
  (forall b, byte_ok b -> parse_dsm_trick_mode b = ParseGen.parseDSMTrickMode b) /\
  same_on_bytes parse_pes_optional_header ParseGen.parsePESOptionalHeader /\
  same_on_bytes parse_pes_header ParseGen.parsePESHeader /\
  same_on_bytes parse_pes_data ParseGen.parsePESData /\
  (forall bs, bytes_ok bs -> parse_pes_data_bytes bs = run_iter ParseGen.parsePESData bs).
Proof. exact pes_parsers_are_source. Qed.
Print Assumptions C12_parsers_are_source.
(* the translated parsePESData runs: a video PES packet with PTS and DTS and three payload bytes *)
Example C12_parsers_are_source_inhabited :
  bytes_ok [0; 0; 1; 224; 0; 0; 128; 192; 10; 49; 0; 1; 0; 1; 17; 0; 1; 0; 1; 1; 2; 3] /\
  exists d, run_iter ParseGen.parsePESData [0; 0; 1; 224; 0; 0; 128; 192; 10; 49; 0; 1; 0; 1; 17; 0; 1; 0; 1; 1; 2; 3] = Ok d /\
            parse_pes_data_bytes [0; 0; 1; 224; 0; 0; 128; 192; 10; 49; 0; 1; 0; 1; 17; 0; 1; 0; 1; 1; 2; 3] = Ok d /\
            PESData_Data d = [1; 2; 3].
Proof.
  split; [apply bytes_okb_ok; vm_compute; reflexivity|].
  eexists. split; [vm_compute; reflexivity|]. split; [vm_compute; reflexivity|]. reflexivity.
Qed.

(* ---- the writers above are the source ----
   Every PES writer that the theorems of this file mention (enc_pts_or_dts, enc_escr, enc_dsm_trick_mode,
   enc_pes_optional_header, enc_pes_header with the PES_packet_length rule pes_packet_length, write_pes_data) is, for every
   argument, what go/gen (writegen.go) translates from the CURRENT source of writePTSOrDTS / writeESCR / writeDSMTrickMode /
   writePESOptionalHeader / writePESHeader / writePESData into Gen/WriteGen.v (wf_sim, Proofs/WriteGenBase.v): the same
   items handed to the BitsWriter in the same order (equal up to the bits a w-bit write ignores, hence the same bytes and
   the same io.Writer calls), none through a w.Write whose result is discarded, the same returned counts, the same error
   class, a panic exactly where the model panics.  An edit of one of these Go functions regenerates Gen/WriteGen.v and this
   theorem (Proofs/WriteGenPes.v) stops checking. *)
Require Import Gen.MuxGen Gen.WriteGen Proofs.WriteGenBase Proofs.WriteGenPes.
Theorem C12_writers_are_source :
  (forall flag cr, wf_sim (WriteGen.writePTSOrDTS flag cr) (Ok (enc_pts_or_dts flag cr, C_ptsOrDTSByteLength))) /\
  (forall cr, wf_sim (WriteGen.writeESCR cr) (Ok (enc_escr cr, C_escrLength))) /\
  (forall m, wf_sim (WriteGen.writeDSMTrickMode m) (Ok (enc_dsm_trick_mode m, C_dsmTrickModeLength))) /\
  (forall oh, wf_sim (WriteGen.writePESOptionalHeader (Some oh)) (enc_pes_optional_header oh)) /\
  wf_sim (WriteGen.writePESOptionalHeader None) (Ok ([], 0)) /\
  (forall h payloadSize, wf_sim (WriteGen.writePESHeader h payloadSize) (enc_pes_header h payloadSize)) /\
  (forall h payloadLeft isPayloadStart bytesAvailable,
     wf_sim (WriteGen.writePESData h payloadLeft isPayloadStart bytesAvailable)
            (write_pes_data_n h payloadLeft isPayloadStart bytesAvailable)).
Proof. exact pes_writers_are_source. Qed.
Print Assumptions C12_writers_are_source.
Theorem C12_packet_length_is_source : forall h payloadSize items n, enc_pes_header h payloadSize = Ok (items, n) ->
  exists l, WriteGen.writePESHeader h payloadSize = (l, Some (n, ENil)) /\
            nth_error (map nsnd l) 2 = Some (norm (WBits 16 (pes_packet_length h payloadSize))) /\
            bytes_of_items (map snd l) = bytes_of_items items.
Proof. exact pes_packet_length_is_source. Qed.
Print Assumptions C12_packet_length_is_source.
(* the translated writePESData runs: it writes the packet of the example above back, byte for byte, and returns 22 and 3 *)
Example C12_writers_are_source_inhabited :
  exists d h l, parse_pes_data_bytes [0; 0; 1; 224; 0; 0; 128; 192; 10; 49; 0; 1; 0; 1; 17; 0; 1; 0; 1; 1; 2; 3] = Ok d /\
    PESData_Header d = Some h /\
    WriteGen.writePESData h (PESData_Data d) true 184 = (l, Some (22, 3, ENil)) /\
    bytes_of_items (map snd l) = [0; 0; 1; 224; 0; 0; 128; 192; 10; 49; 0; 1; 0; 1; 17; 0; 1; 0; 1; 1; 2; 3].
Proof.
  do 3 eexists. split; [vm_compute; reflexivity|]. split; [reflexivity|]. split; vm_compute; reflexivity.
Qed.

(* clock_reference.go is regenerated too (Gen/RestGen.v, go/gen/restgen.go) with every int64 / time.Duration operation
   under an explicit two's complement wrap (sint_wrap 64 z = (z + 2^63) mod 2^64 - 2^63).  Inside the property's range no
   operation wraps and the regenerated Duration IS cr_duration, the subject of C12_duration; Time hands (0, Duration) to
   time.Unix.  This makes "every int64 intermediate stays below 2^63" a statement about the source as it is now: another
   constant, multiplier or divisor in Duration changes the regenerated expression and this proof is re-checked against it. *)
Require Import Gen.RestGen Proofs.RestGenClock.
Theorem C12_duration_is_source : forall base ext, 0 <= base < 2 ^ 33 -> 0 <= ext < 2 ^ 9 ->
  ClockReference_Duration (mk_cr base ext) = cr_duration (mk_cr base ext) /\
  ClockReference_Time (mk_cr base ext) = (0, cr_duration (mk_cr base ext)).
Proof. exact duration_is_generated. Qed.
Print Assumptions C12_duration_is_source.
(* the largest values of the range; and outside it (base = 2^34) the int64 product really wraps *)
Example C12_duration_is_source_inhabited :
  ClockReference_Duration (mk_cr (2 ^ 33 - 1) 511) = 95443717696702 /\
  ClockReference_Duration (mk_cr (2 ^ 34) 0) <> cr_duration (mk_cr (2 ^ 34) 0).
Proof. exact (conj (proj1 duration_is_generated_example) duration_wraps). Qed.
