(* Property C15 — DVB date/time and BCD durations (theorems only; proofs in Proofs/DvbDateProofs.v and
   Proofs/DvbProofs.v).  Model.DvbDate + Model.Dvb: integer model of dvb.go (what the correspondence check
   runs against the implementation on all 65536 MJD words, all times of day, all BCD durations) and the same
   expressions with binary64 operations in the order of dvb.go (module DvbFloat, enc_dvb_*_float; SpecFloat
   53/1024, pure Gallina).  Spec.DvbSpec: proleptic Gregorian calendar and BCD, written independently.
   15079 = 1900-03-01, 65535 = 2038-04-22, 40587 = 1970-01-01 (MJD).  Finite statements carry their
   bounds; they are closed by complete enumeration inside Coq (vm_compute), then lifted. *)
From Coq Require Import ZArith List.
Require Import Base.Bits Base.Iter Base.Wr Gen.Preds Model.Dvb Spec.DvbSpec Proofs.DvbProofs.
Import ListNotations.
Open Scope Z_scope.

(* the float64 model of parseDVBTime's date computation and the integer model agree on the 50457 MJD values
   of the range (on the other 15079 16-bit words as well: C15_float_model_all_words in
   Proofs/DvbSupplementProofs.v, checked by coqc, kept out of this file's cone because of coqchk's running time) *)
Theorem C15_float_model_decode : forall mjd, 15079 <= mjd <= 65535 ->
  DvbFloat.mjd_to_ymd_float mjd = dvb_ymd mjd /\ DvbFloat.dvb_date_unix_float mjd = dvb_date_unix mjd.
Proof. exact thm_float_model_decode. Qed.
Print Assumptions C15_float_model_decode.

(* the reference calendar: closed form = day-by-day Gregorian rule = EN 300 468 Annex C formulas (over
   the rationals), on every day of the range *)
Theorem C15_calendar : forall mjd, 15079 <= mjd <= 65535 ->
  civil_of_mjd (mjd + 1) = next_day (civil_of_mjd mjd) /\ valid_date (civil_of_mjd mjd) = true /\
  mjd_of_civil (civil_of_mjd mjd) = mjd /\
  annex_c_ymd mjd = civil_of_mjd mjd /\ annex_c_mjd (civil_of_mjd mjd) = mjd.
Proof. exact thm_calendar. Qed.
Print Assumptions C15_calendar.

Theorem C15_calendar_anchor :
  civil_of_mjd 0 = (1858, 11, 17) /\ civil_of_mjd 15079 = (1900, 3, 1) /\ civil_of_mjd 40587 = (1970, 1, 1) /\
  civil_of_mjd 65535 = (2038, 4, 22) /\ civil_of_mjd 88127 = (2100, 2, 28).
Proof. exact thm_calendar_anchor. Qed.
Print Assumptions C15_calendar_anchor.

(* decode, date: for all 50457 MJD values of the range the (year, month, day) the float64 code hands to
   time.Date is the calendar date, and the resulting time is 00:00 UTC of that day *)
Theorem C15_decode_date : forall mjd, 15079 <= mjd <= 65535 ->
  DvbFloat.mjd_to_ymd_float mjd = civil_of_mjd mjd /\
  DvbFloat.dvb_date_unix_float mjd = 86400 * (let '(y, m, d) := civil_of_mjd mjd in days_of_civil y m d) /\
  dvb_date_unix mjd = 86400 * (mjd - 40587).
Proof. exact thm_decode_date. Qed.
Print Assumptions C15_decode_date.

(* encode, date: t.Year/Month/Day of a day of the range is the calendar date and the float64 MJD
   expression of writeDVBTime returns the MJD (also as the integer model computes it) *)
Theorem C15_encode_date : forall mjd, 15079 <= mjd <= 65535 ->
  go_civil_of_days (mjd - 40587) = civil_of_mjd mjd /\
  (let '(y, m, d) := civil_of_mjd mjd in
   DvbFloat.ymd_to_mjd_float y m d = mjd /\ dvb_mjd_of_ymd y m d = mjd).
Proof. exact thm_encode_date. Qed.
Print Assumptions C15_encode_date.

(* the float64 terms of the encoder equal the integer model's for every year from -3000 to 12000 *)
Theorem C15_float_model_encoder : forall y m d, -3000 <= y <= 12000 -> 1 <= m <= 12 ->
  DvbFloat.ymd_to_mjd_float y m d = dvb_mjd_of_ymd y m d.
Proof. exact thm_float_model_encoder. Qed.
Print Assumptions C15_float_model_encoder.

(* time of day: all BCD hh mm ss (each digit pair 00..99; 86400 of them are times of day) decode to
   hh*3600+mm*60+ss seconds; all 86400 seconds of a day encode to their BCD bytes, in the integer model
   and in the float64 model of Duration.Hours/Minutes/Seconds *)
Theorem C15_time_of_day :
  (forall h m s rest, 0 <= h <= 99 -> 0 <= m <= 99 -> 0 <= s <= 99 ->
     parse_dvb_duration_seconds (new_iter ([bcd_byte h; bcd_byte m; bcd_byte s] ++ rest)) =
     Ok (tod_seconds h m s * 1000000000, mk_iter ([bcd_byte h; bcd_byte m; bcd_byte s] ++ rest) 3)) /\
  (forall h m s, 0 <= h <= 23 -> 0 <= m <= 59 -> 0 <= s <= 59 ->
     bytes_of_items (enc_dvb_duration_seconds (tod_seconds h m s * 1000000000)) = [bcd_byte h; bcd_byte m; bcd_byte s] /\
     bytes_of_items (enc_dvb_duration_seconds_float (tod_seconds h m s * 1000000000)) = [bcd_byte h; bcd_byte m; bcd_byte s]).
Proof. exact thm_time_of_day. Qed.
Print Assumptions C15_time_of_day.

(* decode, date and time jointly: every day of the range x every BCD time: the five bytes decode to the
   calendar date of the MJD at hh:mm:ss UTC (date and time compose by addition, t.Add) *)
Theorem C15_decode_joint : forall mjd h m s rest,
  15079 <= mjd <= 65535 -> 0 <= h <= 99 -> 0 <= m <= 99 -> 0 <= s <= 99 ->
  parse_dvb_time (new_iter (spec_time_bytes mjd h m s ++ rest)) =
  Ok (spec_unix mjd h m s, mk_iter (spec_time_bytes mjd h m s ++ rest) 5).
Proof. exact thm_decode_joint. Qed.
Print Assumptions C15_decode_joint.

(* encode: every second from 1900-03-01 00:00:00 to 2038-04-22 23:59:59 UTC yields exactly the five
   bytes of the Spec, in the integer model and in the float64 model *)
Theorem C15_encode_joint : forall mjd h m s,
  15079 <= mjd <= 65535 -> 0 <= h <= 23 -> 0 <= m <= 59 -> 0 <= s <= 59 ->
  bytes_of_items (enc_dvb_time (spec_unix mjd h m s)) = spec_time_bytes mjd h m s /\
  bytes_of_items (enc_dvb_time_float (spec_unix mjd h m s)) = spec_time_bytes mjd h m s.
Proof. exact thm_encode_joint. Qed.
Print Assumptions C15_encode_joint.

(* decode (encode t) = t for each of the 4 359 484 800 seconds of the range *)
Theorem C15_roundtrip : forall u rest, 86400 * (15079 - 40587) <= u <= 86400 * (65535 - 40587) + 86399 ->
  parse_dvb_time (new_iter (bytes_of_items (enc_dvb_time u) ++ rest)) =
  Ok (u, mk_iter (bytes_of_items (enc_dvb_time u) ++ rest) 5).
Proof. exact thm_roundtrip. Qed.
Print Assumptions C15_roundtrip.

(* durations, decode: all 10^6 hh mm ss and all 10^4 hh mm BCD digit strings *)
Theorem C15_durations_decode :
  (forall h m s rest, 0 <= h <= 99 -> 0 <= m <= 99 -> 0 <= s <= 99 ->
     parse_dvb_duration_seconds (new_iter ([bcd_byte h; bcd_byte m; bcd_byte s] ++ rest)) =
     Ok (spec_duration_ns h m s, mk_iter ([bcd_byte h; bcd_byte m; bcd_byte s] ++ rest) 3)) /\
  (forall h m rest, 0 <= h <= 99 -> 0 <= m <= 99 ->
     parse_dvb_duration_minutes (new_iter ([bcd_byte h; bcd_byte m] ++ rest)) =
     Ok (spec_duration_ns h m 0, mk_iter ([bcd_byte h; bcd_byte m] ++ rest) 2)).
Proof. exact thm_durations_decode. Qed.
Print Assumptions C15_durations_decode.

(* durations, encode: every whole-second duration below 100 h (hh 00..99, mm and ss 00..59); the float64
   model of the writers is covered here for durations below 24 h (for all durations below 100 h its three
   float expressions are proved equal to the integer ones in Proofs/DvbSupplementProofs.v, checked by coqc
   but kept out of this file's cone because of coqchk's running time) *)
Theorem C15_durations_encode : forall h m s, 0 <= h <= 99 -> 0 <= m <= 59 -> 0 <= s <= 59 ->
  bytes_of_items (enc_dvb_duration_seconds (spec_duration_ns h m s)) = [bcd_byte h; bcd_byte m; bcd_byte s] /\
  bytes_of_items (enc_dvb_duration_minutes (spec_duration_ns h m s)) = [bcd_byte h; bcd_byte m] /\
  (h <= 23 ->
   bytes_of_items (enc_dvb_duration_seconds_float (spec_duration_ns h m s)) = [bcd_byte h; bcd_byte m; bcd_byte s] /\
   bytes_of_items (enc_dvb_duration_minutes_float (spec_duration_ns h m s)) = [bcd_byte h; bcd_byte m]).
Proof. exact thm_durations_encode. Qed.
Print Assumptions C15_durations_encode.

Theorem C15_durations_roundtrip : forall h m s rest, 0 <= h <= 99 -> 0 <= m <= 59 -> 0 <= s <= 59 ->
  parse_dvb_duration_seconds (new_iter (bytes_of_items (enc_dvb_duration_seconds (spec_duration_ns h m s)) ++ rest)) =
    Ok (spec_duration_ns h m s, mk_iter (bytes_of_items (enc_dvb_duration_seconds (spec_duration_ns h m s)) ++ rest) 3) /\
  parse_dvb_duration_minutes (new_iter (bytes_of_items (enc_dvb_duration_minutes (spec_duration_ns h m s)) ++ rest)) =
    Ok (spec_duration_ns h m 0, mk_iter (bytes_of_items (enc_dvb_duration_minutes (spec_duration_ns h m s)) ++ rest) 2).
Proof. exact thm_durations_roundtrip. Qed.
Print Assumptions C15_durations_roundtrip.

(* the byte functions re-translated from dvb.go: digit-wise value on all 256 bytes, BCD byte on 0..99 *)
Theorem C15_bcd_bytes :
  (forall b, 0 <= b <= 255 -> parseDVBDurationByte b = (b / 16) * 10 + b mod 16) /\
  (forall n, 0 <= n <= 99 -> dvbDurationByteRepresentation n = (n / 10) * 16 + n mod 10 /\
                             parseDVBDurationByte (dvbDurationByteRepresentation n) = n).
Proof. exact thm_bcd_bytes. Qed.
Print Assumptions C15_bcd_bytes.

(* raw bit patterns: all 2^40 five-byte words and all 2^24 / 2^16 duration words are decoded without
   error to the date the integer model computes for the MJD word (= the float64 model: see above) plus the digit-wise time; no input of any
   length and no iterator position makes a DVB parser panic; short inputs are errors *)
Theorem C15_raw_words :
  (forall b0 b1 b2 b3 b4 rest,
     0 <= b0 <= 255 -> 0 <= b1 <= 255 -> 0 <= b2 <= 255 -> 0 <= b3 <= 255 -> 0 <= b4 <= 255 ->
     parse_dvb_time (new_iter (b0 :: b1 :: b2 :: b3 :: b4 :: rest)) =
     Ok (dvb_date_unix (b0 * 256 + b1) + tod_seconds (bcd_value b2) (bcd_value b3) (bcd_value b4),
         mk_iter (b0 :: b1 :: b2 :: b3 :: b4 :: rest) 5)) /\
  (forall b0 b1 b2 rest, 0 <= b0 <= 255 -> 0 <= b1 <= 255 -> 0 <= b2 <= 255 ->
     parse_dvb_duration_seconds (new_iter (b0 :: b1 :: b2 :: rest)) =
       Ok (spec_duration_ns (bcd_value b0) (bcd_value b1) (bcd_value b2), mk_iter (b0 :: b1 :: b2 :: rest) 3) /\
     parse_dvb_duration_minutes (new_iter (b0 :: b1 :: rest)) =
       Ok (spec_duration_ns (bcd_value b0) (bcd_value b1) 0, mk_iter (b0 :: b1 :: rest) 2)).
Proof. exact thm_raw_words. Qed.
Print Assumptions C15_raw_words.

Theorem C15_no_panic : forall i, 0 <= ioff i ->
  parse_dvb_time i <> Panic /\ parse_dvb_duration_seconds i <> Panic /\ parse_dvb_duration_minutes i <> Panic.
Proof. exact thm_no_panic. Qed.
Print Assumptions C15_no_panic.

Theorem C15_short_input : forall bs, (length bs < 5)%nat -> run_iter parse_dvb_time bs = Err E_generic.
Proof. exact thm_short_input. Qed.
Print Assumptions C15_short_input.

(* the writers always produce 3 / 2 bytes, whatever the duration *)
Theorem C15_writer_lengths : forall ns,
  length (bytes_of_items (enc_dvb_duration_seconds ns)) = 3%nat /\
  length (bytes_of_items (enc_dvb_duration_minutes ns)) = 2%nat.
Proof. exact thm_writer_lengths. Qed.
Print Assumptions C15_writer_lengths.
