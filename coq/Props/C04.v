(* Property C04 (theorems only; proofs in Proofs/MuxerProofs.v). *)
