(* Property C04 — muxer output is whole 188-byte packets that start with the sync byte, byte counts are exact, rejected
   calls emit nothing (theorems only; proofs in Proofs/MuxerProofs.v).  No hypothesis on the history: any state, any
   operations, any argument values (panicking calls included). *)
From Coq Require Import ZArith List.
Require Import Base.Iter Base.Wr Gen.Consts Gen.Types Gen.Preds Model.Packet Model.Pes Model.Psi Model.Muxer Spec.MuxSpec
  Proofs.MuxerProofs Proofs.MuxerPackets Proofs.MuxerExamples.
Import ListNotations.
Open Scope Z_scope.

(* the core of "whole packets": whatever writePacket accepts is exactly the target size *)
Theorem C04_packet_size : forall p target its, enc_packet p target = Ok its ->
  Z.of_nat (length (bytes_of_items its)) = target.
Proof. exact enc_packet_size. Qed.
Print Assumptions C04_packet_size.

(* every call of every history: the bytes handed to the writer are as many as the call returns, a multiple of 188, and
   each group of Write calls (one per TS packet) is exactly 188 bytes starting with 0x47 *)
Theorem C04_aligned : forall s ops,
  Forall (fun o => Z.of_nat (length (mout_bytes o)) = mo_n o /\ (C_MpegTsPacketSize | mo_n o) /\
                   Forall group_ok (mo_groups o)) (snd (mux_run s ops)).
Proof. exact aligned. Qed.
Print Assumptions C04_aligned.

(* every 188-byte block of what a call writes, and of the whole output of a run, starts with the sync byte *)
Theorem C04_sync : forall s ops,
  Forall (fun o => forall k, (k < length (mo_groups o))%nat -> nth (188 * k) (mout_bytes o) 0 = syncByte) (snd (mux_run s ops)).
Proof. exact sync_blocks. Qed.
Print Assumptions C04_sync.

Theorem C04_sync_run : forall s ops,
  let gs := concat (map mo_groups (snd (mux_run s ops))) in
  Z.of_nat (length (concat (concat gs))) = C_MpegTsPacketSize * Z.of_nat (length gs) /\
  forall k, (k < length gs)%nat -> nth (188 * k) (concat (concat gs)) 0 = syncByte.
Proof. exact sync_blocks_run. Qed.
Print Assumptions C04_sync_run.

(* rejected calls leave nothing in the output: AddElementaryStream / RemoveElementaryStream / SetPCRPID never write;
   WriteTables and WritePacket write nothing unless they succeed; WriteData on an unknown PID fails with ErrPIDNotFound,
   writes nothing and changes nothing; WriteData whose table retransmission fails returns that failure having written nothing *)
Theorem C04_rejected : forall s o s' p, mux_step_part s o = (s', p) ->
  match o with
  | MAdd _ | MRemove _ | MSetPCR _ => pa_groups p = [] /\ pa_n p = 0
  | MWriteTables | MWritePacket _ => pa_res p <> Ok tt -> pa_groups p = [] /\ pa_n p = 0
  | MWriteData d =>
      (es_find (MuxerData_PID d) (ms_es s) = None -> pa_res p = Err E_pid_not_found /\ pa_groups p = [] /\ pa_n p = 0 /\ s' = s) /\
      (forall sr pt, retransmit_tables s (data_forced s d) = (sr, pt) -> pa_res pt <> Ok tt ->
         es_find (MuxerData_PID d) (ms_es s) <> None -> p = pt /\ pa_groups p = [] /\ pa_n p = 0)
  end.
Proof. exact rejected. Qed.
Print Assumptions C04_rejected.

(* content of a unit: the packets a successful WriteData on an added PID emits (after the table pair when it is due).
   [unit_facts] (Proofs/MuxerPackets.v): all on d.PID with transport_error / priority / scrambling clear; payload_unit_start
   on the first payload-carrying packet only; packets without payload (first-packet adaptation field that leaves no
   room for the PES header) carry no payload_unit_start and no payload; the payloads concatenate to the PES header
   followed by exactly d.PES.Data; the first packet carries the caller's adaptation field (plus stuffing), later ones
   none except pure stuffing on the last; counters are the next n values of the stream's counter; the groups of Write
   calls are the serialisations (188 bytes each, C04_aligned) of these packets *)
Theorem C04_unit : forall s d s' p ctx pes h0,
  ms_inv s -> af_entry_ok (MuxerData_AdaptationField d) ->
  es_find (MuxerData_PID d) (ms_es s) = Some ctx -> MuxerData_PES d = Some pes -> PESData_Header pes = Some h0 ->
  PESData_Data pes <> [] -> write_data s d = (s', p) -> pa_res p = Ok tt ->
  let pid := MuxerData_PID d in
  let h := filled_header h0 (ec_es ctx) in
  exists sr tables unit,
    pa_pkts p = tables ++ unit /\ tables_effect s sr tables /\
    (tables = [] \/ starts_with_tables tables = true) /\
    unit_facts pid h (MuxerData_AdaptationField d) true (PESData_Data pes) unit /\
    (let n := length (filter pkt_has_payload unit) in
     map pkt_cc (filter pkt_has_payload unit) = ccs_from (ec_cc ctx) n /\
     es_cc pid s' = Some (iter_inc n (ec_cc ctx))) /\
    map (@concat Z) (pa_groups p) = map pkt_bytes (pa_pkts p).
Proof. exact write_data_unit. Qed.
Print Assumptions C04_unit.

(* every state a run reaches satisfies the invariant C04_unit asks for *)
Theorem C04_reachable_inv : forall ops s, ms_inv s -> no_panic (snd (mux_run_parts s ops)) -> Forall op_entry_ok ops ->
  ms_inv (fst (mux_run_parts s ops)).
Proof. exact run_inv. Qed.
Print Assumptions C04_reachable_inv.

(* where payload_unit_start is flagged the payload begins with the PES start code prefix (elementary streams: the unit's
   payload starts with the PES header, C04_unit) or with pointer_field = 0 (PAT, PMT) *)
Theorem C04_start_code : forall h n its k, enc_pes_header h n = Ok (its, k) ->
  exists tail, bytes_of_items its = 0 :: 0 :: 1 :: tail.
Proof. exact pes_header_start_code. Qed.
Print Assumptions C04_start_code.

Theorem C04_pointer_field : forall sec pay, write_psi_data (psi_of_section sec) = Ok pay -> exists tail, pay = 0 :: tail.
Proof. exact table_payload_pointer. Qed.
Print Assumptions C04_pointer_field.

Example C04_example :
  map mo_n (snd (mux_run (new_muxer 2) ex_ops)) = [0; 0; 0; 940; 188; 3572; 0; 0; 0; 564; 0; 0; 0; 188; 376] /\
  map (fun o => Z.of_nat (length (mout_bytes o))) (snd (mux_run (new_muxer 2) ex_ops)) = [0; 0; 0; 940; 188; 3572; 0; 0; 0; 564; 0; 0; 0; 188; 376].
Proof. vm_compute. split; reflexivity. Qed.

(* ---- the table functions ARE the source ----
   Gen/MuxGen.v is translated from the current /repo/muxer.go on every run (go/gen/muxgen*.go): generatePAT,
   generatePMT and WriteTables statement by statement, with the byte producers writePSIData / writePacket as
   parameters (instantiated here with their models). generate_pat / generate_pmt / write_tables of the theorems
   above are those regenerated functions: version bump iff updated, continuity counter increment, PCR PID and size
   checks, which buffer is written when, what is handed to the io.Writer and what is counted. A PMT cache that
   skips the regeneration, another size bound or a changed write order breaks these proofs. *)
Require Import Gen.MuxGen Model.Desc Proofs.MuxGenEq.

Theorem C04_pat_is_source : forall s pb buf,
  generate_pat s =
  let '(pmu, patv, patcc, pbytes, buf', e) :=
    Muxer_generatePAT to_pat g_wpsi g_wpkt C_MpegTsPacketSize mux_pm (ms_pm_updated s) (ms_pat_version s) (ms_pat_cc s) pb buf in
  (set_tables s patv (ms_pmt_version s) patcc (ms_pmt_cc s) pmu (ms_pmt_updated s),
   table_res e (table_packet C_PIDPAT (wrappingCounter_inc (ms_pat_cc s)) buf', pbytes)).
Proof. exact generate_pat_of_generated. Qed.
Print Assumptions C04_pat_is_source.

Theorem C04_pmt_is_source : forall s mb buf,
  generate_pmt s =
  let '(pmtu, pmtv, pmtcc, mbytes, buf', e) :=
    Muxer_generatePMT calc_descriptor_length calc_pmt_section_length g_wpsi g_wpkt C_MpegTsPacketSize
      (pmt_of s) (ms_pmt_updated s) (ms_pmt_version s) (ms_pmt_cc s) mb buf in
  (set_tables s (ms_pat_version s) pmtv (ms_pat_cc s) pmtcc (ms_pm_updated s) pmtu,
   table_res e (table_packet C_pmtStartPID (wrappingCounter_inc (ms_pmt_cc s)) buf', mbytes)).
Proof. exact generate_pmt_of_generated. Qed.
Print Assumptions C04_pmt_is_source.

Theorem C04_tables_is_source : forall s pb mb buf, pa_res (snd (write_tables s)) <> Panic ->
  let '(w, pmu, pmtu, patv, pmtv, patcc, pmtcc, _, _, _, n, e) :=
    Muxer_WriteTables calc_descriptor_length calc_pmt_section_length g_write to_pat g_wpsi g_wpkt
      (@nil (list Z)) C_MpegTsPacketSize mux_pm (ms_pm_updated s) (pmt_of s) (ms_pmt_updated s)
      (ms_pat_version s) (ms_pmt_version s) (ms_pat_cc s) (ms_pmt_cc s) pb mb buf in
  fst (write_tables s) = set_tables s patv pmtv patcc pmtcc pmu pmtu /\
  mout_of_part (snd (write_tables s)) = mk_mout (terr_res e) n (groups_of w).
Proof. exact write_tables_of_generated. Qed.
Print Assumptions C04_tables_is_source.

(* the program map NewMuxer builds is the one generatePAT turns into the PAT {programNumberStart -> pmtStartPID} *)
Theorem C04_pat_data_is_source : to_pat mux_pm = pat_data.
Proof. exact to_pat_mux_pm. Qed.
Print Assumptions C04_pat_data_is_source.

(* ---- the packetisation is the source ----
   WriteData as a whole: Gen/MuxGen.v translates muxer.go's WriteData up to its packetisation loop and takes the rest as a
   parameter; go/gen (writegen.go) translates that rest (the loop with its two kinds of packet, the adaptation field
   shared between the packet under construction and the caller's MuxerData, the calls of writePESData and writePacket -
   themselves translated from data_pes.go / packet.go and proved equal to the model in C11 / C12 -, the continuity counter,
   the final reset) into Gen/WriteGen.v, Muxer_WriteData_rest.  For every state and argument on which the model's write_data
   does not panic, the translated prefix applied to the translated rest returns the model's result class and count, hands
   the io.Writer the model's Write calls in order and leaves the model's state (stream contexts compared as maps).
   An edit of the loop (the stuffing condition, where the counter is taken, which packet carries PUSI, ...) regenerates
   Gen/WriteGen.v and this theorem (Proofs/WriteGenMux.v) stops checking. *)
Require Import Gen.WriteGen Proofs.WriteGenBase Proofs.WriteGenEq Proofs.WriteGenMux.
Theorem C04_write_data_is_source : forall s d pb mb buf,
  pa_res (snd (write_data s d)) <> Panic ->
  exists s',
    Muxer_WriteData_until_loop calc_descriptor_length calc_pmt_section_length g_write ge_get to_pat g_wpsi g_wpkt
      (wd_ret_src s) (wd_rest_src s)
      (@nil (list Z)) C_MpegTsPacketSize (ms_period s) mux_pm (ms_pm_updated s) (pmt_of s) (ms_pmt_updated s)
      (ms_pat_version s) (ms_pmt_version s) (ms_pat_cc s) (ms_pmt_cc s) pb mb buf (ms_es s) (ms_retransmit s) d
    = Some (s', flat_of (snd (write_data s d))) /\ mstate_eqv s' (fst (write_data s d)).
Proof. exact write_data_is_source. Qed.
Print Assumptions C04_write_data_is_source.

(* Muxer.WritePacket: the generated method (writePacket through m.bitsWriter) against the model's operation; a rejected
   packet leaves the io.Writer untouched *)
Theorem C04_write_packet_is_source : forall (w : gw) p,
  match pa_res (write_packet_op p) with
  | Ok _ => Muxer_WritePacket g_write w C_MpegTsPacketSize p =
              ([], Some (w ++ concat (pa_groups (write_packet_op p)), pa_n (write_packet_op p), ENil))
  | Err c => exists a e, Muxer_WritePacket g_write w C_MpegTsPacketSize p = ([], Some (w, a, e)) /\ werr e = Some c
  | Panic => Muxer_WritePacket g_write w C_MpegTsPacketSize p = ([], None)
  end.
Proof. exact write_packet_of_generated. Qed.
Print Assumptions C04_write_packet_is_source.

(* the generated writePacket hands nothing to the BitsWriter when it returns an error *)
Theorem C04_rejected_is_source : forall p target a e,
  snd (WriteGen.writePacket p target) = Some (a, e) -> merror_is_nil e = false -> fst (WriteGen.writePacket p target) = [].
Proof. exact writePacket_err_nothing. Qed.
Print Assumptions C04_rejected_is_source.

(* the translated WriteData runs: one stream, tables due, 400 payload bytes behind an adaptation field with a PCR *)
Example C04_write_data_is_source_inhabited :
  let s := fst (mux_run_parts (new_muxer 2) [MAdd (ex_es 257); MSetPCR 257]) in
  let d := ex_data 257 (Some ex_af) 400 in
  pa_res (snd (write_data s d)) = Ok tt /\ pa_n (snd (write_data s d)) = 5 * 188 /\
  exists s',
    Muxer_WriteData_until_loop calc_descriptor_length calc_pmt_section_length g_write ge_get to_pat g_wpsi g_wpkt
      (wd_ret_src s) (wd_rest_src s)
      (@nil (list Z)) C_MpegTsPacketSize (ms_period s) mux_pm (ms_pm_updated s) (pmt_of s) (ms_pmt_updated s)
      (ms_pat_version s) (ms_pmt_version s) (ms_pat_cc s) (ms_pmt_cc s) [] [] [] (ms_es s) (ms_retransmit s) d
    = Some (s', flat_of (snd (write_data s d))).
Proof. split; [vm_compute; reflexivity|]. split; [vm_compute; reflexivity|]. eexists. vm_compute. reflexivity. Qed.
