(* Property C02 — the demuxer delivers exactly the units a stream carries, whatever the packetisation
   (theorems only; proofs in Proofs/UnitsProofs.v, Proofs/DemuxProofs.v, Proofs/PoolProofs.v). *)
From Coq Require Import ZArith List Bool.
Require Import Base.Iter Gen.Consts Gen.Types Gen.Preds Model.Packet Model.Pool Model.PoolRun Model.Reader Model.Demux
  Proofs.LossProofs Proofs.UnitsProofs Proofs.DemuxProofs Proofs.PoolProofs.
Import ListNotations.
Open Scope Z_scope.

(* a PID carrying units u1 .. un — each a payload_unit_start packet followed by any number of continuation packets,
   cut at arbitrary points, counters consecutive — makes the accumulator flush exactly u1 .. u(n-1), each once, in
   order, each when the first packet of the next unit arrives, and keep un pending (it is delivered by the
   end-of-stream drain, C07_drain_order).  No bound on the number of units or of packets per unit. *)
Theorem C02_units_exact : forall pm x c0 us prev,
  (Z.eqb x C_PIDPAT || pm_mem pm x) = false ->
  Forall unit_shaped us -> Forall (on_stream c0) (prev ++ concat us) -> run (prev ++ concat us) ->
  (prev = [] \/ exists q' pe, prev = q' ++ [pe]) ->
  acc_run_a pm x prev (concat us) = (last_unit prev us, unit_events prev us).
Proof. exact units_exact. Qed.
Print Assumptions C02_units_exact.

(* by C07_per_pid this is what the pool does for that PID under ANY interleaving with other PIDs *)

(* PAT / PMT: the packet that completes the unit's sections flushes it at once *)
Theorem C02_early_flush : forall pm pid q p, (Z.eqb pid C_PIDPAT || pm_mem pm pid) = true ->
  isSameAsPrevious q p = false ->
  let q1 := if resets q p then [] else q in
  let q2 := if pusi p then [] else q1 in
  is_psi_complete (q2 ++ [p]) = true ->
  acc_add pm pid q p = ([], q2 ++ [p]).
Proof. exact early_flush. Qed.
Print Assumptions C02_early_flush.

(* ... and the NextData call that read that packet returns the first section with the reader exactly at the end of
   that packet: no further byte is consumed; the other sections wait in the data buffer *)
Theorem C02_no_read_ahead : forall P prs skip k s p s1 pl' g d ds,
  next_packet skip s = (Ok p, s1) ->
  pool_add (d_pm s1) (d_pool s1) p = (pl', g) -> g <> [] ->
  parse_data P prs (d_pm s1) g = Ok (d :: ds) ->
  fst (next_data_loop P prs skip (S k) s) = Ok d /\
  d_reader (snd (next_data_loop P prs skip (S k) s)) = d_reader s1 /\
  d_buffer (snd (next_data_loop P prs skip (S k) s)) = d_buffer s1 ++ ds.
Proof. exact no_read_ahead. Qed.
Print Assumptions C02_no_read_ahead.

(* buffered sections are handed out next, in order, without touching reader or pool *)
Theorem C02_buffered_first : forall P prs skip s d rest, d_buffer s = d :: rest ->
  next_data P prs skip s =
  (Ok d, mk_dstate rest (d_pb s) (d_pool s) (d_pm s) (d_reader s) (d_opt_size s) (d_groups s) (d_consulted s)).
Proof. exact buffered_first. Qed.
Print Assumptions C02_buffered_first.

(* at end of stream the pending units are parsed in PID order before ErrNoMorePackets *)
Theorem C02_eof_drains : forall P prs skip k s s1, next_packet skip s = (Err E_nomore, s1) ->
  next_data_loop P prs skip (S k) s = drain P prs (S (length (d_pool s1))) s1.
Proof. exact eof_drains. Qed.
Print Assumptions C02_eof_drains.

(* ---- the accumulator and the pool of the theorems above ARE the source ----
   Gen/PoolGen.v is translated from the current /repo/packet_pool.go on every run (go/gen/stateful.go): the body of
   packetAccumulator.add and of packetPool.addUnlocked, statement by statement. acc_add / pool_add, about which every
   theorem of this file speaks, are those regenerated functions (isPSIComplete instantiated with its hand-written
   model, the program map with its membership test, the map of accumulators with the model's association list).
   A change to the body of add / addUnlocked therefore breaks these proofs — no generated case has to hit it. *)
Require Import Gen.PoolGen Proofs.PoolGenEq.

Theorem C02_acc_is_source : forall pm pid q p,
  acc_add pm pid q p = packetAccumulator_add is_psi_complete pid (Some (pm_mem pm)) q p.
Proof. exact acc_add_is_generated. Qed.
Print Assumptions C02_acc_is_source.

Theorem C02_pool_is_source : forall pm pl p,
  pool_add pm pl p = packetPool_addUnlocked (gen_get pm) gen_set is_psi_complete pl (Some (pm_mem pm)) p.
Proof. exact pool_add_is_generated. Qed.
Print Assumptions C02_pool_is_source.
