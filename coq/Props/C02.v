(* Property C02 — the demuxer delivers exactly the units a stream carries, whatever the packetisation
   (theorems only; proofs in Proofs/UnitsProofs.v, Proofs/DemuxProofs.v, Proofs/PoolProofs.v). *)
From Coq Require Import ZArith List Bool.
Require Import Base.Iter Gen.Consts Gen.Types Gen.Preds Model.Packet Model.Pool Model.PoolRun Model.Reader Model.Demux
  Proofs.LossProofs Proofs.UnitsProofs Proofs.DemuxProofs Proofs.PoolProofs.
Import ListNotations.
Open Scope Z_scope.

(* a PID carrying units u1 .. un — each a payload_unit_start packet followed by any number of continuation packets,
   cut at arbitrary points, counters consecutive — makes the accumulator flush exactly u1 .. u(n-1), each once, in
   order, each when the first packet of the next unit arrives, and keep un pending (it is delivered by the
   end-of-stream drain, C07_drain_order).  No bound on the number of units or of packets per unit. *)
Theorem C02_units_exact : forall pm x c0 us prev,
  (Z.eqb x C_PIDPAT || pm_mem pm x) = false ->
  Forall unit_shaped us -> Forall (on_stream c0) (prev ++ concat us) -> run (prev ++ concat us) ->
  (prev = [] \/ exists q' pe, prev = q' ++ [pe]) ->
  acc_run_a pm x prev (concat us) = (last_unit prev us, unit_events prev us).
Proof. exact units_exact. Qed.
Print Assumptions C02_units_exact.

(* by C07_per_pid this is what the pool does for that PID under ANY interleaving with other PIDs *)

(* PAT / PMT: the packet that completes the unit's sections flushes it at once *)
Theorem C02_early_flush : forall pm pid q p, (Z.eqb pid C_PIDPAT || pm_mem pm pid) = true ->
  isSameAsPrevious q p = false ->
  let q1 := if resets q p then [] else q in
  let q2 := if pusi p then [] else q1 in
  is_psi_complete (q2 ++ [p]) = true ->
  acc_add pm pid q p = ([], q2 ++ [p]).
Proof. exact early_flush. Qed.
Print Assumptions C02_early_flush.

(* ... and the NextData call that read that packet returns the first section with the reader exactly at the end of
   that packet: no further byte is consumed; the other sections wait in the data buffer *)
Theorem C02_no_read_ahead : forall P prs skip k s p s1 pl' g d ds,
  next_packet skip s = (Ok p, s1) ->
  pool_add (d_pm s1) (d_pool s1) p = (pl', g) -> g <> [] ->
  parse_data P prs (d_pm s1) g = Ok (d :: ds) ->
  fst (next_data_loop P prs skip (S k) s) = Ok d /\
  d_reader (snd (next_data_loop P prs skip (S k) s)) = d_reader s1 /\
  d_buffer (snd (next_data_loop P prs skip (S k) s)) = d_buffer s1 ++ ds.
Proof. exact no_read_ahead. Qed.
Print Assumptions C02_no_read_ahead.

(* buffered sections are handed out next, in order, without touching reader or pool *)
Theorem C02_buffered_first : forall P prs skip s d rest, d_buffer s = d :: rest ->
  next_data P prs skip s =
  (Ok d, mk_dstate rest (d_pb s) (d_pool s) (d_pm s) (d_reader s) (d_opt_size s) (d_groups s) (d_consulted s)).
Proof. exact buffered_first. Qed.
Print Assumptions C02_buffered_first.

(* at end of stream the pending units are parsed in PID order before ErrNoMorePackets *)
Theorem C02_eof_drains : forall P prs skip k s s1, next_packet skip s = (Err E_nomore, s1) ->
  next_data_loop P prs skip (S k) s = drain P prs (S (length (d_pool s1))) s1.
Proof. exact eof_drains. Qed.
Print Assumptions C02_eof_drains.

(* ---- the accumulator and the pool of the theorems above ARE the source ----
   Gen/PoolGen.v is translated from the current /repo/packet_pool.go on every run (go/gen/stateful.go): the body of
   packetAccumulator.add and of packetPool.addUnlocked, statement by statement. acc_add / pool_add, about which every
   theorem of this file speaks, are those regenerated functions (isPSIComplete instantiated with its hand-written
   model, the program map with its membership test, the map of accumulators with the model's association list).
   A change to the body of add / addUnlocked therefore breaks these proofs — no generated case has to hit it. *)
Require Import Gen.PoolGen Proofs.PoolGenEq.

Theorem C02_acc_is_source : forall pm pid q p,
  acc_add pm pid q p = packetAccumulator_add is_psi_complete pid (Some (pm_mem pm)) q p.
Proof. exact acc_add_is_generated. Qed.
Print Assumptions C02_acc_is_source.

Theorem C02_pool_is_source : forall pm pl p,
  pool_add pm pl p = packetPool_addUnlocked (gen_get pm) gen_set is_psi_complete pl (Some (pm_mem pm)) p.
Proof. exact pool_add_is_generated. Qed.
Print Assumptions C02_pool_is_source.

(* ---- NextPacket / NextData / updateData ARE the source ----
   Gen/DemuxGen.v (Section Demuxer) is translated from the current /repo/demuxer.go on every run
   (go/gen/demuxgen.go): NextPacket (context check, lazy creation of the packet buffer, next, which errors are
   wrapped), NextData (buffered data first; the packet loop with its continue / return paths; on ErrNoMorePackets —
   compared with == — the dump loop with its break / continue / return; `len(ps) == 0`; parseData; updateData) and
   updateData (first datum returned, the rest buffered, every PAT program with number > 0 registered).  The callees
   are abstract operations, instantiated by the model (Proofs/DemuxGenEq.v): the packet buffer by Model/Reader.v, the
   pool by pool_add / pool_dump (= the regenerated pool functions, above), parseData by parse_data, a context that is
   never cancelled; Go error values are related to the model's codes by code_x, for EVERY representation err_of of
   the model's codes as error values that keeps ErrNoMorePackets recognisable (C02_errors_representable: there is
   one).  next_packet / next_data / update_data, about which the theorems above (and C03, C07, C19, C20) speak, are
   those regenerated functions: same value or error class, same next state, Panicked exactly when the model panics.
   Fuel: the packet loop runs in lockstep with the model's (nd_fuel s; OutOfFuel exactly when the model's own fuel
   runs out, which C03 shows unreachable); for the dump loop any fuel_2 > PIDs in the pool + nd_fuel s suffices. *)
Require Import Gen.DemuxGen Proofs.DemuxGenEq Proofs.DemuxGenEqData.

Theorem C02_errors_representable : forall wr,
  (forall c, gerr_eqb (err_of_plain wr c) e_nomore = (c =? E_nomore)) /\
  (forall c, code_x (err_of_plain wr c) = norm c).
Proof. exact err_of_plain_ok. Qed.
Print Assumptions C02_errors_representable.

Theorem C02_update_data_is_source : forall buf opt gp gs pb pl ds w,
  Demuxer_updateData mworld unit unit gpb pool unit unit pm_set_m tt buf tt opt gp gs pb pl tt tt ds w =
  Done (match ds with [] => buf | _ :: rest => buf ++ rest end, hd_error ds,
        set_pm w (fold_left pm_add (flat_map pat_pids ds) (mw_pm w))) /\
  update_data (state_of buf (option_map fst pb) pl opt w) ds =
  (hd_error ds, state_of (match ds with [] => buf | _ :: rest => buf ++ rest end) (option_map fst pb) pl opt
                         (set_pm w (fold_left pm_add (flat_map pat_pids ds) (mw_pm w)))).
Proof.
  intros. split; [exact (update_data_is_generated buf opt gp gs pb pl ds w)|exact (update_data_state buf (option_map fst pb) pl opt w ds)].
Qed.
Print Assumptions C02_update_data_is_source.

Theorem C02_next_packet_is_source : forall (err_of : Z -> gerr),
  (forall c, gerr_eqb (err_of c) e_nomore = (c =? E_nomore)) -> (forall c, code_x (err_of c) = norm c) ->
  forall prs skip s,
  match Demuxer_NextPacket mworld unit unit gpb pool unit unit ctx_err_m (new_pb_m err_of) (pb_next_m err_of)
          tt (d_buffer s) tt (d_opt_size s) (go_prs err_of prs) (go_sk skip) (with_sk skip (d_pb s)) (d_pool s) tt tt
          (world_of s) with
  | Done (pb', p, err, w') =>
      res_rel_exact p err (fst (next_packet skip s)) /\
      pb' = with_sk skip (d_pb (snd (next_packet skip s))) /\
      snd (next_packet skip s) = state_of (d_buffer s) (d_pb (snd (next_packet skip s))) (d_pool s) (d_opt_size s) w'
  | Panicked => fst (next_packet skip s) = Panic
  | OutOfFuel => False
  end.
Proof. exact next_packet_is_generated. Qed.
Print Assumptions C02_next_packet_is_source.

Theorem C02_next_data_is_source : forall (err_of : Z -> gerr),
  (forall c, gerr_eqb (err_of c) e_nomore = (c =? E_nomore)) -> (forall c, code_x (err_of c) = norm c) ->
  forall P prs skip s f2, (length (d_pool s) + nd_fuel s < f2)%nat ->
  match Demuxer_NextData mworld unit unit gpb pool unit unit pm_set_m ctx_err_m (new_pb_m err_of) (pb_next_m err_of)
          pool_dump_m (parse_data_m err_of P) pool_add_m
          tt (d_buffer s) tt (d_opt_size s) (go_prs err_of prs) (go_sk skip) (with_sk skip (d_pb s)) (d_pool s) tt tt
          (nd_fuel s) f2 (world_of s) with
  | Done (buf', pb', pl', d, err, w') =>
      res_rel d err (fst (next_data P prs skip s)) /\
      pb' = with_sk skip (d_pb (snd (next_data P prs skip s))) /\
      snd (next_data P prs skip s) = state_of buf' (d_pb (snd (next_data P prs skip s))) pl' (d_opt_size s) w'
  | Panicked => fst (next_data P prs skip s) = Panic
  | OutOfFuel => fst (next_data P prs skip s) = Err E_generic
  end.
Proof. exact next_data_is_generated. Qed.
Print Assumptions C02_next_data_is_source.

(* ---- parseData IS the source ----
   Gen/DemuxGen.v (Section ParseData) is translated from the current /repo/data.go on every run: the custom
   PacketsParser first, the payload rebuilt from all packets of the group, then the dispatch on the first packet's
   PID (CAT / isPSIPayload / isPESPayload on the rebuilt payload).  parse_data is that regenerated function, for every
   world, every bytesPool.get returning a slice of the requested length, and the unit parsers the model's dparsers
   record is built from (psi_parse, to_data, pes_parse arbitrary; Model/DemuxFull.v's full_parsers is, by
   definition, parsers_of parse_psi_data_bytes psi_to_data parse_pes_data_bytes).  Scoping: a failing
   PacketsParser is reported with the generic code by the model whatever it wraps; the statement is for parsers whose
   errors carry the generic code. *)
Require Import Proofs.DemuxGenEqParse.

Theorem C02_parse_data_is_source : forall (W : Type) (get : W -> Z -> outcome (list Z * W)),
  (forall w n, 0 <= n -> exists bs w', get w n = Done (bs, w') /\ Z.of_nat (length bs) = n) ->
  forall (err_of : Z -> gerr), (forall c, code_x (err_of c) = norm c) ->
  forall psi_parse to_data pes_parse ps gprs pm w, generic_errors gprs ->
  match parseData W get (psi_m W err_of psi_parse) (to_data_m W to_data) (pes_m W err_of pes_parse)
                  ps gprs (pm_mem pm) w with
  | Done (ds, None, _) => parse_data (parsers_of psi_parse to_data pes_parse) (option_map unembed_parser gprs) pm ps = Ok ds
  | Done (_, Some e, _) =>
      exists c, parse_data (parsers_of psi_parse to_data pes_parse) (option_map unembed_parser gprs) pm ps = Err c /\
                code_x e = norm c
  | Panicked | OutOfFuel =>
      parse_data (parsers_of psi_parse to_data pes_parse) (option_map unembed_parser gprs) pm ps = Panic
  end.
Proof. exact parse_data_is_generated. Qed.
Print Assumptions C02_parse_data_is_source.
(* ================= C02 at the level of DELIVERED DATA, for streams the library's own Muxer did not write =======   Spec/StreamSpec.v models well-formed transport streams independently of Model/Muxer.v: per PID a list of units -
   PES units (reference encoding of any well-formed PES header of C12's domain, incl. CRC / pack header / header
   stuffing, PES_packet_length 0 or exact, then the payload) on elementary-stream PIDs; PSI units (pointer_field,
   filler, 1..n sections of Spec/PsiSpec.v, optional 0xFF tail) on PID 0 and on program-map PIDs - each unit cut at
   ARBITRARY points into pieces, each piece in a conformant 188-byte packet of C11's domain (the adaptation field, with
   any optional parts and stuffing bytes of any value, fills the rest), payload_unit_start on the first packet only,
   continuity counters consecutive per PID; the stream is ANY interleaving of the PIDs' packet sequences in which a
   program-map PID carries packets only after a PAT announcing it was completed, with filler packets (transport error
   indicator, adaptation field only, null packets) anywhere.  Scoping S5 (DESIGN.md) is in the model in its weakest
   form: no packet of a PSI unit but the last ends exactly on a section boundary or in the 0xFF tail (psi_mid: it ends
   inside the pointer_field filler or strictly inside a section) - the accumulator takes a payload that ends on a
   section boundary for a complete unit and the remaining sections are lost (notes/c02_s5_section_boundary_test.go.txt);
   units of several sections spanning any number of packets are covered.  SP is the set of sections the section parser must decode (C13's domain):
   C02_sections_c13 discharges the premise for PAT, PMT, SDT, NIT, EIT and TOT sections.
   demux_all = successive NextData calls until ErrNoMorePackets (Proofs/RoundTripRun.v, as in C01).
   Proofs: Proofs/StreamUnits.v (one unit), Proofs/StreamData.v (the stream). *)
Require Import Gen.Types Model.DemuxFull Spec.StreamSpec Proofs.PsiParse Proofs.RoundTripDemux Proofs.RoundTripRun
  Proofs.StreamUnits Proofs.StreamData.

(* for every such stream the calls return exactly [expected]: per PID the units in order - a PES with its header
   fields and exactly the concatenated payload, a PSI unit as one datum per section in order -, each non-final PES
   when the next unit of its PID starts, each table unit at the packet that completes it, the last unit of every
   PES PID at end of stream in PID order, then nothing; all Ok *)
Theorem C02_data_exact : forall SP : list Z -> PSISection -> Prop, (forall b s, SP b s -> sec_parses b s) ->
  forall rs, wf_stream SP rs ->
  demux_all (StreamSpec.stream_bytes rs) = map Ok (expected rs).
Proof. exact data_exact. Qed.
Print Assumptions C02_data_exact.

(* the per-PID projection, which does not depend on the interleaving: exactly the units of that PID, once, in order *)
Theorem C02_data_per_pid : forall SP : list Z -> PSISection -> Prop, (forall b s, SP b s -> sec_parses b s) ->
  forall rs, wf_stream SP rs ->
  exists L, demux_all (StreamSpec.stream_bytes rs) = map Ok L /\
    forall x, filter (fun d => DemuxerData_PID d =? x) L =
              flat_map (fun c => unit_data x (cu_unit c) (sp_pkt (cu_first c))) (units_of (rs_pids rs) x).
Proof. exact data_per_pid_delivered. Qed.
Print Assumptions C02_data_per_pid.

(* where the reader stands (C02_no_read_ahead combined with the stream model).  For the packet (x, u, k of n) that
   completes a table unit: it delivers exactly the data of u; with L1 the data delivered by the packets before it,
   call number |L1| + 1 returns the first of them having consumed the stream exactly up to the end of that packet -
   what is left in the reader are the bytes of the packets behind it -, and the other sections of the unit are
   returned by the next calls from the buffer, the reader not moving *)
Theorem C02_pat_pmt_at_last_packet : forall SP : list Z -> PSISection -> Prop, (forall b s, SP b s -> sec_parses b s) ->
  forall rs, wf_stream SP rs ->
  forall pre x u k n sp post,
  rs_events rs = pre ++ EPkt x u k n sp :: post -> completes u k n = true ->
  exists p0, fst (ev_out (snd (delivered no_pend pre)) x u k n sp) = unit_data x u p0 /\
  forall d ds, unit_data x u p0 = d :: ds ->
  exists sn s' s'',
    nd_iter (length (fst (delivered no_pend pre))) (init_dstate (new_reader (StreamSpec.stream_bytes rs) None Seekable) 188) =
      (map Ok (fst (delivered no_pend pre)), sn) /\
    next_data full_parsers None no_skip sn = (Ok d, s') /\
    r_rest (d_reader s') = flat_map (fun e => spkt_bytes (ev_pkt e)) post /\
    nd_iter (length ds) s' = (map Ok ds, s'') /\
    r_rest (d_reader s'') = flat_map (fun e => spkt_bytes (ev_pkt e)) post.
Proof. exact pat_pmt_at_last_packet. Qed.
Print Assumptions C02_pat_pmt_at_last_packet.

(* the same for ANY packet that makes the demuxer deliver something (a PES is returned by the call that reads the
   first packet of the next unit of its PID, and not a byte further) *)
Theorem C02_delivered_at : forall SP : list Z -> PSISection -> Prop, (forall b s, SP b s -> sec_parses b s) ->
  forall rs, wf_stream SP rs ->
  forall pre x u k n sp post d ds,
  rs_events rs = pre ++ EPkt x u k n sp :: post ->
  fst (ev_out (snd (delivered no_pend pre)) x u k n sp) = d :: ds ->
  exists sn s' s'',
    nd_iter (length (fst (delivered no_pend pre))) (init_dstate (new_reader (StreamSpec.stream_bytes rs) None Seekable) 188) =
      (map Ok (fst (delivered no_pend pre)), sn) /\
    next_data full_parsers None no_skip sn = (Ok d, s') /\
    r_rest (d_reader s') = flat_map (fun e => spkt_bytes (ev_pkt e)) post /\
    nd_iter (length ds) s' = (map Ok ds, s'') /\
    r_rest (d_reader s'') = flat_map (fun e => spkt_bytes (ev_pkt e)) post.
Proof. exact delivered_at_all. Qed.
Print Assumptions C02_delivered_at.

(* the section premise is C13: PAT, PMT, SDT, NIT, EIT, TOT sections with descriptor loops in any domain satisfying
   C13's descriptor premises (C13_no_desc_premises, C13_user_desc_premises) *)
Theorem C02_sections_c13 : forall b s, c13_sections b s -> sec_parses b s.
Proof. exact c13_sections_parse. Qed.
Print Assumptions C02_sections_c13.

(* the stream model is inhabited by every admissible cut: any unit, cut into pieces of at most 184 bytes (for a PSI
   unit: none but the last ending on a section boundary, S5), carried by the packets built around the pieces with stuffing of any value, is a carriage *)
Theorem C02_every_cut_is_a_carriage : forall (SP : list Z -> PSISection -> Prop) x cc u sizes sv,
  0 <= x < 2 ^ 13 -> Base.Bits.byte_ok sv -> unit_ok SP u ->
  cut_ok_b u (cut sizes (unit_bytes u)) = true -> carried_ok SP x (carry x cc u sizes sv).
Proof. exact carry_ok. Qed.
Print Assumptions C02_every_cut_is_a_carriage.

(* Example: PAT (PID 0, two sections and a 0xFF tail, cut in the middle of the first section) and PMT (PID 4096,
   pointer_field 2, cut into three packets of 8 / 10 / 11 bytes with adaptation-field stuffing of value 0x42), a video PID 256 carrying two PES (PTS, CRC, pack header, header stuffing;
   the first cut into two packets) and an audio PID 257 carrying one bounded PES, interleaved, with a null packet, an
   adaptation-field-only packet and a packet with the transport_error_indicator in between: the stream is well formed,
   and the model run on its 12 x 188 bytes (vm_compute) returns the two PAT sections, the PMT when its third packet is
   read, the first video PES when the second starts, and at end of stream the second video PES and the audio PES *)
Example C02_data_example :
  wf_stream c13_sections ex_stream /\
  demux_all (StreamSpec.stream_bytes ex_stream) = map Ok (expected ex_stream) /\
  map DemuxerData_PID (expected ex_stream) = [0; 0; 4096; 256; 256; 257] /\
  length (StreamSpec.stream_bytes ex_stream) = (12 * 188)%nat.
Proof. split; [exact ex_stream_wf|]. vm_compute. repeat split; reflexivity. Qed.

(* program_map.go is regenerated too (Gen/RestGen.v, go/gen/restgen.go: newProgramMap, existsUnlocked, setUnlocked,
   unsetUnlocked over an abstract map[uint32]uint16).  The set of PMT PIDs the model threads through isPSIPayload, the
   packet pool, parseData and updateData (Model/Pool.v: pmap = list Z, pm_mem, pm_add, [] in a fresh Demuxer) is the image
   of the Go map under the abstraction function pm_alpha (the keys of the association list, in insertion order):
   newProgramMap is the empty set, setUnlocked(pid, n) is pm_add, existsUnlocked is pm_mem, unsetUnlocked removes exactly
   its key, and after any history of registrations the two answer alike.  A setUnlocked that stores under another key, an
   existsUnlocked that looks up another key or an unsetUnlocked that deletes the wrong key breaks this proof. *)
Require Import Gen.RestGen Proofs.RestGenPm.
Theorem C02_program_map_is_source :
  pm_alpha (newProgramMap lm_make) = [] /\
  (forall m pid n, pm_alpha (programMap_setUnlocked lm_set m pid n) = pm_add (pm_alpha m) pid) /\
  (forall m pid, programMap_existsUnlocked lm_get m pid = pm_mem (pm_alpha m) pid) /\
  (forall m pid q, programMap_existsUnlocked lm_get (programMap_unsetUnlocked lm_del m pid) q =
                   negb (Z.eqb q pid) && programMap_existsUnlocked lm_get m q) /\
  (forall regs q,
     programMap_existsUnlocked lm_get
       (fold_left (fun m e => programMap_setUnlocked lm_set m (fst e) (snd e)) regs (newProgramMap lm_make)) q =
     pm_mem (fold_left pm_add (map fst regs) []) q).
Proof. exact program_map_demux_is_generated. Qed.
Print Assumptions C02_program_map_is_source.
Example C02_program_map_is_source_inhabited :
  let m := programMap_setUnlocked lm_set (programMap_setUnlocked lm_set (newProgramMap lm_make) 4096 1) 256 2 in
  pm_alpha m = [4096; 256] /\ programMap_existsUnlocked lm_get m 256 = true /\
  programMap_existsUnlocked lm_get m 257 = false /\
  programMap_existsUnlocked lm_get (programMap_unsetUnlocked lm_del m 4096) 4096 = false /\
  programMap_existsUnlocked lm_get (programMap_unsetUnlocked lm_del m 4096) 256 = true.
Proof. exact program_map_demux_example. Qed.

(* ---- the completeness test behind the early flush IS the source (the statement of C03_psi_complete_is_source, quoted
   here because C02_early_flush and the data-level theorems rest on is_psi_complete: a change to isPSIComplete — a
   "fast path", a bound on section_length — changes Gen/DemuxGen.v and this proof stops checking) ---- *)
Require Import Base.Bits Proofs.DemuxGenEqPsi.
Theorem C02_psi_complete_is_source : forall (W : Type) (get : W -> Z -> outcome (list Z * W)),
  (forall w n, 0 <= n -> exists bs w', get w n = Done (bs, w') /\ Z.of_nat (length bs) = n) ->
  forall ps w, Base.Bits.bytes_ok (concat_payload ps) ->
  exists w', isPSIComplete W get ps (S (length (concat_payload ps))) w = Done (is_psi_complete ps, w').
Proof. exact psi_complete_is_generated. Qed.
Print Assumptions C02_psi_complete_is_source.
