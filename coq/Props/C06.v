(* Property C06 — duplicate packets are harmless; packet loss never yields spliced or foreign data
   (theorems only; proofs in Proofs/PoolProofs.v and Proofs/LossProofs.v). *)
From Coq Require Import ZArith List Bool.
Require Import Base.Iter Gen.Consts Gen.Types Gen.Preds Model.Pool Model.PoolRun Proofs.PoolProofs.
Import ListNotations.
Open Scope Z_scope.

(* a packet repeated immediately on a PID that is not treated as PSI: the state of the pool and every group it
   flushes, now and at end of stream, are those of the stream without the duplicate — for EVERY packet sequence
   before and after it, well-formed or not *)
Theorem C06_dup_pes : forall s1 pm pm' p s2, tei p = false -> has_payload p = true ->
  (Z.eqb (pid_of p) C_PIDPAT || pm_mem pm (pid_of p)) = false ->
  all_groups (s1 ++ (pm, p) :: (pm', p) :: s2) = all_groups (s1 ++ (pm, p) :: s2).
Proof. exact duplicate_harmless_groups. Qed.
Print Assumptions C06_dup_pes.

Theorem C06_dup_pes_state : forall s1 pm pm' p s2, tei p = false -> has_payload p = true ->
  (Z.eqb (pid_of p) C_PIDPAT || pm_mem pm (pid_of p)) = false ->
  pool_run [] (s1 ++ (pm, p) :: (pm', p) :: s2) = pool_run [] (s1 ++ (pm, p) :: s2).
Proof. exact duplicate_harmless. Qed.
Print Assumptions C06_dup_pes_state.

(* ---- packet loss ---- *)
Require Import Proofs.LossProofs.

(* The received packets of one PID (not treated as PSI), each annotated with its position in the loss-free stream,
   whose continuity counters are consecutive (cc = (c0 + position) mod 16).  Fewer than 16 packets are lost in a row
   (consecutive received positions differ by at most 16), and a packet that follows a loss of exactly 15 is not
   byte-identical to the last one received (a byte-identical one is, by ISO 13818-1 2.4.3.3, a duplicate).
   Then every group the accumulator flushes while packets arrive is a run of CONSECUTIVE positions of the loss-free
   stream, continued without a hole by the payload_unit_start packet that flushed it, and contains no further unit
   start: a group that begins with a unit start is therefore exactly one whole unit of the loss-free stream —
   never a splice across a gap, never foreign data. *)
Theorem C06_loss_no_splice : forall pm x c0 es,
  (Z.eqb x C_PIDPAT || pm_mem pm x) = false ->
  Forall (on_stream c0) es -> received_ok None es ->
  Forall (fun ev => run (fst ev ++ [snd ev]) /\ inner_non_pusi (fst ev) /\ pusi (snd (snd ev)) = true /\
                    Forall (on_stream c0) (fst ev))
         (snd (acc_run_a pm x [] es)).
Proof. exact loss_no_splice_from_start. Qed.
Print Assumptions C06_loss_no_splice.

(* the annotated run is the pool's accumulator (hence, by C07_per_pid, the pool) with the annotations erased *)
Theorem C06_loss_erase : forall pm x es q, Forall (fun e => relevant x (snd e) = true) es ->
  map (fun ev => (x, map snd (fst ev))) (snd (acc_run_a pm x q es)) =
  snd (acc_run x (map snd q) (map (fun e => (pm, snd e)) es)) /\
  map snd (fst (acc_run_a pm x q es)) = fst (acc_run x (map snd q) (map (fun e => (pm, snd e)) es)).
Proof. exact acc_run_a_erase. Qed.
Print Assumptions C06_loss_erase.

(* positions of a run starting at a are a, a+1, a+2, ... *)
Theorem C06_run_positions : forall l, run l -> forall a, (match l with [] => True | e :: _ => fst e = a end) ->
  map fst l = map (fun k => a + Z.of_nat k) (seq 0 (length l)).
Proof. exact run_positions. Qed.
Print Assumptions C06_run_positions.

(* the arithmetic behind it: after losing k packets, 1 <= k < 15, the counter is neither the expected one nor the
   previous one; after losing exactly 15 it repeats the previous one *)
Theorem C06_gap_arith : forall c k, 0 <= c < 16 -> 1 <= k < 16 ->
  (c + k + 1) mod 16 <> (c + 1) mod 16 /\ ((c + k + 1) mod 16 = c <-> k = 15).
Proof. exact gap_arith. Qed.
Print Assumptions C06_gap_arith.

(* ---- the accumulator of the theorems above IS the source ----
   Gen/PoolGen.v is translated from the current /repo/packet_pool.go on every run (go/gen/stateful.go). acc_add — the
   duplicate test, the discontinuity reset, the flush on a unit start, the early PSI flush, in the order the Go code
   performs them — is the regenerated packetAccumulator.add, and pool_add (which pool_run / all_groups iterate) is the
   regenerated packetPool.addUnlocked. A change to either body breaks these proofs. *)
Require Import Gen.PoolGen Proofs.PoolGenEq.

Theorem C06_acc_is_source : forall pm pid q p,
  acc_add pm pid q p = packetAccumulator_add is_psi_complete pid (Some (pm_mem pm)) q p.
Proof. exact acc_add_is_generated. Qed.
Print Assumptions C06_acc_is_source.

Theorem C06_pool_is_source : forall pm pl p,
  pool_add pm pl p = packetPool_addUnlocked (gen_get pm) gen_set is_psi_complete pl (Some (pm_mem pm)) p.
Proof. exact pool_add_is_generated. Qed.
Print Assumptions C06_pool_is_source.
