(* Property C06 — duplicate packets are harmless; packet loss never yields spliced or foreign data
   (theorems only; proofs in Proofs/PoolProofs.v and Proofs/LossProofs.v). *)
From Coq Require Import ZArith List Bool.
Require Import Base.Iter Gen.Consts Gen.Types Gen.Preds Model.Pool Model.PoolRun Proofs.PoolProofs.
Import ListNotations.
Open Scope Z_scope.

(* a packet repeated immediately on a PID that is not treated as PSI: the state of the pool and every group it
   flushes, now and at end of stream, are those of the stream without the duplicate — for EVERY packet sequence
   before and after it, well-formed or not *)
Theorem C06_dup_pes : forall s1 pm pm' p s2, tei p = false -> has_payload p = true ->
  (Z.eqb (pid_of p) C_PIDPAT || pm_mem pm (pid_of p)) = false ->
  all_groups (s1 ++ (pm, p) :: (pm', p) :: s2) = all_groups (s1 ++ (pm, p) :: s2).
Proof. exact duplicate_harmless_groups. Qed.
Print Assumptions C06_dup_pes.

Theorem C06_dup_pes_state : forall s1 pm pm' p s2, tei p = false -> has_payload p = true ->
  (Z.eqb (pid_of p) C_PIDPAT || pm_mem pm (pid_of p)) = false ->
  pool_run [] (s1 ++ (pm, p) :: (pm', p) :: s2) = pool_run [] (s1 ++ (pm, p) :: s2).
Proof. exact duplicate_harmless. Qed.
Print Assumptions C06_dup_pes_state.

(* ---- packet loss ---- *)
Require Import Proofs.LossProofs.

(* The received packets of one PID (not treated as PSI), each annotated with its position in the loss-free stream,
   whose continuity counters are consecutive (cc = (c0 + position) mod 16).  Fewer than 16 packets are lost in a row
   (consecutive received positions differ by at most 16), and a packet that follows a loss of exactly 15 is not
   byte-identical to the last one received (a byte-identical one is, by ISO 13818-1 2.4.3.3, a duplicate).
   Then every group the accumulator flushes while packets arrive is a run of CONSECUTIVE positions of the loss-free
   stream, continued without a hole by the payload_unit_start packet that flushed it, and contains no further unit
   start: a group that begins with a unit start is therefore exactly one whole unit of the loss-free stream —
   never a splice across a gap, never foreign data. *)
Theorem C06_loss_no_splice : forall pm x c0 es,
  (Z.eqb x C_PIDPAT || pm_mem pm x) = false ->
  Forall (on_stream c0) es -> received_ok None es ->
  Forall (fun ev => run (fst ev ++ [snd ev]) /\ inner_non_pusi (fst ev) /\ pusi (snd (snd ev)) = true /\
                    Forall (on_stream c0) (fst ev))
         (snd (acc_run_a pm x [] es)).
Proof. exact loss_no_splice_from_start. Qed.
Print Assumptions C06_loss_no_splice.

(* the annotated run is the pool's accumulator (hence, by C07_per_pid, the pool) with the annotations erased *)
Theorem C06_loss_erase : forall pm x es q, Forall (fun e => relevant x (snd e) = true) es ->
  map (fun ev => (x, map snd (fst ev))) (snd (acc_run_a pm x q es)) =
  snd (acc_run x (map snd q) (map (fun e => (pm, snd e)) es)) /\
  map snd (fst (acc_run_a pm x q es)) = fst (acc_run x (map snd q) (map (fun e => (pm, snd e)) es)).
Proof. exact acc_run_a_erase. Qed.
Print Assumptions C06_loss_erase.

(* positions of a run starting at a are a, a+1, a+2, ... *)
Theorem C06_run_positions : forall l, run l -> forall a, (match l with [] => True | e :: _ => fst e = a end) ->
  map fst l = map (fun k => a + Z.of_nat k) (seq 0 (length l)).
Proof. exact run_positions. Qed.
Print Assumptions C06_run_positions.

(* the arithmetic behind it: after losing k packets, 1 <= k < 15, the counter is neither the expected one nor the
   previous one; after losing exactly 15 it repeats the previous one *)
Theorem C06_gap_arith : forall c k, 0 <= c < 16 -> 1 <= k < 16 ->
  (c + k + 1) mod 16 <> (c + 1) mod 16 /\ ((c + k + 1) mod 16 = c <-> k = 15).
Proof. exact gap_arith. Qed.
Print Assumptions C06_gap_arith.

(* ---- packet loss: completeness ("the only units missing are those that lost a packet and, possibly, the unit
   immediately preceding each gap") ---- *)
Require Import Proofs.UnitsProofs Proofs.LossComplete.
From Coq Require Import Sorted.

(* Under the hypotheses of C06_loss_no_splice the accumulator is EXACTLY the reference pos_run, which never looks at a
   continuity counter or a payload byte, only at the positions of the received packets in the loss-free stream and at
   their payload_unit_start indicators: a packet at the position following the last one received continues the queue
   or, if it starts a unit, flushes it; any other packet (after a gap, or the first received) drops what is queued and
   starts a new queue. *)
Theorem C06_loss_exact : forall pm x c0 es,
  (Z.eqb x C_PIDPAT || pm_mem pm x) = false ->
  Forall (on_stream c0) es -> received_ok None es ->
  acc_run_a pm x [] es = pos_run [] es.
Proof. exact loss_run_exact_from_start. Qed.
Print Assumptions C06_loss_exact.

(* COMPLETENESS.  The received packets are pre ++ u ++ h' :: post where u is a whole unit of the loss-free stream (a
   unit start followed by continuation packets at consecutive positions: none of its packets was lost) and h', at the
   next position, starts the next unit (so u does not immediately precede a gap).  Then u is flushed, as one group, by
   h': the flush events are those of the packets up to the first packet of u, then (u, h'), then those of the rest
   run from the queue [h'].  No hypothesis on pre and post beyond those of C06_loss_no_splice: any losses, anywhere
   else. *)
Theorem C06_loss_complete : forall pm x c0, (Z.eqb x C_PIDPAT || pm_mem pm x) = false ->
  forall pre u h' post,
  Forall (on_stream c0) (pre ++ u ++ h' :: post) -> received_ok None (pre ++ u ++ h' :: post) ->
  unit_shaped u -> run (u ++ [h']) -> pusi (snd h') = true ->
  snd (acc_run_a pm x [] (pre ++ u ++ h' :: post)) =
  snd (acc_run_a pm x [] (pre ++ firstn 1 u)) ++ (u, h') :: snd (acc_run_a pm x [h'] post).
Proof. exact loss_complete. Qed.
Print Assumptions C06_loss_complete.

(* with C06_loss_no_splice: the groups that begin with a unit start are EXACTLY the units of which every packet and
   the following unit start were received *)
Theorem C06_loss_unit_groups_iff : forall pm x c0, (Z.eqb x C_PIDPAT || pm_mem pm x) = false ->
  forall es g e, Forall (on_stream c0) es -> received_ok None es -> unit_shaped g ->
  (In (g, e) (snd (acc_run_a pm x [] es)) <->
   (exists pre post, es = pre ++ g ++ e :: post) /\ run (g ++ [e]) /\ pusi (snd e) = true).
Proof. exact loss_unit_groups_iff. Qed.
Print Assumptions C06_loss_unit_groups_iff.

(* each of them exactly once and in stream order: the events are strictly ordered by the position of the flushing packet *)
Theorem C06_loss_events_sorted : forall pm x c0, (Z.eqb x C_PIDPAT || pm_mem pm x) = false ->
  forall es, Forall (on_stream c0) es -> received_ok None es ->
  StronglySorted ev_lt (snd (acc_run_a pm x [] es)).
Proof. exact loss_events_sorted. Qed.
Print Assumptions C06_loss_events_sorted.

(* the unit received last stays queued: the end-of-stream drain delivers it *)
Theorem C06_loss_last_unit : forall pm x c0, (Z.eqb x C_PIDPAT || pm_mem pm x) = false ->
  forall pre u, Forall (on_stream c0) (pre ++ u) -> received_ok None (pre ++ u) -> unit_shaped u -> run u ->
  fst (acc_run_a pm x [] (pre ++ u)) = u.
Proof. exact loss_last_unit. Qed.
Print Assumptions C06_loss_last_unit.

(* the groups that do NOT begin with a unit start are tails of damaged units: a block of consecutive received
   continuation packets, followed at once by the unit start that flushed it, and the packet just before the block in
   the loss-free stream was not received (every packet received earlier lies at least two positions back).  What
   parseData makes of such a group is finding K2. *)
Theorem C06_loss_orphans : forall pm x c0, (Z.eqb x C_PIDPAT || pm_mem pm x) = false ->
  forall es, Forall (on_stream c0) es -> received_ok None es ->
  Forall (fun ev : list (Z * Packet) * (Z * Packet) =>
            forall (a : Z * Packet) (g' : list (Z * Packet)), fst ev = a :: g' -> pusi (snd a) = false ->
            exists pre post : list (Z * Packet), es = pre ++ fst ev ++ snd ev :: post /\
              Forall (fun e => pusi (snd e) = false) (fst ev) /\ run (fst ev ++ [snd ev]) /\
              pusi (snd (snd ev)) = true /\ Forall (fun pe => fst pe + 1 < fst a) pre)
         (snd (acc_run_a pm x [] es)).
Proof. exact loss_orphans. Qed.
Print Assumptions C06_loss_orphans.

(* the same at the level of the pool, for a whole stream xs (all PIDs interleaved, null / adaptation-field-only /
   error-flagged packets included) whose packets of PID x are the received packets: the unit is one of the groups the
   demultiplexer hands to the parser; the unit received last is delivered by the drain *)
Theorem C06_loss_complete_pool : forall pm x c0, (Z.eqb x C_PIDPAT || pm_mem pm x) = false ->
  forall xs pre u h' post,
  filter (fun s => relevant x (snd s)) xs = map (fun e => (pm, snd e)) (pre ++ u ++ h' :: post) ->
  Forall (on_stream c0) (pre ++ u ++ h' :: post) -> received_ok None (pre ++ u ++ h' :: post) ->
  unit_shaped u -> run (u ++ [h']) -> pusi (snd h') = true ->
  In (x, map snd u) (all_groups xs).
Proof. exact loss_complete_pool. Qed.
Print Assumptions C06_loss_complete_pool.

Theorem C06_loss_last_unit_pool : forall pm x c0, (Z.eqb x C_PIDPAT || pm_mem pm x) = false ->
  forall xs pre u,
  filter (fun s => relevant x (snd s)) xs = map (fun e => (pm, snd e)) (pre ++ u) ->
  Forall (on_stream c0) (pre ++ u) -> received_ok None (pre ++ u) -> unit_shaped u -> run u ->
  In (x, map snd u) (all_groups xs).
Proof. exact loss_last_unit_pool. Qed.
Print Assumptions C06_loss_last_unit_pool.

(* the hypotheses are satisfiable: four units at positions 0-2, 3-4, 5-7, 8-9, counter starting at 14 (wraps in the
   first unit); position 4 lost: units 0-2 and 5-7 are flushed (by the packets at 3 and 8), 8-9 remains for the drain;
   position 5 (a unit start) lost instead: 0-2 is flushed, the continuation packets 6-7 form an orphan group *)
Example C06_loss_complete_example :
  let es := ex_without 4 in
  let u := firstn 3 (skipn 4 es) in
  Forall (on_stream 14) es /\ received_ok None es /\
  es = firstn 4 es ++ u ++ nth 7 es (0, zero_Packet) :: skipn 8 es /\
  unit_shaped u /\ run (u ++ [nth 7 es (0, zero_Packet)]) /\ pusi (snd (nth 7 es (0, zero_Packet))) = true /\
  map (fun ev => (map fst (fst ev), fst (snd ev))) (snd (acc_run_a [] 256 [] es)) = [([0; 1; 2], 3); ([5; 6; 7], 8)] /\
  map fst (fst (acc_run_a [] 256 [] es)) = [8; 9].
Proof. exact loss_complete_example. Qed.

Example C06_loss_orphan_example :
  let es := ex_without 5 in
  Forall (on_stream 14) es /\ received_ok None es /\
  map (fun ev => (map fst (fst ev), fst (snd ev))) (snd (acc_run_a [] 256 [] es)) = [([0; 1; 2], 3); ([6; 7], 8)].
Proof. exact loss_orphan_example. Qed.

(* ---- duplicates on PSI PIDs ---- *)
Require Import Proofs.DupPsi.

(* On PID 0 and on the PIDs of the program map a unit is flushed as soon as its sections are complete, so the queue
   may be EMPTY when the duplicate of the completing packet p arrives, and the duplicate cannot be recognised.
   dup_psi_ok pm' p s2 =   the PID is (still) treated as PSI and p starts a unit (a one-packet unit) or is by itself
                           "complete": the duplicate is flushed at once, as the group [p]
                        \/ p does not start a unit and the next packet of its PID in s2 that the pool does not ignore,
                           if any, starts one (streams whose sections start in a unit-start packet, scoping S5): the
                           duplicate waits in the queue and is flushed as the orphan group [p] by that packet, or
                           dropped by it, or delivered by the end-of-stream drain.
   Then the groups of the stream with the duplicate are those of the stream without it, in the same order, with AT MOST
   ONE extra group [p] inserted: nothing delivered is removed or altered.  For EVERY s1, s2 and program maps. *)
Theorem C06_dup_psi : forall s1 pm pm' p s2, tei p = false -> has_payload p = true -> dup_psi_ok pm' p s2 ->
  one_more (pid_of p, [p]) (all_groups (s1 ++ (pm, p) :: s2)) (all_groups (s1 ++ (pm, p) :: (pm', p) :: s2)).
Proof. exact dup_psi. Qed.
Print Assumptions C06_dup_psi.

(* while a unit is still pending on the PID after the first copy (p did not complete it) the duplicate is dropped
   exactly as on PES PIDs: no hypothesis on the rest of the stream, and equality *)
Theorem C06_dup_psi_pending : forall s1 pm pm' p s2, tei p = false -> has_payload p = true ->
  qof (fst (pool_run [] (s1 ++ [(pm, p)]))) (pid_of p) <> [] ->
  all_groups (s1 ++ (pm, p) :: (pm', p) :: s2) = all_groups (s1 ++ (pm, p) :: s2).
Proof. exact dup_psi_pending. Qed.
Print Assumptions C06_dup_psi_pending.

(* the hypothesis cannot be dropped: when the packet after the duplicate of a unit's last packet does not start a
   unit, it is glued to the duplicate ([B; C] is delivered instead of [C]) *)
Theorem C06_dup_psi_needs_next_start :
  exists s1 pm pm' p s2, tei p = false /\ has_payload p = true /\ psi_pid pm (pid_of p) = true /\
    psi_pid pm' (pid_of p) = true /\
    ~ one_more (pid_of p, [p]) (all_groups (s1 ++ (pm, p) :: s2)) (all_groups (s1 ++ (pm, p) :: (pm', p) :: s2)).
Proof. exact dup_psi_needs_next_start. Qed.
Print Assumptions C06_dup_psi_needs_next_start.

(* satisfiable, and the extra group really occurs (two-packet unit A B, its repetition A' B', one-packet unit P) *)
Example C06_dup_psi_example :
  dup_psi_ok [] exB [([], exA'); ([], exB'); ([], exP)] /\
  all_groups [([], exA); ([], exB); ([], exA'); ([], exB'); ([], exP)] =
    [(0, [exA; exB]); (0, [exA'; exB']); (0, [exP])] /\
  all_groups [([], exA); ([], exB); ([], exB); ([], exA'); ([], exB'); ([], exP)] =
    [(0, [exA; exB]); (0, [exB]); (0, [exA'; exB']); (0, [exP])] /\
  dup_psi_ok [] exP [] /\
  all_groups [([], exA); ([], exB); ([], exA'); ([], exB'); ([], exP); ([], exP)] =
    [(0, [exA; exB]); (0, [exA'; exB']); (0, [exP]); (0, [exP])].
Proof. exact dup_psi_example. Qed.
(* ---- the accumulator of the theorems above IS the source ----
   Gen/PoolGen.v is translated from the current /repo/packet_pool.go on every run (go/gen/stateful.go). acc_add — the
   duplicate test, the discontinuity reset, the flush on a unit start, the early PSI flush, in the order the Go code
   performs them — is the regenerated packetAccumulator.add, and pool_add (which pool_run / all_groups iterate) is the
   regenerated packetPool.addUnlocked. A change to either body breaks these proofs. *)
Require Import Gen.PoolGen Proofs.PoolGenEq.

Theorem C06_acc_is_source : forall pm pid q p,
  acc_add pm pid q p = packetAccumulator_add is_psi_complete pid (Some (pm_mem pm)) q p.
Proof. exact acc_add_is_generated. Qed.
Print Assumptions C06_acc_is_source.

Theorem C06_pool_is_source : forall pm pl p,
  pool_add pm pl p = packetPool_addUnlocked (gen_get pm) gen_set is_psi_complete pl (Some (pm_mem pm)) p.
Proof. exact pool_add_is_generated. Qed.
Print Assumptions C06_pool_is_source.
