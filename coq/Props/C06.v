(* Property C06 — duplicate packets are harmless; packet loss never yields spliced or foreign data
   (theorems only; proofs in Proofs/PoolProofs.v and Proofs/LossProofs.v). *)
From Coq Require Import ZArith List Bool.
Require Import Base.Iter Gen.Consts Gen.Types Gen.Preds Model.Pool Model.PoolRun Proofs.PoolProofs.
Import ListNotations.
Open Scope Z_scope.

(* a packet repeated immediately on a PID that is not treated as PSI: the state of the pool and every group it
   flushes, now and at end of stream, are those of the stream without the duplicate — for EVERY packet sequence
   before and after it, well-formed or not *)
Theorem C06_dup_pes : forall s1 pm pm' p s2, tei p = false -> has_payload p = true ->
  (Z.eqb (pid_of p) C_PIDPAT || pm_mem pm (pid_of p)) = false ->
  all_groups (s1 ++ (pm, p) :: (pm', p) :: s2) = all_groups (s1 ++ (pm, p) :: s2).
Proof. exact duplicate_harmless_groups. Qed.
Print Assumptions C06_dup_pes.

Theorem C06_dup_pes_state : forall s1 pm pm' p s2, tei p = false -> has_payload p = true ->
  (Z.eqb (pid_of p) C_PIDPAT || pm_mem pm (pid_of p)) = false ->
  pool_run [] (s1 ++ (pm, p) :: (pm', p) :: s2) = pool_run [] (s1 ++ (pm, p) :: s2).
Proof. exact duplicate_harmless. Qed.
Print Assumptions C06_dup_pes_state.
