(* Property C18 — failures of the underlying reader or writer are always surfaced
   (theorems only; proofs in Proofs/FaultProofs.v and Proofs/ReaderProofs.v). *)
From Coq Require Import ZArith List Bool.
Require Import Base.Bits Base.Iter Gen.Consts Gen.Types Model.Packet Model.Reader Model.Demux Model.Faults
  Proofs.FaultProofs Proofs.ReaderProofs.
Import ListNotations.
Open Scope Z_scope.

(* reader: io.ReadFull on a reader that fails (with an error other than EOF) at an offset within the stream either
   delivers all the bytes asked for or reports that very failure — never EOF / UnexpectedEOF — for every offset,
   and (C08_readfull_chunks) for every fragmentation of the reads before it *)
Theorem C18_readfull_fault : forall r n, faulty r -> 0 < n ->
  (snd (fst (read_full r n)) = None \/ snd (fst (read_full r n)) = Some RInjected) /\ faulty (snd (read_full r n)).
Proof. exact read_full_faulty. Qed.
Print Assumptions C18_readfull_fault.

(* hence packetBuffer.next (any packet size >= 188, any bytes, any skipper) never answers ErrNoMorePackets on such a
   reader: the call that needs a byte at or beyond the failure offset returns the wrapped failure *)
Theorem C18_reader_never_nomore : forall skip size, C_MpegTsPacketSize <= size -> forall fuel r f,
  r_fault r = Some f -> f <= r_total r -> r_pos r <= f -> rest_ok r ->
  f - r_pos r < Z.of_nat fuel * size ->
  fst (fst (pb_next fuel skip size r)) <> Err E_nomore.
Proof. exact pb_next_fuel_enough. Qed.
Print Assumptions C18_reader_never_nomore.

(* writer: when the k-th Write of a call fails, the byte count the call reports (the sizes of the groups of Writes it
   had completed) never exceeds what the writer accepted, for every grouping and every k *)
Theorem C18_writer_count : forall groups k, 0 <= k ->
  n_before groups k <= Z.of_nat (length (accepted (concat groups) k)).
Proof. exact writer_count_le_accepted. Qed.
Print Assumptions C18_writer_count.

(* ... and what was accepted is a prefix of what the call writes when nothing fails *)
Theorem C18_writer_prefix : forall chunks k, exists rest, concat chunks = accepted chunks k ++ rest.
Proof. exact accepted_prefix. Qed.
Print Assumptions C18_writer_prefix.

Example C18_fault_reader : faulty (new_reader [71; 0; 0] (Some 2) Plain).
Proof. exists 2. split; [reflexivity|cbn; discriminate]. Qed.
