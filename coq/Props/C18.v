(* Property C18 — failures of the underlying reader or writer are always surfaced
   (theorems only; proofs in Proofs/FaultProofs.v, ReaderProofs.v, FaultDemux.v, FaultMux.v). *)
From Coq Require Import ZArith List Bool.
Require Import Base.Bits Base.Iter Gen.Consts Gen.Types Model.Packet Model.Reader Model.Demux Model.DemuxFull Model.Faults
  Model.Muxer Model.MuxFaults
  Proofs.FaultProofs Proofs.ReaderProofs Proofs.DemuxProofs Proofs.SafeProofs Proofs.SafeDemux Proofs.FaultDemux
  Proofs.MuxerExamples Proofs.FaultMux.
Import ListNotations.
Open Scope Z_scope.

(* reader: io.ReadFull on a reader that fails (with an error other than EOF) at an offset within the stream either
   delivers all the bytes asked for or reports that very failure — never EOF / UnexpectedEOF — for every offset,
   and (C08_readfull_chunks) for every fragmentation of the reads before it *)
Theorem C18_readfull_fault : forall r n, faulty r -> 0 < n ->
  (snd (fst (read_full r n)) = None \/ snd (fst (read_full r n)) = Some RInjected) /\ faulty (snd (read_full r n)).
Proof. exact read_full_faulty. Qed.
Print Assumptions C18_readfull_fault.

(* hence packetBuffer.next (any packet size >= 188, any bytes, any skipper) never answers ErrNoMorePackets on such a
   reader: the call that needs a byte at or beyond the failure offset returns the wrapped failure *)
Theorem C18_reader_never_nomore : forall skip size, C_MpegTsPacketSize <= size -> forall fuel r f,
  r_fault r = Some f -> f <= r_total r -> r_pos r <= f -> rest_ok r ->
  f - r_pos r < Z.of_nat fuel * size ->
  fst (fst (pb_next fuel skip size r)) <> Err E_nomore.
Proof. exact pb_next_fuel_enough. Qed.
Print Assumptions C18_reader_never_nomore.

(* writer: when the k-th Write of a call fails, the byte count the call reports (the sizes of the groups of Writes it
   had completed) never exceeds what the writer accepted, for every grouping and every k *)
Theorem C18_writer_count : forall groups k, 0 <= k ->
  n_before groups k <= Z.of_nat (length (accepted (concat groups) k)).
Proof. exact writer_count_le_accepted. Qed.
Print Assumptions C18_writer_count.

(* ... and what was accepted is a prefix of what the call writes when nothing fails *)
Theorem C18_writer_prefix : forall chunks k, exists rest, concat chunks = accepted chunks k ++ rest.
Proof. exact accepted_prefix. Qed.
Print Assumptions C18_writer_prefix.

Example C18_fault_reader : faulty (new_reader [71; 0; 0] (Some 2) Plain).
Proof. exists 2. split; [reflexivity|cbn; discriminate]. Qed.

(* ======================= the reader, at the level of Demuxer calls (Proofs/FaultDemux.v) =======================
   Two Demuxers over the same bytes, the same reader kind (plain / seekable / bufio) and the same size option: one
   over a reader that does not fail, one over a reader that fails with an error other than EOF once f bytes have been
   handed out, 0 <= f <= length of the stream (f inside the detection window included).  `calls` is the list of the
   results of a sequence of NextPacket / NextData calls (Proofs/DemuxProofs.v). *)

(* "everything delivered before is a prefix of the fault-free output": the results agree up to the first call of the
   failing run that returns the injected error.  No hypothesis on the bytes, the size option, the skipper, the unit
   parsers or the PacketsParser: by a lock-step simulation of the two runs *)
Theorem C18_demux_prefix : forall P prs skip data k opt f cs, 0 <= f <= Z.of_nat (length data) ->
  let outs_f := calls P prs skip cs (init_dstate (new_reader data (Some f) k) opt) in
  let outs := calls P prs skip cs (init_dstate (new_reader data None k) opt) in
  exists n, (n <= length cs)%nat /\ firstn n outs_f = firstn n outs /\
    ((n < length cs)%nat -> nth_error outs_f n = Some (Err E_injected)).
Proof. exact demux_prefix. Qed.
Print Assumptions C18_demux_prefix.

(* "never ErrNoMorePackets, never a panic": no call of the failing run, whatever the call sequence (bytes in 0..255,
   size option 0 = auto-detection or >= 188, a PacketsParser that does not itself panic) *)
Theorem C18_demux_never_nomore : forall prs skip data k opt f cs, bytes_ok data ->
  (opt = 0 \/ C_MpegTsPacketSize <= opt) -> parser_no_panic prs -> 0 <= f <= Z.of_nat (length data) ->
  Forall (fun x => x <> Err E_nomore /\ x <> Panic)
         (calls full_parsers prs skip cs (init_dstate (new_reader data (Some f) k) opt)).
Proof. exact demux_never_nomore. Qed.
Print Assumptions C18_demux_never_nomore.

(* call by call: every result of the failing run is the fault-free run's result of the same call or the injected
   error (after the failure NextData still hands out the data an earlier call left in the data buffer: they are the
   fault-free run's) *)
Theorem C18_demux_pointwise : forall prs skip data k opt f cs, bytes_ok data ->
  (opt = 0 \/ C_MpegTsPacketSize <= opt) -> parser_no_panic prs -> 0 <= f <= Z.of_nat (length data) ->
  Forall2 (fun xf x => xf = x \/ xf = Err E_injected)
    (calls full_parsers prs skip cs (init_dstate (new_reader data (Some f) k) opt))
    (calls full_parsers prs skip cs (init_dstate (new_reader data None k) opt)).
Proof. exact demux_pointwise. Qed.
Print Assumptions C18_demux_pointwise.

(* the failure is surfaced: a call sequence long enough to take the fault-free Demuxer to ErrNoMorePackets makes the
   failing one return the injected error *)
Theorem C18_demux_fault_reported : forall prs skip data k opt f cs, bytes_ok data ->
  (opt = 0 \/ C_MpegTsPacketSize <= opt) -> parser_no_panic prs -> 0 <= f <= Z.of_nat (length data) ->
  In (Err E_nomore) (calls full_parsers prs skip cs (init_dstate (new_reader data None k) opt)) ->
  In (Err E_injected) (calls full_parsers prs skip cs (init_dstate (new_reader data (Some f) k) opt)).
Proof. exact demux_fault_reported. Qed.
Print Assumptions C18_demux_fault_reported.

(* after the failing call (the reader keeps failing): every later NextPacket returns the injected error again; every
   later NextData returns it again or a datum from the data buffer (after_fault); after a failing NextData the buffer is
   empty and every later call of either kind returns the error *)
Theorem C18_demux_fault_persistent : forall prs skip data k opt f cs c cs', bytes_ok data ->
  (opt = 0 \/ C_MpegTsPacketSize <= opt) -> parser_no_panic prs -> 0 <= f <= Z.of_nat (length data) ->
  let outs := calls full_parsers prs skip (cs ++ c :: cs') (init_dstate (new_reader data (Some f) k) opt) in
  nth_error outs (length cs) = Some (Err E_injected) ->
  let later := skipn (S (length cs)) outs in
  Forall2 after_fault cs' later /\ (c = CallData -> Forall (fun x => x = Err E_injected) later).
Proof. exact demux_fault_persistent. Qed.
Print Assumptions C18_demux_fault_persistent.

(* the hypotheses are satisfiable and the fault strikes mid-way: six packets, units of two packets that each yield two
   data, the reader fails at offset 600 (inside the fourth packet).  200+pid = datum, 100 = packet, 7 = injected error,
   1 = ErrNoMorePackets.  The second NextData of the failing run hands out the buffered datum after the failure *)
Example C18_demux_example :
  bytes_ok ex18_stream /\ parser_no_panic ex18_prs /\ 0 <= 600 <= Z.of_nat (length ex18_stream) /\
  let cs := [CallData; CallPacket; CallData; CallData; CallPacket; CallData] in
  ex18_run Plain 188 (Some 600) cs = [201; 7; 202; 7; 7; 7] /\
  ex18_run Plain 188 None cs = [201; 100; 202; 201; 1; 202].
Proof.
  split; [exact ex18_stream_ok|]. split; [exact ex18_prs_no_panic|].
  split; [vm_compute; split; discriminate|]. vm_compute. split; reflexivity.
Qed.

(* inside auto-detection (bufio: the failed Peek consumes nothing; plain: the detection window is consumed), and at
   f = length of the stream: the last unit, which the fault-free run delivers at end of stream, is not delivered *)
Example C18_demux_example_detect :
  ex18_run Bufio 0 (Some 100) [CallPacket; CallData; CallPacket] = [7; 7; 7] /\
  ex18_run Plain 0 (Some 300) [CallPacket; CallData; CallPacket] = [7; 7; 7] /\
  ex18_run Seekable 0 (Some 193) [CallPacket; CallPacket; CallData] = [100; 7; 7] /\
  ex18_run Seekable 0 (Some 1128) [CallData; CallData; CallData; CallData; CallData; CallData] = [201; 202; 201; 202; 7; 7] /\
  ex18_run Seekable 0 None [CallData; CallData; CallData; CallData; CallData; CallData; CallData] = [201; 202; 201; 202; 201; 202; 1].
Proof. vm_compute. repeat split. Qed.

(* ======================= the writer, at the level of Muxer calls (Proofs/FaultMux.v) =======================
   mux_run_faulty s ops k (Model/MuxFaults.v) = what is observed of the history ops from state s when the io.Writer
   fails on its k-th Write (0-based, counted over the whole history): one entry (error class, returned count, bytes
   accepted) per call up to and including the call during which the failure happens.  The same function is run
   against the implementation by the correspondence check.  A writer that fails only once is covered as far as the
   property goes (the call during which it failed); the Muxer's state after a failed Write is not modelled. *)

(* every entry before the last is the fault-free run's entry of that call (error class, count, bytes) *)
Theorem C18_mux_fault_before : forall ops s k i, (S i < length (mux_run_faulty s ops k))%nat ->
  nth_error (mux_run_faulty s ops k) i = nth_error (mux_run_entries s ops) i.
Proof. exact mux_fault_before. Qed.
Print Assumptions C18_mux_fault_before.

(* when the history has a k-th Write, the observation ends with the call i during which it happens; that call returns
   the injected error (not nil), reports a count 0 <= n <= number of bytes the writer accepted during the call, and
   those bytes are a prefix of what the same call writes in the fault-free run — for every state (period, streams,
   counters), every history (WriteTables / WriteData / WritePacket / Add / Remove / SetPCRPID) and every k *)
Theorem C18_mux_fault_call : forall ops s k, 0 <= k < mux_writes s ops ->
  exists i n acc,
    length (mux_run_faulty s ops k) = S i /\ (i < length ops)%nat /\
    mux_writes s (firstn i ops) <= k < mux_writes s (firstn (S i) ops) /\
    nth_error (mux_run_faulty s ops k) i = Some (E_injected, n, acc) /\
    E_injected <> mres_code (Ok tt) /\
    0 <= n <= Z.of_nat (length acc) /\
    exists code n0 bytes rest, nth_error (mux_run_entries s ops) i = Some (code, n0, bytes) /\ bytes = acc ++ rest.
Proof. exact mux_fault_call. Qed.
Print Assumptions C18_mux_fault_call.

(* fewer than k+1 Writes in the whole history: the observation is the fault-free one *)
Theorem C18_mux_no_fault : forall ops s k, mux_writes s ops <= k -> mux_run_faulty s ops k = mux_run_entries s ops.
Proof. exact mux_no_fault. Qed.
Print Assumptions C18_mux_no_fault.

(* the fault-free observation is the run of Model/Muxer.v (the subject of C04 / C05 / C17), and the groups a call
   accounts for — Muxer.WritePacket counts sync byte, header, adaptation field, payload and each stuffing byte
   separately — hold exactly the Write calls of that model, in order *)
Theorem C18_mux_entries_run : forall ops s, mux_run_entries s ops = map entry_of_call (snd (mux_run s ops)).
Proof. exact mux_run_entries_run. Qed.
Print Assumptions C18_mux_entries_run.

Theorem C18_mux_regroup : forall s o, let out := snd (mux_step s o) in
  concat (groups_of_call o out) = concat (mo_groups out).
Proof. exact groups_of_call_regroup. Qed.
Print Assumptions C18_mux_regroup.

(* the fault strikes mid-way: the example history of C04/C05/C17 (two streams, period 2) makes 805 Write calls; when
   the 31st fails, the fourth call (a WriteData that emits PAT, PMT and three packets, 940 bytes) returns the injected
   error with count 752 after the writer accepted 770 bytes *)
Example C18_mux_example :
  mux_writes (new_muxer 2) ex_ops = 805 /\
  map (fun e : fentry => let '(c, n, bs) := e in (c, n, Z.of_nat (length bs))) (mux_run_faulty (new_muxer 2) ex_ops 30) =
    [(-1, 0, 0); (-1, 0, 0); (-1, 0, 0); (E_injected, 752, 770)] /\
  nth_error (map (fun e : fentry => let '(c, n, bs) := e in (c, n, Z.of_nat (length bs))) (mux_run_entries (new_muxer 2) ex_ops)) 3 =
    Some (-1, 940, 940).
Proof. vm_compute. repeat split. Qed.
