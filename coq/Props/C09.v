(* Property C09 — tables delivered only with a valid CRC_32; muxed sections carry one.
   Statements only; proofs are in Proofs/PsiProofs.v and Proofs/PsiDeps.v.  parse_psi_data, psi_to_data and
   enc_psi_data are the model of data_psi.go (Model/Psi.v, run against the implementation on every check);
   PSITableID_hasCRC32, computeCRC32 and updateCRC32 are re-translated from the source on every run;
   crc32_mpeg2 is the bitwise reference of Spec/CrcSpec.v (C10 proves the translated code equal to it). *)
From Coq Require Import ZArith List.
Require Import Base.Bits Base.Iter Base.Wr Gen.Consts Gen.Types Gen.Preds Model.Packet Model.Desc Model.Psi.
Require Import Spec.CrcSpec Spec.DescSpec Spec.PsiSpec Proofs.PsiProofs Proofs.PsiDeps Proofs.PsiDescLink.
Import ListNotations.
Open Scope Z_scope.

(* C09_gate: for every payload unit bs (any bytes) that parsePSIData accepts, every section in the result whose
   table id carries a CRC_32 and that has a syntax part (i.e. content) lies at some offset a of bs, starts with
   its table_id byte there, and the bitwise CRC-32/MPEG-2 of the bytes from the table_id up to the CRC_32 field
   equals the big-endian value of the CRC_32 field.  No bound on the unit, the number of sections or their size. *)
Theorem C09_gate : forall bs d s h, bytes_ok bs ->
  parse_psi_data_bytes bs = Ok d -> In s (PSIData_Sections d) ->
  PSISection_Header s = Some h -> PSITableID_hasCRC32 (PSISectionHeader_TableID h) = true ->
  PSISection_Syntax s <> None ->
  exists a, let e := a + 3 + PSISectionHeader_SectionLength h - 4 in
    0 <= a /\ a <= e /\ e + 4 <= Z.of_nat (length bs) /\ nth (Z.to_nat a) bs 0 = PSISectionHeader_TableID h /\
    crc32_mpeg2 (slice bs a e) = Iter.be32 (slice bs e (e + 4)) /\
    PSISection_CRC32 s = crc32_mpeg2 (slice bs a e).
Proof. exact gate_spec. Qed.
Print Assumptions C09_gate.

(* C09_delivered_implies_crc: whatever PSIData.toData hands to the demuxer (a PAT, PMT, NIT, SDT, EIT or TOT)
   comes from a section of the unit that satisfies the statement above: a table is delivered only if the
   CRC_32 in its section is correct for the section bytes. *)
Theorem C09_delivered_implies_crc : forall bs d fp pid dd, bytes_ok bs ->
  parse_psi_data_bytes bs = Ok d -> In dd (psi_to_data d fp pid) ->
  exists s h a, In s (PSIData_Sections d) /\ In dd (section_to_data s fp pid) /\ PSISection_Header s = Some h /\
    let e := a + 3 + PSISectionHeader_SectionLength h - 4 in
    0 <= a /\ a <= e /\ e + 4 <= Z.of_nat (length bs) /\ nth (Z.to_nat a) bs 0 = PSISectionHeader_TableID h /\
    crc32_mpeg2 (slice bs a e) = Iter.be32 (slice bs e (e + 4)).
Proof. exact delivered_implies_crc. Qed.
Print Assumptions C09_delivered_implies_crc.

(* the six decoded table types are exactly covered: their table ids all carry a CRC_32 according to the
   (regenerated) predicate of the source *)
Theorem C09_decoded_tables_have_crc : forall tid,
  (is_nit_id tid || (tid =? C_PSITableIDPAT) || (tid =? C_PSITableIDPMT) || is_sdt_id tid
   || (tid =? C_PSITableIDTOT) || is_eit_id tid)%bool = true ->
  PSITableID_hasCRC32 tid = true.
Proof. exact decoded_has_crc. Qed.
Print Assumptions C09_decoded_tables_have_crc.

(* C09_mux_pat: every PAT section writePSISection emits (any flags, identifiers, version, section numbers; 0..253
   programs = the 1021-byte limit; Header.SectionLength non-zero as the muxer sets it for a non-empty PAT) is
   pre ++ be32 (CRC-32/MPEG-2 of pre) -- so the reference decoder's gate accepts it --, starts with table_id 0, and
   its 12-bit section_length field equals the number of bytes written after the field.  By induction over the
   program list; no premise about other models. *)
Theorem C09_mux_pat : forall c h sh d pat,
  PSISectionHeader_TableID h = 0 -> PSISectionHeader_SectionLength h > 0 ->
  PSISectionSyntaxData_PAT d = Some pat -> (length (PATData_Programs pat) <= 253)%nat ->
  exists its pre, enc_psi_section (mk_section c h sh d) = Ok its /\
    bytes_of_items its = pre ++ CrcSpec.be32 (crc32_mpeg2 pre) /\
    spec_crc_ok (bytes_of_items its) /\
    (3 <= length pre)%nat /\ nth 0 pre 0 = 0 /\
    bitsf (firstn 3 pre) 12 12 = Z.of_nat (length (bytes_of_items its)) - 3.
Proof. exact mux_pat. Qed.
Print Assumptions C09_mux_pat.

(* C09_mux_pmt_rel: the same for every PMT section the writer accepts, RELATIVE to the descriptor length statement of
   C14, which enters as an explicit premise (desc_ok is C14's domain of descriptor lists): what
   writeDescriptorsWithLength emits for a list in that domain is whole bytes, 2 + calcDescriptorsLength of them.
   pmt_body_len is the unwrapped sum the length calculator computes; the premise `+ 9 <= 4095` is the 12-bit
   section_length (the standard's limit is 1021). *)
Theorem C09_mux_pmt_rel : forall (desc_ok : list Descriptor -> Prop),
  (forall ds its, desc_ok ds -> Desc.enc_descriptors_with_length ds = Ok its ->
     items_bytes_ok its /\ 0 <= Desc.calc_descriptors_length ds /\
     length (items_bits its) = (8 * Z.to_nat (2 + Desc.calc_descriptors_length ds))%nat) ->
  (forall ds, 0 <= Desc.calc_descriptors_length ds) ->
  forall c h sh d pmt its,
  PSISectionHeader_TableID h = 2 -> PSISectionHeader_SectionLength h > 0 ->
  PSISectionSyntaxData_PMT d = Some pmt ->
  desc_ok (PMTData_ProgramDescriptors pmt) ->
  Forall (fun es => desc_ok (PMTElementaryStream_ElementaryStreamDescriptors es)) (PMTData_ElementaryStreams pmt) ->
  pmt_body_len pmt + 9 <= 4095 ->
  enc_psi_section (mk_section c h sh d) = Ok its ->
  exists pre, bytes_of_items its = pre ++ CrcSpec.be32 (crc32_mpeg2 pre) /\
    spec_crc_ok (bytes_of_items its) /\
    (3 <= length pre)%nat /\ nth 0 pre 0 = 2 /\
    bitsf (firstn 3 pre) 12 12 = Z.of_nat (length (bytes_of_items its)) - 3.
Proof. exact mux_pmt. Qed.
Print Assumptions C09_mux_pmt_rel.

(* C09_mux_pmt: the premise discharged with C14's lemmas (Proofs/DescProofs.v): for every PMT whose descriptor
   loops are in C14's domain desc_dom -- no descriptor body above 255 bytes, loop below 4096 bytes, the descriptor
   writer succeeds and its byte strings hold bytes -- and whose section fits the 12-bit length, whatever
   writePSISection emits ends with the CRC-32/MPEG-2 of everything before it and carries a section_length equal to
   the bytes after the field.  Any number of streams and descriptors of all 23 typed kinds, unknown and
   user-defined tags. *)
Theorem C09_mux_pmt : forall c h sh d pmt its,
  PSISectionHeader_TableID h = 2 -> PSISectionHeader_SectionLength h > 0 ->
  PSISectionSyntaxData_PMT d = Some pmt ->
  desc_dom (PMTData_ProgramDescriptors pmt) ->
  Forall (fun es => desc_dom (PMTElementaryStream_ElementaryStreamDescriptors es)) (PMTData_ElementaryStreams pmt) ->
  pmt_body_len pmt + 9 <= 4095 ->
  enc_psi_section (mk_section c h sh d) = Ok its ->
  exists pre, bytes_of_items its = pre ++ CrcSpec.be32 (crc32_mpeg2 pre) /\
    spec_crc_ok (bytes_of_items its) /\
    (3 <= length pre)%nat /\ nth 0 pre 0 = 2 /\
    bitsf (firstn 3 pre) 12 12 = Z.of_nat (length (bytes_of_items its)) - 3.
Proof. exact mux_pmt_closed. Qed.
Print Assumptions C09_mux_pmt.

(* non-vacuity: a PAT with two programs is written, parsed back and delivered; a single flipped bit in
   the program loop makes parsePSIData fail *)
Definition C09_example_pat : PSIData :=
  {| PSIData_PointerField := 0;
     PSIData_Sections := [ {| PSISection_CRC32 := 0;
        PSISection_Header := Some {| PSISectionHeader_PrivateBit := false; PSISectionHeader_SectionLength := 8;
                                     PSISectionHeader_SectionSyntaxIndicator := true; PSISectionHeader_TableID := 0;
                                     PSISectionHeader_TableType := [] |};
        PSISection_Syntax := Some {|
          PSISectionSyntax_Data := Some (syntax_data None None
             (Some {| PATData_Programs := [ {| PATProgram_ProgramMapID := 4096; PATProgram_ProgramNumber := 1 |};
                                            {| PATProgram_ProgramMapID := 8191; PATProgram_ProgramNumber := 65535 |} ];
                      PATData_TransportStreamID := 7 |}) None None None);
          PSISectionSyntax_Header := Some {| PSISectionSyntaxHeader_CurrentNextIndicator := true;
                                             PSISectionSyntaxHeader_LastSectionNumber := 0;
                                             PSISectionSyntaxHeader_SectionNumber := 0;
                                             PSISectionSyntaxHeader_TableIDExtension := 7;
                                             PSISectionSyntaxHeader_VersionNumber := 21 |} |} |} ] |}.

Example C09_gate_example :
  match write_psi_data C09_example_pat with
  | Ok bs =>
      andb match parse_psi_data_bytes bs with
      | Ok d => (length (psi_to_data d zero_Packet 0) =? 1)%nat
      | _ => false
      end
      match parse_psi_data_bytes (firstn 10 bs ++ [Z.lxor (nth 10 bs 0) 4] ++ skipn 11 bs) with
         | Err _ => true
         | _ => false
         end
  | _ => false
  end = true.
Proof. vm_compute. reflexivity. Qed.

(* non-vacuity of C09_mux_pmt: a PMT with a registration descriptor (typed), an unknown and a user-defined one is
   in the domain, the writer accepts it, and the demuxer model delivers it back *)
Definition C09_example_descs : list Descriptor :=
  [ set_Unknown (desc_hdr 3 0) {| DescriptorUnknown_Content := [1; 2; 3]; DescriptorUnknown_Tag := 3 |};
    set_StreamIdentifier (desc_hdr 82 0) {| DescriptorStreamIdentifier_ComponentTag := 7 |} ].
Example C09_example_desc_dom : desc_dom C09_example_descs.
Proof.
  unfold desc_dom. split; [repeat constructor|]. split; [reflexivity|].
  eexists. split; [vm_compute; reflexivity|]. repeat constructor; cbv; intuition discriminate.
Qed.

(* ---- the gate above is the source ----
   parse_psi_data and what it is made of -- the section loop (`for i.HasBytesLeft() && !stop`, fuel = input length + 1),
   parse_psi_section with the CRC gate (Seek to the CRC_32 field, parseCRC32, Seek back to the table id, computeCRC32 over
   [table_id, CRC_32), the comparison, the final Seek to the end of the section), the section header with its four
   offsets, the syntax header and the dispatch on the table id -- are equal, as computations in the iterator monad and on
   every iterator whose bytes are in 0..255, to the definitions that go/gen (psigen.go) translates from the CURRENT source
   of parsePSIData / parsePSISection / parseCRC32 / parsePSISectionHeader / parsePSISectionSyntaxHeader /
   parsePSISectionSyntax into Gen/PsiGen.v (its Section Variables parseDescriptors, parseDVBTime, parseDVBDurationSeconds
   instantiated with the models' functions).  An edit of one of these Go functions -- the gate made conditional on
   section_syntax_indicator, skipped for a zero CRC field, a changed offset -- regenerates Gen/PsiGen.v and this
   theorem (Proofs/PsiGenEq.v) stops checking. *)
Require Import Model.Dvb Gen.PsiGen Proofs.ParseGenBits Proofs.PsiGenSim Proofs.PsiGenEq.
Theorem C09_gate_is_source :
  same_on_bytes parse_crc32 PsiGen.parseCRC32 /\
  same_on_bytes parse_psi_section_header (ibind PsiGen.parsePSISectionHeader (fun y => iret (hdr_pack y))) /\
  same_on_bytes parse_psi_section_syntax_header PsiGen.parsePSISectionSyntaxHeader /\
  (forall h e, same_on_bytes (parse_psi_section_syntax h e)
                 (PsiGen.parsePSISectionSyntax parse_dvb_duration_seconds parse_dvb_time parse_descriptors (Some h) e)) /\
  same_on_bytes parse_psi_section (PsiGen.parsePSISection parse_dvb_duration_seconds parse_dvb_time parse_descriptors) /\
  same_on_bytes parse_psi_data (PsiGen.parsePSIData parse_dvb_duration_seconds parse_dvb_time parse_descriptors) /\
  (forall bs, bytes_ok bs ->
     parse_psi_data_bytes bs = run_iter (PsiGen.parsePSIData parse_dvb_duration_seconds parse_dvb_time parse_descriptors) bs).
Proof. exact psi_gate_is_source. Qed.
Print Assumptions C09_gate_is_source.
(* the translated parsePSIData runs: it accepts the written example PAT and rejects it with one bit flipped *)
Example C09_gate_is_source_inhabited :
  match write_psi_data C09_example_pat with
  | Ok bs =>
      andb (bytes_okb bs)
      (andb match run_iter (PsiGen.parsePSIData parse_dvb_duration_seconds parse_dvb_time parse_descriptors) bs with
            | Ok d => (length (psi_to_data d zero_Packet 0) =? 1)%nat
            | _ => false
            end
            match run_iter (PsiGen.parsePSIData parse_dvb_duration_seconds parse_dvb_time parse_descriptors)
                           (firstn 10 bs ++ [Z.lxor (nth 10 bs 0) 4] ++ skipn 11 bs) with
            | Err _ => true
            | _ => false
            end)
  | _ => false
  end = true.
Proof. vm_compute. reflexivity. Qed.

(* the descriptor loops the sections that pass the gate are decoded with parse_descriptors: it and 21 of its 23 body parsers are the source as well.
   The statement is Proofs/PsiGenDesc2.descriptor_parsers_tie, spelled out as C14_loop_is_source in Props/C14.v. *)
Require Import Proofs.PsiGenDesc2.
Theorem C09_descriptors_are_source : descriptor_parsers_tie.
Proof. exact descriptor_loop_is_source. Qed.
Print Assumptions C09_descriptors_are_source.

(* ---- the writers of the muxed sections are the source ----
   C09_mux_pat / C09_mux_pmt speak about enc_psi_section / write_psi_data of Model/Psi.v. Those are, for every argument, what
   go/gen (psiwritegen.go) translates from the CURRENT source of writePSISection / writePSIData (and, below them, of
   writePSISectionSyntax, the PAT / PMT writers, calcPSISectionLength and the whole descriptor writer of descriptor.go) into
   Gen/PsiWriteGen.v: the same items handed to the BitsWriter in the same order (up to the bits a w-bit write ignores), the
   returned count, the error class, a panic where the model panics (wfn_sim, Proofs/PsiWriteGenBase.v). In particular the
   CRC_32 item: the Go code accumulates it in a write callback registered in front of the table_id write; the translation
   keeps the items handed over since the registration in a ghost variable and reads the accumulator as updateCRC32 folded
   over their bytes - registering the callback one write later, or feeding it one byte less, changes Gen/PsiWriteGen.v and
   this theorem (Proofs/PsiWriteGenPsi.v) stops checking. *)
Require Import Gen.MuxGen Gen.WriteGen Gen.PsiWriteGen Proofs.WriteGenBase Proofs.PsiWriteGenBase Proofs.PsiWriteGenPsi
  Proofs.PsiWriteGenAll.
Theorem C09_writers_are_source :
  (forall s, gcalcPSISectionLength s = ([], res_opt (calc_psi_section_length_res s))) /\
  (forall s, wfn_sim (gwritePSISection s) (enc_psi_section s) (section_written s)) /\
  (forall d, wfn_sim (gwritePSIData d) (enc_psi_data d) (psi_written d)) /\
  (forall d, match write_psi_data d with
             | Ok bs => exists l, gwritePSIData d = (l, Some (psi_written d, ENil)) /\
                                  bytes_of_items (map snd l) = bs /\ nd l = true
             | Err c => exists l a e, gwritePSIData d = (l, Some (a, e)) /\ werr e = Some c
             | Panic => exists l, gwritePSIData d = (l, None)
             end).
Proof.
  exact (conj (proj1 (proj2 psi_writers_are_source))
        (conj (proj1 (proj2 (proj2 (proj2 (proj2 (proj2 (proj2 (proj2 psi_writers_are_source))))))))
        (conj (proj2 (proj2 (proj2 (proj2 (proj2 (proj2 (proj2 (proj2 psi_writers_are_source))))))))
              psi_writer_is_source))).
Qed.
Print Assumptions C09_writers_are_source.
(* the translated writePSIData runs: a PMT with two descriptors; 30 bytes, the model's; the CRC residue over the section is 0 *)
Example C09_writers_are_source_inhabited :
  snd (gwritePSIData ex_psi) = Some (30, ENil) /\
  Ok (bytes_of_items (map snd (fst (gwritePSIData ex_psi)))) = write_psi_data ex_psi /\
  length (bytes_of_items (map snd (fst (gwritePSIData ex_psi)))) = 30%nat /\
  computeCRC32 (firstn 29 (skipn 1 (bytes_of_items (map snd (fst (gwritePSIData ex_psi)))))) = 0.
Proof. exact psi_writer_runs. Qed.
