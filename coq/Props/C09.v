(* Property C09 — tables delivered only with a valid CRC_32; muxed sections carry one (theorems only; proofs in Proofs/). *)
From Coq Require Import ZArith List.
Require Import Base.Bits Base.Iter Base.Wr Gen.Types Model.Psi.
Import ListNotations.
Open Scope Z_scope.
