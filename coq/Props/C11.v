(* Property C11 — TS packet header and adaptation field per ISO 13818-1 (theorems only; proofs in Proofs/). *)
From Coq Require Import ZArith List.
Require Import Base.Bits Base.Iter Base.Wr Gen.Types Model.Clock Model.Packet Proofs.ClockProofs.
Import ListNotations.
Open Scope Z_scope.

(* PCR / OPCR: base(33) reserved(6) extension(9), all 2^33 x 2^9 values *)
Theorem C11_pcr_roundtrip : forall base ext rest, 0 <= base < 2 ^ 33 -> 0 <= ext < 2 ^ 9 ->
  parse_pcr (new_iter (bytes_of_items (enc_pcr (mk_cr base ext)) ++ rest)) =
  Ok (mk_cr base ext, mk_iter (bytes_of_items (enc_pcr (mk_cr base ext)) ++ rest) 6).
Proof. exact pcr_roundtrip. Qed.
Print Assumptions C11_pcr_roundtrip.

(* seamless-splice DTS_next_AU: splice_type(4) + 3/1/15/1/15/1, all 2^33 values *)
Theorem C11_dts_roundtrip : forall flag base rest, 0 <= base < 2 ^ 33 ->
  parse_pts_or_dts (new_iter (bytes_of_items (enc_pts_or_dts flag (mk_cr base 0)) ++ rest)) =
  Ok (mk_cr base 0, mk_iter (bytes_of_items (enc_pts_or_dts flag (mk_cr base 0)) ++ rest) 5).
Proof. exact pts_roundtrip. Qed.
Print Assumptions C11_dts_roundtrip.
