(* Property C11 — TS packet header and adaptation field per ISO 13818-1 (theorems only; proofs in Proofs/). *)
From Coq Require Import ZArith List.
Require Import Base.Bits Base.Iter Base.Wr Gen.Types Model.Clock Model.Packet Spec.PesSpec Spec.PacketSpec
  Proofs.ClockProofs Proofs.PacketProofs Proofs.PacketWrite Proofs.PacketRoundTrip Proofs.PacketExamples.
Import ListNotations.
Open Scope Z_scope.

(* PCR / OPCR: base(33) reserved(6) extension(9), all 2^33 x 2^9 values *)
Theorem C11_pcr_roundtrip : forall base ext rest, 0 <= base < 2 ^ 33 -> 0 <= ext < 2 ^ 9 ->
  parse_pcr (new_iter (bytes_of_items (enc_pcr (mk_cr base ext)) ++ rest)) =
  Ok (mk_cr base ext, mk_iter (bytes_of_items (enc_pcr (mk_cr base ext)) ++ rest) 6).
Proof. exact pcr_roundtrip. Qed.
Print Assumptions C11_pcr_roundtrip.

(* seamless-splice DTS_next_AU: splice_type(4) + 3/1/15/1/15/1, all 2^33 values *)
Theorem C11_dts_roundtrip : forall flag base rest, 0 <= base < 2 ^ 33 ->
  parse_pts_or_dts (new_iter (bytes_of_items (enc_pts_or_dts flag (mk_cr base 0)) ++ rest)) =
  Ok (mk_cr base 0, mk_iter (bytes_of_items (enc_pts_or_dts flag (mk_cr base 0)) ++ rest) 5).
Proof. exact pts_roundtrip. Qed.
Print Assumptions C11_dts_roundtrip.

(* the 4-byte packet header behind the sync byte: all 2^13 PIDs, 16 counters, 4 scrambling values,
   every combination of the five flag bits *)
Theorem C11_header_roundtrip : forall h rest, wf_packet_header h ->
  parse_packet_header (new_iter (bytes_of_items (enc_packet_header h) ++ rest)) =
  Ok (h, mk_iter (bytes_of_items (enc_packet_header h) ++ rest) 3).
Proof. exact header_roundtrip. Qed.
Print Assumptions C11_header_roundtrip.
Example C11_header_roundtrip_inhabited : wf_packet_header ex_header.
Proof. exact ex_header_wf. Qed.

(* whatever writePacket accepts comes out as exactly 188 bytes, sync byte first *)
Theorem C11_write_188 : forall p bs, write_packet p 188 = Ok bs ->
  length bs = 188%nat /\ exists rest, bs = 71 :: rest.
Proof. exact write_packet_188. Qed.
Print Assumptions C11_write_188.
Example C11_write_188_inhabited : exists bs, write_packet ex_packet 188 = Ok bs.
Proof. eexists. vm_compute. reflexivity. Qed.

(* parsing what the writer emits for any conformant packet (every subset of the 5 optional parts and the 3
   extension parts, adaptation_field_length 0..183, any field values within their widths, any stuffing length,
   payload filling the rest) yields that packet, with the derived length fields filled in *)
Theorem C11_parse_write : forall p, wf_packet p ->
  exists bs, write_packet p 188 = Ok bs /\ length bs = 188%nat /\ parse_packet_bytes bs = Ok (observed p).
Proof. exact parse_write_packet. Qed.
Print Assumptions C11_parse_write.
Example C11_parse_write_inhabited : wf_packet ex_packet.
Proof. exact ex_packet_wf. Qed.
