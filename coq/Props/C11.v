(* Property C11 — TS packet header and adaptation field per ISO 13818-1 (theorems only; proofs in Proofs/). *)
From Coq Require Import ZArith List Lia.
Require Import Base.Bits Base.Iter Base.Wr Gen.Types Model.Clock Model.Packet Spec.PesSpec Spec.PacketSpec
  Proofs.ClockProofs Proofs.PacketProofs Proofs.PacketWrite Proofs.PacketRoundTrip Proofs.PacketRef Proofs.PacketExamples.
Import ListNotations.
Open Scope Z_scope.

(* PCR / OPCR: base(33) reserved(6) extension(9), all 2^33 x 2^9 values *)
Theorem C11_pcr_roundtrip : forall base ext rest, 0 <= base < 2 ^ 33 -> 0 <= ext < 2 ^ 9 ->
  parse_pcr (new_iter (bytes_of_items (enc_pcr (mk_cr base ext)) ++ rest)) =
  Ok (mk_cr base ext, mk_iter (bytes_of_items (enc_pcr (mk_cr base ext)) ++ rest) 6).
Proof. exact pcr_roundtrip. Qed.
Print Assumptions C11_pcr_roundtrip.

(* seamless-splice DTS_next_AU: splice_type(4) + 3/1/15/1/15/1, all 2^33 values *)
Theorem C11_dts_roundtrip : forall flag base rest, 0 <= base < 2 ^ 33 ->
  parse_pts_or_dts (new_iter (bytes_of_items (enc_pts_or_dts flag (mk_cr base 0)) ++ rest)) =
  Ok (mk_cr base 0, mk_iter (bytes_of_items (enc_pts_or_dts flag (mk_cr base 0)) ++ rest) 5).
Proof. exact pts_roundtrip. Qed.
Print Assumptions C11_dts_roundtrip.

(* the 4-byte packet header behind the sync byte: all 2^13 PIDs, 16 counters, 4 scrambling values,
   every combination of the five flag bits *)
Theorem C11_header_roundtrip : forall h rest, wf_packet_header h ->
  parse_packet_header (new_iter (bytes_of_items (enc_packet_header h) ++ rest)) =
  Ok (h, mk_iter (bytes_of_items (enc_packet_header h) ++ rest) 3).
Proof. exact header_roundtrip. Qed.
Print Assumptions C11_header_roundtrip.
Example C11_header_roundtrip_inhabited : wf_packet_header ex_header.
Proof. exact ex_header_wf. Qed.

(* whatever writePacket accepts comes out as exactly 188 bytes, sync byte first *)
Theorem C11_write_188 : forall p bs, write_packet p 188 = Ok bs ->
  length bs = 188%nat /\ exists rest, bs = 71 :: rest.
Proof. exact write_packet_188. Qed.
Print Assumptions C11_write_188.
Example C11_write_188_inhabited : exists bs, write_packet ex_packet 188 = Ok bs.
Proof. eexists. vm_compute. reflexivity. Qed.

(* parsing what the writer emits for any conformant packet (every subset of the 5 optional parts and the 3
   extension parts, adaptation_field_length 0..183, any field values within their widths, any stuffing length,
   payload filling the rest) yields that packet, with the derived length fields filled in *)
Theorem C11_parse_write : forall p, wf_packet p ->
  exists bs, write_packet p 188 = Ok bs /\ length bs = 188%nat /\ parse_packet_bytes bs = Ok (observed p).
Proof. exact parse_write_packet. Qed.
Print Assumptions C11_parse_write.
Example C11_parse_write_inhabited : wf_packet ex_packet.
Proof. exact ex_packet_wf. Qed.

(* writing any conformant packet yields its ISO 13818-1 reference encoding (Spec/PacketSpec.v: the field list of
   Tables 2-2 and 2-6, reserved bits 1, stuffing 0xFF), which is exactly 188 bytes *)
Theorem C11_write_ref : forall p, wf_packet p -> write_packet p 188 = Ok (ref_packet_bytes p).
Proof. exact write_ref_packet. Qed.
Print Assumptions C11_write_ref.
Example C11_write_ref_inhabited : wf_packet ex_packet /\ length (ref_packet_bytes ex_packet) = 188%nat.
Proof. split; [exact ex_packet_wf | vm_compute; reflexivity]. Qed.

(* the bit string the writer produces is the bit string of the reference field list, field for field *)
Theorem C11_write_ref_bits : forall p, wf_packet p -> items_bits (packet_items p) = fbits (ref_packet_fields p).
Proof. exact packet_bits. Qed.
Print Assumptions C11_write_ref_bits.

(* parsing the reference encoding of any conformant packet yields that packet *)
Theorem C11_parse_ref : forall p, wf_packet p -> parse_packet_bytes (ref_packet_bytes p) = Ok (observed p).
Proof. exact parse_ref_packet. Qed.
Print Assumptions C11_parse_ref.

(* ... whatever the values of the adaptation field stuffing bytes (the reference layout with arbitrary stuffing) *)
Theorem C11_parse_ref_any_stuffing : forall p sb, wf_packet p -> Z.of_nat (length sb) = stuffing_of p -> bytes_ok sb ->
  parse_packet_bytes (ref_packet_bytes_stuffed p sb) = Ok (observed p).
Proof. exact parse_ref_any_stuffing. Qed.
Print Assumptions C11_parse_ref_any_stuffing.
Example C11_parse_ref_any_stuffing_inhabited :
  wf_packet ex_packet /\ Z.of_nat (length [0; 1; 254]) = stuffing_of ex_packet /\ bytes_ok [0; 1; 254] /\
  ref_packet_bytes_stuffed ex_packet [0; 1; 254] <> ref_packet_bytes ex_packet.
Proof.
  split; [exact ex_packet_wf|]. split; [reflexivity|]. split; [repeat constructor; unfold byte_ok; lia|].
  intros H. vm_compute in H. discriminate.
Qed.

(* a packet obtained from a conformant 188-byte buffer is re-emitted byte for byte *)
Theorem C11_reemit : forall bs p, conformant bs -> parse_packet_bytes bs = Ok p -> write_packet p 188 = Ok bs.
Proof. exact reemit_packet. Qed.
Print Assumptions C11_reemit.
Example C11_reemit_inhabited : conformant (ref_packet_bytes ex_packet) /\
  exists p, parse_packet_bytes (ref_packet_bytes ex_packet) = Ok p.
Proof.
  split; [exists ex_packet; split; [exact ex_packet_wf | reflexivity]|].
  eexists. vm_compute. reflexivity.
Qed.

(* finding K1: outside [conformant] — an adaptation field extension with trailing reserved bytes — re-emission changes
   the extension length byte (the reserved bytes come back as adaptation field stuffing) *)
Theorem C11_reemit_ext_refuted :
  length k1_bytes = 188%nat /\
  exists p, parse_packet_bytes k1_bytes = Ok p /\ write_packet p 188 = Ok k1_reemitted /\
            k1_reemitted <> k1_bytes /\
            firstn 6 k1_reemitted = firstn 6 k1_bytes /\ skipn 7 k1_reemitted = skipn 7 k1_bytes.
Proof. exact k1_reemit_differs. Qed.
Print Assumptions C11_reemit_ext_refuted.

(* ---- the parsers above are the source ----
   Every parser of packet.go that the theorems of this file mention (parse_pcr, parse_pts_or_dts, parse_packet_header,
   parse_packet_adaptation_field, parse_packet / parse_packet_bytes) is equal, as a computation in the iterator monad and
   on every iterator whose bytes are in 0..255, to the definition that go/gen (itermonad.go) translates from the CURRENT
   source of parsePCR / parsePTSOrDTS / parsePacketHeader / parsePacketAdaptationField / parsePacket into Gen/ParseGen.v.
   An edit of one of these Go functions regenerates Gen/ParseGen.v and this theorem (Proofs/ParseGenEq.v) stops checking. *)
Require Import Gen.ParseGen Proofs.ParseGenBits Proofs.ParseGenEq.
Theorem C11_parsers_are_source :
  same_on_bytes parse_pcr ParseGen.parsePCR /\
  same_on_bytes parse_pts_or_dts ParseGen.parsePTSOrDTS /\
  same_on_bytes parse_packet_header ParseGen.parsePacketHeader /\
  same_on_bytes parse_packet_adaptation_field ParseGen.parsePacketAdaptationField /\
  (forall skip, same_on_bytes (parse_packet skip) (ParseGen.parsePacket (Some skip))) /\
  same_on_bytes (parse_packet no_skip) (ParseGen.parsePacket None) /\
  (forall bs, bytes_ok bs -> parse_packet_bytes bs = run_iter (ParseGen.parsePacket None) bs).
Proof. exact packet_parsers_are_source. Qed.
Print Assumptions C11_parsers_are_source.
(* the translated parsePacket runs: it parses the reference encoding of the example packet *)
Example C11_parsers_are_source_inhabited :
  bytes_ok (ref_packet_bytes ex_packet) /\
  exists p, run_iter (ParseGen.parsePacket None) (ref_packet_bytes ex_packet) = Ok p /\ parse_packet_bytes (ref_packet_bytes ex_packet) = Ok p.
Proof.
  split.
  - apply bytes_okb_ok. vm_compute. reflexivity.
  - eexists. split; vm_compute; reflexivity.
Qed.

(* ---- the writers above are the source ----
   Every writer of packet.go that the theorems of this file mention (enc_pcr, enc_pts_or_dts, enc_packet_header,
   enc_af_extension, enc_adaptation_field, enc_packet / write_packet) is, for every argument, what go/gen (writegen.go)
   translates from the CURRENT source of writePCR / writePTSOrDTS / writePacketHeader / writePacketAdaptationFieldExtension /
   writePacketAdaptationField / writePacket into Gen/WriteGen.v (wf_sim, Proofs/WriteGenBase.v): the same items handed to
   the BitsWriter in the same order (equal up to the bits a w-bit write ignores, hence the same bytes and the same
   io.Writer calls), none through a w.Write whose result is discarded, the same returned count, the same error class,
   a panic exactly where the model panics.  An edit of one of these Go functions regenerates Gen/WriteGen.v and this
   theorem (Proofs/WriteGenEq.v) stops checking. *)
Require Import Gen.Consts Gen.MuxGen Gen.WriteGen Proofs.WriteGenBase Proofs.WriteGenEq.
Theorem C11_writers_are_source :
  (forall cr, wf_sim (WriteGen.writePCR cr) (Ok (enc_pcr cr, C_pcrBytesSize))) /\
  (forall flag cr, wf_sim (WriteGen.writePTSOrDTS flag cr) (Ok (enc_pts_or_dts flag cr, C_ptsOrDTSByteLength))) /\
  (forall h, wf_sim (WriteGen.writePacketHeader h) (Ok (enc_packet_header h, C_mpegTsPacketHeaderSize))) /\
  (forall afe, wf_sim (WriteGen.writePacketAdaptationFieldExtension afe) (enc_af_extension afe)) /\
  (forall af, wf_sim (WriteGen.writePacketAdaptationField af) (enc_adaptation_field af)) /\
  (forall p target, wf_sim (WriteGen.writePacket p target) (enc_packet_n p target)).
Proof. exact packet_writers_are_source. Qed.
Print Assumptions C11_writers_are_source.
Theorem C11_write_packet_is_source : forall p target bs, write_packet p target = Ok bs ->
  exists l, WriteGen.writePacket p target = (l, Some (target, ENil)) /\
            bytes_of_items (map snd l) = bs /\
            (forall items, enc_packet p target = Ok items -> chunks_of (map snd l) = chunks_of items) /\
            nd l = true.
Proof. exact write_packet_is_source. Qed.
Print Assumptions C11_write_packet_is_source.
(* the translated writePacket runs: on the example packet it returns 188 and nil and hands over the model's bytes *)
Example C11_writers_are_source_inhabited :
  exists l bs, WriteGen.writePacket ex_packet 188 = (l, Some (188, ENil)) /\
               write_packet ex_packet 188 = Ok bs /\ bytes_of_items (map snd l) = bs /\ length bs = 188%nat.
Proof. do 2 eexists. repeat split; vm_compute; reflexivity. Qed.
