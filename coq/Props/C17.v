(* Property C17 — tables first, every period, at random access points, always current (theorems only; proofs in
   Proofs/MuxerProofs.v).  Vocabulary in Spec/MuxSpec.v; hypotheses as for C05 (no call panicked, S1). *)
From Coq Require Import ZArith List Sorted Bool.
Require Import Base.Iter Gen.Consts Gen.Types Gen.Preds Model.Psi Model.Muxer Spec.MuxSpec Proofs.MuxerProofs Proofs.MuxerExamples.
Import ListNotations.
Open Scope Z_scope.

(* automatically assigned PIDs over a run with at most 0x1EFE AddElementaryStream calls (fewer than 0x1EFF): each lies in
   [startPID, 0x1FFE] and is not pmtStartPID, and they increase strictly, so they are pairwise distinct *)
Theorem C17_auto_pid : forall period ops, adds ops <= max_adds ->
  no_panic (snd (mux_run_parts (new_muxer period) ops)) -> Forall op_entry_ok ops ->
  Forall auto_pid_ok (auto_pids (new_muxer period) ops) /\ StronglySorted Z.lt (auto_pids (new_muxer period) ops).
Proof. exact auto_pid_sorted. Qed.
Print Assumptions C17_auto_pid.

(* ... and the PID an automatic addition assigns is not in use at that moment (neither in the PMT nor as a context) *)
Theorem C17_auto_pid_fresh : forall period ops es s' p,
  let s := fst (mux_run_parts (new_muxer period) ops) in
  adds ops + 1 <= max_adds -> no_panic (snd (mux_run_parts (new_muxer period) ops)) -> Forall op_entry_ok ops ->
  PMTElementaryStream_ElementaryPID es = 0 -> mux_step_part s (MAdd es) = (s', p) -> pa_res p = Ok tt ->
  exists pid, ms_streams s' = ms_streams s ++ [with_pid es pid] /\ auto_pid_ok pid /\
              stream_pid_in pid (ms_streams s) = false /\ es_mem pid (ms_es s) = false.
Proof. exact auto_pid_fresh. Qed.
Print Assumptions C17_auto_pid_fresh.

Example C17_auto_pid_example :
  adds ex_ops <= max_adds /\ auto_pids (new_muxer 2) ex_ops = [256] /\
  auto_pids (new_muxer 2) [MAdd (ex_es 256); MAdd (ex_es 4095); MAdd (ex_es 0); MAdd (ex_es 0); MRemove 257; MAdd (ex_es 0)] = [257; 258; 259].
Proof. vm_compute. repeat split; discriminate. Qed.

(* PMT version: between two consecutive emissions it steps by one modulo 32 iff a stream was added or removed or the
   PCR PID was set in between; the PAT version never changes after the first emission.  [emissions] lists, per call
   whose packets start with PAT;PMT, (content changed since the previous emission, PAT version, PMT version). *)
Theorem C17_version : forall period ops,
  no_panic (snd (mux_run_parts (new_muxer period) ops)) -> Forall op_entry_ok ops ->
  version_rule (emissions (new_muxer period) ops false).
Proof. exact version_rule_thm. Qed.
Print Assumptions C17_version.

(* a WriteData on an added PID emits the tables first iff the retransmit counter + 1 reaches the period or the unit is a
   random access point on the PCR PID; the counter restarts at 0 only after a successful automatic emission; when the
   tables are due and cannot be generated the call fails without emitting anything *)
Theorem C17_period : forall period ops d s' p,
  let s := fst (mux_run_parts (new_muxer period) ops) in
  no_panic (snd (mux_run_parts (new_muxer period) ops)) -> Forall op_entry_ok ops -> op_entry_ok (MWriteData d) ->
  mux_step_part s (MWriteData d) = (s', p) -> pa_res p <> Panic -> es_mem (MuxerData_PID d) (ms_es s) = true ->
  let due := data_forced s d || (ms_period s <=? ms_retransmit s + 1) in
  ms_period s' = ms_period s /\
  (due = false -> starts_with_tables (pa_pkts p) = false /\ ms_retransmit s' = ms_retransmit s + 1) /\
  (due = true -> (starts_with_tables (pa_pkts p) = true /\ ms_retransmit s' = 0) \/
                 ((exists c, pa_res p = Err c) /\ pa_pkts p = [] /\ ms_retransmit s' = ms_retransmit s + 1)).
Proof. exact period_rule. Qed.
Print Assumptions C17_period.

(* the counter starts at the period (tables at the first WriteData) and no other call moves it: it counts the WriteData
   calls on added PIDs since the last automatic emission *)
Theorem C17_period_counter : forall period ops o s' p,
  let s := fst (mux_run_parts (new_muxer period) ops) in
  no_panic (snd (mux_run_parts (new_muxer period) ops)) -> Forall op_entry_ok ops -> op_entry_ok o ->
  mux_step_part s o = (s', p) -> pa_res p <> Panic ->
  ms_period s' = ms_period s /\
  match o with
  | MWriteData d => es_mem (MuxerData_PID d) (ms_es s) = false -> ms_retransmit s' = ms_retransmit s
  | _ => ms_retransmit s' = ms_retransmit s
  end.
Proof. exact period_counter. Qed.
Print Assumptions C17_period_counter.

(* the first call that emits anything of the Muxer's own making starts with PAT;PMT: no PES packet before the tables *)
Theorem C17_first : forall period ops,
  no_panic (snd (mux_run_parts (new_muxer period) ops)) -> Forall op_entry_ok ops ->
  tables_first (combine ops (snd (mux_run_parts (new_muxer period) ops))).
Proof. exact tables_first_thm. Qed.
Print Assumptions C17_first.

(* content: whenever a call's packets start with the tables, the PAT packet carries the encoding of
   {programNumberStart -> pmtStartPID} ([pat_section], built from the generated constants) and the PMT packet the
   encoding of exactly the streams and PCR PID of the state the call started from, with the versions VerifState
   reports afterwards; the PCR PID is one of the streams *)
Theorem C17_content : forall period ops o s' p,
  let s := fst (mux_run_parts (new_muxer period) ops) in
  no_panic (snd (mux_run_parts (new_muxer period) ops)) -> Forall op_entry_ok ops -> op_entry_ok o ->
  mux_step_part s o = (s', p) -> pa_res p <> Panic -> starts_with_tables (muxer_pkts o p) = true ->
  exists ppay mpay rest,
    muxer_pkts o p = table_packet C_PIDPAT (wrappingCounter_inc (ms_pat_cc s)) ppay ::
                     table_packet C_pmtStartPID (wrappingCounter_inc (ms_pmt_cc s)) mpay :: rest /\
    write_psi_data (psi_of_section (pat_section (wrappingCounter_value (ms_pat_version s')))) = Ok ppay /\
    write_psi_data (pmt_psi (ms_streams s) (ms_pcr_pid s) (wrappingCounter_value (ms_pmt_version s'))) = Ok mpay /\
    stream_pid_in (ms_pcr_pid s) (ms_streams s) = true.
Proof. exact emission_content. Qed.
Print Assumptions C17_content.

Example C17_example :
  emissions (new_muxer 2) ex_ops false = [(true, 0, 0); (false, 0, 0); (true, 0, 1); (true, 0, 2)] /\
  tables_first (combine ex_ops (snd ex_run)) /\
  map (fun p => starts_with_tables (pa_pkts p)) (snd ex_run) =
    [false; false; false; true; false; true; false; false; false; true; false; false; false; false; true].
Proof. vm_compute. repeat split. Qed.

(* ---- the configuration and scheduling functions of the theorems above ARE the source ----
   Gen/MuxGen.v is translated from the current /repo/muxer.go on every run (go/gen/muxgen*.go): NewMuxer with its
   options, AddElementaryStream, SetPCRPID, retransmitTables and WriteData up to its packetisation loop, statement
   by statement. new_muxer / add_es / set_pcr / retransmit_tables / write_data, about which every theorem of this
   file speaks, are those regenerated functions (maps instantiated with the model's association lists, the byte
   producers with the models of writePSIData / writePacket, the io.Writer with the list of Write calls). A change
   to the body of one of these functions therefore breaks these proofs — no generated history has to reach it:
   a retransmit counter initialised before the options ran, a version counter with another mask, the PMT-PID test
   hoisted out of the PID search loop, another retransmission condition. *)
Require Import Gen.MuxGen Model.Desc Proofs.MuxGenEq.

(* NewMuxer: every field of the fresh Muxer, for any list of options (the period of the last one, else 40);
   tablesRetransmitCounter is read after the options ran; the version counters wrap at 31, the others at 15 *)
Theorem C17_config_is_source : forall (W : Type) (w : W) opts,
  NewMuxer [] [] [] gpm_set w opts = new_view w (new_muxer (opts_period opts 40)).
Proof. exact new_muxer_is_generated. Qed.
Print Assumptions C17_config_is_source.

(* AddElementaryStream, automatic PID search included (fuel = the model's: out of fuel = the model's Panic) *)
Theorem C17_add_is_source : forall s es pb,
  add_es s es = add_of_gen s (Muxer_AddElementaryStream ge_get ge_set gr_del gr_get (S (S (length (ms_es s))))
                                (pmt_of s) (ms_pmt_updated s) (ms_next_pid s) pb (ms_es s) (ms_removed s) es).
Proof. exact add_es_of_generated. Qed.
Print Assumptions C17_add_is_source.

Theorem C17_set_pcr_is_source : forall s pid,
  set_pcr s pid =
  let '(pmt, upd) := Muxer_SetPCRPID (pmt_of s) (ms_pmt_updated s) pid in
  cfg_state s pmt upd (ms_next_pid s) (ms_es s) (ms_removed s).
Proof. exact set_pcr_of_generated. Qed.
Print Assumptions C17_set_pcr_is_source.

(* retransmitTables: counter, period, force, reset only after a successful WriteTables *)
Theorem C17_schedule_is_source : forall s force pb mb buf, pa_res (snd (retransmit_tables s force)) <> Panic ->
  let '(w, pmu, pmtu, patv, pmtv, patcc, pmtcc, _, _, _, cnt, n, e) :=
    Muxer_retransmitTables calc_descriptor_length calc_pmt_section_length g_write to_pat g_wpsi g_wpkt
      (@nil (list Z)) C_MpegTsPacketSize (ms_period s) mux_pm (ms_pm_updated s) (pmt_of s) (ms_pmt_updated s)
      (ms_pat_version s) (ms_pmt_version s) (ms_pat_cc s) (ms_pmt_cc s) pb mb buf (ms_retransmit s) force in
  fst (retransmit_tables s force) = set_retransmit (set_tables s patv pmtv patcc pmtcc pmu pmtu) cnt /\
  mout_of_part (snd (retransmit_tables s force)) = mk_mout (terr_res e) n (groups_of w).
Proof. exact retransmit_of_generated. Qed.
Print Assumptions C17_schedule_is_source.

(* WriteData in front of its loop: PID lookup, forceTables (random access indicator on the PCR PID), the call of
   retransmitTables and its error path; the loop itself is the model's (wd_rest) *)
Theorem C17_data_tables_is_source : forall s d pb mb buf,
  pa_res (snd (retransmit_tables s (af_rai (MuxerData_AdaptationField d) && (MuxerData_PID d =? ms_pcr_pid s)))) <> Panic ->
  (fst (write_data s d), mout_of_part (snd (write_data s d))) =
  Muxer_WriteData_until_loop calc_descriptor_length calc_pmt_section_length g_write ge_get to_pat g_wpsi g_wpkt
    (wd_ret s) (wd_rest_gen s)
    (@nil (list Z)) C_MpegTsPacketSize (ms_period s) mux_pm (ms_pm_updated s) (pmt_of s) (ms_pmt_updated s)
    (ms_pat_version s) (ms_pmt_version s) (ms_pat_cc s) (ms_pmt_cc s) pb mb buf (ms_es s) (ms_retransmit s) d.
Proof. exact write_data_of_generated. Qed.
Print Assumptions C17_data_tables_is_source.

(* ---- the table payload is the source ----
   C17_content says the PMT payload is write_psi_data of the current stream list; Gen/MuxGen.v's generatePAT / generatePMT
   take writePSIData, calcPMTSectionLength and calcDescriptorLength as parameters, instantiated above with g_wpsi (=
   write_psi_data appended to m.buf), calc_pmt_section_length and calc_descriptor_length. Those three are the functions
   go/gen (psiwritegen.go) regenerates from the CURRENT source of data_psi.go / data_pmt.go / descriptor.go: the bytes of
   the items the regenerated writePSIData hands to the BitsWriter are write_psi_data's, its error class and panics are the
   model's (the count it returns is ignored by generatePAT / generatePMT), and the two length calculators are pointwise
   the regenerated ones (Proofs/PsiWriteGenAll.v). *)
Require Import Base.Wr Gen.WriteGen Gen.PsiWriteGen Proofs.WriteGenBase Proofs.PsiWriteGenBase Proofs.PsiWriteGenPsi
  Proofs.PsiWriteGenAll.
Theorem C17_psi_writer_is_source :
  (forall d, match write_psi_data d with
             | Ok bs => exists l, gwritePSIData d = (l, Some (psi_written d, ENil)) /\
                                  bytes_of_items (map snd l) = bs /\ nd l = true
             | Err c => exists l a e, gwritePSIData d = (l, Some (a, e)) /\ werr e = Some c
             | Panic => exists l, gwritePSIData d = (l, None)
             end) /\
  (forall d, gcalcPMTSectionLength d = calc_pmt_section_length d) /\
  (forall d, gcalcDescriptorLength d = calc_descriptor_length d).
Proof. exact (conj psi_writer_is_source mux_calc_parameters_are_source). Qed.
Print Assumptions C17_psi_writer_is_source.
(* the translated writePSIData runs on a PMT with two descriptors: 30 bytes, write_psi_data's *)
Example C17_psi_writer_is_source_inhabited :
  snd (gwritePSIData ex_psi) = Some (30, ENil) /\
  Ok (bytes_of_items (map snd (fst (gwritePSIData ex_psi)))) = write_psi_data ex_psi.
Proof. split; [exact (proj1 psi_writer_runs) | exact (proj1 (proj2 psi_writer_runs))]. Qed.

(* the same, at the level of Gen/MuxGen.v: generatePAT / generatePMT with their parameters writePSIData,
   calcPMTSectionLength and calcDescriptorLength instantiated by the REGENERATED functions (src_wpsi = the regenerated
   writePSIData through m.bufWriter: bytes of its items appended to m.buf, the count - ignored - their number, the buffer
   left alone on an error) are, for every state, the generatePAT / generatePMT the theorems above speak about: between the
   table generation of muxer.go and the bytes of the PAT / PMT payload nothing hand-written is left but
   calcDescriptorUserDefinedLength / calcDescriptorExtensionLength and the float expressions of dvb.go. *)
Require Import Proofs.PsiWriteGenMux.
Theorem C17_tables_are_source :
  (forall buf d, src_wpsi buf d = g_wpsi buf d) /\
  (forall ps pm upd ver cc pb buf,
     Muxer_generatePAT to_pat src_wpsi g_wpkt ps pm upd ver cc pb buf =
     Muxer_generatePAT to_pat g_wpsi g_wpkt ps pm upd ver cc pb buf) /\
  (forall ps pmt upd ver cc mb buf,
     Muxer_generatePMT gcalcDescriptorLength gcalcPMTSectionLength src_wpsi g_wpkt ps pmt upd ver cc mb buf =
     Muxer_generatePMT calc_descriptor_length calc_pmt_section_length g_wpsi g_wpkt ps pmt upd ver cc mb buf).
Proof. exact mux_tables_are_source. Qed.
Print Assumptions C17_tables_are_source.

(* program_map.go is regenerated too (Gen/RestGen.v, go/gen/restgen.go).  NewMuxer instantiated with the REGENERATED
   newProgramMap / setUnlocked (the map[uint32]uint16 as the association list gpm of Proofs/MuxGenEq.v) builds every field
   as the model's initial state does, with m.pm = {p := [(pmtStartPID, programNumberStart)]}; the regenerated
   toPATDataUnlocked in list order is to_pat on every map whose keys are PIDs; and in WHATEVER order the runtime enumerates
   the map (any permutation), the PAT of a Muxer's one-entry map is pat_data and generatePAT reading the map through the
   regenerated function is the generatePAT of the theorems above. *)
Require Import Gen.RestGen Proofs.RestGenPm Proofs.RestGenPmMux Coq.Sorting.Permutation.
Theorem C17_program_map_is_source :
  (forall (W : Type) (w : W) opts,
     NewMuxer [] [] (newProgramMap lm_make) (programMap_setUnlocked lm_set) w opts =
     new_view_pm w (new_muxer (opts_period opts 40))) /\
  (forall pm, Forall (fun e => 0 <= fst e < 65536) pm ->
     programMap_toPATDataUnlocked lm_range (mk_programMap pm) = to_pat pm) /\
  (forall rng, (forall m, Permutation (rng m) m) ->
     programMap_toPATDataUnlocked rng (mk_programMap mux_pm) = pat_data /\
     forall wpsi wpkt ps u v cc pb buf,
       Muxer_generatePAT (programMap_toPATDataUnlocked rng) wpsi wpkt ps (mk_programMap mux_pm) u v cc pb buf =
       Muxer_generatePAT to_pat wpsi wpkt ps mux_pm u v cc pb buf).
Proof. exact program_map_mux_is_generated. Qed.
Print Assumptions C17_program_map_is_source.
Example C17_program_map_is_source_inhabited :
  programMap_toPATDataUnlocked lm_range (programMap_setUnlocked lm_set (newProgramMap lm_make) C_pmtStartPID C_programNumberStart)
  = pat_data.
Proof. exact program_map_mux_example. Qed.
