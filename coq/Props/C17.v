(* Property C17 (theorems only; proofs in Proofs/MuxerProofs.v). *)
