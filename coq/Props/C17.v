(* Property C17 — tables first, every period, at random access points, always current (theorems only; proofs in
   Proofs/MuxerProofs.v).  Vocabulary in Spec/MuxSpec.v; hypotheses as for C05 (no call panicked, S1). *)
From Coq Require Import ZArith List Sorted.
Require Import Base.Iter Gen.Consts Gen.Types Model.Muxer Spec.MuxSpec Proofs.MuxerProofs Proofs.MuxerExamples.
Import ListNotations.
Open Scope Z_scope.

(* automatically assigned PIDs over a run with at most 0x1EFE AddElementaryStream calls (fewer than 0x1EFF): each lies in
   [startPID, 0x1FFE] and is not pmtStartPID, and they increase strictly, so they are pairwise distinct *)
Theorem C17_auto_pid : forall period ops, adds ops <= max_adds ->
  no_panic (snd (mux_run_parts (new_muxer period) ops)) -> Forall op_entry_ok ops ->
  Forall auto_pid_ok (auto_pids (new_muxer period) ops) /\ StronglySorted Z.lt (auto_pids (new_muxer period) ops).
Proof. exact auto_pid_sorted. Qed.
Print Assumptions C17_auto_pid.

(* ... and the PID an automatic addition assigns is not in use at that moment (neither in the PMT nor as a context) *)
Theorem C17_auto_pid_fresh : forall period ops es s' p,
  let s := fst (mux_run_parts (new_muxer period) ops) in
  adds ops + 1 <= max_adds -> no_panic (snd (mux_run_parts (new_muxer period) ops)) -> Forall op_entry_ok ops ->
  PMTElementaryStream_ElementaryPID es = 0 -> mux_step_part s (MAdd es) = (s', p) -> pa_res p = Ok tt ->
  exists pid, ms_streams s' = ms_streams s ++ [with_pid es pid] /\ auto_pid_ok pid /\
              stream_pid_in pid (ms_streams s) = false /\ es_mem pid (ms_es s) = false.
Proof. exact auto_pid_fresh. Qed.
Print Assumptions C17_auto_pid_fresh.

Example C17_auto_pid_example :
  adds ex_ops <= max_adds /\ auto_pids (new_muxer 2) ex_ops = [256] /\
  auto_pids (new_muxer 2) [MAdd (ex_es 256); MAdd (ex_es 4095); MAdd (ex_es 0); MAdd (ex_es 0); MRemove 257; MAdd (ex_es 0)] = [257; 258; 259].
Proof. vm_compute. repeat split; discriminate. Qed.
