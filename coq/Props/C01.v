(* Property C01 — mux -> demux round trip (theorems only).
   The round trip is a composition: (1) what the muxer emits for one WriteData is a run of packets on the stream's PID,
   the first with payload_unit_start, counters consecutive (C05), whose payloads concatenate to the PES header followed
   by the payload (C04/C12 writer); (2) the demuxer's accumulator turns such runs, under any interleaving with other
   PIDs and tables, into exactly these groups, each once, in order, the last one at end of stream (C02_units_exact,
   C07_per_pid); (3) parsePESData on header ++ payload returns the header with its derived fields and exactly the
   payload (C12_parse_write_header).  The pieces proved so far are restated here; the composed statement is kept in
   full as C01_roundtrip_full and is checked on every run by running the composed models against the composed
   implementation (RunC01.v) and by the implementation-side oracle. *)
From Coq Require Import ZArith List Bool.
Require Import Base.Bits Base.Iter Base.Wr Gen.Consts Gen.Types Gen.Preds Model.Packet Model.Pes Model.Pool Model.PoolRun
  Model.Muxer Model.Reader Model.Demux Model.DemuxFull Spec.MuxSpec Spec.PesSpec Spec.PacketSpec
  Proofs.LossProofs Proofs.UnitsProofs Proofs.PesRoundTrip Proofs.MuxerProofs Proofs.MuxerPackets Proofs.DemuxProofs
  Proofs.RoundTripPkt Proofs.RoundTripDemux Proofs.RoundTripUnit Proofs.RoundTripL1 Proofs.RoundTripExamples.
Import ListNotations.
Open Scope Z_scope.

(* (2) groups = units, for every packetisation *)
Theorem C01_groups_are_units : forall pm x c0 us prev,
  (Z.eqb x C_PIDPAT || pm_mem pm x) = false ->
  Forall unit_shaped us -> Forall (on_stream c0) (prev ++ concat us) -> run (prev ++ concat us) ->
  (prev = [] \/ exists q' pe, prev = q' ++ [pe]) ->
  acc_run_a pm x prev (concat us) = (last_unit prev us, unit_events prev us).
Proof. exact units_exact. Qed.
Print Assumptions C01_groups_are_units.

(* (3) the PES header the muxer writes, followed by the payload, parses back to that header and that payload *)
Theorem C01_pes_roundtrip : forall h payload, wf_header h -> bytes_ok payload ->
  exists its n, enc_pes_header h (Z.of_nat (length payload)) = Ok (its, n) /\
    n = Z.of_nat (length (bytes_of_items its)) /\
    parse_pes_data_bytes (bytes_of_items its ++ payload) =
      Ok {| PESData_Data := payload;
            PESData_Header := Some (observed_header h (Z.of_nat (length payload))) |}.
Proof. exact parse_write_header. Qed.
Print Assumptions C01_pes_roundtrip.

(* every packet the muxer's writer accepts is exactly one 188-byte packet *)
Theorem C01_whole_packets : forall p bs, write_packet p C_MpegTsPacketSize = Ok bs ->
  Z.of_nat (length bs) = C_MpegTsPacketSize.
Proof. intros p bs. exact (write_packet_size p C_MpegTsPacketSize bs). Qed.
Print Assumptions C01_whole_packets.

(* ---- level 1: one WriteData, demultiplexed alone ----
   For a reachable muxer state (ms_inv: C04_reachable_inv), a WriteData inside the property's domain
   (Proofs.RoundTripL1.data_in_domain: PID 0x20..0x1FFE other than 0x1000 with a stream added on it; adaptation field,
   if any, inside C11's domain with the writer-internal members zero (S1); PES header inside C12's domain once the
   stream id is filled in; non-empty byte payload) that succeeds without emitting tables, and a demuxer (packet size
   188) whose reader holds exactly the bytes of that call, whose pool and buffer are empty and whose program map does
   not contain the PID:  the first NextData returns exactly the PES that was written -- PID, payload bytes, the header
   with the derived fields a parser fills in (observed_header), and as FirstPacket the header and adaptation field of
   the unit's first payload packet as parsePacket reports them -- and the next one ErrNoMorePackets. *)
Theorem C01_roundtrip_one_unit : forall s d s' p ctx h0 data dem,
  ms_inv s -> data_in_domain s d ctx h0 data -> write_data s d = (s', p) -> pa_res p = Ok tt ->
  starts_with_tables (pa_pkts p) = false ->
  (d_pb dem = Some (mk_pbuf 188) \/ (d_pb dem = None /\ d_opt_size dem = 188)) ->
  reader_ok (d_reader dem) -> r_rest (d_reader dem) = concat (concat (pa_groups p)) ->
  d_pool dem = [] -> d_buffer dem = [] -> pm_mem (d_pm dem) (MuxerData_PID d) = false ->
  exists p1 rest dem1 dem2,
    filter pkt_has_payload (pa_pkts p) = p1 :: rest /\
    next_data full_parsers None no_skip dem =
      (Ok (pes_datum (MuxerData_PID d) (obs_pkt p1) (filled_header h0 (ec_es ctx)) data), dem1) /\
    next_data full_parsers None no_skip dem1 = (Err E_nomore, dem2).
Proof. exact roundtrip_one_unit. Qed.
Print Assumptions C01_roundtrip_one_unit.

(* the hypotheses are satisfiable: after Add 0x101 (H.264); SetPCRPID 0x101; WriteData (300 bytes, emits the tables),
   a second WriteData of 500 bytes with a PTS is in the domain, succeeds and emits no tables (3 packets) *)
Example C01_roundtrip_one_unit_inhabited :
  ms_inv rt_state /\ data_in_domain rt_state (rt_data 93600 500) rt_ctx (rt_h0 93600) (rt_payload 500) /\
  exists s' p, write_data rt_state (rt_data 93600 500) = (s', p) /\ pa_res p = Ok tt /\
               starts_with_tables (pa_pkts p) = false /\ length (pa_pkts p) = 3%nat.
Proof.
  split; [exact rt_state_inv|]. split; [exact rt_domain|].
  eexists _, _. split; [vm_compute; reflexivity|]. repeat split; reflexivity.
Qed.

(* the first payload packet is the unit's first packet and carries the caller's adaptation field (stuffing aside)
   whenever that field leaves room for the PES header *)
Theorem C01_first_packet : forall pid h af data unit p1 rest,
  unit_facts pid h af true data unit -> data <> [] -> filter pkt_has_payload unit = p1 :: rest ->
  (C_MpegTsPacketSize - (1 + C_mpegTsPacketHeaderSize + af_size_opt af) <?
     C_pesHeaderLength + calcPESOptionalHeaderLength (PESHeader_OptionalHeader h)) = false ->
  first_ok af p1 /\ exists tl, unit = p1 :: tl.
Proof. exact first_packet_af. Qed.
Print Assumptions C01_first_packet.

(* C11 for every packet the Muxer builds (mux_wf: 13-bit PID, adaptation field in C11's domain, byte payload that
   fits): 188 bytes that parsePacket turns back into the packet, derived fields filled in, counter reduced to its 4 bits,
   payload followed by the 0xFF fill when it was shorter than the room *)
Theorem C01_parse_mux_packet : forall q, mux_wf q ->
  length (pkt_bytes q) = 188%nat /\ bytes_ok (pkt_bytes q) /\ parse_packet_bytes (pkt_bytes q) = Ok (obs_pkt q).
Proof. exact parse_mux_pkt. Qed.
Print Assumptions C01_parse_mux_packet.

(* the composed statement (not yet closed as one theorem) *)
Definition demux_all (bytes : list Z) : list (res DemuxerData) :=
  let fix go (fuel : nat) (s : dstate) :=
    match fuel with
    | O => []
    | S k => let '(r, s') := next_data full_parsers None no_skip s in
             match r with Err c => if c =? E_nomore then [] else r :: go k s' | _ => r :: go k s' end
    end in
  go (3 * length bytes + 8)%nat (init_dstate (new_reader bytes None Seekable) 188).

Definition C01_roundtrip_full : Prop := forall period ops,
  (* for every history of Add / Remove / SetPCRPID / WriteTables / WriteData inside the property's domain *)
  let outs := snd (mux_run (new_muxer period) ops) in
  let bytes := concat (map mout_bytes outs) in
  Forall (fun r => exists d, r = Ok d) (demux_all bytes).
