(* Property C01 — mux -> demux round trip (theorems only; proofs in Proofs/RoundTrip*.v).
   The round trip is a composition: (1) what the muxer emits for one WriteData is a run of packets on the stream's PID,
   the first payload packet with payload_unit_start, counters consecutive (C05), whose payloads concatenate to the PES
   header followed by the payload (C04_unit / C12 writer), preceded by the PAT;PMT pair when it is due (C17);
   (2) every packet the muxer builds is 188 bytes that parsePacket turns back into the packet (C11_parse_write), and the
   packet buffer hands them over one by one (C19_reader_refinement); (3) the demuxer's accumulator flushes a table
   packet at once and a unit when the next unit of its PID starts or at end of stream (the accumulator lemmas of
   C02 / C06); (4) parsePESData on header ++ payload returns the header with its derived fields and exactly the payload
   (C12_parse_write_header), parsePSIData on the table payloads returns the PAT and the PMT (C13).
   The pieces come first (C01_groups_are_units, C01_pes_roundtrip, C01_whole_packets), then one WriteData demultiplexed
   alone (C01_roundtrip_one_unit), then whole histories (C01_roundtrip and its corollaries).  The composed models are
   also run against the composed implementation on every check (Extract/RunC01.v) and an implementation-side oracle
   checks the round trip against what was written. *)
From Coq Require Import ZArith List Bool.
Require Import Base.Bits Base.Iter Base.Wr Gen.Consts Gen.Types Gen.Preds Model.Packet Model.Pes Model.Pool Model.PoolRun
  Model.Muxer Model.Reader Model.Demux Model.DemuxFull Spec.MuxSpec Spec.PesSpec Spec.PacketSpec
  Proofs.LossProofs Proofs.UnitsProofs Proofs.PesRoundTrip Proofs.MuxerProofs Proofs.MuxerPackets Proofs.DemuxProofs
  Proofs.PsiSiLink Proofs.PsiDescLink Proofs.RoundTripPkt Proofs.RoundTripDemux Proofs.RoundTripUnit Proofs.RoundTripL1
  Proofs.PsiUserDesc Proofs.RoundTripTables Proofs.RoundTripMux Proofs.RoundTripRun Proofs.RoundTripDesc Proofs.RoundTripExamples.
Import ListNotations.
Open Scope Z_scope.

(* (2) groups = units, for every packetisation *)
Theorem C01_groups_are_units : forall pm x c0 us prev,
  (Z.eqb x C_PIDPAT || pm_mem pm x) = false ->
  Forall unit_shaped us -> Forall (on_stream c0) (prev ++ concat us) -> run (prev ++ concat us) ->
  (prev = [] \/ exists q' pe, prev = q' ++ [pe]) ->
  acc_run_a pm x prev (concat us) = (last_unit prev us, unit_events prev us).
Proof. exact units_exact. Qed.
Print Assumptions C01_groups_are_units.

(* (3) the PES header the muxer writes, followed by the payload, parses back to that header and that payload *)
Theorem C01_pes_roundtrip : forall h payload, wf_header h -> bytes_ok payload ->
  exists its n, enc_pes_header h (Z.of_nat (length payload)) = Ok (its, n) /\
    n = Z.of_nat (length (bytes_of_items its)) /\
    parse_pes_data_bytes (bytes_of_items its ++ payload) =
      Ok {| PESData_Data := payload;
            PESData_Header := Some (observed_header h (Z.of_nat (length payload))) |}.
Proof. exact parse_write_header. Qed.
Print Assumptions C01_pes_roundtrip.

(* every packet the muxer's writer accepts is exactly one 188-byte packet *)
Theorem C01_whole_packets : forall p bs, write_packet p C_MpegTsPacketSize = Ok bs ->
  Z.of_nat (length bs) = C_MpegTsPacketSize.
Proof. intros p bs. exact (write_packet_size p C_MpegTsPacketSize bs). Qed.
Print Assumptions C01_whole_packets.

(* ---- level 1: one WriteData, demultiplexed alone ----
   For a reachable muxer state (ms_inv: C04_reachable_inv), a WriteData inside the property's domain
   (Proofs.RoundTripL1.data_in_domain: PID 0x20..0x1FFE other than 0x1000 with a stream added on it; adaptation field,
   if any, inside C11's domain with the writer-internal members zero (S1); PES header inside C12's domain once the
   stream id is filled in; non-empty byte payload) that succeeds without emitting tables, and a demuxer (packet size
   188) whose reader holds exactly the bytes of that call, whose pool and buffer are empty and whose program map does
   not contain the PID:  the first NextData returns exactly the PES that was written -- PID, payload bytes, the header
   with the derived fields a parser fills in (observed_header), and as FirstPacket the header and adaptation field of
   the unit's first payload packet as parsePacket reports them -- and the next one ErrNoMorePackets. *)
Theorem C01_roundtrip_one_unit : forall s d s' p ctx h0 data dem,
  ms_inv s -> data_in_domain s d ctx h0 data -> write_data s d = (s', p) -> pa_res p = Ok tt ->
  starts_with_tables (pa_pkts p) = false ->
  (d_pb dem = Some (mk_pbuf 188) \/ (d_pb dem = None /\ d_opt_size dem = 188)) ->
  reader_ok (d_reader dem) -> r_rest (d_reader dem) = concat (concat (pa_groups p)) ->
  d_pool dem = [] -> d_buffer dem = [] -> pm_mem (d_pm dem) (MuxerData_PID d) = false ->
  exists p1 rest dem1 dem2,
    filter pkt_has_payload (pa_pkts p) = p1 :: rest /\
    next_data full_parsers None no_skip dem =
      (Ok (pes_datum (MuxerData_PID d) (obs_pkt p1) (filled_header h0 (ec_es ctx)) data), dem1) /\
    next_data full_parsers None no_skip dem1 = (Err E_nomore, dem2).
Proof. exact roundtrip_one_unit. Qed.
Print Assumptions C01_roundtrip_one_unit.

(* the hypotheses are satisfiable: after Add 0x101 (H.264); SetPCRPID 0x101; WriteData (300 bytes, emits the tables),
   a second WriteData of 500 bytes with a PTS is in the domain, succeeds and emits no tables (3 packets) *)
Example C01_roundtrip_one_unit_inhabited :
  ms_inv rt_state /\ data_in_domain rt_state (rt_data 93600 500) rt_ctx (rt_h0 93600) (rt_payload 500) /\
  exists s' p, write_data rt_state (rt_data 93600 500) = (s', p) /\ pa_res p = Ok tt /\
               starts_with_tables (pa_pkts p) = false /\ length (pa_pkts p) = 3%nat.
Proof.
  split; [exact rt_state_inv|]. split; [exact rt_domain|].
  eexists _, _. split; [vm_compute; reflexivity|]. repeat split; reflexivity.
Qed.

(* the first payload packet is the unit's first packet and carries the caller's adaptation field (stuffing aside)
   whenever that field leaves room for the PES header *)
Theorem C01_first_packet : forall pid h af data unit p1 rest,
  unit_facts pid h af true data unit -> data <> [] -> filter pkt_has_payload unit = p1 :: rest ->
  (C_MpegTsPacketSize - (1 + C_mpegTsPacketHeaderSize + af_size_opt af) <?
     C_pesHeaderLength + calcPESOptionalHeaderLength (PESHeader_OptionalHeader h)) = false ->
  first_ok af p1 /\ exists tl, unit = p1 :: tl.
Proof. exact first_packet_af. Qed.
Print Assumptions C01_first_packet.

(* C11 for every packet the Muxer builds (mux_wf: 13-bit PID, adaptation field in C11's domain, byte payload that
   fits): 188 bytes that parsePacket turns back into the packet, derived fields filled in, counter reduced to its 4 bits,
   payload followed by the 0xFF fill when it was shorter than the room *)
Theorem C01_parse_mux_packet : forall q, mux_wf q ->
  length (pkt_bytes q) = 188%nat /\ bytes_ok (pkt_bytes q) /\ parse_packet_bytes (pkt_bytes q) = Ok (obs_pkt q).
Proof. exact parse_mux_pkt. Qed.
Print Assumptions C01_parse_mux_packet.

(* ---- the composed round trip over whole histories (levels 2 and 3) ----
   Vocabulary (Proofs/RoundTripRun.v, all executable, nothing refers to how the demuxer computes):
     demux_all bytes      the results of successive NextData calls (packet size 188, no skipper, no packets parser) on
                          a fresh demuxer reading [bytes], up to the first ErrNoMorePackets;
     expect s pend ops    what must come out, call by call:
                            - a call whose packets start with PAT;PMT (WriteTables, or WriteData when the tables are
                              due): the PAT (program 1 -> PID 0x1000) and the PMT listing exactly the streams
                              configured at that moment, in insertion order, with the PCR PID (tables_out);
                            - a successful WriteData on PID x: the PES written by the PREVIOUS WriteData on x, if any
                              (the demuxer delivers a unit when the next one starts) -- payload bytes, header with the
                              derived fields (observed_header: stream id filled in from the stream type, PTS/DTS/ESCR
                              ..., PES_packet_length by the length rule), PID, and FirstPacket = header and
                              adaptation field of the unit's first payload packet as parsePacket reports them
                              (pes_datum; C01_first_packet: that is the caller's adaptation field whenever it leaves
                              room for the PES header);
                            - at end of stream: the last PES of every PID, in increasing PID order;
     history_ok D s ops   the domain: no call panics; no WritePacket (S7); every stream configured is on a PID the
                          demuxer treats as PES (0x20..0x1FFE except 0x1000: S2), has a stream type that fits 8 bits and
                          descriptors in the domain D of the table theorems; a WriteData either succeeds and is in
                          data_in_domain (see C01_roundtrip_one_unit) or fails without emitting anything (unknown PID,
                          tables that cannot be generated).  AddElementaryStream (explicit or automatic PID),
                          RemoveElementaryStream (a PID added again carries on its counter), SetPCRPID, WriteTables in
                          any order and number.
   Statement: every result is Ok, and the data are exactly [expect], in this order -- nothing lost, duplicated,
   reordered or reported as an error.  D is the descriptor domain of C13/C14: any relation between descriptor lists and
   byte strings for which parseDescriptors inverts the loop (desc_premises), the writer emits those bytes (desc_bytes)
   and the Muxer's PMT size check adds up their number. *)
Theorem C01_roundtrip : forall (D : list Descriptor -> list Z -> Prop),
  desc_premises D -> (forall ds bytes, D ds bytes -> desc_bytes ds bytes) -> D [] [] ->
  (forall ds bytes, D ds bytes ->
     fold_left (fun k d => k + (2 + Desc.calc_descriptor_length d)) ds 0 = Z.of_nat (length bytes)) ->
  forall period ops, history_ok D (new_muxer period) ops ->
  demux_all (concat (map mout_bytes (snd (mux_run (new_muxer period) ops)))) =
  map Ok (expect (new_muxer period) [] ops).
Proof. exact roundtrip_history. Qed.
Print Assumptions C01_roundtrip.

(* ... and without any premise for streams that carry no descriptors *)
Theorem C01_roundtrip_nodesc : forall period ops, history_ok no_desc16 (new_muxer period) ops ->
  demux_all (concat (map mout_bytes (snd (mux_run (new_muxer period) ops)))) =
  map Ok (expect (new_muxer period) [] ops).
Proof. exact roundtrip_history_nodesc. Qed.
Print Assumptions C01_roundtrip_nodesc.

(* ... and for streams whose descriptors are user-defined (private: tags 0x80..0xFE, bodies of 0..255 bytes, given with
   Length = body size as a parser returns them) or absent *)
Theorem C01_roundtrip_user_desc : forall period ops, history_ok ud_desc (new_muxer period) ops ->
  demux_all (concat (map mout_bytes (snd (mux_run (new_muxer period) ops)))) =
  map Ok (expect (new_muxer period) [] ops).
Proof. exact roundtrip_history_ud. Qed.
Print Assumptions C01_roundtrip_user_desc.

(* what the PES datum listed by [expect] for a successful WriteData is, in terms of the call's arguments: PID, exactly
   the payload, the header written (stream id filled in) with the derived fields a parser computes, FirstPacket = header
   and adaptation field of the unit's first payload packet, which carries the caller's adaptation field (at most with
   stuffing added) whenever that field leaves room for the PES header *)
Theorem C01_expected_pes : forall s d s' p ctx h0 data,
  ms_inv s -> data_in_domain s d ctx h0 data -> write_data s d = (s', p) -> pa_res p = Ok tt ->
  let x := MuxerData_PID d in
  let h := filled_header h0 (ec_es ctx) in
  exists p1 rest,
    filter (unit_filter x) (pa_pkts p) = p1 :: rest /\
    data_out s d (pa_pkts p) = Some (pes_datum x (obs_pkt p1) h data) /\
    DemuxerData_PID (pes_datum x (obs_pkt p1) h data) = x /\
    DemuxerData_PES (pes_datum x (obs_pkt p1) h data) =
      Some {| PESData_Data := data; PESData_Header := Some (observed_header h (Z.of_nat (length data))) |} /\
    DemuxerData_FirstPacket (pes_datum x (obs_pkt p1) h data) = Some (first_packet_of (obs_pkt p1)) /\
    Packet_AdaptationField (first_packet_of (obs_pkt p1)) = option_map observed_af (Packet_AdaptationField p1) /\
    ((C_MpegTsPacketSize - (1 + C_mpegTsPacketHeaderSize + af_size_opt (MuxerData_AdaptationField d)) <?
        C_pesHeaderLength + calcPESOptionalHeaderLength (PESHeader_OptionalHeader h)) = false ->
     first_ok (MuxerData_AdaptationField d) p1).
Proof. exact data_out_spec. Qed.
Print Assumptions C01_expected_pes.

(* the same read per PID, as the property is worded: every result is Ok, and for every PID other than those of the
   tables the data delivered on it are exactly the PES written on it -- one per successful WriteData, in call order
   (written_on), none lost, duplicated or reordered *)
Theorem C01_roundtrip_per_pid : forall (D : list Descriptor -> list Z -> Prop),
  desc_premises D -> (forall ds bytes, D ds bytes -> desc_bytes ds bytes) -> D [] [] ->
  (forall ds bytes, D ds bytes ->
     fold_left (fun k d => k + (2 + Desc.calc_descriptor_length d)) ds 0 = Z.of_nat (length bytes)) ->
  forall period ops, history_ok D (new_muxer period) ops ->
  exists L, demux_all (concat (map mout_bytes (snd (mux_run (new_muxer period) ops)))) = map Ok L /\
    forall x, x <> C_PIDPAT -> x <> C_pmtStartPID -> filter (on_x x) L = written_on x (new_muxer period) ops.
Proof. exact roundtrip_per_pid. Qed.
Print Assumptions C01_roundtrip_per_pid.

(* the hypotheses are satisfiable: Add 0x101 (H.264); SetPCRPID 0x101; WriteData (PTS, 300 bytes: emits the tables first);
   WriteData (PTS, 500 bytes); WriteTables -- and what must come out is PAT, PMT, the first PES (when the second unit
   starts), PAT, PMT, and the second PES at end of stream *)
Example C01_roundtrip_inhabited :
  history_ok no_desc16 (new_muxer 40) rt_hist /\
  map DemuxerData_PID (expect (new_muxer 40) [] rt_hist) = [0; 4096; 257; 0; 4096; 257] /\
  map (fun d => match DemuxerData_PES d with Some pes => length (PESData_Data pes) | None => O end)
      (expect (new_muxer 40) [] rt_hist) = [0; 0; 300; 0; 0; 500]%nat.
Proof. split; [exact rt_history_ok|exact rt_expect_shape]. Qed.

(* one call: what the demuxer delivers while it consumes the packets of the call, and the invariant that ties the
   Muxer's state and the data still pending to the demuxer's pool and program map (Proofs.RoundTripRun.inv) *)
Theorem C01_step : forall (D : list Descriptor -> list Z -> Prop),
  desc_premises D -> (forall ds bytes, D ds bytes -> desc_bytes ds bytes) -> D [] [] ->
  (forall ds bytes, D ds bytes ->
     fold_left (fun k d => k + (2 + Desc.calc_descriptor_length d)) ds 0 = Z.of_nat (length bytes)) ->
  forall s pend pl pm o s' p,
  inv D s pend pl pm -> mux_step_part s o = (s', p) -> op_ok D s o s' p ->
  exists pl' pm',
    feed full_parsers pl pm (map obs_pkt (pa_pkts p)) = Some (pl', pm', fst (step_out s pend o p)) /\
    inv D s' (snd (step_out s pend o p)) pl' pm' /\
    Forall mux_wf (pa_pkts p) /\
    (length (fst (step_out s pend o p)) + length (snd (step_out s pend o p)) <= length pend + length (pa_pkts p))%nat.
Proof. exact step_feed. Qed.
Print Assumptions C01_step.

(* NextData calls over a reader of 188-byte packets = the pure feed / drain over the parsed packets *)
Theorem C01_calls_are_feed : forall P L s fuel, yields P s L -> (length L < fuel)%nat -> nd_all P fuel s = map Ok L.
Proof. exact nd_all_yields. Qed.
Print Assumptions C01_calls_are_feed.

(* ---- typed descriptors in the PMT: no premise about descriptors left ----
   C01_roundtrip_typed_desc: C01_roundtrip for streams whose descriptor loops hold any mix of the 23 typed DVB / MPEG
   tags, unknown tags and user-defined tags (the 25 classes of C14's typed_rt; zero-item bodies included; each inside the
   domain of its C14 round trip; loop below 4096 bytes), or no descriptors.  typed_desc (Proofs/PsiTypedDesc.v) asks for
   the descriptors in the form parseDescriptors returns them -- Length = body size, only the body of the tag present
   (Forall2 wf_entry ds ds) -- because that is the form in which the PMT listed by [expect] carries them;
   C13_typed_desc_written / C14_parsed_form_is_normal: every list of C14's domain is written as the bytes of that form.
   The four premises of C01_roundtrip are C13_typed_desc_premises (parseDescriptors at the loop's offset inside the
   section: C14_loop_body_at_offset), C13_typed_desc_bytes, the empty loop, and the PMT size equation (from C14_len). *)
Require Import Proofs.DescRoundTripAll Proofs.PsiTypedDesc Proofs.RoundTripTypedDesc.

Theorem C01_roundtrip_typed_desc : forall period ops, history_ok typed_desc (new_muxer period) ops ->
  demux_all (concat (map mout_bytes (snd (mux_run (new_muxer period) ops)))) =
  map Ok (expect (new_muxer period) [] ops).
Proof. exact roundtrip_history_typed. Qed.
Print Assumptions C01_roundtrip_typed_desc.

Theorem C01_roundtrip_per_pid_typed_desc : forall period ops, history_ok typed_desc (new_muxer period) ops ->
  exists L, demux_all (concat (map mout_bytes (snd (mux_run (new_muxer period) ops)))) = map Ok L /\
    forall x, x <> C_PIDPAT -> x <> C_pmtStartPID -> filter (on_x x) L = written_on x (new_muxer period) ops.
Proof. exact roundtrip_per_pid_typed. Qed.
Print Assumptions C01_roundtrip_per_pid_typed_desc.

(* the hypotheses are satisfiable: the history of C01_roundtrip_inhabited with a stream that carries six descriptors of
   five different classes (ISO 639 language, stream identifier, registration, a content descriptor without items,
   maximum bitrate, a private descriptor); both PMTs that must come out list the stream with exactly these descriptors *)
Example C01_roundtrip_typed_desc_inhabited :
  history_ok typed_desc (new_muxer 40) rtt_hist /\
  map DemuxerData_PID (expect (new_muxer 40) [] rtt_hist) = [0; 4096; 257; 0; 4096; 257] /\
  map (fun d => match DemuxerData_PMT d with
                | Some pmt => map PMTElementaryStream_ElementaryStreamDescriptors (PMTData_ElementaryStreams pmt)
                | None => []
                end) (expect (new_muxer 40) [] rtt_hist) = [[]; [ex_typed_loop]; []; []; [ex_typed_loop]; []].
Proof. split; [exact rtt_history_ok|exact rtt_expect_shape]. Qed.

(* ---- ... and for descriptors AS THE CALLER WRITES THEM ----
   A caller rarely passes a descriptor in parsed form: the struct's Length is usually left 0 (the writer ignores it) and
   nothing stops him from leaving bodies of other tags set.  op_parsed o on relates two calls that are equal except that
   AddElementaryStream receives, in [ops], ANY descriptor list of C14's domain (Forall2 wf_entry ds ds': each entry inside
   the round-trip domain of its tag, whatever its Length and the bodies of other tags hold) and, in [opsn], its parsed
   form ds'.  C01_mux_written_bytes: the Muxer returns the same results and counts and emits the same bytes for both
   histories, call by call (a lock-step simulation over every operation: the Muxer reads descriptors only through
   writeDescriptorsWithLength and the two length sums, which C14_parsed_form_is_normal shows equal).
   C01_roundtrip_typed_desc_written: hence demultiplexing what the Muxer wrote for [ops] yields exactly
   [expect] of [opsn] -- every PMT lists the streams with their descriptors in parsed form (derived Length filled in,
   zero-item bodies as bare headers), everything else as in C01_roundtrip. *)
Require Import Proofs.RoundTripNorm.

Theorem C01_mux_written_bytes : forall period ops opsn, Forall2 op_parsed ops opsn ->
  snd (mux_run (new_muxer period) opsn) = snd (mux_run (new_muxer period) ops).
Proof. exact mux_written_bytes. Qed.
Print Assumptions C01_mux_written_bytes.

Theorem C01_roundtrip_typed_desc_written : forall period ops opsn,
  Forall2 op_parsed ops opsn -> history_ok typed_desc (new_muxer period) opsn ->
  demux_all (concat (map mout_bytes (snd (mux_run (new_muxer period) ops)))) =
  map Ok (expect (new_muxer period) [] opsn).
Proof. exact roundtrip_history_written. Qed.
Print Assumptions C01_roundtrip_typed_desc_written.

(* satisfiable: the stream of C01_roundtrip_typed_desc_inhabited added with Length fields 0 / 99 / 200, a content
   descriptor whose item list is empty and a stray user-defined body behind the stream identifier (ex_typed_written) *)
Example C01_roundtrip_typed_desc_written_inhabited :
  Forall2 op_parsed rtt_hist_written rtt_hist /\ history_ok typed_desc (new_muxer 40) rtt_hist /\
  map PMTElementaryStream_ElementaryStreamDescriptors
      (match rtt_hist_written with MAdd e :: _ => [e] | _ => [] end) = [ex_typed_written] /\
  ex_typed_written <> ex_typed_loop.
Proof. split; [exact rtt_hist_parsed|]. split; [exact rtt_history_ok|]. split; [reflexivity|discriminate]. Qed.

(* ---- the muxer half of the round trip IS the source: Muxer.WriteData — the table part regenerated in Gen/MuxGen.v
   applied to the packetisation loop regenerated in Gen/WriteGen.v — returns the model's result and count, hands the
   io.Writer the model's Write calls in order and leaves the model's state (the statement of C04_write_data_is_source,
   quoted here because every theorem of this file is about the bytes write_data produces: where the first-packet
   adaptation field goes, which packet carries the PES header, the stuffing) ---- *)
Require Import Model.Psi Model.Desc Model.Muxer Gen.MuxGen Gen.WriteGen Proofs.MuxGenEq Proofs.WriteGenBase Proofs.WriteGenEq Proofs.WriteGenMux.
Theorem C01_write_data_is_source : forall s d pb mb buf,
  pa_res (snd (write_data s d)) <> Panic ->
  exists s',
    Muxer_WriteData_until_loop calc_descriptor_length calc_pmt_section_length g_write ge_get to_pat g_wpsi g_wpkt
      (wd_ret_src s) (wd_rest_src s)
      (@nil (list Z)) C_MpegTsPacketSize (ms_period s) mux_pm (ms_pm_updated s) (pmt_of s) (ms_pmt_updated s)
      (ms_pat_version s) (ms_pmt_version s) (ms_pat_cc s) (ms_pmt_cc s) pb mb buf (ms_es s) (ms_retransmit s) d
    = Some (s', flat_of (snd (write_data s d))) /\ mstate_eqv s' (fst (write_data s d)).
Proof. exact write_data_is_source. Qed.
Print Assumptions C01_write_data_is_source.
