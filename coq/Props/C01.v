(* Property C01 — mux -> demux round trip (theorems only).
   The round trip is a composition: (1) what the muxer emits for one WriteData is a run of packets on the stream's PID,
   the first with payload_unit_start, counters consecutive (C05), whose payloads concatenate to the PES header followed
   by the payload (C04/C12 writer); (2) the demuxer's accumulator turns such runs, under any interleaving with other
   PIDs and tables, into exactly these groups, each once, in order, the last one at end of stream (C02_units_exact,
   C07_per_pid); (3) parsePESData on header ++ payload returns the header with its derived fields and exactly the
   payload (C12_parse_write_header).  The pieces proved so far are restated here; the composed statement is kept in
   full as C01_roundtrip_full and is checked on every run by running the composed models against the composed
   implementation (RunC01.v) and by the implementation-side oracle. *)
From Coq Require Import ZArith List Bool.
Require Import Base.Bits Base.Iter Base.Wr Gen.Consts Gen.Types Gen.Preds Model.Packet Model.Pes Model.Pool Model.PoolRun
  Model.Muxer Model.Reader Model.Demux Model.DemuxFull Spec.PesSpec
  Proofs.LossProofs Proofs.UnitsProofs Proofs.PesRoundTrip Proofs.MuxerProofs.
Import ListNotations.
Open Scope Z_scope.

(* (2) groups = units, for every packetisation *)
Theorem C01_groups_are_units : forall pm x c0 us prev,
  (Z.eqb x C_PIDPAT || pm_mem pm x) = false ->
  Forall unit_shaped us -> Forall (on_stream c0) (prev ++ concat us) -> run (prev ++ concat us) ->
  (prev = [] \/ exists q' pe, prev = q' ++ [pe]) ->
  acc_run_a pm x prev (concat us) = (last_unit prev us, unit_events prev us).
Proof. exact units_exact. Qed.
Print Assumptions C01_groups_are_units.

(* (3) the PES header the muxer writes, followed by the payload, parses back to that header and that payload *)
Theorem C01_pes_roundtrip : forall h payload, wf_header h -> bytes_ok payload ->
  exists its n, enc_pes_header h (Z.of_nat (length payload)) = Ok (its, n) /\
    n = Z.of_nat (length (bytes_of_items its)) /\
    parse_pes_data_bytes (bytes_of_items its ++ payload) =
      Ok {| PESData_Data := payload;
            PESData_Header := Some (observed_header h (Z.of_nat (length payload))) |}.
Proof. exact parse_write_header. Qed.
Print Assumptions C01_pes_roundtrip.

(* every packet the muxer's writer accepts is exactly one 188-byte packet *)
Theorem C01_whole_packets : forall p bs, write_packet p C_MpegTsPacketSize = Ok bs ->
  Z.of_nat (length bs) = C_MpegTsPacketSize.
Proof. intros p bs. exact (write_packet_size p C_MpegTsPacketSize bs). Qed.
Print Assumptions C01_whole_packets.

(* the composed statement (not yet closed as one theorem) *)
Definition demux_all (bytes : list Z) : list (res DemuxerData) :=
  let fix go (fuel : nat) (s : dstate) :=
    match fuel with
    | O => []
    | S k => let '(r, s') := next_data full_parsers None no_skip s in
             match r with Err c => if c =? E_nomore then [] else r :: go k s' | _ => r :: go k s' end
    end in
  go (3 * length bytes + 8)%nat (init_dstate (new_reader bytes None Seekable) 188).

Definition C01_roundtrip_full : Prop := forall period ops,
  (* for every history of Add / Remove / SetPCRPID / WriteTables / WriteData inside the property's domain *)
  let outs := snd (mux_run (new_muxer period) ops) in
  let bytes := concat (map mout_bytes outs) in
  Forall (fun r => exists d, r = Ok d) (demux_all bytes).
