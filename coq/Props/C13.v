(* Property C13 — PSI/SI tables decoded field for field; PAT and PMT encoded exactly.
   Statements only; proofs are in Proofs/PsiProofs.v (and Proofs/PsiParse.v).  The reference encoding is
   Spec/PsiSpec.v: (width, value) field lists from ISO/IEC 13818-1 2.4.4 closed by the bitwise CRC-32/MPEG-2 of
   Spec/CrcSpec.v.  parse_psi_data / write_psi_data / psi_to_data are the model of data_psi.go and data_pat.go
   (Model/Psi.v), run against the implementation on every check; the table-id predicates, the checksum and
   calcPATSectionLength are re-translated from the source on every run. *)
From Coq Require Import ZArith List Lia.
Require Import Base.Bits Base.Iter Base.Wr Gen.Consts Gen.Types Gen.Preds Model.Packet Model.Psi.
Require Import Model.Desc Spec.CrcSpec Spec.DvbSpec Spec.PsiSpec Proofs.PsiProofs Proofs.PsiParse Proofs.PsiParsePmt Proofs.PsiWritePmt Proofs.PsiDescLink Proofs.PsiParseSi Proofs.PsiSiLink Proofs.PsiUserDesc.
Import ListNotations.
Open Scope Z_scope.

(* C13_write_pat: writePSIData on a unit of one PAT section -- any pointer_field 0..255, any header flags, any
   transport_stream_id / version / current_next / section numbers, any program numbers and PIDs (fields wider
   than their slot are truncated on both sides), 0..253 programs (the 1021-byte section limit) -- produces, byte
   for byte, pointer_field, the filler, and the reference encoding of the section, CRC_32 included. *)
Theorem C13_write_pat : forall p c h sh d pat, 0 <= p < 256 ->
  PSISectionHeader_TableID h = 0 -> PSISectionHeader_SectionLength h > 0 ->
  PSISectionSyntaxData_PAT d = Some pat -> (length (PATData_Programs pat) <= 253)%nat ->
  write_psi_data {| PSIData_PointerField := p; PSIData_Sections := [mk_section c h sh d] |} =
  Ok (p :: repeat 0 (Z.to_nat p) ++
      spec_pat_section (PSISectionHeader_SectionSyntaxIndicator h) (PSISectionHeader_PrivateBit h)
        (PSISectionSyntaxHeader_TableIDExtension sh) (PSISectionSyntaxHeader_VersionNumber sh)
        (PSISectionSyntaxHeader_CurrentNextIndicator sh) (PSISectionSyntaxHeader_SectionNumber sh)
        (PSISectionSyntaxHeader_LastSectionNumber sh) (pat_entries pat)).
Proof. exact write_pat. Qed.
Print Assumptions C13_write_pat.

(* C13_parse_pat: for every PAT content -- any number of programs up to the 1021-byte limit (induction over the
   list), 16-bit program numbers / transport_stream_id, 13-bit PIDs, 5-bit version, any flags and section
   numbers (pat_wf) -- and any pointer_field with its filler, parsePSIData on the reference encoding delivers
   exactly one section carrying every generic header field (syntax indicator, private bit, section_length,
   table id and type, table_id_extension, version, current/next, section numbers, CRC_32) and the programs,
   field for field and in order. *)
Theorem C13_parse_pat : forall p filler ssi pb ext ver cni sn lsn progs,
  0 <= p < 256 -> Z.of_nat (length filler) = p -> pat_wf ext ver sn lsn progs ->
  parse_psi_data_bytes (p :: filler ++ spec_pat_section ssi pb ext ver cni sn lsn progs) =
  Ok {| PSIData_PointerField := p;
        PSIData_Sections := [pat_section_value ssi pb ext ver cni sn lsn progs] |}.
Proof. exact parse_pat_unit. Qed.
Print Assumptions C13_parse_pat.

(* C13_multi: several sections per unit.  For any byte strings that parsePSISection decodes wherever they lie
   in a buffer (sec_parses: C13_pat_section_parses provides this for every PAT section), the unit made of
   pointer_field, filler, the sections back to back, and then nothing or a stop byte (stuffing 0xff or an
   unassigned table id) followed by arbitrary bytes, is decoded to exactly those sections in order (plus the
   stop marker). *)
Theorem C13_multi : forall p filler bss ss T ts, 0 <= p < 256 -> Z.of_nat (length filler) = p ->
  Forall2 sec_parses bss ss -> unit_tail T ts ->
  parse_psi_data_bytes (p :: filler ++ concat bss ++ T) =
  Ok {| PSIData_PointerField := p; PSIData_Sections := ss ++ ts |}.
Proof. exact parse_unit. Qed.
Print Assumptions C13_multi.

Theorem C13_pat_section_parses : forall ssi pb ext ver cni sn lsn progs, pat_wf ext ver sn lsn progs ->
  sec_parses (spec_pat_section ssi pb ext ver cni sn lsn progs) (pat_section_value ssi pb ext ver cni sn lsn progs).
Proof. exact pat_sec_parses. Qed.
Print Assumptions C13_pat_section_parses.

(* C13_to_data: PSIData.toData keeps content and order: it distributes over the section list, a stop marker
   yields nothing, and a section with syntax data yields exactly one DemuxerData of the kind its table id says
   (all variants: 0x40/0x41, 0x42/0x46, 0x4e..0x6f, 0x73), carrying the section's table, the PID and the packet. *)
Theorem C13_to_data_order : forall p s1 s2 fp pid,
  psi_to_data {| PSIData_PointerField := p; PSIData_Sections := s1 ++ s2 |} fp pid =
  psi_to_data {| PSIData_PointerField := p; PSIData_Sections := s1 |} fp pid ++
  psi_to_data {| PSIData_PointerField := p; PSIData_Sections := s2 |} fp pid.
Proof. exact psi_to_data_app. Qed.
Print Assumptions C13_to_data_order.

Theorem C13_to_data : forall s h syn d fp pid, PSISection_Header s = Some h -> PSISection_Syntax s = Some syn ->
  PSISectionSyntax_Data syn = Some d ->
  let tid := PSISectionHeader_TableID h in
  (tid = 0 -> section_to_data s fp pid = [demuxer_data fp pid None None (PSISectionSyntaxData_PAT d) None None None]) /\
  (tid = 2 -> section_to_data s fp pid = [demuxer_data fp pid None None None (PSISectionSyntaxData_PMT d) None None]) /\
  (tid = 64 \/ tid = 65 -> section_to_data s fp pid = [demuxer_data fp pid None (PSISectionSyntaxData_NIT d) None None None None]) /\
  (tid = 66 \/ tid = 70 -> section_to_data s fp pid = [demuxer_data fp pid None None None None (PSISectionSyntaxData_SDT d) None]) /\
  (78 <= tid <= 111 -> section_to_data s fp pid = [demuxer_data fp pid (PSISectionSyntaxData_EIT d) None None None None None]) /\
  (tid = 115 -> section_to_data s fp pid = [demuxer_data fp pid None None None None None (PSISectionSyntaxData_TOT d)]).
Proof. exact to_data_kinds. Qed.
Print Assumptions C13_to_data.

(* the PAT end to end: what the demuxer hands on for the reference encoding of a PAT is that PAT *)
Theorem C13_pat_delivered : forall p filler ssi pb ext ver cni sn lsn progs fp pid,
  0 <= p < 256 -> Z.of_nat (length filler) = p -> pat_wf ext ver sn lsn progs ->
  res_map (fun d => psi_to_data d fp pid)
    (parse_psi_data_bytes (p :: filler ++ spec_pat_section ssi pb ext ver cni sn lsn progs)) =
  Ok [demuxer_data fp pid None None
        (Some {| PATData_Programs := map pat_program_of progs; PATData_TransportStreamID := ext |}) None None None].
Proof. exact pat_delivered. Qed.
Print Assumptions C13_pat_delivered.

(* C13_parse_pmt: the same for every PMT content -- any number of elementary streams (induction over the list),
   any stream types, 13-bit PIDs, any program / elementary-stream descriptor loops -- with the descriptor loops
   ABSTRACTED: desc_enc relates a descriptor list to its encoding (C14's reference encoder), and the two premises
   are C14's statements that such an encoding is bytes of less than 4096 and that parseDescriptors inverts the
   loop `reserved(4) length(12) bytes` wherever it lies in a buffer.  Everything else -- header, syntax header,
   PCR PID, stream loop bounded by the section end, CRC gate, seek -- is proved here.  pmt_sec_parses makes PMT
   sections usable in C13_multi. *)
Theorem C13_parse_pmt : forall (desc_enc : list Descriptor -> list Z -> Prop),
  (forall ds bytes, desc_enc ds bytes -> bytes_ok bytes /\ Z.of_nat (length bytes) < 4096) ->
  (forall ds bytes i r, desc_enc ds bytes -> at_ i (spec_desc_loop bytes ++ r) ->
     parse_descriptors i = Ok (ds, mk_iter (ibs i) (ioff i + 2 + Z.of_nat (length bytes)))) ->
  forall p filler ssi pb ext ver cni sn lsn pcr pds pbytes xs,
  0 <= p < 256 -> Z.of_nat (length filler) = p -> pmt_wf desc_enc ext ver sn lsn pcr pds pbytes xs ->
  parse_psi_data_bytes (p :: filler ++ spec_pmt_section ssi pb ext ver cni sn lsn pcr pbytes (map stream_spec xs)) =
  Ok {| PSIData_PointerField := p;
        PSIData_Sections := [pmt_section_value ssi pb ext ver cni sn lsn pcr pds pbytes xs] |}.
Proof. exact parse_pmt_unit. Qed.
Print Assumptions C13_parse_pmt.

Theorem C13_pmt_section_parses : forall (desc_enc : list Descriptor -> list Z -> Prop),
  (forall ds bytes, desc_enc ds bytes -> bytes_ok bytes /\ Z.of_nat (length bytes) < 4096) ->
  (forall ds bytes i r, desc_enc ds bytes -> at_ i (spec_desc_loop bytes ++ r) ->
     parse_descriptors i = Ok (ds, mk_iter (ibs i) (ioff i + 2 + Z.of_nat (length bytes)))) ->
  forall ssi pb ext ver cni sn lsn pcr pds pbytes xs, pmt_wf desc_enc ext ver sn lsn pcr pds pbytes xs ->
  sec_parses (spec_pmt_section ssi pb ext ver cni sn lsn pcr pbytes (map stream_spec xs))
             (pmt_section_value ssi pb ext ver cni sn lsn pcr pds pbytes xs).
Proof. exact pmt_sec_parses. Qed.
Print Assumptions C13_pmt_section_parses.

(* C13_parse_pmt_nodesc: the premises of C13_parse_pmt are satisfiable, and for PMTs whose descriptor loops are
   empty nothing is left as a premise: any number of streams up to 200, every stream_type and PID value. *)
Theorem C13_parse_pmt_nodesc : forall p filler ssi pb ext ver cni sn lsn pcr (xs : list (Z * Z)),
  0 <= p < 256 -> Z.of_nat (length filler) = p ->
  0 <= ext < 2 ^ 16 -> 0 <= ver < 32 -> 0 <= sn < 256 -> 0 <= lsn < 256 -> 0 <= pcr < 2 ^ 13 ->
  Forall (fun x => 0 <= fst x < 256 /\ 0 <= snd x < 2 ^ 13) xs -> (length xs <= 200)%nat ->
  let streams := map (fun x => (fst x, snd x, @nil Descriptor, @nil Z)) xs in
  parse_psi_data_bytes (p :: filler ++ spec_pmt_section ssi pb ext ver cni sn lsn pcr [] (map stream_spec streams)) =
  Ok {| PSIData_PointerField := p;
        PSIData_Sections := [pmt_section_value ssi pb ext ver cni sn lsn pcr [] [] streams] |}.
Proof. exact parse_pmt_unit_nodesc. Qed.
Print Assumptions C13_parse_pmt_nodesc.

(* C13_write_pmt_rel: writePSIData on a unit of one PMT section is, byte for byte, the reference encoding, RELATIVE to
   C14's statement about descriptor loops, which enters as an explicit premise: for a descriptor list and its
   reference encoding (desc_enc), writeDescriptorsWithLength succeeds and emits `reserved(4) length(12) bytes`, and
   calcDescriptorsLength is the number of those bytes.  Any number of streams (induction), any stream types and
   PIDs (truncated to their slots on both sides), section within the 12-bit length. *)
Theorem C13_write_pmt_rel : forall (desc_enc : list Descriptor -> list Z -> Prop),
  (forall ds bytes, desc_enc ds bytes ->
     Z.of_nat (length bytes) < 4096 /\ calc_descriptors_length ds = Z.of_nat (length bytes) /\
     exists its, enc_descriptors_with_length ds = Ok its /\ items_bytes_ok its /\
                 length (items_bits its) = (8 * (2 + length bytes))%nat /\
                 bytes_of_items its = spec_desc_loop bytes) ->
  forall p c h sh d ext_pn pcr pds pbytes xs, 0 <= p < 256 ->
  PSISectionHeader_TableID h = 2 -> PSISectionHeader_SectionLength h > 0 ->
  PSISectionSyntaxData_PMT d = Some {| PMTData_ElementaryStreams := map stream_value xs; PMTData_PCRPID := pcr;
                                       PMTData_ProgramDescriptors := pds; PMTData_ProgramNumber := ext_pn |} ->
  desc_enc pds pbytes -> Forall (wstream_ok desc_enc) xs ->
  9 + Z.of_nat (length pbytes) + Z.of_nat (length (flat_map stream_bytes xs)) + 4 < 4096 ->
  write_psi_data {| PSIData_PointerField := p; PSIData_Sections := [mk_section c h sh d] |} =
  Ok (p :: repeat 0 (Z.to_nat p) ++
      spec_pmt_section (PSISectionHeader_SectionSyntaxIndicator h) (PSISectionHeader_PrivateBit h)
        (PSISectionSyntaxHeader_TableIDExtension sh) (PSISectionSyntaxHeader_VersionNumber sh)
        (PSISectionSyntaxHeader_CurrentNextIndicator sh) (PSISectionSyntaxHeader_SectionNumber sh)
        (PSISectionSyntaxHeader_LastSectionNumber sh) pcr pbytes (map stream_spec xs)).
Proof. exact write_pmt. Qed.
Print Assumptions C13_write_pmt_rel.

(* C13_write_pmt: the premise discharged with C14's lemmas: desc_bytes ds bytes says that ds is in C14's domain
   (no body above 255 bytes, loop below 4096, the writer succeeds with byte content) and bytes are the bytes
   writeDescriptors emits for it (whose TLV structure and length bytes C14_len describes).  writePSIData on one
   PMT section with such descriptor loops is pointer_field, filler and the reference section layout
   (ISO 13818-1 2.4.4.8) around those descriptor bytes, CRC_32 included -- any number of streams. *)
Theorem C13_write_pmt : forall p c h sh d ext_pn pcr pds pbytes xs, 0 <= p < 256 ->
  PSISectionHeader_TableID h = 2 -> PSISectionHeader_SectionLength h > 0 ->
  PSISectionSyntaxData_PMT d = Some {| PMTData_ElementaryStreams := map stream_value xs; PMTData_PCRPID := pcr;
                                       PMTData_ProgramDescriptors := pds; PMTData_ProgramNumber := ext_pn |} ->
  desc_bytes pds pbytes -> Forall (wstream_ok desc_bytes) xs ->
  9 + Z.of_nat (length pbytes) + Z.of_nat (length (flat_map stream_bytes xs)) + 4 < 4096 ->
  write_psi_data {| PSIData_PointerField := p; PSIData_Sections := [mk_section c h sh d] |} =
  Ok (p :: repeat 0 (Z.to_nat p) ++
      spec_pmt_section (PSISectionHeader_SectionSyntaxIndicator h) (PSISectionHeader_PrivateBit h)
        (PSISectionSyntaxHeader_TableIDExtension sh) (PSISectionSyntaxHeader_VersionNumber sh)
        (PSISectionSyntaxHeader_CurrentNextIndicator sh) (PSISectionSyntaxHeader_SectionNumber sh)
        (PSISectionSyntaxHeader_LastSectionNumber sh) pcr pbytes (map stream_spec xs)).
Proof. exact write_pmt_closed. Qed.
Print Assumptions C13_write_pmt.

(* ---- SDT, NIT, EIT, TOT (EN 300 468 5.2) ----
   C13_parse_sdt / _nit / _eit / _tot: for every well-formed section of these types -- both SDT ids (0x42, 0x46), both
   NIT ids (0x40, 0x41), all 34 EIT ids (0x4e..0x6f), the TOT (0x73); any number of services / transport streams /
   events (induction over the lists), all identifier values, every running_status / free_CA / EIT flag value --
   parsePSISection on the reference encoding (Spec/PsiSpec.v) yields exactly the content with every generic header
   field and the CRC_32, wherever the section lies in a unit (sec_parses, so the sections can be mixed freely in
   C13_multi).  MJD/BCD times and durations are C15's encodings (c15_time / c15_dur: MJD 15079..65535, two BCD
   digits per field), discharged with C15's decode theorems.  Descriptor loops are ABSTRACTED as for the PMT:
   desc_enc relates a descriptor list to its bytes; the two premises say such bytes are bytes (< 4096 of them) and
   that parseDescriptors inverts `4 bits, length(12), bytes` wherever it lies -- C14's round trip, which C14 does
   not provide as a theorem yet (C14_tlv gives the framing only).  The premises are satisfiable: no_desc16 (empty
   loops) fulfils them (C13_no_desc_premises), which closes the four theorems for sections without descriptors. *)
Theorem C13_no_desc_premises : desc_premises no_desc16.
Proof. exact no_desc_premises. Qed.
Print Assumptions C13_no_desc_premises.

(* the premises also hold for loops of user-defined (private) descriptors: tags 0x80..0xfe, bodies of 0..255
   arbitrary bytes, any number of them below 4096 bytes -- proved against the real model of parseDescriptors.  So
   the decoding theorems of all six table types are closed for sections whose descriptor loops consist of private
   descriptors (and, trivially, for empty loops). *)
Theorem C13_user_desc_premises : desc_premises ud_desc.
Proof. exact ud_desc_premises. Qed.
Print Assumptions C13_user_desc_premises.

Theorem C13_pmt_section_parses_p : forall desc_enc, desc_premises desc_enc ->
  forall ssi pb ext ver cni sn lsn pcr pds pbytes xs, pmt_wf desc_enc ext ver sn lsn pcr pds pbytes xs ->
  sec_parses (spec_pmt_section ssi pb ext ver cni sn lsn pcr pbytes (map stream_spec xs))
             (pmt_section_value ssi pb ext ver cni sn lsn pcr pds pbytes xs).
Proof. exact pmt_sec_parses_p. Qed.
Print Assumptions C13_pmt_section_parses_p.

Theorem C13_parse_sdt : forall desc_enc, desc_premises desc_enc ->
  forall tid ssi pb ext ver cni sn lsn onid xs, sdt_wf desc_enc tid ext ver sn lsn onid xs ->
  sec_parses (spec_section tid ssi pb (spec_sdt_body ext ver cni sn lsn onid (map sv_spec xs)))
             (sdt_section_value tid ssi pb ext ver cni sn lsn onid xs).
Proof. exact sdt_parses_p. Qed.
Print Assumptions C13_parse_sdt.

Theorem C13_parse_nit : forall desc_enc, desc_premises desc_enc ->
  forall tid ssi pb ext ver cni sn lsn nds nbytes xs, nit_wf desc_enc tid ext ver sn lsn nds nbytes xs ->
  sec_parses (spec_section tid ssi pb (spec_nit_body ext ver cni sn lsn nbytes (map ts_spec xs)))
             (nit_section_value tid ssi pb ext ver cni sn lsn nds nbytes xs).
Proof. exact nit_parses_p. Qed.
Print Assumptions C13_parse_nit.

Theorem C13_parse_eit : forall desc_enc, desc_premises desc_enc ->
  forall tid ssi pb ext ver cni sn lsn tsid onid slsn ltid xs,
  eit_wf desc_enc c15_time c15_dur tid ext ver sn lsn tsid onid slsn ltid xs ->
  sec_parses (spec_section tid ssi pb (spec_eit_body ext ver cni sn lsn tsid onid slsn ltid (map ev_spec xs)))
             (eit_section_value tid ssi pb ext ver cni sn lsn tsid onid slsn ltid xs).
Proof. exact eit_parses_p. Qed.
Print Assumptions C13_parse_eit.

Theorem C13_parse_tot : forall desc_enc, desc_premises desc_enc ->
  forall ssi pb t tb ds bytes, c15_time t tb -> desc_enc ds bytes -> 7 + Z.of_nat (length bytes) + 4 < 4096 ->
  sec_parses (spec_section 115 ssi pb (spec_tot_body tb bytes)) (tot_section_value ssi pb t tb ds bytes).
Proof. exact tot_parses_p. Qed.
Print Assumptions C13_parse_tot.

(* non-vacuity: the hypotheses are satisfiable and the statements evaluate as claimed on a concrete PAT with
   edge values; two PAT sections followed by stuffing give two sections and the stop marker *)
Example C13_example_wf : pat_wf 65535 31 255 0 [(0, 16); (1, 4096); (65535, 8191)].
Proof. unfold pat_wf, pat_entry_ok. repeat split; try (cbn; lia). repeat constructor; cbn; lia. Qed.

Example C13_example_parse :
  parse_psi_data_bytes (2 :: [170; 85] ++ spec_pat_section true false 65535 31 true 255 0 [(0, 16); (1, 4096); (65535, 8191)]) =
  Ok {| PSIData_PointerField := 2;
        PSIData_Sections := [pat_section_value true false 65535 31 true 255 0 [(0, 16); (1, 4096); (65535, 8191)]] |}.
Proof. vm_compute. reflexivity. Qed.

Example C13_example_multi :
  match parse_psi_data_bytes (0 :: spec_pat_section true false 1 0 true 0 1 [(1, 256)] ++
                                   spec_pat_section true false 1 0 true 1 1 [] ++ [255; 255; 7]) with
  | Ok d => (length (PSIData_Sections d) =? 3)%nat
  | _ => false
  end = true.
Proof. vm_compute. reflexivity. Qed.

Example C13_example_pmt :
  parse_psi_data_bytes (0 :: spec_pmt_section true false 1 3 true 0 0 256 [] [(27, 256, []); (15, 8191, [])]) =
  Ok {| PSIData_PointerField := 0;
        PSIData_Sections := [pmt_section_value true false 1 3 true 0 0 256 [] []
                               [(27, 256, [], []); (15, 8191, [], [])]] |}.
Proof. vm_compute. reflexivity. Qed.

(* an SDT with two services, an EIT with one event (2000-01-01 12:34:56, 01:30:00) and a TOT, empty descriptor
   loops, followed by stuffing: decoded by the model exactly as the theorems say *)
Example C13_example_si :
  let sdt := spec_section 66 true true (spec_sdt_body 1 2 true 0 0 3 [(10, true, false, 4, true, []); (11, false, true, 1, false, [])]) in
  let eit := spec_section 78 true true (spec_eit_body 10 0 true 0 0 1 3 0 78
               [(7, spec_time_bytes 51544 12 34 56, [bcd_byte 1; bcd_byte 30; bcd_byte 0], 4, false, [])]) in
  let tot := spec_section 115 false true (spec_tot_body (spec_time_bytes 51544 12 34 56) []) in
  parse_psi_data_bytes (0 :: sdt ++ eit ++ tot ++ [255]) =
  Ok {| PSIData_PointerField := 0;
        PSIData_Sections :=
          [ sdt_section_value 66 true true 1 2 true 0 0 3
              [mk_sdt_svc 10 true false 4 true [] []; mk_sdt_svc 11 false true 1 false [] []];
            eit_section_value 78 true true 10 0 true 0 0 1 3 0 78
              [mk_eit_ev 7 (spec_unix 51544 12 34 56) (spec_time_bytes 51544 12 34 56)
                         (spec_duration_ns 1 30 0) [bcd_byte 1; bcd_byte 30; bcd_byte 0] 4 false [] []];
            tot_section_value false true (spec_unix 51544 12 34 56) (spec_time_bytes 51544 12 34 56) [] [];
            stop_section 255 ] |}.
Proof. vm_compute. reflexivity. Qed.

(* a PMT whose program and stream descriptor loops hold private descriptors (one with an empty body) *)
Example C13_example_pmt_userdesc :
  let pd := [(200, [1; 2; 3]); (254, [])] in
  let sd := [(128, [255])] in
  parse_psi_data_bytes (0 :: spec_pmt_section true false 1 3 true 0 0 256 (flat_map ud_enc pd)
                                [(27, 256, flat_map ud_enc sd)]) =
  Ok {| PSIData_PointerField := 0;
        PSIData_Sections := [pmt_section_value true false 1 3 true 0 0 256 (map ud_value pd) (flat_map ud_enc pd)
                               [(27, 256, map ud_value sd, flat_map ud_enc sd)]] |}.
Proof. vm_compute. reflexivity. Qed.

(* ---- the descriptor premises discharged for loops of TYPED descriptors ----
   typed_desc ds bytes (Proofs/PsiTypedDesc.v): ds is any list mixing the 23 typed tags, unknown tags and user-defined
   tags (the 25 classes of C14's typed_rt), zero-item bodies included, inside the per-tag domains of C14, in the form
   parseDescriptors returns it (Length = body size, only the body of the tag present: Forall2 wf_entry ds ds), the loop
   shorter than 4096 bytes; bytes is what writeDescriptors emits for ds.  C13_typed_desc_premises: parseDescriptors,
   started wherever such a loop lies in a section and whatever the four bits in front of its length hold, returns ds
   and stops behind the loop (from C14_loop_body_at_offset) -- so the decoding theorems of the PMT, SDT, NIT, EIT and
   TOT hold outright for sections whose loops carry typed descriptors (the five _typed corollaries below have no
   premise about descriptors left).  C13_typed_desc_written: asking for the parsed form loses nothing -- whatever list
   ds0 of C14's domain a caller hands to the writer (any Length fields, stray bodies of other tags), the bytes written
   are the bytes of its parsed form ds and (ds, bytes) is in typed_desc; the writer side (desc_bytes, the premise of
   C13_write_pmt) holds for both. *)
Require Import Proofs.DescRoundTripAll Proofs.PsiTypedDesc.

Theorem C13_typed_desc_premises : desc_premises typed_desc.
Proof. exact typed_desc_premises. Qed.
Print Assumptions C13_typed_desc_premises.

Theorem C13_typed_desc_bytes : forall ds bytes, typed_desc ds bytes -> desc_bytes ds bytes.
Proof. exact typed_desc_bytes. Qed.
Print Assumptions C13_typed_desc_bytes.

Theorem C13_typed_desc_written : forall ds0 ds its, Forall2 wf_entry ds0 ds ->
  enc_descriptors ds0 = Ok its -> items_bytes_ok its -> DescSpec.loop_size ds0 < 4096 ->
  typed_desc ds (bytes_of_items its) /\ desc_bytes ds0 (bytes_of_items its).
Proof. exact typed_desc_of_written. Qed.
Print Assumptions C13_typed_desc_written.

Theorem C13_pmt_section_parses_typed : forall ssi pb ext ver cni sn lsn pcr pds pbytes xs,
  pmt_wf typed_desc ext ver sn lsn pcr pds pbytes xs ->
  sec_parses (spec_pmt_section ssi pb ext ver cni sn lsn pcr pbytes (map stream_spec xs))
             (pmt_section_value ssi pb ext ver cni sn lsn pcr pds pbytes xs).
Proof. exact pmt_parses_typed. Qed.
Print Assumptions C13_pmt_section_parses_typed.

Theorem C13_parse_sdt_typed : forall tid ssi pb ext ver cni sn lsn onid xs,
  sdt_wf typed_desc tid ext ver sn lsn onid xs ->
  sec_parses (spec_section tid ssi pb (spec_sdt_body ext ver cni sn lsn onid (map sv_spec xs)))
             (sdt_section_value tid ssi pb ext ver cni sn lsn onid xs).
Proof. exact sdt_parses_typed. Qed.
Print Assumptions C13_parse_sdt_typed.

Theorem C13_parse_nit_typed : forall tid ssi pb ext ver cni sn lsn nds nbytes xs,
  nit_wf typed_desc tid ext ver sn lsn nds nbytes xs ->
  sec_parses (spec_section tid ssi pb (spec_nit_body ext ver cni sn lsn nbytes (map ts_spec xs)))
             (nit_section_value tid ssi pb ext ver cni sn lsn nds nbytes xs).
Proof. exact nit_parses_typed. Qed.
Print Assumptions C13_parse_nit_typed.

Theorem C13_parse_eit_typed : forall tid ssi pb ext ver cni sn lsn tsid onid slsn ltid xs,
  eit_wf typed_desc c15_time c15_dur tid ext ver sn lsn tsid onid slsn ltid xs ->
  sec_parses (spec_section tid ssi pb (spec_eit_body ext ver cni sn lsn tsid onid slsn ltid (map ev_spec xs)))
             (eit_section_value tid ssi pb ext ver cni sn lsn tsid onid slsn ltid xs).
Proof. exact eit_parses_typed. Qed.
Print Assumptions C13_parse_eit_typed.

Theorem C13_parse_tot_typed : forall ssi pb t tb ds bytes,
  c15_time t tb -> typed_desc ds bytes -> 7 + Z.of_nat (length bytes) + 4 < 4096 ->
  sec_parses (spec_section 115 ssi pb (spec_tot_body tb bytes)) (tot_section_value ssi pb t tb ds bytes).
Proof. exact tot_parses_typed. Qed.
Print Assumptions C13_parse_tot_typed.

(* the domain is inhabited by a loop of six entries of five different classes -- ISO 639 language, stream identifier,
   registration, a content descriptor without items (bare header), maximum bitrate, a private descriptor -- written by
   a caller with wrong Length fields and a stray body (ex_typed_written), read back as ex_typed_loop *)
Example C13_typed_desc_inhabited :
  Forall2 wf_entry ex_typed_written ex_typed_loop /\ typed_desc ex_typed_loop ex_typed_bytes /\
  desc_bytes ex_typed_written ex_typed_bytes /\ length ex_typed_bytes = 29%nat.
Proof. split; [exact ex_typed_entries|]. split; [apply ex_typed_ok|]. split; [apply ex_typed_ok|reflexivity]. Qed.

(* ... and the model decodes a PMT and an SDT carrying that loop (behind running_status 4 / free_CA 1 in the SDT) as
   the theorems say *)
Example C13_example_typed_desc :
  parse_psi_data_bytes (0 :: spec_pmt_section true false 1 3 true 0 0 256 ex_typed_bytes [(27, 256, ex_typed_bytes); (15, 257, [])]
                          ++ spec_section 66 true true (spec_sdt_body 1 2 true 0 0 3 [(10, true, false, 4, true, ex_typed_bytes)])) =
  Ok {| PSIData_PointerField := 0;
        PSIData_Sections :=
          [ pmt_section_value true false 1 3 true 0 0 256 ex_typed_loop ex_typed_bytes
              [(27, 256, ex_typed_loop, ex_typed_bytes); (15, 257, [], [])];
            sdt_section_value 66 true true 1 2 true 0 0 3 [mk_sdt_svc 10 true false 4 true ex_typed_loop ex_typed_bytes] ] |}.
Proof. vm_compute. reflexivity. Qed.
(* ---- the table parsers above are the source ----
   The six section-body parsers (PAT, PMT with its elementary-stream loop, SDT, NIT with its 12-bit
   transport_stream_loop_length, EIT, TOT), the dispatch of parsePSISectionSyntaxData on the table id and
   PSITableID.Type are equal, as computations in the iterator monad and on every iterator whose bytes are in 0..255, to
   the definitions that go/gen (psigen.go) translates from the CURRENT source of data_pat.go, data_pmt.go, data_sdt.go,
   data_nit.go, data_eit.go, data_tot.go and data_psi.go into Gen/PsiGen.v, every shift, mask and uintN conversion as
   written (the Section Variables parseDescriptors, parseDVBTime, parseDVBDurationSeconds instantiated with the models'
   functions; C14_loop_is_source ties parse_descriptors).  An edit of one of these Go functions -- a shift done on a byte
   before widening, a changed mask, a loop bound -- regenerates Gen/PsiGen.v and this theorem (Proofs/PsiGenEq.v) stops
   checking. *)
Require Import Model.Dvb Gen.PsiGen Proofs.ParseGenBits Proofs.PsiGenSim Proofs.PsiGenEq.
Theorem C13_parsers_are_source :
  (forall t, table_type t = PsiGen.PSITableID_Type t) /\
  (forall e ext, same_on_bytes (parse_pat_section e ext) (PsiGen.parsePATSection e ext)) /\
  (forall e ext, same_on_bytes (parse_pmt_section e ext) (PsiGen.parsePMTSection parse_descriptors e ext)) /\
  (forall e ext, same_on_bytes (parse_sdt_section e ext) (PsiGen.parseSDTSection parse_descriptors e ext)) /\
  (forall ext, same_on_bytes (parse_nit_section ext) (PsiGen.parseNITSection parse_descriptors ext)) /\
  (forall e ext, same_on_bytes (parse_eit_section e ext)
                   (PsiGen.parseEITSection parse_dvb_duration_seconds parse_dvb_time parse_descriptors e ext)) /\
  same_on_bytes parse_tot_section (PsiGen.parseTOTSection parse_dvb_time parse_descriptors) /\
  (forall h sh e, same_on_bytes (parse_psi_section_syntax_data h sh e)
                    (PsiGen.parsePSISectionSyntaxData parse_dvb_duration_seconds parse_dvb_time parse_descriptors (Some h) sh e)).
Proof. exact psi_tables_are_source. Qed.
Print Assumptions C13_parsers_are_source.
(* the translated parsers run: the SDT / EIT / TOT example above, decoded by the generated parsePSIData *)
Example C13_parsers_are_source_inhabited :
  let sdt := spec_section 66 true true (spec_sdt_body 1 2 true 0 0 3 [(10, true, false, 4, true, []); (11, false, true, 1, false, [])]) in
  let eit := spec_section 78 true true (spec_eit_body 10 0 true 0 0 1 3 0 78
               [(7, spec_time_bytes 51544 12 34 56, [bcd_byte 1; bcd_byte 30; bcd_byte 0], 4, false, [])]) in
  let tot := spec_section 115 false true (spec_tot_body (spec_time_bytes 51544 12 34 56) []) in
  let pmt := spec_pmt_section true false 1 3 true 0 0 256 [] [(27, 256, []); (15, 8191, [])] in
  bytes_okb (0 :: sdt ++ eit ++ tot ++ pmt ++ [255]) = true /\
  run_iter (PsiGen.parsePSIData parse_dvb_duration_seconds parse_dvb_time parse_descriptors) (0 :: sdt ++ eit ++ tot ++ pmt ++ [255]) =
  parse_psi_data_bytes (0 :: sdt ++ eit ++ tot ++ pmt ++ [255]) /\
  match parse_psi_data_bytes (0 :: sdt ++ eit ++ tot ++ pmt ++ [255]) with
  | Ok d => (length (PSIData_Sections d) =? 5)%nat
  | _ => false
  end = true.
Proof. vm_compute. repeat split; reflexivity. Qed.

(* the descriptor loops the table parsers above call parse_descriptors: it and 21 of its 23 body parsers are the source as well.
   The statement is Proofs/PsiGenDesc2.descriptor_parsers_tie, spelled out as C14_loop_is_source in Props/C14.v. *)
Require Import Proofs.PsiGenDesc2.
Theorem C13_descriptors_are_source : descriptor_parsers_tie.
Proof. exact descriptor_loop_is_source. Qed.
Print Assumptions C13_descriptors_are_source.

(* ---- the table writers above are the source ----
   C13_write_pat / C13_write_pmt and the round trips speak about the writers of Model/Psi.v. Each of them is, for every
   argument, what go/gen (psiwritegen.go) translates from the CURRENT source of data_psi.go / data_pat.go / data_pmt.go into
   Gen/PsiWriteGen.v (wfn_sim, Proofs/PsiWriteGenBase.v: same items in the same order up to the bits a w-bit write ignores,
   same count, same error class, same panics), with the descriptor writer regenerated from descriptor.go underneath
   (C14_writers_are_source): calcPMTSectionLength, calcPSISectionLength with its nil dereferences, writePATSection,
   writePMTSection (elementary stream loop), writePSISectionSyntaxHeader / SyntaxData / Syntax, writePSISection (CRC_32
   through the write callback), writePSIData (pointer field, filler loop, section loop). *)
Require Import Gen.MuxGen Gen.WriteGen Gen.PsiWriteGen Proofs.WriteGenBase Proofs.PsiWriteGenBase Proofs.PsiWriteGenPsi
  Proofs.PsiWriteGenAll.
Theorem C13_writers_are_source :
  (forall d, gcalcPMTSectionLength d = calc_pmt_section_length d) /\
  (forall s, gcalcPSISectionLength s = ([], res_opt (calc_psi_section_length_res s))) /\
  (forall d, wfn_sim (PsiWriteGen.writePATSection d) (Ok (enc_pat_section d)) (pat_written d)) /\
  (forall d, wfn_sim (gwritePMTSection d) (enc_pmt_section d) (pmt_written d)) /\
  (forall h, wfn_sim (PsiWriteGen.writePSISectionSyntaxHeader h) (Ok (enc_psi_section_syntax_header h)) 5) /\
  (forall d tid, wfn_sim (gwritePSISectionSyntaxData d tid) (enc_psi_section_syntax_data d tid) (syntax_data_written d tid)) /\
  (forall s h, PSISection_Header s = Some h ->
     wfn_sim (gwritePSISectionSyntax s) (enc_psi_section_syntax s (PSISectionHeader_TableID h))
             (syntax_written s (PSISectionHeader_TableID h))) /\
  (forall s, wfn_sim (gwritePSISection s) (enc_psi_section s) (section_written s)) /\
  (forall d, wfn_sim (gwritePSIData d) (enc_psi_data d) (psi_written d)).
Proof. exact psi_writers_are_source. Qed.
Print Assumptions C13_writers_are_source.
(* the translated writers run: the PMT of the example with a program descriptor and an elementary stream descriptor *)
Example C13_writers_are_source_inhabited :
  snd (gwritePSIData ex_psi) = Some (30, ENil) /\
  Ok (bytes_of_items (map snd (fst (gwritePSIData ex_psi)))) = write_psi_data ex_psi /\
  length (bytes_of_items (map snd (fst (gwritePSIData ex_psi)))) = 30%nat /\
  computeCRC32 (firstn 29 (skipn 1 (bytes_of_items (map snd (fst (gwritePSIData ex_psi)))))) = 0.
Proof. exact psi_writer_runs. Qed.

(* calcPMTProgramInfoLength (data_pmt.go; no caller inside the package) is regenerated as well: the section length every PMT
   theorem above uses is its value plus the two bytes in front of program_info_length, in the uint16 arithmetic of the source.
   A changed constant or a dropped summand in either calculator breaks this proof. *)
Theorem C13_program_info_length_is_source : forall d,
  calc_pmt_section_length d = (gcalcPMTProgramInfoLength d + 2) mod 65536.
Proof. exact pmt_program_info_length_is_source. Qed.
Print Assumptions C13_program_info_length_is_source.
Example C13_program_info_length_is_source_inhabited :
  gcalcPMTProgramInfoLength ex_pmt = 15 /\ calc_pmt_section_length ex_pmt = 17.
Proof. split; vm_compute; reflexivity. Qed.

(* PSIData.toData is regenerated too (Gen/RestData.v: go/gen/restgen.go through the statement translator of
   go/gen/demuxgen.go, in the outcome monad).  On every PSIData whose sections with syntax data have a header — every one the
   parser builds — the regenerated function returns exactly psi_to_data, the subject of C13_to_data / C13_to_data_order:
   the same DemuxerData in the same order, each with the first packet and the PID; where a section has syntax data but no
   header the Go code dereferences nil (s.Header.TableID) and the regenerated function is Panicked (the model skips such a
   section).  A loop that skips a section, a case of the switch that stores another table or a changed EIT range breaks
   this proof. *)
Require Import Gen.DemuxGen Gen.RestData Proofs.RestGenData.
Theorem C13_to_data_is_source : forall (W : Type) d fp pid (w : W),
  PSIData_toData W (PSIData_PointerField d) (PSIData_Sections d) (Some fp) pid w =
  if forallb section_safe (PSIData_Sections d) then Done (psi_to_data d fp pid, w) else Panicked.
Proof. exact to_data_is_generated. Qed.
Print Assumptions C13_to_data_is_source.
Example C13_to_data_is_source_inhabited :
  PSIData_toData unit 0 [ex_td_section 0; ex_td_section 1] (Some zero_Packet) 32 tt =
    Done ([demuxer_data zero_Packet 32 None None (Some {| PATData_Programs := []; PATData_TransportStreamID := 7 |}) None None None], tt) /\
  PSIData_toData unit 0 [ex_td_section 0; ex_td_headerless] (Some zero_Packet) 32 tt = Panicked.
Proof. exact to_data_runs. Qed.
