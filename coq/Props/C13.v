(* Property C13 — PSI/SI tables decoded field for field; PAT and PMT encoded exactly.
   Statements only; proofs are in Proofs/PsiProofs.v (and Proofs/PsiParse.v).  The reference encoding is
   Spec/PsiSpec.v: (width, value) field lists from ISO/IEC 13818-1 2.4.4 closed by the bitwise CRC-32/MPEG-2 of
   Spec/CrcSpec.v.  parse_psi_data / write_psi_data / psi_to_data are the model of data_psi.go and data_pat.go
   (Model/Psi.v), run against the implementation on every check; the table-id predicates, the checksum and
   calcPATSectionLength are re-translated from the source on every run. *)
From Coq Require Import ZArith List.
Require Import Base.Bits Base.Iter Base.Wr Gen.Consts Gen.Types Gen.Preds Model.Packet Model.Psi.
Require Import Spec.CrcSpec Spec.PsiSpec Proofs.PsiProofs.
Import ListNotations.
Open Scope Z_scope.

(* C13_write_pat: writePSIData on a unit of one PAT section -- any pointer_field 0..255, any header flags, any
   transport_stream_id / version / current_next / section numbers, any program numbers and PIDs (fields wider
   than their slot are truncated on both sides), 0..253 programs (the 1021-byte section limit) -- produces, byte
   for byte, pointer_field, the filler, and the reference encoding of the section, CRC_32 included. *)
Theorem C13_write_pat : forall p c h sh d pat, 0 <= p < 256 ->
  PSISectionHeader_TableID h = 0 -> PSISectionHeader_SectionLength h > 0 ->
  PSISectionSyntaxData_PAT d = Some pat -> (length (PATData_Programs pat) <= 253)%nat ->
  write_psi_data {| PSIData_PointerField := p; PSIData_Sections := [mk_section c h sh d] |} =
  Ok (p :: repeat 0 (Z.to_nat p) ++
      spec_pat_section (PSISectionHeader_SectionSyntaxIndicator h) (PSISectionHeader_PrivateBit h)
        (PSISectionSyntaxHeader_TableIDExtension sh) (PSISectionSyntaxHeader_VersionNumber sh)
        (PSISectionSyntaxHeader_CurrentNextIndicator sh) (PSISectionSyntaxHeader_SectionNumber sh)
        (PSISectionSyntaxHeader_LastSectionNumber sh) (pat_entries pat)).
Proof. exact write_pat. Qed.
Print Assumptions C13_write_pat.
