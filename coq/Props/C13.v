(* Property C13 — PSI/SI tables decoded field for field; PAT and PMT encoded exactly (theorems only; proofs in Proofs/). *)
From Coq Require Import ZArith List.
Require Import Base.Bits Base.Iter Base.Wr Gen.Types Model.Psi.
Import ListNotations.
Open Scope Z_scope.
