(* The descriptor premises of the table decoding theorems, discharged for loops of user-defined (private)
   descriptors -- tags 0x80..0xfe, bodies of 0..255 arbitrary bytes, any number of them below the 12-bit loop
   length -- against the real model of parseDescriptors (Model/Desc.v). *)
From Coq Require Import ZArith List Lia Bool ZifyBool.
Require Import Base.Bits Base.Iter Base.Wr Gen.Consts Gen.Types Gen.Preds Model.Packet Model.Desc Model.Dvb Model.Psi.
Require Import Spec.CrcSpec Spec.PsiSpec Proofs.PsiProofs Proofs.PsiParse Proofs.PsiParseSi Proofs.PsiSiLink.
Import ListNotations.
Open Scope Z_scope.
Open Scope iter_scope.

Definition ud_entry : Type := (Z * list Z)%type.      (* tag, body *)
Definition ud_ok (e : ud_entry) : Prop :=
  128 <= fst e <= 254 /\ Z.of_nat (length (snd e)) < 256 /\ bytes_ok (snd e).
Definition ud_enc (e : ud_entry) : list Z := fst e :: Z.of_nat (length (snd e)) :: snd e.
Definition ud_value (e : ud_entry) : Descriptor :=
  match snd e with
  | [] => desc_hdr (fst e) 0
  | _ => set_UserDefined (desc_hdr (fst e) (Z.of_nat (length (snd e)))) (snd e)
  end.

Definition ud_desc (ds : list Descriptor) (bytes : list Z) : Prop :=
  exists es, Forall ud_ok es /\ ds = map ud_value es /\ bytes = flat_map ud_enc es /\ Z.of_nat (length bytes) < 4096.

Lemma ud_enc_ok es : Forall ud_ok es -> bytes_ok (flat_map ud_enc es).
Proof.
  induction 1 as [|e es (Ht & Hl & Hb) _ IH]; cbn [flat_map]; [constructor|]. apply Forall_app. split; [|exact IH].
  unfold ud_enc. constructor; [unfold Bits.byte_ok; lia|]. constructor; [unfold Bits.byte_ok; lia|exact Hb].
Qed.

Lemma parse_ud_at i e r : ud_ok e -> at_ i (ud_enc e ++ r) ->
  parse_descriptor_with parse_descriptor_body i =
  Ok (ud_value e, mk_iter (ibs i) (ioff i + Z.of_nat (length (ud_enc e)))).
Proof.
  intros (Ht & Hl & Hb) Hat. unfold ud_enc in Hat |- *. cbn [length].
  change (fst e :: Z.of_nat (length (snd e)) :: snd e) with ([fst e; Z.of_nat (length (snd e))] ++ snd e) in Hat.
  rewrite <- app_assoc in Hat.
  unfold parse_descriptor_with, ibind, next_bytes_nocopy. rewrite (read_bytes _ _ _ 2 Hat) by (cbn; lia).
  pose proof (at_move _ _ _ Hat) as Hat2. cbn [length] in Hat2. change (Z.of_nat 2) with 2 in Hat2.
  unfold byte_at. cbn [nth]. unfold ud_value.
  destruct (snd e) as [|b0 body] eqn:Eb.
  - cbn [length]. change (Z.of_nat 0 >? 0) with false. cbv iota. unfold iret.
    replace (ioff i + Z.of_nat 2) with (ioff i + 2) by lia. reflexivity.
  - destruct (Z.of_nat (length (b0 :: body)) >? 0) eqn:E; [|cbn [length] in E; lia].
    unfold ioffset, iseek. cbn [ibs ioff]. unfold parse_descriptor_body.
    assert (Hu : is_user_defined (fst e) = true) by (unfold is_user_defined; lia). rewrite Hu.
    unfold ibind. rewrite (read_bytes _ _ _ _ Hat2 eq_refl) by (cbn [length]; lia).
    unfold iret. cbn [ibs ioff]. f_equal. f_equal. f_equal. cbn [length]. lia.
Qed.

Lemma ud_iloop_at es : forall fuel i r, Forall ud_ok es -> (length es < fuel)%nat ->
  at_ i (flat_map ud_enc es ++ r) ->
  iloop_fuel fuel (ioff i + Z.of_nat (length (flat_map ud_enc es))) (parse_descriptor_with parse_descriptor_body) i =
    Ok (map ud_value es, mk_iter (ibs i) (ioff i + Z.of_nat (length (flat_map ud_enc es)))).
Proof.
  induction es as [|e es IH]; intros fuel i r Hok Hf Hat.
  - destruct fuel as [|k]; [cbn in Hf; lia|]. cbn [iloop_fuel flat_map length app map] in *. unfold ibind, ioffset.
    replace (ioff i + Z.of_nat 0) with (ioff i) by lia. rewrite Z.ltb_irrefl. unfold iret.
    destruct i as [B o]. reflexivity.
  - destruct fuel as [|k]; [cbn in Hf; lia|]. inversion Hok as [|? ? He Hes]; subst.
    cbn [flat_map] in Hat |- *. rewrite <- app_assoc in Hat.
    pose proof (parse_ud_at i e _ He Hat) as E1. pose proof (at_move _ _ _ Hat) as Hat1.
    assert (Le : (2 <= length (ud_enc e))%nat) by (unfold ud_enc; cbn [length]; lia).
    cbn [iloop_fuel length map]. unfold ibind at 1, ioffset. rewrite app_length.
    destruct (ioff i <? ioff i + Z.of_nat (length (ud_enc e) + length (flat_map ud_enc es))) eqn:El; [|lia].
    unfold ibind at 1. rewrite E1.
    specialize (IH k _ r Hes ltac:(cbn [length] in Hf; lia) Hat1). cbn [ibs ioff] in IH.
    replace (ioff i + Z.of_nat (length (ud_enc e) + length (flat_map ud_enc es)))
      with (ioff i + Z.of_nat (length (ud_enc e)) + Z.of_nat (length (flat_map ud_enc es))) by lia.
    unfold ibind. rewrite IH. reflexivity.
Qed.

Lemma ud_count es : (2 * length es <= length (flat_map ud_enc es))%nat.
Proof.
  induction es as [|e es IH]; [reflexivity|]. cbn [flat_map length]. rewrite app_length.
  assert (2 <= length (ud_enc e))%nat by (unfold ud_enc; cbn [length]; lia). unfold ud_entry in *. lia.
Qed.

Theorem ud_desc_premises : desc_premises ud_desc.
Proof.
  split.
  - intros ds bytes (es & Hes & _ & -> & Hl). split; [apply ud_enc_ok; exact Hes|exact Hl].
  - intros top4 ds bytes i r Ht (es & Hes & -> & -> & Hl) Hat.
    unfold spec_loop16 in Hat. rewrite <- app_assoc in Hat.
    destruct (len12_field top4 (Z.of_nat (length (flat_map ud_enc es))) ltac:(lia)) as [L2 F]. cbn zeta in L2, F.
    unfold parse_descriptors, parse_descriptors_with, ibind at 1, next_bytes_nocopy.
    rewrite (read_bytes _ _ _ 2 Hat) by (rewrite ?L2; lia). rewrite F.
    pose proof (at_move _ _ _ Hat) as Hat2. rewrite L2 in Hat2. change (Z.of_nat 2) with 2 in Hat2.
    destruct (Z.of_nat (length (flat_map ud_enc es)) >? 0) eqn:E.
    + unfold ibind, ioffset, iloop. cbn [ibs ioff].
      pose proof (ud_count es) as Hc.
      assert (Hfuel : (length es < S (Z.to_nat (ioff i + 2 + Z.of_nat (length (flat_map ud_enc es)) - (ioff i + 2))))%nat)
        by (unfold ud_entry in *; lia).
      pose proof (ud_iloop_at es _ _ r Hes Hfuel Hat2) as E2. cbn [ibs ioff] in E2. unfold ibind, ioffset. cbn [ibs ioff]. rewrite E2. reflexivity.
    + assert (Hn : flat_map ud_enc es = []) by (destruct (flat_map ud_enc es); [reflexivity|cbn [length] in E; lia]).
      assert (He : es = []) by (destruct es as [|e es']; [reflexivity|discriminate]).
      subst es. cbn [map flat_map length]. unfold iret. replace (ioff i + 2 + Z.of_nat 0) with (ioff i + 2) by lia. reflexivity.
Qed.

(* the PMT theorems take the premises in the `reserved(4) = 1111` form; they follow from the bundle *)
Require Import Proofs.PsiParsePmt.

Theorem pmt_sec_parses_p desc_enc : desc_premises desc_enc ->
  forall ssi pb ext ver cni sn lsn pcr pds pbytes xs, pmt_wf desc_enc ext ver sn lsn pcr pds pbytes xs ->
  sec_parses (spec_pmt_section ssi pb ext ver cni sn lsn pcr pbytes (map stream_spec xs))
             (pmt_section_value ssi pb ext ver cni sn lsn pcr pds pbytes xs).
Proof.
  intros [H1 H2]. apply (pmt_sec_parses desc_enc H1).
  intros ds bytes i r Hd Hat. apply (H2 15 ds bytes i r ltac:(lia) Hd). exact Hat.
Qed.
