(* C01, unit level: the packets of one WriteData, as the demuxer's packet parser returns them, fed to the packet pool:
   the first payload packet flushes what the PID had pending, the others are appended, adaptation-field-only packets are
   ignored; and the group of the unit's payload packets is parsed by parseData to exactly the PES that was written. *)
From Coq Require Import ZArith List Lia Bool ZifyBool.
Require Import Base.Bits Base.Iter Base.Wr Gen.Consts Gen.Types Gen.Preds
  Model.Clock Model.Packet Model.Pes Model.Desc Model.Psi Model.Pool Model.PoolRun Model.Reader Model.Demux Model.DemuxFull Model.Muxer
  Spec.MuxSpec Spec.PesSpec Spec.PacketSpec
  Proofs.MuxerProofs Proofs.MuxerPackets Proofs.PesRoundTrip Proofs.PacketRoundTrip
  Proofs.PoolProofs Proofs.LossProofs Proofs.UnitsProofs Proofs.DemuxProofs
  Proofs.RoundTripPkt Proofs.RoundTripDemux.
Import ListNotations.
Open Scope Z_scope.

(* ---------------- what the pool reads of an observed packet ---------------- *)

Lemma obs_pid q : pid_of (obs_pkt q) = pkt_pid q. Proof. reflexivity. Qed.
Lemma obs_has_payload q : has_payload (obs_pkt q) = pkt_has_payload q. Proof. reflexivity. Qed.
Lemma obs_pusi q : pusi (obs_pkt q) = pkt_pusi q. Proof. reflexivity. Qed.
Lemma obs_tei q : tei (obs_pkt q) = PacketHeader_TransportErrorIndicator (Packet_Header q). Proof. reflexivity. Qed.
Lemma obs_cc q : cc_of (obs_pkt q) = pkt_cc q. Proof. reflexivity. Qed.

Lemma obs_no_disc q : (forall a, Packet_AdaptationField q = Some a -> PacketAdaptationField_DiscontinuityIndicator a = false) ->
  no_disc_flag (obs_pkt q).
Proof.
  intros H. unfold no_disc_flag. rewrite obs_af. destruct (Packet_AdaptationField q) as [a|]; cbn [option_map odflt].
  - unfold observed_af. cbn [PacketAdaptationField_DiscontinuityIndicator]. rewrite (H a eq_refl). apply andb_false_r.
  - apply andb_false_r.
Qed.

(* ---------------- the accumulator on consecutive packets (from C02's annotated lemmas) ---------------- *)

Lemma acc_add_first pm x e : (Z.eqb x C_PIDPAT || pm_mem pm x) = false -> acc_add pm x [] e = ([e], []).
Proof.
  intros Hn. pose proof (acc_add_a_erase pm x [] (0, e)) as E. rewrite (acc_add_a_first pm x (0, e) Hn) in E.
  cbn [fst snd map] in E. symmetry. exact E.
Qed.

Lemma acc_add_next pm x q' pe e :
  (Z.eqb x C_PIDPAT || pm_mem pm x) = false ->
  has_payload e = true -> has_payload pe = true -> 0 <= cc_of pe < 16 -> cc_of e = (cc_of pe + 1) mod 16 ->
  (no_disc_flag e \/ pusi e = true) -> (no_disc_flag pe \/ pusi pe = true) ->
  acc_add pm x (q' ++ [pe]) e = if pusi e then ([e], q' ++ [pe]) else ((q' ++ [pe]) ++ [e], []).
Proof.
  intros Hn He Hpe Hr Hcc Hde Hdpe.
  set (qa := map (fun p => (0, p)) q').
  assert (Hqa : map snd qa = q') by (unfold qa; rewrite map_map; cbn [snd]; apply map_id).
  pose proof (acc_add_a_erase pm x (qa ++ [(0, pe)]) (1, e)) as E.
  rewrite (acc_add_a_next pm x (cc_of pe) qa (0, pe) (1, e) Hn) in E.
  - cbn [snd] in E. rewrite map_app, Hqa in E. cbn [map snd] in E. rewrite <- E.
    destruct (pusi e); cbn [fst snd map]; rewrite ?map_app, ?Hqa; reflexivity.
  - unfold on_stream. cbn [fst snd]. repeat split; assumption.
  - unfold on_stream. cbn [fst snd]. rewrite Z.add_0_r, Z.mod_small by lia. repeat split; assumption.
  - reflexivity.
Qed.

(* ---------------- feeding packets to the pool ---------------- *)

Section Feed.
Variable P : dparsers.

Lemma feed_filter_payload l : forall pl pm, Forall (fun p => tei p = false) l ->
  feed P pl pm l = feed P pl pm (filter has_payload l).
Proof.
  induction l as [|p l IH]; intros pl pm H; [reflexivity|]. inversion H as [|? ? Hp Hl]; subst.
  cbn [filter]. destruct (has_payload p) eqn:E.
  - cbn [feed]. destruct (pool_add pm pl p) as [pl1 g]. destruct g; [apply IH, Hl|].
    destruct (parse_data P None pm (p0 :: g)); try reflexivity. rewrite IH by exact Hl. reflexivity.
  - cbn [feed]. rewrite pool_add_ignored by (right; exact E). apply IH, Hl.
Qed.

(* a payload packet of PID x *)
Definition on_pid (x : Z) (p : Packet) : Prop := pid_of p = x /\ tei p = false /\ has_payload p = true.

(* the pool after one packet of x that the accumulator accepts *)
Lemma pool_add_step pm pl p x q g : sorted pl -> on_pid x p -> acc_add pm x (qof pl x) p = (q, g) ->
  exists pl1, pool_add pm pl p = (pl1, g) /\ sorted pl1 /\ qof pl1 x = q /\ (forall y, y <> x -> qof pl1 y = qof pl y).
Proof.
  intros Hs (Hx & Ht & Hh) Ha. subst x.
  destruct (pool_add_own pm pl p Ht Hh) as [H1 H2]. rewrite Ha in H1, H2. cbn [fst snd] in H1, H2.
  pose proof (pool_add_sorted pm pl p Hs) as H3.
  destruct (pool_add pm pl p) as [pl1 g1] eqn:E. cbn [fst snd] in *. subst g1.
  exists pl1. repeat split; try assumption.
  intros y Hy. pose proof (pool_add_frame pm pl p y Hy) as F. rewrite E in F. exact F.
Qed.

(* continuation packets: appended *)
Lemma feed_conts x pm : (Z.eqb x C_PIDPAT || pm_mem pm x) = false ->
  forall rest q' pe pl c, sorted pl -> qof pl x = q' ++ [pe] ->
  Forall (fun p => on_pid x p /\ pusi p = false /\ no_disc_flag p) rest ->
  map cc_of rest = ccs_from c (length rest) -> cc_wf c -> cc_of pe = cc_val c -> cc_val c <= 15 ->
  has_payload pe = true -> (no_disc_flag pe \/ pusi pe = true) ->
  exists pl', feed P pl pm rest = Some (pl', pm, []) /\ sorted pl' /\ qof pl' x = (q' ++ [pe]) ++ rest /\
              (forall y, y <> x -> qof pl' y = qof pl y).
Proof.
  intros Hn. induction rest as [|e rest IH]; intros q' pe pl c Hs Hq Hall Hccs Hc Hpe Hle Hhp Hdp.
  - exists pl. cbn [feed]. rewrite app_nil_r. repeat split; auto.
  - inversion Hall as [|? ? (Hon & Hpu & Hnd) Hall']; subst. cbn [length ccs_from map] in Hccs.
    injection Hccs as Hce Hccs'.
    destruct (inc_st_spec c Hc) as (Hc' & Hr' & Hstep). specialize (Hstep Hle).
    assert (Hcce : cc_of e = (cc_of pe + 1) mod 16) by (rewrite Hce, Hpe; exact Hstep).
    pose proof Hon as (_ & _ & Hhe).
    assert (Hrange : 0 <= cc_of pe < 16) by (destruct Hc as [_ Hc0]; rewrite Hpe; lia).
    assert (Hacc : acc_add pm x (qof pl x) e = ((q' ++ [pe]) ++ [e], [])).
    { rewrite Hq, (acc_add_next pm x q' pe e Hn Hhe Hhp Hrange Hcce (or_introl Hnd) Hdp), Hpu. reflexivity. }
    destruct (pool_add_step pm pl e x _ _ Hs Hon Hacc) as (pl1 & Hadd & Hs1 & Hq1 & Hfr1).
    cbn [feed]. rewrite Hadd.
    destruct (IH (q' ++ [pe]) e pl1 (wrappingCounter_inc_st c) Hs1 Hq1 Hall' Hccs' Hc' Hce ltac:(lia) Hhe (or_introl Hnd))
      as (pl' & Hf & Hs' & Hq'' & Hfr').
    exists pl'. split; [exact Hf|]. split; [exact Hs'|]. split.
    + rewrite Hq'', <- !app_assoc. reflexivity.
    + intros y Hy. rewrite (Hfr' y Hy). apply Hfr1, Hy.
Qed.

(* what PID x has pending when a unit arrives: nothing, or packets ending with the one that carried the previous
   counter value, parsed by parseData to the data [prev_out] (which registers no program) *)
Definition pending_ok (pm : pmap) (x : Z) (c : wrappingCounter) (q : list Packet) (prev_out : list DemuxerData) : Prop :=
  (q = [] /\ prev_out = []) \/
  (exists q' pe, q = q' ++ [pe] /\ has_payload pe = true /\ cc_of pe = cc_val c /\ cc_val c <= 15 /\
                 (no_disc_flag pe \/ pusi pe = true) /\
                 parse_data P None pm q = Ok prev_out /\ pm_after pm prev_out = pm).

(* the payload packets of a unit: p1 with payload_unit_start, then continuation packets, counters consecutive from c *)
Theorem feed_unit_payload x pm p1 rest pl c prev_out :
  (Z.eqb x C_PIDPAT || pm_mem pm x) = false -> sorted pl ->
  on_pid x p1 -> pusi p1 = true ->
  Forall (fun p => on_pid x p /\ pusi p = false /\ no_disc_flag p) rest ->
  map cc_of (p1 :: rest) = ccs_from c (S (length rest)) -> cc_wf c ->
  pending_ok pm x c (qof pl x) prev_out ->
  exists pl', feed P pl pm (p1 :: rest) = Some (pl', pm, prev_out) /\ sorted pl' /\ qof pl' x = p1 :: rest /\
              (forall y, y <> x -> qof pl' y = qof pl y).
Proof.
  intros Hn Hs Hon Hpu Hall Hccs Hc Hpend.
  cbn [ccs_from map] in Hccs. injection Hccs as Hc1 Hccs'.
  destruct (inc_st_spec c Hc) as (Hc' & Hr' & Hstep).
  pose proof Hon as (_ & _ & Hh1).
  assert (Hacc : acc_add pm x (qof pl x) p1 = ([p1], qof pl x)).
  { destruct Hpend as [(Hq & _)|(q' & pe & Hq & Hhp & Hpe & Hle & Hdp & _)].
    - rewrite Hq. apply acc_add_first, Hn.
    - assert (Hrange : 0 <= cc_of pe < 16) by (destruct Hc as [_ Hc0]; rewrite Hpe; lia).
      rewrite Hq, (acc_add_next pm x q' pe p1 Hn Hh1 Hhp Hrange), Hpu; [reflexivity| |right; exact Hpu|exact Hdp].
      rewrite Hc1, Hpe. apply Hstep, Hle. }
  destruct (pool_add_step pm pl p1 x _ _ Hs Hon Hacc) as (pl1 & Hadd & Hs1 & Hq1 & Hfr1).
  cbn [feed]. rewrite Hadd.
  assert (Hcont : forall pm', (Z.eqb x C_PIDPAT || pm_mem pm' x) = false -> pm' = pm ->
            exists pl', feed P pl1 pm' rest = Some (pl', pm', []) /\ sorted pl' /\ qof pl' x = p1 :: rest /\
                        (forall y, y <> x -> qof pl' y = qof pl y)).
  { intros pm' Hn' ->.
    destruct (feed_conts x pm Hn rest [] p1 pl1 (wrappingCounter_inc_st c) Hs1 Hq1 Hall Hccs' Hc' Hc1 ltac:(lia) Hh1 (or_intror Hpu))
      as (pl' & Hf & Hs' & Hq' & Hfr').
    exists pl'. repeat split; try assumption. intros y Hy. rewrite (Hfr' y Hy). apply Hfr1, Hy. }
  destruct Hpend as [(Hq & ->)|(q' & pe & Hq & _ & _ & _ & _ & Hparse & Hpm)].
  - rewrite Hq. apply Hcont; [exact Hn|reflexivity].
  - revert Hparse. destruct (qof pl x) as [|g0 g'] eqn:Eg; intros Hparse; [destruct q'; discriminate Hq|]. rewrite Hparse, Hpm.
    destruct (Hcont pm Hn eq_refl) as (pl' & Hf & Hrest). rewrite Hf, app_nil_r. exists pl'. split; [reflexivity|exact Hrest].
Qed.

End Feed.

(* ---------------- parseData on the group of a unit ---------------- *)

Lemma concat_payload_map ps : concat_payload ps = concat (map Packet_Payload ps).
Proof. unfold concat_payload. apply flat_map_concat_map. Qed.

Lemma is_pes_payload_start tail : isPESPayload (0 :: 0 :: 1 :: tail) = true.
Proof.
  unfold isPESPayload. cbn [length]. destruct (Z.of_nat (S (S (S (length tail)))) <? 3) eqn:E; [lia|]. reflexivity.
Qed.

(* PIDs on which the demuxer looks for PES packets whatever the tables say (DESIGN S2) *)
Definition es_pid (x : Z) : Prop := 32 <= x < 8191 /\ x <> C_pmtStartPID.

Lemma es_pid_not_psi x pm : es_pid x -> pm_mem pm x = false ->
  (x =? C_PIDCAT) = false /\ isPSIPayload x (pm_mem pm) = false /\ (Z.eqb x C_PIDPAT || pm_mem pm x) = false.
Proof.
  intros [Hr Hne] Hpm. unfold isPSIPayload, C_PIDCAT, C_PIDPAT. rewrite Hpm. repeat split; lia.
Qed.

(* the first packet as FirstPacket reports it: header and adaptation field, no payload *)
Definition first_packet_of (p : Packet) : Packet :=
  {| Packet_AdaptationField := Packet_AdaptationField p; Packet_Header := Packet_Header p; Packet_Payload := [] |}.

(* the datum NextData delivers for a PES written with header h (stream id filled in) and payload data on PID x,
   whose first payload packet the demuxer saw as p1 *)
Definition pes_datum (x : Z) (p1 : Packet) (h : PESHeader) (data : list Z) : DemuxerData :=
  pes_data (first_packet_of p1)
           {| PESData_Data := data; PESData_Header := Some (observed_header h (Z.of_nat (length data))) |} x.

Theorem parse_unit_group x pm p1 rest h data :
  es_pid x -> pm_mem pm x = false -> pid_of p1 = x -> wf_header h -> bytes_ok data ->
  concat (map Packet_Payload (p1 :: rest)) = pes_header_bytes h (Z.of_nat (length data)) ++ data ->
  parse_data full_parsers None pm (p1 :: rest) = Ok [pes_datum x p1 h data] /\
  pm_after pm [pes_datum x p1 h data] = pm.
Proof.
  intros Hx Hpm Hpid Wh Hb Hcat. split; [|reflexivity].
  destruct (es_pid_not_psi x pm Hx Hpm) as (H1 & H2 & _).
  unfold parse_data. rewrite Hpid, H1, H2, concat_payload_map, Hcat.
  destruct (parse_write_header h data Wh Hb) as (its & n & Henc & _ & Hparse).
  unfold pes_header_bytes. rewrite Henc.
  destruct (pes_header_start_code _ _ _ _ Henc) as (tail & Htail).
  rewrite Htail at 1. cbn [app]. rewrite is_pes_payload_start.
  cbn [full_parsers dp_pes]. rewrite Hparse. reflexivity.
Qed.
