(* C14, offset-generalised: a descriptor loop that sits at ANY offset of a larger buffer -- arbitrary bytes before
   it and behind it, the four bits in front of the 12-bit loop length arbitrary (the writer emits 1111, the SDT / EIT
   carry running_status / free_CA there) -- is parsed by parseDescriptors, started at that offset, into the
   entry-wise results of typed_rt (all 25 classes: the 23 typed tags, unknown tags, user-defined tags; empty bodies as
   bare headers), and the iterator stops right behind the loop.  This is how the table parsers call it.
   Every body parser that reads with absolute offsets (offsetEnd, i.Offset(), i.Len()) is covered: body_rt
   (Proofs/DescProofs.v) is already stated for a body at any position of any buffer.
   Second part: the parsed form is a NORMAL FORM of the writer: what comes back (Length = body size, only the body of
   its tag present) is written as the same bytes and parses back to itself. *)
From Coq Require Import ZArith List Lia Bool ZifyBool.
Require Import Base.Bits Base.Iter Base.Wr Gen.Consts Gen.Types Gen.Preds Model.Dvb Model.Desc Spec.DescSpec Spec.DvbSpec
  Proofs.DescProofs Proofs.DescRoundTrip2 Proofs.DescRoundTrip3 Proofs.DescRoundTrip4 Proofs.DescRoundTripAll.
Import ListNotations.
Open Scope Z_scope.

(* ---------- the loop at offset zlen pre, header bytes h0 h1 with the loop length in their low 12 bits ---------- *)
Lemma loop_at_bodies ds ds' bodies pre h0 h1 rest :
  Forall2 entry_rt ds ds' -> Forall2 body_facts ds bodies ->
  (h0 mod 16) * 256 + h1 mod 256 = loop_size ds ->
  let buf := pre ++ h0 :: h1 :: loop_bytes ds bodies ++ rest in
  parse_descriptors (mk_iter buf (zlen pre)) = Ok (ds', mk_iter buf (zlen pre + 2 + loop_size ds)).
Proof.
  intros HR HB Hh buf.
  pose proof (zlen_nonneg pre) as Hpn. pose proof (loop_size_nonneg ds) as Hnn.
  pose proof (zlen_nonneg (loop_bytes ds bodies ++ rest)) as Hrn.
  assert (Hz : zlen buf = zlen pre + 2 + zlen (loop_bytes ds bodies ++ rest)).
  { unfold buf. rewrite zlen_app, !zlen_cons. lia. }
  assert (Hl0 : loop_length_at buf (zlen pre) = loop_size ds).
  { unfold loop_length_at, buf. rewrite byte_of_mid0, byte_of_mid1. exact Hh. }
  unfold parse_descriptors.
  apply parse_descriptors_complete; [apply pres_parse_descriptor_body|lia|lia|].
  rewrite Hl0.
  assert (Eb : buf = (pre ++ [h0; h1]) ++ loop_bytes ds bodies ++ rest) by (unfold buf; rewrite <- app_assoc; reflexivity).
  rewrite Eb. replace (zlen pre + 2) with (zlen (pre ++ [h0; h1])) by (rewrite zlen_app; reflexivity).
  apply loop_tlv; [exact HR|exact HB|reflexivity].
Qed.

Lemma wf_entries_rt ds ds' : Forall2 wf_entry ds ds' -> Forall2 entry_rt ds ds'.
Proof. induction 1; constructor; [apply wf_entry_rt; assumption|assumption]. Qed.

Lemma wf_entries_small ds ds' : Forall2 wf_entry ds ds' -> Forall (fun d => desc_size d < 256) ds.
Proof. induction 1 as [|d d' ds ds' (_ & Hlt & _) _ IH]; constructor; assumption. Qed.

(* the loop BODY the writer emits (writeDescriptors), behind any two bytes that carry its length *)
Theorem loop_body_at ds ds' its pre h0 h1 rest :
  enc_descriptors ds = Ok its -> items_bytes_ok its -> Forall2 wf_entry ds ds' ->
  (h0 mod 16) * 256 + h1 mod 256 = loop_size ds ->
  let buf := pre ++ h0 :: h1 :: bytes_of_items its ++ rest in
  parse_descriptors (mk_iter buf (zlen pre)) = Ok (ds', mk_iter buf (zlen pre + 2 + loop_size ds)).
Proof.
  intros E Hok HR Hh.
  destruct (enc_descriptors_bodies ds its E Hok (wf_entries_small _ _ HR)) as (bodies & Eb & HB).
  rewrite Eb. apply loop_at_bodies; [apply wf_entries_rt; exact HR|exact HB|exact Hh].
Qed.

(* the whole loop the writer emits (writeDescriptorsWithLength: 1111, length(12), entries) at any offset *)
Theorem loop_roundtrip_at ds ds' out pre rest :
  enc_descriptors_with_length ds = Ok out -> items_bytes_ok out -> loop_size ds < 4096 ->
  Forall2 wf_entry ds ds' ->
  let buf := pre ++ bytes_of_items out ++ rest in
  parse_descriptors (mk_iter buf (zlen pre)) = Ok (ds', mk_iter buf (zlen pre + 2 + loop_size ds)).
Proof.
  intros H Hok Hl HR.
  pose proof (wf_entries_small _ _ HR) as HF.
  destruct (descriptors_with_length_exact ds out H Hok HF Hl) as (hdr0 & bodies0 & _ & _ & _ & Hbits & Hlen).
  unfold enc_descriptors_with_length in H.
  destruct (enc_descriptors ds) as [its| |] eqn:E; cbn [res_map] in H; try discriminate H.
  assert (Eo : out = [WBits 4 255; WBits 12 (calc_descriptors_length ds)] ++ its) by (inversion H; reflexivity).
  subst out; clear H. apply items_bytes_ok_app_inv in Hok. destruct Hok as [Hoh Hoi].
  set (hd := [WBits 4 255; WBits 12 (calc_descriptors_length ds)]) in *.
  assert (Hh2 : zlen (bytes_of_items hd) = 2) by (apply bytes_of_items_zlen; [assumption|unfold hd; bl; reflexivity]).
  destruct (bytes_of_items hd) as [|h0 [|h1 [|h2 hl]]] eqn:Ehd; unfold zlen in Hh2; cbn [length] in Hh2; try lia.
  rewrite (bytes_of_items_app hd its 2) in * by (auto; unfold hd; bl; reflexivity). rewrite Ehd in *.
  assert (Hh : (h0 mod 16) * 256 + h1 mod 256 = loop_size ds).
  { rewrite Hlen in Hbits. cbn [app] in Hbits. rewrite bitsf_prefix2 in Hbits.
    rewrite <- (loop_length_bits [h0; h1] h0 h1 eq_refl eq_refl eq_refl). lia. }
  cbn zeta. rewrite <- app_assoc. cbn [app].
  apply (loop_body_at ds ds' its pre h0 h1 rest E Hoi HR Hh).
Qed.

(* the same for an iterator given by what lies at its offset (the cursor view the table theorems use) *)
Lemma cursor_split i a : 0 <= ioff i -> skipn (Z.to_nat (ioff i)) (ibs i) = a -> a <> [] ->
  exists pre, i = mk_iter (pre ++ a) (zlen pre).
Proof.
  intros H0 Hs Ha. exists (firstn (Z.to_nat (ioff i)) (ibs i)).
  assert (Hle : (Z.to_nat (ioff i) <= length (ibs i))%nat).
  { destruct (Nat.le_gt_cases (Z.to_nat (ioff i)) (length (ibs i))) as [Hle|Hgt]; [exact Hle|].
    rewrite skipn_all2 in Hs by lia. congruence. }
  destruct i as [bs o]. cbn [ibs ioff] in *. f_equal.
  - rewrite <- Hs. symmetry. apply firstn_skipn.
  - unfold zlen. rewrite firstn_length, Nat.min_l by exact Hle. lia.
Qed.

Theorem loop_roundtrip_cursor ds ds' out i rest :
  enc_descriptors_with_length ds = Ok out -> items_bytes_ok out -> loop_size ds < 4096 ->
  Forall2 wf_entry ds ds' ->
  0 <= ioff i -> skipn (Z.to_nat (ioff i)) (ibs i) = bytes_of_items out ++ rest ->
  parse_descriptors i = Ok (ds', mk_iter (ibs i) (ioff i + 2 + loop_size ds)).
Proof.
  intros H Hok Hl HR H0 Hs.
  assert (Hne : bytes_of_items out ++ rest <> []).
  { pose proof (wf_entries_small _ _ HR) as HF.
    destruct (descriptors_with_length_exact ds out H Hok HF Hl) as (_ & _ & _ & _ & _ & _ & Hlen).
    pose proof (loop_size_nonneg ds). intros Hn. apply app_eq_nil in Hn. destruct Hn as [Hn _]. rewrite Hn in Hlen.
    unfold zlen in Hlen. cbn [length] in Hlen. lia. }
  destruct (cursor_split i _ H0 Hs Hne) as (pre & ->). cbn [ibs ioff].
  apply (loop_roundtrip_at ds ds' out pre rest H Hok Hl HR).
Qed.

(* ---------- the parsed form is a normal form of the writer ---------- *)
(* decide the tests of a tag switch whose tag is a literal *)
Ltac step_if :=
  match goal with
  | |- context [if ?c then _ else _] =>
      let b := eval vm_compute in c in
      match b with
      | true => change c with true
      | false => change c with false
      end; cbv iota
  end.

Ltac same_fields :=
  unfold calc_descriptor_length, enc_descriptor_body, desc_size;
  cbn [Descriptor_Tag Descriptor_Length Descriptor_AC3 Descriptor_AVCVideo Descriptor_Component Descriptor_Content
       Descriptor_DataStreamAlignment Descriptor_EnhancedAC3 Descriptor_ExtendedEvent Descriptor_Extension
       Descriptor_ISO639LanguageAndAudioType Descriptor_LocalTimeOffset Descriptor_MaximumBitrate Descriptor_NetworkName
       Descriptor_ParentalRating Descriptor_PrivateDataIndicator Descriptor_PrivateDataSpecifier Descriptor_Registration
       Descriptor_Service Descriptor_ShortEvent Descriptor_StreamIdentifier Descriptor_Subtitling Descriptor_Teletext
       Descriptor_Unknown Descriptor_UserDefined Descriptor_VBIData Descriptor_VBITeletext
       set_UserDefined set_Unknown set_AC3 set_AVCVideo set_Component set_Content
       set_DataStreamAlignment set_EnhancedAC3 set_ExtendedEvent set_Extension set_ISO639LanguageAndAudioType set_LocalTimeOffset
       set_MaximumBitrate set_NetworkName set_ParentalRating set_PrivateDataIndicator set_PrivateDataSpecifier set_Registration
       set_Service set_ShortEvent set_StreamIdentifier set_Subtitling set_Teletext set_VBIData set_VBITeletext desc_hdr];
  repeat match goal with
  | H : Descriptor_Tag ?d = _ |- _ => rewrite H; clear H
  end;
  repeat step_if;
  repeat match goal with
  | H : _ ?d = Some _ |- _ => rewrite H; clear H
  end.

(* what typed_rt returns has the tag, the computed length byte, the body items and the reference size of what was written *)
Lemma typed_rt_same d d' : typed_rt d d' ->
  Descriptor_Tag d' = Descriptor_Tag d /\ calc_descriptor_length d' = calc_descriptor_length d /\
  enc_descriptor_body d' = enc_descriptor_body d /\ desc_size d' = desc_size d.
Proof.
  destruct 1.
  1: { assert (Hu : is_user_defined (Descriptor_Tag d) = true) by (unfold is_user_defined; lia).
    assert (Hs : spec_is_user_defined (Descriptor_Tag d) = true) by (rewrite <- is_user_defined_spec; exact Hu).
    unfold calc_descriptor_length, enc_descriptor_body, desc_size.
    cbn [Descriptor_Tag Descriptor_UserDefined set_UserDefined desc_hdr]. rewrite Hu, Hs. repeat split; reflexivity. }
  1: { assert (Hs : spec_is_user_defined (Descriptor_Tag d) = false) by (rewrite <- is_user_defined_spec; assumption).
    unfold calc_descriptor_length, enc_descriptor_body, desc_size.
    cbn [Descriptor_Tag Descriptor_Unknown set_Unknown desc_hdr].
    match goal with H : is_user_defined _ = false |- _ => rewrite H end. rewrite Hs.
    match goal with H : ~ In _ typed_tags |- _ => not_typed H end.
    match goal with H : Descriptor_Unknown d = Some _ |- _ => rewrite H end. repeat split; reflexivity. }
  all: same_fields; repeat split; reflexivity.
Qed.

(* ... and is in the domain of its tag, coming back as itself *)
Lemma typed_rt_idem d d' : typed_rt d d' -> typed_rt d' d'.
Proof.
  destruct 1.
  - refine (trt_user_defined (set_UserDefined (desc_hdr (Descriptor_Tag d) (zlen (Descriptor_UserDefined d))) (Descriptor_UserDefined d)) _ _); assumption.
  - refine (trt_unknown (set_Unknown (desc_hdr (Descriptor_Tag d) (zlen (DescriptorUnknown_Content v))) v) v _ _ _ _ _ _); try assumption; reflexivity.
  - apply (trt_ac3 _ v); try assumption; reflexivity.
  - apply (trt_avc_video _ v); try assumption; reflexivity.
  - apply (trt_component _ v); try assumption; reflexivity.
  - apply (trt_content _ v); try assumption; reflexivity.
  - apply (trt_data_stream_alignment _ v); try assumption; reflexivity.
  - apply (trt_enhanced_ac3 _ v); try assumption; reflexivity.
  - apply (trt_extended_event _ v); try assumption; reflexivity.
  - apply (trt_extension _ v); try assumption; reflexivity.
  - apply (trt_iso639 _ v); try assumption; reflexivity.
  - apply (trt_local_time_offset _ v); try assumption; reflexivity.
  - apply (trt_maximum_bitrate _ v k); try assumption; reflexivity.
  - apply (trt_network_name _ v); try assumption; reflexivity.
  - apply (trt_parental_rating _ v); try assumption; reflexivity.
  - apply (trt_private_data_indicator _ v); try assumption; reflexivity.
  - apply (trt_private_data_specifier _ v); try assumption; reflexivity.
  - apply (trt_registration _ v); try assumption; reflexivity.
  - apply (trt_service _ v); try assumption; reflexivity.
  - apply (trt_short_event _ v); try assumption; reflexivity.
  - apply (trt_stream_identifier _ v); try assumption; reflexivity.
  - apply (trt_subtitling _ v); try assumption; reflexivity.
  - apply (trt_teletext _ v); try assumption; reflexivity.
  - apply (trt_vbi_data _ v); try assumption; reflexivity.
  - apply (trt_vbi_teletext _ v); try assumption; reflexivity.
Qed.

(* the bare header of any tag: nothing to write behind the length byte 0 *)
Lemma bare_header_same tag : calc_descriptor_length (desc_hdr tag 0) = 0 /\ desc_size (desc_hdr tag 0) = 0.
Proof.
  unfold calc_descriptor_length, desc_size.
  cbn [Descriptor_Tag Descriptor_Length Descriptor_AC3 Descriptor_AVCVideo Descriptor_Component Descriptor_Content
       Descriptor_DataStreamAlignment Descriptor_EnhancedAC3 Descriptor_ExtendedEvent Descriptor_Extension
       Descriptor_ISO639LanguageAndAudioType Descriptor_LocalTimeOffset Descriptor_MaximumBitrate Descriptor_NetworkName
       Descriptor_ParentalRating Descriptor_PrivateDataIndicator Descriptor_PrivateDataSpecifier Descriptor_Registration
       Descriptor_Service Descriptor_ShortEvent Descriptor_StreamIdentifier Descriptor_Subtitling Descriptor_Teletext
       Descriptor_Unknown Descriptor_UserDefined Descriptor_VBIData Descriptor_VBITeletext desc_hdr].
  split; repeat match goal with |- context [if ?c then _ else _] => destruct c end; reflexivity.
Qed.

(* an entry of a loop and its parsed form are written as the same items *)
Lemma wf_entry_same d d' : wf_entry d d' ->
  Descriptor_Tag d' = Descriptor_Tag d /\ desc_size d' = desc_size d /\ calc_descriptor_length d' = calc_descriptor_length d /\ enc_descriptor d' = enc_descriptor d.
Proof.
  intros (Ht & Hs & [[H0 ->]|[Hp Hr]]).
  - destruct (bare_header_same (Descriptor_Tag d)) as [Hc Hd]. destruct (emitted_nowrap d Hs) as [_ Ec].
    split; [reflexivity|]. split; [lia|]. split; [lia|].
    unfold enc_descriptor. rewrite Hc, Ec, H0. change (0 =? 0) with true. cbv iota. reflexivity.
  - destruct (typed_rt_same d d' Hr) as (E1 & E2 & E3 & E4). split; [exact E1|]. split; [exact E4|]. split; [exact E2|].
    unfold enc_descriptor. rewrite E1, E2, E3. reflexivity.
Qed.

Lemma wf_entry_idem d d' : wf_entry d d' -> wf_entry d' d'.
Proof.
  intros H. destruct (wf_entry_same d d' H) as (E1 & E4 & _ & _). destruct H as (Ht & Hs & Hc).
  split; [rewrite E1; exact Ht|]. split; [rewrite E4; exact Hs|]. rewrite E1, E4.
  destruct Hc as [[H0 ->]|[Hp Hr]].
  - left. split; [exact H0|reflexivity].
  - right. split; [exact Hp|apply (typed_rt_idem d d' Hr)].
Qed.

(* loops: the parsed list is written as the same items, has the same sizes, and parses back to itself *)
Lemma wf_entries_same ds ds' : Forall2 wf_entry ds ds' ->
  enc_descriptors ds' = enc_descriptors ds /\ loop_size ds' = loop_size ds /\ calc_descriptors_length ds' = calc_descriptors_length ds /\ (forall a, fold_left (fun k d => k + (2 + calc_descriptor_length d)) ds' a =
             fold_left (fun k d => k + (2 + calc_descriptor_length d)) ds a) /\ Forall2 wf_entry ds' ds'.
Proof.
  unfold calc_descriptors_length. generalize 0 at 1 2 as acc. intros acc H. revert acc.
  induction H as [|d d' ds ds' H _ IH]; intros acc.
  - repeat split; constructor.
  - destruct (wf_entry_same d d' H) as (_ & E4 & E2 & E5).
    destruct (IH (((acc + 2) mod 65536 + calc_descriptor_length d) mod 65536)) as (I1 & I2 & I3 & I4 & I5).
    split; [cbn [enc_descriptors]; rewrite E5, I1; reflexivity|].
    split; [rewrite !loop_size_cons, E4, I2; reflexivity|].
    split; [cbn [fold_left]; rewrite E2; exact I3|].
    split; [intros a; cbn [fold_left]; rewrite E2; apply I4|].
    constructor; [apply (wf_entry_idem d d' H)|exact I5].
Qed.
