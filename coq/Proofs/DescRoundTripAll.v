(* C14, loops of descriptors of mixed tags over ALL 25 tag classes: typed_rt collects the domains of the per-tag
   round trips (23 typed tags, unknown tags, user-defined tags) and wf_entry adds the normal form of empty bodies
   (S7); loop_roundtrip_all is loop_roundtrip with body_rt discharged for every class. *)
From Coq Require Import ZArith List Lia Bool ZifyBool.
Require Import Base.Bits Base.Iter Base.Wr Gen.Consts Gen.Types Gen.Preds Model.Dvb Model.Desc Spec.DescSpec Spec.DvbSpec
  Proofs.DescProofs Proofs.DescRoundTrip2 Proofs.DescRoundTrip3 Proofs.DescRoundTrip4.
Import ListNotations.
Open Scope Z_scope.

(* typed_rt d d': d is in the round-trip domain of its tag and d' is what comes back: the body of d's tag under the
   header (tag, body size) — whatever Descriptor_Length and the other 24 body fields of d hold *)
Inductive typed_rt (d : Descriptor) : Descriptor -> Prop :=
| trt_user_defined :
    128 <= Descriptor_Tag d <= 254 -> 0 < zlen (Descriptor_UserDefined d) < 256 ->
    typed_rt d (set_UserDefined (desc_hdr (Descriptor_Tag d) (zlen (Descriptor_UserDefined d))) (Descriptor_UserDefined d))
| trt_unknown v :
    0 <= Descriptor_Tag d < 256 -> is_user_defined (Descriptor_Tag d) = false -> ~ In (Descriptor_Tag d) typed_tags ->
    Descriptor_Unknown d = Some v -> DescriptorUnknown_Tag v = Descriptor_Tag d -> 0 < zlen (DescriptorUnknown_Content v) < 256 ->
    typed_rt d (set_Unknown (desc_hdr (Descriptor_Tag d) (zlen (DescriptorUnknown_Content v))) v)
| trt_ac3 v : Descriptor_Tag d = 106 -> Descriptor_AC3 d = Some v -> wf_ac3 v ->
    typed_rt d (set_AC3 (desc_hdr 106 (size_ac3 v)) v)
| trt_avc_video v : Descriptor_Tag d = 40 -> Descriptor_AVCVideo d = Some v ->
    byte_range (DescriptorAVCVideo_ProfileIDC v) -> byte_range (DescriptorAVCVideo_LevelIDC v) ->
    0 <= DescriptorAVCVideo_CompatibleFlags v < 32 ->
    typed_rt d (set_AVCVideo (desc_hdr 40 4) v)
| trt_component v : Descriptor_Tag d = 80 -> Descriptor_Component d = Some v -> wf_component v ->
    typed_rt d (set_Component (desc_hdr 80 (6 + zlen (DescriptorComponent_Text v))) v)
| trt_content v : Descriptor_Tag d = 84 -> Descriptor_Content d = Some v -> Forall wf_content_item (DescriptorContent_Items v) ->
    typed_rt d (set_Content (desc_hdr 84 (2 * zlen (DescriptorContent_Items v))) v)
| trt_data_stream_alignment v : Descriptor_Tag d = 6 -> Descriptor_DataStreamAlignment d = Some v ->
    byte_range (DescriptorDataStreamAlignment_Type v) ->
    typed_rt d (set_DataStreamAlignment (desc_hdr 6 1) v)
| trt_enhanced_ac3 v : Descriptor_Tag d = 122 -> Descriptor_EnhancedAC3 d = Some v -> wf_enhanced_ac3 v ->
    typed_rt d (set_EnhancedAC3 (desc_hdr 122 (size_enhanced_ac3 v)) v)
| trt_extended_event v : Descriptor_Tag d = 78 -> Descriptor_ExtendedEvent d = Some v -> wf_extended_event v ->
    typed_rt d (set_ExtendedEvent (desc_hdr 78 (size_extended_event v)) v)
| trt_extension v : Descriptor_Tag d = 127 -> Descriptor_Extension d = Some v -> wf_extension v ->
    typed_rt d (set_Extension (desc_hdr 127 (size_extension v)) v)
| trt_iso639 v : Descriptor_Tag d = 10 -> Descriptor_ISO639LanguageAndAudioType d = Some v ->
    length (DescriptorISO639LanguageAndAudioType_Language v) = 3%nat -> byte_range (DescriptorISO639LanguageAndAudioType_Type v) ->
    typed_rt d (set_ISO639LanguageAndAudioType (desc_hdr 10 4) v)
| trt_local_time_offset v : Descriptor_Tag d = 88 -> Descriptor_LocalTimeOffset d = Some v ->
    Forall wf_local_time_offset_item (DescriptorLocalTimeOffset_Items v) ->
    typed_rt d (set_LocalTimeOffset (desc_hdr 88 (13 * zlen (DescriptorLocalTimeOffset_Items v))) v)
| trt_maximum_bitrate v k : Descriptor_Tag d = 14 -> Descriptor_MaximumBitrate d = Some v ->
    DescriptorMaximumBitrate_Bitrate v = k * 50 -> 0 <= k < 2 ^ 22 ->
    typed_rt d (set_MaximumBitrate (desc_hdr 14 3) v)
| trt_network_name v : Descriptor_Tag d = 64 -> Descriptor_NetworkName d = Some v -> 0 < zlen (DescriptorNetworkName_Name v) < 256 ->
    typed_rt d (set_NetworkName (desc_hdr 64 (zlen (DescriptorNetworkName_Name v))) v)
| trt_parental_rating v : Descriptor_Tag d = 85 -> Descriptor_ParentalRating d = Some v ->
    Forall wf_parental_rating_item (DescriptorParentalRating_Items v) ->
    typed_rt d (set_ParentalRating (desc_hdr 85 (4 * zlen (DescriptorParentalRating_Items v))) v)
| trt_private_data_indicator v : Descriptor_Tag d = 15 -> Descriptor_PrivateDataIndicator d = Some v ->
    0 <= DescriptorPrivateDataIndicator_Indicator v < 2 ^ 32 ->
    typed_rt d (set_PrivateDataIndicator (desc_hdr 15 4) v)
| trt_private_data_specifier v : Descriptor_Tag d = 95 -> Descriptor_PrivateDataSpecifier d = Some v ->
    0 <= DescriptorPrivateDataSpecifier_Specifier v < 2 ^ 32 ->
    typed_rt d (set_PrivateDataSpecifier (desc_hdr 95 4) v)
| trt_registration v : Descriptor_Tag d = 5 -> Descriptor_Registration d = Some v ->
    0 <= DescriptorRegistration_FormatIdentifier v < 2 ^ 32 -> zlen (DescriptorRegistration_AdditionalIdentificationInfo v) < 252 ->
    typed_rt d (set_Registration (desc_hdr 5 (4 + zlen (DescriptorRegistration_AdditionalIdentificationInfo v))) v)
| trt_service v : Descriptor_Tag d = 72 -> Descriptor_Service d = Some v -> byte_range (DescriptorService_Type v) ->
    3 + zlen (DescriptorService_Provider v) + zlen (DescriptorService_Name v) < 256 ->
    typed_rt d (set_Service (desc_hdr 72 (3 + zlen (DescriptorService_Provider v) + zlen (DescriptorService_Name v))) v)
| trt_short_event v : Descriptor_Tag d = 77 -> Descriptor_ShortEvent d = Some v -> length (DescriptorShortEvent_Language v) = 3%nat ->
    5 + zlen (DescriptorShortEvent_EventName v) + zlen (DescriptorShortEvent_Text v) < 256 ->
    typed_rt d (set_ShortEvent (desc_hdr 77 (5 + zlen (DescriptorShortEvent_EventName v) + zlen (DescriptorShortEvent_Text v))) v)
| trt_stream_identifier v : Descriptor_Tag d = 82 -> Descriptor_StreamIdentifier d = Some v ->
    byte_range (DescriptorStreamIdentifier_ComponentTag v) ->
    typed_rt d (set_StreamIdentifier (desc_hdr 82 1) v)
| trt_subtitling v : Descriptor_Tag d = 89 -> Descriptor_Subtitling d = Some v -> Forall wf_subtitling_item (DescriptorSubtitling_Items v) ->
    typed_rt d (set_Subtitling (desc_hdr 89 (8 * zlen (DescriptorSubtitling_Items v))) v)
| trt_teletext v : Descriptor_Tag d = 86 -> Descriptor_Teletext d = Some v -> Forall wf_teletext_item (DescriptorTeletext_Items v) ->
    typed_rt d (set_Teletext (desc_hdr 86 (5 * zlen (DescriptorTeletext_Items v))) v)
| trt_vbi_data v : Descriptor_Tag d = 69 -> Descriptor_VBIData d = Some v -> Forall wf_vbi_service (DescriptorVBIData_Services v) ->
    typed_rt d (set_VBIData (desc_hdr 69 (size_vbi_data v)) v)
| trt_vbi_teletext v : Descriptor_Tag d = 70 -> Descriptor_VBITeletext d = Some v -> Forall wf_teletext_item (DescriptorTeletext_Items v) ->
    typed_rt d (set_VBITeletext (desc_hdr 70 (5 * zlen (DescriptorTeletext_Items v))) v).

Lemma typed_rt_body d d' : typed_rt d d' -> body_rt d d'.
Proof.
  destruct 1.
  - apply brt_user_defined; assumption.
  - apply brt_unknown; assumption.
  - apply brt_ac3; assumption.
  - apply brt_avc_video; assumption.
  - apply brt_component; assumption.
  - apply brt_content; assumption.
  - apply brt_data_stream_alignment; assumption.
  - apply brt_enhanced_ac3; assumption.
  - apply brt_extended_event; assumption.
  - apply brt_extension; assumption.
  - apply brt_iso639; assumption.
  - apply brt_local_time_offset; assumption.
  - eapply brt_maximum_bitrate; eassumption.
  - apply brt_network_name; assumption.
  - apply brt_parental_rating; assumption.
  - apply brt_private_data_indicator; assumption.
  - apply brt_private_data_specifier; assumption.
  - apply brt_registration; assumption.
  - apply brt_service; assumption.
  - apply brt_short_event; assumption.
  - apply brt_stream_identifier; assumption.
  - apply brt_subtitling; assumption.
  - apply brt_teletext; assumption.
  - apply brt_vbi_data; assumption.
  - apply brt_vbi_teletext; assumption.
Qed.

(* what comes back carries the tag of d and the body size as its Length *)
Lemma typed_rt_header d d' : typed_rt d d' -> Descriptor_Tag d' = Descriptor_Tag d /\ Descriptor_Length d' = desc_size d.
Proof.
  destruct 1; cbn [Descriptor_Tag Descriptor_Length set_UserDefined set_Unknown set_AC3 set_AVCVideo set_Component set_Content
    set_DataStreamAlignment set_EnhancedAC3 set_ExtendedEvent set_Extension set_ISO639LanguageAndAudioType set_LocalTimeOffset
    set_MaximumBitrate set_NetworkName set_ParentalRating set_PrivateDataIndicator set_PrivateDataSpecifier set_Registration
    set_Service set_ShortEvent set_StreamIdentifier set_Subtitling set_Teletext set_VBIData set_VBITeletext desc_hdr];
  unfold desc_size;
  repeat match goal with
  | H : Descriptor_Tag d = _ |- _ => rewrite H; clear H
  | H : _ d = Some _ |- _ => rewrite H; clear H
  end; try (split; reflexivity).
  - assert (Hu : spec_is_user_defined (Descriptor_Tag d) = true).
    { unfold spec_is_user_defined. apply andb_true_intro. split; apply Z.leb_le; lia. }
    rewrite Hu. split; reflexivity.
  - rewrite <- is_user_defined_spec, H0. not_typed H1. split; reflexivity.
Qed.

(* one entry of a loop: tag a byte, body at most 255 bytes; an empty body (zero items, empty name: S7) comes back as
   the bare header, any other body as typed_rt says *)
Definition wf_entry (d d' : Descriptor) : Prop :=
  0 <= Descriptor_Tag d < 256 /\ desc_size d < 256 /\
  ((desc_size d = 0 /\ d' = desc_hdr (Descriptor_Tag d) 0) \/ (0 < desc_size d /\ typed_rt d d')).

Lemma wf_entry_rt d d' : wf_entry d d' -> entry_rt d d'.
Proof.
  intros (Ht & Hs & Hc). split; [exact Ht|]. split; [exact Hs|].
  destruct Hc as [H0|[Hp Hr]]; [left; exact H0|right; split; [exact Hp|apply typed_rt_body; exact Hr]].
Qed.

Theorem loop_roundtrip_all ds ds' out rest :
  enc_descriptors_with_length ds = Ok out -> items_bytes_ok out -> loop_size ds < 4096 ->
  Forall2 wf_entry ds ds' ->
  parse_descriptors (new_iter (bytes_of_items out ++ rest)) = Ok (ds', mk_iter (bytes_of_items out ++ rest) (2 + loop_size ds)).
Proof.
  intros H Hok Hl HR. apply loop_roundtrip; try assumption.
  clear -HR. induction HR; constructor; [apply wf_entry_rt; assumption|assumption].
Qed.

(* the entry-wise result is determined by the loop: tags and lengths are those of the entries written *)
Lemma wf_entry_header d d' : wf_entry d d' -> Descriptor_Tag d' = Descriptor_Tag d /\ Descriptor_Length d' = desc_size d.
Proof.
  intros (_ & _ & [[H0 ->]|[_ Hr]]); [rewrite H0; split; reflexivity|apply typed_rt_header; exact Hr].
Qed.
