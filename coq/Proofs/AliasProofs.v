(* C16: no view of a reused buffer escapes; independent instances do not interfere. *)
From Coq Require Import ZArith List Bool String.
Require Import Base.Iter Gen.Types Gen.Alias Model.Packet Model.Reader Model.Demux Model.Muxer Proofs.DemuxProofs.
Import ListNotations.
Open Scope Z_scope.

Definition site_ok (s : asite) : bool :=
  match as_kind s with ANoCopy => negb (as_escapes s) | _ => true end.

(* every NextBytesNoCopy result (a view of the demuxer's read buffer or of the pooled scratch buffer) is only
   indexed, measured or passed to functions that do not retain it: the table is regenerated from the source on
   every run, so this is re-checked against what the code says now *)
Theorem no_view_escapes : forallb site_ok alias_sites = true.
Proof. vm_compute. reflexivity. Qed.

Theorem no_view_escapes_forall : forall s, In s alias_sites -> as_kind s = ANoCopy -> as_escapes s = false.
Proof.
  intros s Hin Hk. pose proof no_view_escapes as H. rewrite forallb_forall in H. specialize (H s Hin).
  unfold site_ok in H. rewrite Hk in H. destruct (as_escapes s); [discriminate|reflexivity].
Qed.

(* there ARE such sites (the theorem is not vacuous) *)
Example some_views : existsb (fun s => match as_kind s with ANoCopy => true | _ => false end) alias_sites = true.
Proof. vm_compute. reflexivity. Qed.

(* ---- package-level variables: nothing mutable is shared between the instances of a process ---- *)
Definition gvar_ok (g : gvar) : bool := match gv_class g with GShared => false | _ => true end.

(* every package-level variable is an error value, a read-only table, an unassigned scalar, or the sync.Pool wrapper
   (whose exclusive hand-out is sync.Pool's contract): regenerated from the source on every run *)
Theorem no_shared_globals : forallb gvar_ok global_vars = true.
Proof. vm_compute. reflexivity. Qed.

Theorem no_shared_globals_forall : forall g, In g global_vars -> gv_class g <> GShared.
Proof.
  intros g Hin. pose proof no_shared_globals as H. rewrite forallb_forall in H. specialize (H g Hin).
  unfold gvar_ok in H. destruct (gv_class g); discriminate.
Qed.

Example some_globals : existsb (fun g => match gv_class g with GPool => true | _ => false end) global_vars = true.
Proof. vm_compute. reflexivity. Qed.

(* ---- two instances, calls interleaved in any order: each sees what it sees alone ---- *)

Inductive who := InstA | InstB.

Fixpoint interleave (P : dparsers) (prs : option custom_parser) (skip : Packet -> bool)
  (sched : list (who * dcall)) (sa sb : dstate) : list dres * list dres :=
  match sched with
  | [] => ([], [])
  | (InstA, c) :: r => let '(x, sa') := call P prs skip c sa in
                       let '(ra, rb) := interleave P prs skip r sa' sb in (x :: ra, rb)
  | (InstB, c) :: r => let '(x, sb') := call P prs skip c sb in
                       let '(ra, rb) := interleave P prs skip r sa sb' in (ra, x :: rb)
  end.

Definition calls_of (w : who) (sched : list (who * dcall)) : list dcall :=
  map snd (filter (fun e => match fst e, w with InstA, InstA => true | InstB, InstB => true | _, _ => false end) sched).

Theorem demuxers_independent P prs skip sched : forall sa sb,
  fst (interleave P prs skip sched sa sb) = calls P prs skip (calls_of InstA sched) sa /\
  snd (interleave P prs skip sched sa sb) = calls P prs skip (calls_of InstB sched) sb.
Proof.
  induction sched as [|[w c] r IH]; intros sa sb; [split; reflexivity|].
  destruct w; cbn [interleave calls_of filter fst map snd calls].
  - destruct (call P prs skip c sa) as [x sa']. specialize (IH sa' sb).
    destruct (interleave P prs skip r sa' sb) as [ra rb]. cbn [fst snd] in *. destruct IH as [H1 H2].
    split; [f_equal; exact H1|exact H2].
  - destruct (call P prs skip c sb) as [x sb']. specialize (IH sa sb').
    destruct (interleave P prs skip r sa sb') as [ra rb]. cbn [fst snd] in *. destruct IH as [H1 H2].
    split; [exact H1|f_equal; exact H2].
Qed.

(* the same for two muxers *)
Fixpoint interleave_mux (sched : list (who * mop)) (sa sb : mstate) : list mout * list mout :=
  match sched with
  | [] => ([], [])
  | (InstA, o) :: r => let '(sa', x) := mux_step sa o in
                       let '(ra, rb) := interleave_mux r sa' sb in (x :: ra, rb)
  | (InstB, o) :: r => let '(sb', x) := mux_step sb o in
                       let '(ra, rb) := interleave_mux r sa sb' in (ra, x :: rb)
  end.

Definition ops_of (w : who) (sched : list (who * mop)) : list mop :=
  map snd (filter (fun e => match fst e, w with InstA, InstA => true | InstB, InstB => true | _, _ => false end) sched).

Theorem muxers_independent sched : forall sa sb,
  fst (interleave_mux sched sa sb) = snd (mux_run sa (ops_of InstA sched)) /\
  snd (interleave_mux sched sa sb) = snd (mux_run sb (ops_of InstB sched)).
Proof.
  induction sched as [|[w o] r IH]; intros sa sb; [split; reflexivity|].
  destruct w; cbn [interleave_mux ops_of filter fst map snd].
  - cbn [mux_run]. destruct (mux_step sa o) as [sa' x]. specialize (IH sa' sb).
    destruct (interleave_mux r sa' sb) as [ra rb]. cbn [fst snd] in *. destruct IH as [H1 H2].
    fold (ops_of InstA r). destruct (mux_run sa' (ops_of InstA r)) as [sf outs]. cbn [snd] in *.
    split; [f_equal; exact H1|exact H2].
  - cbn [mux_run]. destruct (mux_step sb o) as [sb' x]. specialize (IH sa sb').
    destruct (interleave_mux r sa sb') as [ra rb]. cbn [fst snd] in *. destruct IH as [H1 H2].
    fold (ops_of InstB r). destruct (mux_run sb' (ops_of InstB r)) as [sf outs]. cbn [snd] in *.
    split; [exact H1|f_equal; exact H2].
Qed.
