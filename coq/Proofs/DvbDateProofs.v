(* C15, part 1: everything that does not depend on a translated definition (no Gen/*.v among the
   imports, so these enumerations are not re-checked when an unrelated part of the Go source changes).
   The calendar of Spec/DvbSpec.v against the day-by-day rule and the Annex C formulas; the float64 model
   of dvb.go's date and duration arithmetic (Model/DvbDate.v, DvbFloat) against the integer model and
   against the calendar.
   Finite statements are closed by vm_compute over the complete enumeration ([all_range]) and lifted
   to a universally quantified statement with [all_range_spec]; the bound is in every statement. *)
From Coq Require Import ZArith List Lia Bool ZifyBool.
From Coq Require Import Floats.SpecFloat.
Require Import Model.DvbDate Spec.DvbSpec.
Import ListNotations.
Open Scope Z_scope.

(* lia decides goals with / and mod by literals *)
Ltac Zify.zify_post_hook ::= Z.to_euclidean_division_equations.

(* ================= enumeration ================= *)

Fixpoint all_from (P : Z -> bool) (lo : Z) (n : nat) : bool :=
  match n with O => true | S k => if P lo then all_from P (lo + 1) k else false end.

Definition all_range (P : Z -> bool) (lo hi : Z) : bool := all_from P lo (Z.to_nat (hi - lo + 1)).

Lemma all_from_spec P n : forall lo, all_from P lo n = true ->
  forall x, lo <= x < lo + Z.of_nat n -> P x = true.
Proof.
  induction n as [|n IH]; intros lo H x Hx; [lia|].
  cbn [all_from] in H. destruct (P lo) eqn:E; [|discriminate].
  destruct (Z.eq_dec x lo) as [->|Hne]; [exact E|].
  apply (IH (lo + 1) H). lia.
Qed.

Lemma all_range_spec P lo hi : all_range P lo hi = true -> forall x, lo <= x <= hi -> P x = true.
Proof.
  unfold all_range. intros H x Hx. apply (all_from_spec P _ lo H). lia.
Qed.

Definition triple_eqb (a b : Z * Z * Z) : bool :=
  let '(x, y, z) := a in let '(x', y', z') := b in andb (andb (x =? x') (y =? y')) (z =? z').

Lemma triple_eqb_eq a b : triple_eqb a b = true -> a = b.
Proof.
  destruct a as [[x y] z], b as [[x' y'] z']. unfold triple_eqb. intros H.
  apply andb_prop in H as [H H3]. apply andb_prop in H as [H1 H2].
  apply Z.eqb_eq in H1, H2, H3. congruence.
Qed.

Fixpoint list_eqb (a b : list Z) : bool :=
  match a, b with
  | [], [] => true
  | x :: a', y :: b' => andb (x =? y) (list_eqb a' b')
  | _, _ => false
  end.

Lemma list_eqb_eq a : forall b, list_eqb a b = true -> a = b.
Proof.
  induction a as [|x a IH]; intros [|y b] H; try discriminate; [reflexivity|].
  cbn [list_eqb] in H. apply andb_prop in H as [H1 H2]. apply Z.eqb_eq in H1. f_equal; auto.
Qed.

(* ================= the float64 literals ================= *)

(* mantissa and exponent of the four decimal literals of dvb.go, as Go's math.Float64bits prints them:
   15078.2 = 0x40cd73199999999a, 14956.1 = 0x40cd360ccccccccd, 30.6001 = 0x403e99a027525461,
   365.25 = 0x4076d40000000000 *)
Lemma literal_bits :
  DvbFloat.c_15078_2 = S754_finite false 8289328112966042 (-39) /\
  DvbFloat.c_14956_1 = S754_finite false 8222202928090317 (-39) /\
  DvbFloat.c_30_6001 = S754_finite false 8613162434843745 (-48) /\
  DvbFloat.c_365_25 = S754_finite false 6425545952722944 (-44).
Proof. vm_compute. repeat split. Qed.

(* ================= one pass over the days of the range ================= *)

(* Everything that is claimed about a day of the range, for the date c the day-by-day rule assigns to it:
   the closed-form calendar of the Spec, the Annex C formulas over the rationals, the integer model of
   parseDVBTime's and writeDVBTime's date arithmetic and the model of package time all agree with c. *)
Definition date_ok (mjd : Z) (c : Z * Z * Z) : bool :=
  let '(y, m, d) := c in
  andb (valid_date c)
  (andb (days_of_civil y m d =? mjd - 40587)
  (andb (triple_eqb (annex_c_ymd mjd) c)
  (andb (annex_c_mjd c =? mjd)
  (andb (triple_eqb (dvb_ymd mjd) c)
  (andb (go_date_days y m d =? mjd - 40587)
  (andb (triple_eqb (go_civil_of_days (mjd - 40587)) c)
  (andb (dvb_mjd_of_ymd y m d =? mjd)
        (andb (andb (1900 <=? y) (y <=? 2038)) (andb (1 <=? m) (m <=? 12)))))))))).

(* c walks through the calendar by next_day, starting from the anchor; the closed form must follow it *)
Fixpoint date_chain (c : Z * Z * Z) (mjd : Z) (n : nat) : bool :=
  match n with
  | O => true
  | S k => if andb (triple_eqb (civil_of_mjd mjd) c) (date_ok mjd c)
           then date_chain (next_day c) (mjd + 1) k else false
  end.

Lemma date_chain_spec n : forall c lo, date_chain c lo n = true ->
  forall x, lo <= x < lo + Z.of_nat n ->
    date_ok x (civil_of_mjd x) = true /\
    (x + 1 < lo + Z.of_nat n -> civil_of_mjd (x + 1) = next_day (civil_of_mjd x)).
Proof.
  induction n as [|n IH]; intros c lo H x Hx; [lia|].
  cbn [date_chain] in H.
  destruct (andb (triple_eqb (civil_of_mjd lo) c) (date_ok lo c)) eqn:E; [|discriminate].
  apply andb_prop in E as [E1 E2]. apply triple_eqb_eq in E1.
  destruct (Z.eq_dec x lo) as [->|Hne].
  - split; [rewrite E1; exact E2|]. intros Hlt.
    destruct n as [|n']; [lia|]. cbn [date_chain] in H.
    destruct (andb (triple_eqb (civil_of_mjd (lo + 1)) (next_day c)) (date_ok (lo + 1) (next_day c))) eqn:E'; [|discriminate].
    apply andb_prop in E' as [E1' _]. apply triple_eqb_eq in E1'. rewrite E1', E1. reflexivity.
  - destruct (IH _ _ H x ltac:(lia)) as [A B]. split; [exact A|]. intros Hlt. apply B. lia.
Qed.

(* 1900-03-01 .. 2038-04-23 (one day beyond the range, for the step out of the last day): 50458 days *)
Lemma date_sweep : date_chain (1900, 3, 1) mjd_lo (Z.to_nat (mjd_hi - mjd_lo + 2)) = true.
Proof. vm_cast_no_check (eq_refl true). Qed.

Lemma calendar_anchor :
  mjd_epoch = -40587 /\ civil_of_mjd 0 = (1858, 11, 17) /\ civil_of_mjd mjd_lo = (1900, 3, 1) /\
  civil_of_mjd 40587 = (1970, 1, 1) /\ civil_of_mjd mjd_hi = (2038, 4, 22) /\ civil_of_mjd annex_c_hi = (2100, 2, 28).
Proof. vm_compute. repeat split. Qed.

Lemma date_facts mjd : mjd_lo <= mjd <= mjd_hi ->
  date_ok mjd (civil_of_mjd mjd) = true /\ civil_of_mjd (mjd + 1) = next_day (civil_of_mjd mjd).
Proof.
  intros H. unfold mjd_lo, mjd_hi in H.
  destruct (date_chain_spec _ _ _ date_sweep mjd) as [A B]; [unfold mjd_lo, mjd_hi; lia|].
  split; [exact A|]. apply B. unfold mjd_lo, mjd_hi. lia.
Qed.

Lemma date_ok_elim mjd y m d : date_ok mjd (y, m, d) = true ->
  valid_date (y, m, d) = true /\ days_of_civil y m d = mjd - 40587 /\
  annex_c_ymd mjd = (y, m, d) /\ annex_c_mjd (y, m, d) = mjd /\
  dvb_ymd mjd = (y, m, d) /\ go_date_days y m d = mjd - 40587 /\
  go_civil_of_days (mjd - 40587) = (y, m, d) /\ dvb_mjd_of_ymd y m d = mjd /\
  1900 <= y <= 2038 /\ 1 <= m <= 12.
Proof.
  unfold date_ok. intros E.
  repeat (let E' := fresh "E" in apply andb_prop in E as [E' E]).
  repeat match goal with H : triple_eqb _ _ = true |- _ => apply triple_eqb_eq in H end.
  repeat split; try assumption; lia.
Qed.

(* closed form = day-by-day rule; every date is a valid date; the two directions are inverse *)
Lemma calendar_step mjd : mjd_lo <= mjd <= mjd_hi ->
  civil_of_mjd (mjd + 1) = next_day (civil_of_mjd mjd) /\ valid_date (civil_of_mjd mjd) = true /\
  mjd_of_civil (civil_of_mjd mjd) = mjd.
Proof.
  intros H. destruct (date_facts mjd H) as [E S]. split; [exact S|]. clear S.
  destruct (civil_of_mjd mjd) as [[y m] d]. apply date_ok_elim in E as (V & D & _).
  split; [exact V|]. unfold mjd_of_civil. destruct calendar_anchor as [-> _]. lia.
Qed.

(* the Annex C formulas (over the rationals) are the calendar *)
Lemma annex_c_calendar mjd : mjd_lo <= mjd <= mjd_hi ->
  annex_c_ymd mjd = civil_of_mjd mjd /\ annex_c_mjd (civil_of_mjd mjd) = mjd.
Proof.
  intros H. destruct (date_facts mjd H) as [E _].
  destruct (civil_of_mjd mjd) as [[y m] d]. apply date_ok_elim in E as (_ & _ & A & B & _). auto.
Qed.

(* ================= decode: the date ================= *)

(* ---- evaluating the float64 date computation faster (the kernel re-evaluates the sweeps below without
   the VM when coqchk runs; these three lemmas cut its time by about 40 %) ---- *)

(* (a) 365.25 = 1461 * 2^42 * 2^-44: the long division by its 53-bit mantissa is a division by 1461 *)
Definition m365 : positive := 6425545952722944.

Lemma div_eucl_m365 a : 0 <= a ->
  Z.div_eucl a (Z.pos m365) =
  (let '(q, r1) := Z.div_eucl (Z.shiftr a 42) 1461 in (q, r1 * 2 ^ 42 + Z.land a (Z.ones 42))).
Proof.
  intros Ha. rewrite Z.shiftr_div_pow2, Z.land_ones by lia.
  destruct (Z.div_eucl a (Z.pos m365)) as [q r] eqn:E.
  assert (Hq : q = a / Z.pos m365) by (unfold Z.div; rewrite E; reflexivity).
  assert (Hr : r = a mod Z.pos m365) by (unfold Z.modulo; rewrite E; reflexivity).
  destruct (Z.div_eucl (a / 2 ^ 42) 1461) as [q2 r2] eqn:E2.
  assert (Hq2 : q2 = a / 2 ^ 42 / 1461) by (unfold Z.div at 1; rewrite E2; reflexivity).
  assert (Hr2 : r2 = (a / 2 ^ 42) mod 1461) by (unfold Z.modulo; rewrite E2; reflexivity).
  subst. change (Z.pos m365) with 6425545952722944. change (2 ^ 42) with 4398046511104.
  f_equal; lia.
Qed.

Definition div_core_365 (m1 e1 : Z) : Z * Z * location :=
  let d1 := Zdigits2 m1 in
  let d2 := Zdigits2 (Z.pos m365) in
  let e' := Z.min (fexp DvbFloat.prec DvbFloat.emax (d1 + e1 - (d2 + -44))) (e1 - -44) in
  let s := e1 - -44 - e' in
  let m' := match s with Zpos _ => Z.shiftl m1 s | Z0 => m1 | Zneg _ => Z0 end in
  let '(q, r1) := Z.div_eucl (Z.shiftr m' 42) 1461 in
  (q, e', new_location (Z.pos m365) (r1 * 2 ^ 42 + Z.land m' (Z.ones 42))).

Definition fdiv_365 (x : spec_float) : spec_float :=
  match x with
  | S754_nan => S754_nan
  | S754_infinity sx => S754_infinity (xorb sx false)
  | S754_zero sx => S754_zero (xorb sx false)
  | S754_finite sx mx ex =>
      let '(mz, ez, lz) := div_core_365 (Z.pos mx) ex in
      binary_round_aux DvbFloat.prec DvbFloat.emax (xorb sx false) mz ez lz
  end.

Lemma fdiv_365_eq x : DvbFloat.fdiv x DvbFloat.c_365_25 = fdiv_365 x.
Proof.
  destruct literal_bits as (_ & _ & _ & ->). change 6425545952722944%positive with m365.
  destruct x as [sx|sx| |sx mx ex]; try reflexivity.
  unfold DvbFloat.fdiv, SFdiv, fdiv_365, SFdiv_core_binary, div_core_365.
  set (e' := Z.min _ _). set (s := ex - -44 - e').
  set (m' := match s with Zpos _ => Z.shiftl (Z.pos mx) s | Z0 => Z.pos mx | Zneg _ => 0 end).
  assert (Hm : 0 <= m').
  { unfold m'. destruct s; [lia| |lia]. apply Z.shiftl_nonneg. lia. }
  rewrite (div_eucl_m365 m' Hm).
  destruct (Z.div_eucl (Z.shiftr m' 42) 1461) as [q r1]. reflexivity.
Qed.

(* (b) float64(int(float64(yt)*365.25)) and float64(int(float64(mt)*30.6001)) depend on yt and mt only:
   they are tabulated once per sweep instead of being recomputed for each of the ~365 (~30) days that share them *)
Definition yd_direct (yt : Z) : DvbFloat.float64 :=
  DvbFloat.f_of_Z (DvbFloat.trunc (DvbFloat.fmul (DvbFloat.f_of_Z yt) DvbFloat.c_365_25)).
Definition md_direct (mt : Z) : DvbFloat.float64 :=
  DvbFloat.f_of_Z (DvbFloat.trunc (DvbFloat.fmul (DvbFloat.f_of_Z mt) DvbFloat.c_30_6001)).

Fixpoint zrange (lo : Z) (n : nat) : list Z := match n with O => [] | S k => lo :: zrange (lo + 1) k end.

Lemma zrange_nth n : forall lo k d, (k < n)%nat -> nth k (zrange lo n) d = lo + Z.of_nat k.
Proof.
  induction n as [|n IH]; intros lo k d Hk; [lia|].
  destruct k as [|k]; cbn [zrange nth]; [lia|]. rewrite IH by lia. lia.
Qed.

Lemma zrange_length n : forall lo, length (zrange lo n) = n.
Proof. induction n as [|n IH]; intros lo; cbn [zrange length]; [reflexivity|]. rewrite IH. reflexivity. Qed.

Lemma zrange_in n : forall lo x, lo <= x < lo + Z.of_nat n -> In x (zrange lo n).
Proof.
  induction n as [|n IH]; intros lo x H; [lia|]. cbn [zrange In].
  destruct (Z.eq_dec lo x) as [->|Hne]; [left; reflexivity|right; apply IH; lia].
Qed.

Definition lookup {A} (f : Z -> A) (lo : Z) (n : nat) (t : list A) (x : Z) : A :=
  if andb (lo <=? x) (x <? lo + Z.of_nat n) then nth (Z.to_nat (x - lo)) t (f x) else f x.

Lemma lookup_tbl {A} (f : Z -> A) lo n x : lookup f lo n (map f (zrange lo n)) x = f x.
Proof.
  unfold lookup. destruct (andb (lo <=? x) (x <? lo + Z.of_nat n)) eqn:E; [|reflexivity].
  rewrite (nth_indep _ (f x) (f lo)) by (rewrite map_length, zrange_length; lia).
  rewrite map_nth, zrange_nth by lia. f_equal. lia.
Qed.

Definition decode_with (yd_of md_of : Z -> DvbFloat.float64) (mjd : Z) : Z * Z * Z :=
  let fm := DvbFloat.f_of_Z mjd in
  let yt := DvbFloat.trunc (fdiv_365 (DvbFloat.fsub fm DvbFloat.c_15078_2)) in
  let yd := yd_of yt in
  let mt := DvbFloat.trunc (DvbFloat.fdiv (DvbFloat.fsub (DvbFloat.fsub fm DvbFloat.c_14956_1) yd) DvbFloat.c_30_6001) in
  let md := md_of mt in
  let d := DvbFloat.trunc (DvbFloat.fsub (DvbFloat.fsub (DvbFloat.fsub fm DvbFloat.c_14956) yd) md) in
  let k := if orb (mt =? 14) (mt =? 15) then 1 else 0 in
  (1900 + yt + k, mt - 1 - k * 12, d).

Lemma decode_with_eq yd_of md_of mjd :
  (forall x, yd_of x = yd_direct x) -> (forall x, md_of x = md_direct x) ->
  DvbFloat.mjd_to_ymd_float mjd = decode_with yd_of md_of mjd.
Proof.
  intros Hy Hm. unfold DvbFloat.mjd_to_ymd_float, decode_with. cbv zeta.
  rewrite Hy, Hm, fdiv_365_eq. reflexivity.
Qed.

(* float model of parseDVBTime's date = integer model, for all MJD words from lo to hi *)
Definition decode_float_sweep_on (lo hi : Z) : bool :=
  let ty := map yd_direct (zrange (-50) 200) in
  let tm := map md_direct (zrange 0 24) in
  all_range (fun mjd => triple_eqb (decode_with (lookup yd_direct (-50) 200 ty) (lookup md_direct 0 24 tm) mjd)
                                   (dvb_ymd mjd)) lo hi.

Lemma decode_float_sweep_spec lo hi : decode_float_sweep_on lo hi = true ->
  forall mjd, lo <= mjd <= hi -> DvbFloat.mjd_to_ymd_float mjd = dvb_ymd mjd.
Proof.
  unfold decode_float_sweep_on. cbv zeta. intros H mjd Hm.
  pose proof (all_range_spec _ _ _ H mjd Hm) as E. cbv beta in E. apply triple_eqb_eq in E.
  rewrite <- E. apply decode_with_eq; intros x; apply lookup_tbl.
Qed.

(* the 50457 MJD values of the property's range (the other 15079 words, 0..15078, are in
   Proofs/DvbSupplementProofs.v, outside the cone of Props/C15.v) *)
Lemma decode_float_sweep : decode_float_sweep_on mjd_lo mjd_hi = true.
Proof. vm_cast_no_check (eq_refl true). Qed.

Lemma decode_float_int mjd : mjd_lo <= mjd <= mjd_hi -> DvbFloat.mjd_to_ymd_float mjd = dvb_ymd mjd.
Proof. exact (decode_float_sweep_spec _ _ decode_float_sweep mjd). Qed.

Lemma decode_unix_float_int mjd : mjd_lo <= mjd <= mjd_hi -> DvbFloat.dvb_date_unix_float mjd = dvb_date_unix mjd.
Proof. intros H. unfold DvbFloat.dvb_date_unix_float, dvb_date_unix. rewrite decode_float_int by exact H. reflexivity. Qed.

(* on the range of the property: (y, m, d) is the calendar date of the MJD (no normalisation by
   time.Date is involved: the date is valid), and time.Date of it is that day *)
Lemma decode_date mjd : mjd_lo <= mjd <= mjd_hi ->
  dvb_ymd mjd = civil_of_mjd mjd /\ dvb_date_unix mjd = 86400 * (mjd - 40587) /\
  (let '(y, m, d) := civil_of_mjd mjd in days_of_civil y m d) = mjd - 40587.
Proof.
  intros H. destruct (date_facts mjd H) as [E _].
  destruct (civil_of_mjd mjd) as [[y m] d]. apply date_ok_elim in E as (_ & D & _ & _ & Ed & G & _).
  split; [exact Ed|]. unfold dvb_date_unix. rewrite Ed. split; lia.
Qed.

Example decode_date_example : dvb_ymd 58849 = (2020, 1, 1) /\ dvb_date_unix 58849 = 1577836800.
Proof. vm_compute. split; reflexivity. Qed.

(* below the range the code does not return the calendar date; witness: MJD 15078 is 1900-02-28,
   the formula yields February 31st, which time.Date turns into March 3rd *)
Example decode_below_range : dvb_ymd 15078 = (1900, 2, 31) /\ civil_of_mjd 15078 = (1900, 2, 28) /\
  dvb_date_unix 15078 = 86400 * (15078 - 40587 + 3).
Proof. vm_compute. repeat split. Qed.

(* ================= encode: the date ================= *)

(* the two float terms of writeDVBTime's MJD expression equal their integer reading for every year
   from -3000 to 12000 and every month argument *)
Lemma encode_float_year_sweep :
  all_range (fun n => DvbFloat.year_days_float n =? Z.quot (n * 1461) 4) (-4901) 10100 = true.
Proof. vm_cast_no_check (eq_refl true). Qed.
Lemma encode_float_month_sweep :
  all_range (fun n => DvbFloat.month_days_float n =? Z.quot (n * 306001) 10000) 0 20 = true.
Proof. vm_cast_no_check (eq_refl true). Qed.

Lemma encode_float_int y m d : -3000 <= y <= 12000 -> 1 <= m <= 12 ->
  DvbFloat.ymd_to_mjd_float y m d = dvb_mjd_of_ymd y m d.
Proof.
  intros Hy Hm. unfold DvbFloat.ymd_to_mjd_float, dvb_mjd_of_ymd.
  assert (H1 : DvbFloat.year_days_float (y - 1900 - (if m <=? 2 then 1 else 0)) =
               Z.quot ((y - 1900 - (if m <=? 2 then 1 else 0)) * 1461) 4).
  { apply Z.eqb_eq, (all_range_spec _ _ _ encode_float_year_sweep). destruct (m <=? 2) eqn:?; lia. }
  assert (H2 : DvbFloat.month_days_float (m + 1 + (if m <=? 2 then 1 else 0) * 12) =
               Z.quot ((m + 1 + (if m <=? 2 then 1 else 0) * 12) * 306001) 10000).
  { apply Z.eqb_eq, (all_range_spec _ _ _ encode_float_month_sweep). destruct (m <=? 2) eqn:?; lia. }
  rewrite H1, H2. reflexivity.
Qed.

(* t.Year/Month/Day of a day of the range is its calendar date, and the MJD expression returns the MJD *)
Lemma encode_date mjd : mjd_lo <= mjd <= mjd_hi ->
  go_civil_of_days (mjd - 40587) = civil_of_mjd mjd /\
  (let '(y, m, d) := go_civil_of_days (mjd - 40587) in
   dvb_mjd_of_ymd y m d = mjd /\ DvbFloat.ymd_to_mjd_float y m d = mjd).
Proof.
  intros H. destruct (date_facts mjd H) as [E _].
  destruct (civil_of_mjd mjd) as [[y m] d]. apply date_ok_elim in E as (_ & _ & _ & _ & _ & _ & Eg & Em & Hy & Hm).
  rewrite Eg. split; [reflexivity|]. split; [exact Em|]. rewrite encode_float_int; lia.
Qed.

(* ================= durations: arithmetic (proved for all whole seconds, no enumeration) ================= *)

Lemma dur_whole sec : 0 <= sec ->
  dur_hours (sec * ns_second) = (sec / 3600) mod 256 /\
  dur_minutes (sec * ns_second) = (sec / 60) mod 60 /\
  dur_seconds (sec * ns_second) = sec mod 60.
Proof.
  intros H. unfold dur_hours, dur_minutes, dur_seconds, ns_hour, ns_minute, ns_second.
  repeat split; lia.
Qed.

Lemma tod_split h m s : 0 <= h -> 0 <= m <= 59 -> 0 <= s <= 59 ->
  let sec := tod_seconds h m s in sec / 3600 = h /\ (sec / 60) mod 60 = m /\ sec mod 60 = s.
Proof. intros Hh Hm Hs. unfold tod_seconds. cbv zeta. repeat split; lia. Qed.

(* float64 Hours()/Minutes()/Seconds() of package time agree with the integer reading on every
   whole-second duration below 100 h.  For d = sec seconds, d / unit and d % unit are q = sec / k and
   (sec mod k) seconds (k = 3600, 60, 1); the sweeps run over all 360000 pairs (q, r) per unit. *)
Definition split_trunc (q r unit : Z) : Z :=
  DvbFloat.trunc (DvbFloat.fadd (DvbFloat.f_of_Z q)
                                (DvbFloat.fdiv (DvbFloat.f_of_Z (r * ns_second)) (DvbFloat.f_of_Z unit))).

Lemma dur_split_whole sec k : 0 <= sec -> 0 < k ->
  DvbFloat.trunc (DvbFloat.dur_split_float (sec * ns_second) (k * ns_second)) =
  split_trunc (sec / k) (sec mod k) (k * ns_second).
Proof.
  intros Hs Hk. unfold DvbFloat.dur_split_float, split_trunc.
  replace (Z.quot (sec * ns_second) (k * ns_second)) with (sec / k).
  2:{ rewrite Z.quot_div_nonneg by (unfold ns_second; lia).
      rewrite Z.div_mul_cancel_r by (unfold ns_second; lia). reflexivity. }
  replace (Z.rem (sec * ns_second) (k * ns_second)) with (sec mod k * ns_second).
  2:{ rewrite Z.rem_mod_nonneg by (unfold ns_second; lia).
      rewrite Zmult_mod_distr_r. reflexivity. }
  reflexivity.
Qed.

(* sweeps: float64(q) is tabulated once, the quotient float64(r seconds) / unit is computed once per r *)
Definition split_sweep (unit rmax qmax : Z) : bool :=
  let fqs := map (fun q => (q, DvbFloat.f_of_Z q)) (zrange 0 (Z.to_nat (qmax + 1))) in
  all_range (fun r => let x := DvbFloat.fdiv (DvbFloat.f_of_Z (r * ns_second)) (DvbFloat.f_of_Z unit) in
                      forallb (fun qf => DvbFloat.trunc (DvbFloat.fadd (snd qf) x) =? fst qf) fqs) 0 rmax.

Lemma split_sweep_spec unit rmax qmax : split_sweep unit rmax qmax = true ->
  forall q r, 0 <= q <= qmax -> 0 <= r <= rmax -> split_trunc q r unit = q.
Proof.
  intros H q r Hq Hr. unfold split_sweep in H. cbv zeta in H.
  pose proof (all_range_spec _ _ _ H r Hr) as H1. cbv beta in H1.
  rewrite forallb_forall in H1.
  specialize (H1 (q, DvbFloat.f_of_Z q)). cbn [fst snd] in H1.
  apply Z.eqb_eq, H1.
  apply (in_map (fun q => (q, DvbFloat.f_of_Z q))), zrange_in. lia.
Qed.

(* from the three sweeps for durations below (H+1) hours to the three float expressions *)
Lemma dur_float_parts_from H : 0 <= H ->
  split_sweep ns_hour 3599 H = true -> split_sweep ns_minute 59 (60 * (H + 1) - 1) = true ->
  split_sweep ns_second 0 (3600 * (H + 1) - 1) = true ->
  forall sec, 0 <= sec <= 3600 * (H + 1) - 1 ->
  DvbFloat.dur_hours_float (sec * ns_second) = dur_hours (sec * ns_second) /\
  DvbFloat.dur_minutes_float (sec * ns_second) = dur_minutes (sec * ns_second) /\
  DvbFloat.dur_seconds_float (sec * ns_second) = dur_seconds (sec * ns_second).
Proof.
  intros HH Sh Sm Ss sec H0. destruct (dur_whole sec ltac:(lia)) as (D1 & D2 & D3).
  unfold DvbFloat.dur_hours_float, DvbFloat.dur_minutes_float, DvbFloat.dur_seconds_float.
  change ns_hour with (3600 * ns_second). change ns_minute with (60 * ns_second).
  change (DvbFloat.dur_split_float (sec * ns_second) ns_second) with (DvbFloat.dur_split_float (sec * ns_second) (1 * ns_second)).
  rewrite !dur_split_whole by lia.
  change (3600 * ns_second) with ns_hour. change (60 * ns_second) with ns_minute. change (1 * ns_second) with ns_second.
  rewrite (split_sweep_spec _ _ _ Sh) by lia.
  rewrite (split_sweep_spec _ _ _ Sm) by lia.
  rewrite (split_sweep_spec _ _ _ Ss) by lia.
  rewrite D1, D2, D3. repeat split; lia.
Qed.

(* every second of a day (what writeDVBTime needs).  The same three sweeps for all durations below
   100 h are in Proofs/DvbSupplementProofs.v, outside the cone of Props/C15.v (coqchk, which does not
   use the VM, would need an extra quarter of an hour for them). *)
Lemma dur_float_hours_sweep : split_sweep ns_hour 3599 23 = true.
Proof. vm_cast_no_check (eq_refl true). Qed.
Lemma dur_float_minutes_sweep : split_sweep ns_minute 59 1439 = true.
Proof. vm_cast_no_check (eq_refl true). Qed.
Lemma dur_float_seconds_sweep : split_sweep ns_second 0 86399 = true.
Proof. vm_cast_no_check (eq_refl true). Qed.

Lemma dur_float_parts sec : 0 <= sec <= 86399 ->
  DvbFloat.dur_hours_float (sec * ns_second) = dur_hours (sec * ns_second) /\
  DvbFloat.dur_minutes_float (sec * ns_second) = dur_minutes (sec * ns_second) /\
  DvbFloat.dur_seconds_float (sec * ns_second) = dur_seconds (sec * ns_second).
Proof.
  intros H. apply (dur_float_parts_from 23 ltac:(lia) dur_float_hours_sweep dur_float_minutes_sweep dur_float_seconds_sweep).
  lia.
Qed.
