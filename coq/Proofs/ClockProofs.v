(* Round trips of the clock-reference layouts (PCR, PTS/DTS, ESCR) for all field values. *)
From Coq Require Import ZArith List Lia Bool ZifyBool.
Require Import Base.Bits Base.Iter Base.Wr Gen.Types Model.Clock.
Import ListNotations.
Open Scope Z_scope.

(* reading n bytes from the front of (bytes ++ rest) *)
Lemma next_bytes_app (n : Z) (a rest : list Z) : Z.of_nat (length a) = n ->
  next_bytes n (new_iter (a ++ rest)) = Ok (a, mk_iter (a ++ rest) n).
Proof.
  intros H. unfold next_bytes, new_iter, ilen; cbn [ibs ioff]. rewrite app_length.
  destruct (Z.of_nat (length a + length rest) <? 0 + n) eqn:E; [lia|].
  destruct (n <? 0) eqn:E2; [lia|]. cbn [Z.ltb Z.compare]. f_equal. f_equal.
  unfold slice. replace (0 + n - 0) with n by lia. cbn [Z.to_nat skipn].
  rewrite <- H, Nat2Z.id. rewrite firstn_app, Nat.sub_diag, firstn_O, app_nil_r. apply firstn_all.
Qed.

Lemma items_bits_length_8 (its : list witem) (n : nat) :
  length (items_bits its) = (8 * n)%nat -> items_bytes_ok its ->
  length (bytes_of_items its) = n /\ bits_of_bytes (bytes_of_items its) = items_bits its.
Proof.
  intros H Hok. rewrite (chunks_concat its Hok). split.
  - apply bytes_of_bits_length; exact H.
  - apply (bits_of_bytes_of_bits n); exact H.
Qed.

Ltac items_ok := unfold items_bytes_ok; repeat constructor.

Lemma shiftr_30_bits b : 0 <= b < 2 ^ 33 ->
  b = (Z.shiftr b 30 mod 2 ^ 3) * 2 ^ 30 + (Z.shiftr b 15 mod 2 ^ 15) * 2 ^ 15 + b mod 2 ^ 15.
Proof.
  intros H. rewrite !Z.shiftr_div_pow2 by lia.
  change (2 ^ 33) with 8589934592 in H. change (2 ^ 30) with 1073741824. change (2 ^ 15) with 32768. change (2 ^ 3) with 8.
  Ltac Zify.zify_post_hook ::= Z.div_mod_to_equations. lia.
Qed.

Theorem pcr_roundtrip base ext rest : 0 <= base < 2 ^ 33 -> 0 <= ext < 2 ^ 9 ->
  parse_pcr (new_iter (bytes_of_items (enc_pcr (mk_cr base ext)) ++ rest)) =
  Ok (mk_cr base ext, mk_iter (bytes_of_items (enc_pcr (mk_cr base ext)) ++ rest) 6).
Proof.
  intros Hb He. unfold parse_pcr, ibind, next_bytes_nocopy.
  destruct (items_bits_length_8 (enc_pcr (mk_cr base ext)) 6 eq_refl ltac:(items_ok)) as [Hl Hbits].
  rewrite next_bytes_app by (rewrite Hl; reflexivity).
  unfold iret, bitsf. rewrite Hbits. cbn [enc_pcr items_bits flat_map item_bits mk_cr ClockReference_Base ClockReference_Extension app].
  rewrite field_here by exact Hb.
  rewrite (field_skip 33) by lia. rewrite (field_skip 6) by lia.
  change (39 - 33 - 6)%nat with 0%nat. rewrite field_here by exact He.
  reflexivity.
Qed.

Theorem pts_roundtrip flag base rest : 0 <= base < 2 ^ 33 ->
  parse_pts_or_dts (new_iter (bytes_of_items (enc_pts_or_dts flag (mk_cr base 0)) ++ rest)) =
  Ok (mk_cr base 0, mk_iter (bytes_of_items (enc_pts_or_dts flag (mk_cr base 0)) ++ rest) 5).
Proof.
  intros Hb. unfold parse_pts_or_dts, ibind, next_bytes_nocopy.
  destruct (items_bits_length_8 (enc_pts_or_dts flag (mk_cr base 0)) 5 eq_refl ltac:(items_ok)) as [Hl Hbits].
  rewrite next_bytes_app by (rewrite Hl; reflexivity).
  unfold iret, bitsf. rewrite Hbits.
  cbn [enc_pts_or_dts items_bits flat_map item_bits mk_cr ClockReference_Base app].
  rewrite (field_skip 4) by lia. change (4 - 4)%nat with 0%nat. rewrite field_here_mod.
  rewrite (field_skip 4), (field_skip 3) by lia. change (8 - 4 - 3)%nat with 1%nat.
  rewrite field_bit_skip, field_here_mod.
  rewrite (field_skip 4), (field_skip 3) by lia. change (24 - 4 - 3)%nat with 17%nat.
  rewrite field_bit_skip, (field_skip 15) by lia. change (16 - 15)%nat with 1%nat.
  rewrite field_bit_skip, field_here_mod.
  f_equal. f_equal. unfold mk_cr. f_equal. symmetry. apply shiftr_30_bits. exact Hb.
Qed.

Theorem escr_roundtrip base ext rest : 0 <= base < 2 ^ 33 -> 0 <= ext < 2 ^ 9 ->
  parse_escr (new_iter (bytes_of_items (enc_escr (mk_cr base ext)) ++ rest)) =
  Ok (mk_cr base ext, mk_iter (bytes_of_items (enc_escr (mk_cr base ext)) ++ rest) 6).
Proof.
  intros Hb He. unfold parse_escr, ibind, next_bytes_nocopy.
  destruct (items_bits_length_8 (enc_escr (mk_cr base ext)) 6 eq_refl ltac:(items_ok)) as [Hl Hbits].
  rewrite next_bytes_app by (rewrite Hl; reflexivity).
  unfold iret, bitsf. rewrite Hbits.
  cbn [enc_escr items_bits flat_map item_bits mk_cr ClockReference_Base ClockReference_Extension app].
  rewrite (field_skip 2) by lia. change (2 - 2)%nat with 0%nat. rewrite field_here_mod.
  rewrite (field_skip 2), (field_skip 3) by lia. change (6 - 2 - 3)%nat with 1%nat.
  rewrite field_bit_skip, field_here_mod.
  rewrite (field_skip 2), (field_skip 3) by lia. change (22 - 2 - 3)%nat with 17%nat.
  rewrite field_bit_skip, (field_skip 15) by lia. change (16 - 15)%nat with 1%nat.
  rewrite field_bit_skip, field_here_mod.
  rewrite (field_skip 2), (field_skip 3) by lia. change (38 - 2 - 3)%nat with 33%nat.
  rewrite field_bit_skip, (field_skip 15) by lia. change (32 - 15)%nat with 17%nat.
  rewrite field_bit_skip, (field_skip 15) by lia. change (16 - 15)%nat with 1%nat.
  rewrite field_bit_skip, field_here by exact He.
  f_equal. f_equal. unfold mk_cr. f_equal. symmetry. apply shiftr_30_bits. exact Hb.
Qed.
