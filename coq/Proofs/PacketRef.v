(* Lemmas for property C11, part 4: what writePacket emits for a conformant packet is the ISO reference encoding
   of Spec/PacketSpec.v (bit string of the writer's items = bit string of the reference field list), and
   re-emission of a packet parsed from a conformant buffer is byte-identical. *)
From Coq Require Import ZArith List Lia Bool ZifyBool.
Require Import Base.Bits Base.Iter Base.Wr Gen.Consts Gen.Types Gen.Preds Model.Clock Model.Packet
  Spec.PesSpec Spec.PacketSpec Proofs.ClockProofs Proofs.PesRoundTrip Proofs.PesParseRef
  Proofs.PacketProofs Proofs.PacketRoundTrip.
Import ListNotations.
Open Scope Z_scope.

(* ---------------- piece by piece ---------------- *)

Lemma header_bits h : items_bits (enc_packet_header h) = fbits (ref_header_fields h).
Proof. unfold enc_packet_header, ref_header_fields. bits_norm. reflexivity. Qed.

Lemma pcr_bits (flag : bool) o : (if flag then wf_pcr o else o = None) ->
  items_bits (pcr_items flag o) = fbits (if flag then ref_pcr o else []).
Proof.
  unfold pcr_items. destruct flag; [|reflexivity]. intros (b & e & _ & _ & ->).
  unfold enc_pcr, ref_pcr. cbn [odflt base_of ext_of_cr cr ClockReference_Base ClockReference_Extension]. reflexivity.
Qed.

Lemma sc_bits (flag : bool) v : items_bits (sc_items flag v) = fbits (if flag then [(8%nat, v)] else []).
Proof. destruct flag; reflexivity. Qed.

Lemma tpd_bits (flag : bool) d : (if flag then bytes_ok d else d = []) ->
  items_bits (tpd_items flag d) = fbits (if flag then (8%nat, Z.of_nat (length d)) :: byte_fields d else []).
Proof.
  unfold tpd_items. destruct flag; [|reflexivity]. intros _.
  change ((8%nat, Z.of_nat (length d)) :: byte_fields d) with ([(8%nat, Z.of_nat (length d))] ++ byte_fields d).
  change (wu8 (Z.of_nat (length d)) :: (if Z.of_nat (length d) >? 0 then [WBytes d] else []))
    with ([wu8 (Z.of_nat (length d))] ++ (if Z.of_nat (length d) >? 0 then [WBytes d] else [])).
  rewrite items_bits_app, fbits_app, fbits_bytes. f_equal.
  destruct (Z.of_nat (length d) >? 0) eqn:E.
  - unfold items_bits. cbn [flat_map item_bits]. apply app_nil_r.
  - destruct d; [reflexivity | cbn [length] in E; lia].
Qed.

Lemma afe_bits e : wf_afe e -> items_bits (afe_items e) = fbits (ref_afe_fields e).
Proof.
  intros W. unfold afe_items, afe_head, afe_flags, ltw_items, pr_items, ss_items, ref_afe_fields.
  rewrite (calc_afe_eq e). pose proof (wfe_ss e W) as S.
  rewrite !items_bits_app, !fbits_app. rewrite app_assoc. f_equal; [|f_equal; [|f_equal]].
  - bits_norm. reflexivity.
  - destruct (PacketAdaptationExtensionField_HasLegalTimeWindow e); [|reflexivity]. bits_norm. reflexivity.
  - destruct (PacketAdaptationExtensionField_HasPiecewiseRate e); reflexivity.
  - destruct (PacketAdaptationExtensionField_HasSeamlessSplice e); [|reflexivity].
    destruct S as (_ & b & _ & ->). unfold enc_pts_or_dts, ref_ts.
    cbn [odflt base_of cr ClockReference_Base]. bits_norm. rewrite !Z.shiftr_div_pow2 by lia. reflexivity.
Qed.

Lemma ext_bits (flag : bool) o : wf_ext_opt flag o ->
  items_bits (ext_items flag o) = fbits (if flag then match o with Some e => ref_afe_fields e | None => [] end else []).
Proof.
  unfold wf_ext_opt, ext_items. destruct flag; [|reflexivity]. intros (e & -> & W). apply (afe_bits e W).
Qed.

Lemma stuff_bits n : items_bits (repeat_item n (wu8 255)) = bits_of_bytes (repeat 255 (Z.to_nat n)).
Proof.
  unfold repeat_item. induction (Z.to_nat n) as [|k IH]; [reflexivity|].
  cbn [repeat]. unfold items_bits, bits_of_bytes in *. cbn [flat_map]. rewrite IH. reflexivity.
Qed.

(* the adaptation field in front of its stuffing bytes *)
Lemma af_prefix_bits af : wf_af af -> ref_af_length af <= 255 ->
  items_bits (af_prefix af) = fbits (ref_af_prefix_fields af).
Proof.
  unfold wf_af, af_prefix, ref_af_prefix_fields. destruct (PacketAdaptationField_IsOneByteStuffing af) eqn:NS; intros W Hle; [reflexivity|].
  unfold af_prefix_items, af_items_with, af_head, af_flags, af_pcr, af_opcr, af_sc, af_tpd, af_ext.
  rewrite (calc_af_eq af W NS Hle).
  rewrite !items_bits_app, !fbits_app.
  rewrite (pcr_bits _ _ (wfa_pcr af W)), (pcr_bits _ _ (wfa_opcr af W)), sc_bits, (tpd_bits _ _ (wfa_tpd af W)),
    (ext_bits _ _ (wfa_ext af W)).
  change (items_bits []) with (@nil bool). rewrite app_assoc. f_equal.
  - bits_norm. reflexivity.
  - rewrite app_nil_r. reflexivity.
Qed.

Lemma af_stuffing_bits af : wf_af af ->
  items_bits (af_stuffing af) = bits_of_bytes (repeat 255 (Z.to_nat (PacketAdaptationField_StuffingLength af))).
Proof.
  unfold wf_af, af_stuffing. destruct (PacketAdaptationField_IsOneByteStuffing af); intros W.
  - destruct W as (_ & _ & _ & _ & -> & _). reflexivity.
  - apply stuff_bits.
Qed.

Lemma payload_bits p : wf_packet p -> items_bits (payload_items p) = bits_of_bytes (Packet_Payload p).
Proof.
  intros W. pose proof (wfp_payload p W) as P. unfold payload_items.
  destruct (PacketHeader_HasPayload (Packet_Header p)).
  - unfold items_bits. cbn [flat_map item_bits]. apply app_nil_r.
  - rewrite P. reflexivity.
Qed.

(* ---------------- the whole packet ---------------- *)

(* the reference field list with any stuffing bytes: the writer's bits up to the stuffing, the stuffing, the payload *)
Lemma packet_bits_stuffed p sb : wf_packet p -> Z.of_nat (length sb) = stuffing_of p ->
  fbits (ref_packet_fields_stuffed p sb) =
  items_bits (packet_prefix_items p) ++ bits_of_bytes sb ++ bits_of_bytes (Packet_Payload p).
Proof.
  intros W Hsb. pose proof (wfp_af p W) as A. pose proof (wfp_size p W) as S.
  unfold packet_prefix_items, ref_packet_fields_stuffed, af_opt_prefix, stuffing_of in *.
  change ((8%nat, 71) :: ?x) with ([(8%nat, 71)] ++ x).
  rewrite !items_bits_app, !fbits_app, header_bits, fbits_bytes, <- !app_assoc.
  f_equal. f_equal.
  destruct (PacketHeader_HasAdaptationField (Packet_Header p)).
  - destruct A as (af & EA & Wa). rewrite EA in *. cbn [ref_af_size] in S.
    rewrite fbits_app, fbits_bytes, (af_prefix_bits af Wa) by lia. rewrite <- app_assoc. reflexivity.
  - rewrite A in *. destruct sb; [reflexivity | cbn [length] in Hsb; lia].
Qed.

Lemma ff_stuffing_length p : wf_packet p -> Z.of_nat (length (ff_stuffing p)) = stuffing_of p.
Proof. intros W. pose proof (stuffing_of_range p W). unfold ff_stuffing. rewrite repeat_length. lia. Qed.

Lemma packet_items_split p : wf_packet p ->
  items_bits (packet_items p) =
  items_bits (packet_prefix_items p) ++ bits_of_bytes (ff_stuffing p) ++ bits_of_bytes (Packet_Payload p).
Proof.
  intros W. pose proof (wfp_af p W) as A.
  unfold packet_items, packet_prefix_items. rewrite af_opt_items_split.
  rewrite !items_bits_app, (payload_bits p W), <- !app_assoc. do 4 f_equal.
  unfold ff_stuffing, stuffing_of.
  destruct (PacketHeader_HasAdaptationField (Packet_Header p)).
  - destruct A as (af & -> & Wa). apply (af_stuffing_bits af Wa).
  - rewrite A. reflexivity.
Qed.

Theorem packet_bits p : wf_packet p -> items_bits (packet_items p) = fbits (ref_packet_fields p).
Proof.
  intros W. unfold ref_packet_fields. rewrite (packet_bits_stuffed p _ W (ff_stuffing_length p W)).
  apply (packet_items_split p W).
Qed.

Lemma packet_items_ok p : wf_packet p -> items_bytes_ok (packet_items p).
Proof.
  intros W. unfold packet_items. repeat apply items_bytes_ok_app.
  - items_ok.
  - apply (header_aligned (Packet_Header p)).
  - apply (af_opt_aligned p W).
  - apply (payload_aligned p W).
Qed.

Theorem write_ref_packet p : wf_packet p -> write_packet p 188 = Ok (ref_packet_bytes p).
Proof.
  intros W. unfold write_packet, ref_packet_bytes. rewrite (enc_packet_ok p W). cbn [res_map]. f_equal.
  rewrite (chunks_concat _ (packet_items_ok p W)), (packet_bits p W). reflexivity.
Qed.

(* parsing the reference encoding of a conformant packet yields that packet *)
Theorem parse_ref_packet p : wf_packet p -> parse_packet_bytes (ref_packet_bytes p) = Ok (observed p).
Proof.
  intros W. destruct (parse_write_packet p W) as (bs & Hw & _ & Hp).
  rewrite (write_ref_packet p W) in Hw. injection Hw as Hw. subst bs. exact Hp.
Qed.

(* the reference encoding with arbitrary stuffing bytes, as bytes *)
Lemma ref_bytes_stuffed p sb : wf_packet p -> Z.of_nat (length sb) = stuffing_of p -> bytes_ok sb ->
  ref_packet_bytes_stuffed p sb = bytes_of_items (packet_prefix_items p) ++ sb ++ Packet_Payload p.
Proof.
  intros W Hsb Ob. unfold ref_packet_bytes_stuffed. rewrite (packet_bits_stuffed p sb W Hsb).
  pose proof (af_size_range p W) as R. pose proof (stuffing_of_range p W) as SR.
  assert (Hal : aligned (packet_prefix_items p) (1 + (3 + Z.to_nat (ref_af_size (Packet_AdaptationField p) - stuffing_of p)))).
  { unfold packet_prefix_items. repeat apply aligned_app;
      [apply wu8_aligned | apply (header_aligned (Packet_Header p)) | apply (af_opt_prefix_aligned p W)]. }
  destruct Hal as [Hl Ho].
  rewrite (bytes_of_bits_app _ _ _ Hl), <- (chunks_concat _ Ho). f_equal.
  rewrite (bytes_of_bits_app (length sb)) by apply bits_of_bytes_length.
  rewrite (bytes_of_bits_of_bytes sb Ob). f_equal.
  apply bytes_of_bits_of_bytes.
  pose proof (wfp_payload p W) as P. destruct (PacketHeader_HasPayload (Packet_Header p)); [exact P | rewrite P; constructor].
Qed.

(* parsing does not depend on the values of the stuffing bytes *)
Theorem parse_ref_any_stuffing p sb : wf_packet p -> Z.of_nat (length sb) = stuffing_of p -> bytes_ok sb ->
  parse_packet_bytes (ref_packet_bytes_stuffed p sb) = Ok (observed p).
Proof.
  intros W Hsb Ob. rewrite (ref_bytes_stuffed p sb W Hsb Ob). apply (parse_any_stuffing p sb W Hsb).
Qed.

(* ---------------- re-emission ---------------- *)

(* the derived fields do not take part in the reference encoding, and filling them in keeps a packet conformant *)
Lemma wf_observed_afe e : wf_afe e -> wf_afe (observed_afe e).
Proof. intros W. constructor; [exact (wfe_ltw e W) | exact (wfe_pr e W) | exact (wfe_ss e W)]. Qed.

Lemma ref_af_length_observed af : ref_af_length (observed_af af) = ref_af_length af.
Proof.
  unfold ref_af_length, observed_af; cbn -[Z.add Z.of_nat].
  destruct (PacketAdaptationField_AdaptationExtensionField af); reflexivity.
Qed.

Lemma ref_af_fields_observed af : ref_af_prefix_fields (observed_af af) = ref_af_prefix_fields af.
Proof.
  unfold ref_af_prefix_fields. rewrite ref_af_length_observed. unfold observed_af; cbn -[Z.add Z.of_nat Z.to_nat repeat].
  destruct (PacketAdaptationField_AdaptationExtensionField af); reflexivity.
Qed.

Lemma wf_observed_af af : wf_af af -> wf_af (observed_af af).
Proof.
  unfold wf_af. change (PacketAdaptationField_IsOneByteStuffing (observed_af af)) with (PacketAdaptationField_IsOneByteStuffing af).
  destruct (PacketAdaptationField_IsOneByteStuffing af); intros W.
  - destruct W as (E1 & W). unfold af_rest_zero, observed_af; cbn -[Z.add Z.of_nat]. rewrite E1. split; [reflexivity | exact W].
  - constructor; [exact (wfa_pcr af W) | exact (wfa_opcr af W) | exact (wfa_sc af W) | exact (wfa_tpd af W) | | exact (wfa_stuff af W)].
    pose proof (wfa_ext af W) as X. unfold observed_af; cbn -[Z.add Z.of_nat].
    destruct (PacketAdaptationField_HasAdaptationExtensionField af).
    + destruct X as (e & -> & We). exists (observed_afe e). split; [reflexivity | apply wf_observed_afe; exact We].
    + rewrite X. reflexivity.
Qed.

Lemma wf_observed p : wf_packet p -> wf_packet (observed p).
Proof.
  intros W. pose proof (wfp_af p W) as A. pose proof (wfp_size p W) as S.
  constructor; unfold observed; cbn [Packet_Header Packet_AdaptationField Packet_Payload].
  - exact (wfp_header p W).
  - destruct (PacketHeader_HasAdaptationField (Packet_Header p)).
    + destruct A as (af & -> & Wa). exists (observed_af af). split; [reflexivity | apply wf_observed_af; exact Wa].
    + rewrite A. reflexivity.
  - exact (wfp_payload p W).
  - destruct (Packet_AdaptationField p) as [af|]; cbn [option_map ref_af_size] in *; [rewrite ref_af_length_observed|]; exact S.
Qed.

Lemma ref_packet_bytes_observed p : ref_packet_bytes (observed p) = ref_packet_bytes p.
Proof.
  unfold ref_packet_bytes, ref_packet_fields, ref_packet_fields_stuffed, ff_stuffing, stuffing_of, observed;
    cbn [Packet_Header Packet_AdaptationField Packet_Payload].
  destruct (Packet_AdaptationField p) as [af|]; cbn [option_map]; [rewrite ref_af_fields_observed|]; reflexivity.
Qed.

(* a packet parsed from a conformant buffer is written back byte for byte *)
Theorem reemit_packet bs p : conformant bs -> parse_packet_bytes bs = Ok p -> write_packet p 188 = Ok bs.
Proof.
  intros (q & Wq & ->) Hp. rewrite (parse_ref_packet q Wq) in Hp. injection Hp as <-.
  rewrite (write_ref_packet _ (wf_observed q Wq)). rewrite ref_packet_bytes_observed. reflexivity.
Qed.
