(* Gen/MuxGen.v's generatePAT / generatePMT take writePSIData, calcPMTSectionLength and calcDescriptorLength as PARAMETERS;
   Proofs/MuxGenEq.v instantiates them with the hand models (g_wpsi = write_psi_data appended to m.buf,
   calc_pmt_section_length, calc_descriptor_length).  Here they are instantiated with the functions REGENERATED from
   data_psi.go / data_pmt.go / descriptor.go (Gen/PsiWriteGen.v) and the two instantiations are shown to be the same
   function of the Muxer's state, for every state: nothing hand-written is left between the table generation of muxer.go
   and the bytes of the PAT / PMT payload.

   src_wpsi is the call writePSIData(m.bufWriter, d) with the conventions MuxGenEq uses for an abstract byte producer:
   on success the bytes of the items are appended to m.buf (a bytes.Buffer never fails) and the count - which generatePAT /
   generatePMT ignore - is their number; on an error / a panic the buffer is left alone (it is reset before its next use
   and not observed in between) and the error is the class code. *)
From Coq Require Import ZArith List Lia Bool ZifyBool.
Require Import Base.Bits Base.Iter Base.Wr Gen.Consts Gen.Types Gen.Preds Gen.MuxGen Gen.WriteGen Gen.PsiWriteGen
  Model.Packet Model.Desc Model.Psi Model.Muxer Proofs.MuxGenEq
  Proofs.WriteGenBase Proofs.PsiWriteGenBase Proofs.PsiWriteGenPsi Proofs.PsiWriteGenAll.
Import ListNotations.
Open Scope Z_scope.

Definition src_wpsi (buf : list Z) (d : PSIData) : list Z * Z * merror :=
  match gwritePSIData d with
  | (l, Some (n, e)) =>
      match werr e with
      | None => (buf ++ bytes_of_items (map snd l), blen (bytes_of_items (map snd l)), ENil)
      | Some c => (buf, 0, EExt (2 * c))
      end
  | (l, None) => (buf, 0, EExt 1)
  end.

Lemma src_wpsi_is_model buf d : src_wpsi buf d = g_wpsi buf d.
Proof.
  unfold src_wpsi, g_wpsi. pose proof (psi_writer_is_source d) as H.
  destruct (write_psi_data d) as [bs|c|].
  - destruct H as (l & E & Hb & _). rewrite E. cbn [werr]. rewrite Hb. reflexivity.
  - destruct H as (l & a & e & E & He). rewrite E, He. reflexivity.
  - destruct H as (l & E). rewrite E. reflexivity.
Qed.

(* ---- generatePAT / generatePMT depend on their parameters pointwise ---- *)

Section Congr.

Variables (cdl1 cdl2 : Descriptor -> Z) (cpl1 cpl2 : PMTData -> Z) (w1 w2 : list Z -> PSIData -> list Z * Z * merror).
Variable wp : list Z -> Packet -> Z -> list Z * Z * merror.
Hypothesis Hc : forall d, cdl1 d = cdl2 d.
Hypothesis Hp : forall d, cpl1 d = cpl2 d.
Hypothesis Hw : forall b d, w1 b d = w2 b d.

Lemma generatePAT_congr {PM : Type} (topat : PM -> PATData) ps pm upd ver cc pb buf :
  Muxer_generatePAT topat w1 wp ps pm upd ver cc pb buf = Muxer_generatePAT topat w2 wp ps pm upd ver cc pb buf.
Proof. unfold Muxer_generatePAT. destruct upd; cbv zeta; rewrite Hw; reflexivity. Qed.

Lemma pmt_loop1_congr l : forall h buf ps pmt mb cc upd ver,
  Muxer_generatePMT_loop1 cdl1 cpl1 w1 wp l h buf ps pmt mb cc upd ver =
  Muxer_generatePMT_loop1 cdl2 cpl2 w2 wp l h buf ps pmt mb cc upd ver.
Proof.
  induction l as [|e r IH]; intros; [reflexivity|]. cbn [Muxer_generatePMT_loop1].
  destruct (_ =? _); [reflexivity|apply IH].
Qed.

Lemma pmt_loop2_congr l : forall h buf ps pmt mb cc upd ver size,
  Muxer_generatePMT_loop2 cdl1 cpl1 w1 wp l h buf ps pmt mb cc upd ver size =
  Muxer_generatePMT_loop2 cdl2 cpl2 w2 wp l h buf ps pmt mb cc upd ver size.
Proof. induction l as [|e r IH]; intros; [reflexivity|]. cbn [Muxer_generatePMT_loop2]. rewrite Hc. apply IH. Qed.

Lemma pmt_loop4_congr l : forall es h buf ps pmt mb cc upd ver size,
  Muxer_generatePMT_loop4 cdl1 cpl1 w1 wp l es h buf ps pmt mb cc upd ver size =
  Muxer_generatePMT_loop4 cdl2 cpl2 w2 wp l es h buf ps pmt mb cc upd ver size.
Proof. induction l as [|e r IH]; intros; [reflexivity|]. cbn [Muxer_generatePMT_loop4]. rewrite Hc. apply IH. Qed.

Lemma pmt_loop3_congr l : forall h buf ps pmt mb cc upd ver size,
  Muxer_generatePMT_loop3 cdl1 cpl1 w1 wp l h buf ps pmt mb cc upd ver size =
  Muxer_generatePMT_loop3 cdl2 cpl2 w2 wp l h buf ps pmt mb cc upd ver size.
Proof.
  induction l as [|e r IH]; intros; [reflexivity|]. cbn [Muxer_generatePMT_loop3]. rewrite pmt_loop4_congr.
  destruct (Muxer_generatePMT_loop4 _ _ _ _ _ _ _ _ _ _ _ _ _ _ _); [reflexivity|apply IH].
Qed.

Lemma generatePMT_congr ps pmt upd ver cc mb buf :
  Muxer_generatePMT cdl1 cpl1 w1 wp ps pmt upd ver cc mb buf = Muxer_generatePMT cdl2 cpl2 w2 wp ps pmt upd ver cc mb buf.
Proof.
  unfold Muxer_generatePMT. cbv zeta. rewrite pmt_loop1_congr.
  destruct (Muxer_generatePMT_loop1 _ _ _ _ _ _ _ _ _ _ _ _ _) as [r|h]; [reflexivity|].
  destruct (negb h); [reflexivity|]. rewrite pmt_loop2_congr.
  destruct (Muxer_generatePMT_loop2 _ _ _ _ _ _ _ _ _ _ _ _ _ _) as [r|size]; [reflexivity|].
  rewrite pmt_loop3_congr.
  destruct (Muxer_generatePMT_loop3 _ _ _ _ _ _ _ _ _ _ _ _ _ _) as [r|size']; [reflexivity|].
  destruct (_ >? _); [reflexivity|].
  destruct upd; rewrite Hp, Hw; reflexivity.
Qed.

End Congr.

(* ---- the statement Props/C17.v quotes ---- *)

Theorem mux_tables_are_source :
  (forall buf d, src_wpsi buf d = g_wpsi buf d) /\
  (forall ps pm upd ver cc pb buf,
     Muxer_generatePAT to_pat src_wpsi g_wpkt ps pm upd ver cc pb buf =
     Muxer_generatePAT to_pat g_wpsi g_wpkt ps pm upd ver cc pb buf) /\
  (forall ps pmt upd ver cc mb buf,
     Muxer_generatePMT gcalcDescriptorLength gcalcPMTSectionLength src_wpsi g_wpkt ps pmt upd ver cc mb buf =
     Muxer_generatePMT calc_descriptor_length calc_pmt_section_length g_wpsi g_wpkt ps pmt upd ver cc mb buf).
Proof.
  split; [exact src_wpsi_is_model|]. split; intros.
  - apply generatePAT_congr. exact src_wpsi_is_model.
  - apply generatePMT_congr; [apply gcalcDescriptorLength_is_model | apply psi_writers_are_source | exact src_wpsi_is_model].
Qed.
