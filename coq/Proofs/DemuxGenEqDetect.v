(* rewind, peek, autoDetectPacketSize and newPacketBuffer (packet_buffer.go) as regenerated from the current source
   (Gen/DemuxGen.v, Section PacketBuffer) ARE rewind_reader, auto_detect and new_packet_buffer of Model/Reader.v, with
   the reader operations instantiated by the model (Proofs/DemuxGenEq.v): io.ReadFull = read_full, bufio.Reader.Peek =
   the bytes read_full would deliver (nothing consumed; io.EOF when fewer than asked), Discard, Seek(0, 0) = r_seek0,
   the type assertions answered by the reader's kind.  The reader's own failure is EExt wr for an ARBITRARY wr.

   What is read from the source and checked here: the 193-byte window, which errors of peek end detection as
   ErrNoMorePackets (== io.EOF) and which are wrapped, a short stream not being an error (== io.ErrUnexpectedEOF; for
   bufio: io.EOF with bytes), the deferred Discard on failure for a bufio.Reader, the first-byte test, the search for
   the second sync byte (index >= 188), and what happens to the reader afterwards: nothing (bufio), Seek to 0
   (seekable), reading 2*size-193 more bytes (plain).  A seek back by 193 instead of to 0 calls something else than
   rewind(r): the generated definition changes type and these proofs stop checking. *)
From Coq Require Import ZArith List Lia Bool String.
Require Import Base.Bits Base.Iter Gen.Consts Gen.Types Gen.Preds Gen.DemuxGen
  Model.Packet Model.Pool Model.Reader Model.Demux Proofs.DemuxGenEq.
Import ListNotations.
Open Scope Z_scope.

Section Detect.
Variable wr : gerr.

Definition mw (r : reader) (pm : pmap) (g : list (list Packet)) (c : list Packet) : mworld := mk_mworld r pm g c.

(* ---- rewind ---- *)

Definition rewind_reader_is_generated_subject (kd : rkind) (w : mworld) := DemuxGen.rewind mworld rkind unit as_seeker_m seek_m kd w.

Theorem rewind_reader_is_generated r pm g c :
  rewind_reader_is_generated_subject (r_kind r) (mw r pm g c) = Done (fst (rewind_reader r), None, mw (snd (rewind_reader r)) pm g c).
Proof. unfold rewind_reader_is_generated_subject, DemuxGen.rewind, rewind_reader, mw. destruct (r_kind r); reflexivity. Qed.

(* ---- what read_full delivers ---- *)

Lemma read_full_classes r n bs e r' : rest_len r -> 0 < n -> read_full r n = ((bs, e), r') ->
  match e with
  | Some REOF => bs = []
  | Some RUnexpectedEOF => bs <> []
  | _ => True
  end.
Proof.
  unfold read_full, rest_len. intros Hl Hn. pose proof (r_stop_le_len r) as Hs. unfold r_len in Hs.
  destruct (r_stop r) as [stop inj]. cbn [fst] in Hs.
  destruct (n <=? Z.max 0 (stop - r_pos r)) eqn:E; intros H; inversion H; subst; [exact I|].
  destruct inj; [exact I|].
  destruct (Z.max 0 (stop - r_pos r) =? 0) eqn:E0.
  - apply Z.eqb_eq in E0. rewrite E0. reflexivity.
  - intros Hnil. apply (f_equal (@List.length Z)) in Hnil. rewrite firstn_length in Hnil. cbn [List.length] in Hnil. lia.
Qed.

Lemma skipn_repeat {A : Type} (x : A) k n : skipn k (repeat x n) = repeat x (n - k).
Proof.
  revert n. induction k as [|k IH]; intros n; [rewrite Nat.sub_0_r; reflexivity|].
  destruct n as [|n]; [reflexivity|]. cbn [repeat skipn Nat.sub]. apply IH.
Qed.

(* the window after a read of bs bytes into 193 zero bytes is the model's pad_to *)
Lemma window_pad bs : Z.of_nat (List.length bs) <= 193 ->
  bs ++ skipn (List.length bs) (repeat 0 (Z.to_nat 193)) = pad_to bs detect_window.
Proof.
  intros H. unfold pad_to, detect_window. rewrite skipn_repeat. f_equal. f_equal. lia.
Qed.

Lemma pad_length bs : Z.of_nat (List.length bs) <= 193 -> Z.of_nat (List.length (pad_to bs detect_window)) = 193.
Proof. intros H. unfold pad_to, detect_window. rewrite app_length, repeat_length. lia. Qed.

Lemma find_sync_ge l : forall idx ps, find_sync l idx = Some ps -> C_MpegTsPacketSize <= ps.
Proof.
  induction l as [|b r IH]; intros idx ps; cbn [find_sync]; [discriminate|].
  destruct ((b =? syncByte) && (C_MpegTsPacketSize <=? idx)) eqn:E; [intros H; inversion H; subst; lia|apply IH].
Qed.

(* ---- peek ---- *)

Definition peek_is_generated_subject (kd : rkind) (b : list Z) (w : mworld) :=
  peek mworld rkind unit as_bufio_m (peek_m wr) (read_full_m wr) kd b w.

Definition zeros : list Z := repeat 0 (Z.to_nat 193).

Definition peek_spec (r : reader) (pm : pmap) (g : list (list Packet)) (c : list Packet)
  : outcome (list Z * bool * option gerr * mworld) :=
  let '((bs, e), r1) := read_full r detect_window in
  match r_kind r with
  | Bufio =>
      match e with
      | Some RInjected => Done (zeros, false, Some (EExt wr), mw r pm g c)
      | Some REOF => Done (zeros, false, Some e_eof, mw r pm g c)
      | _ => Done (pad_to bs detect_window, false, None, mw r pm g c)
      end
  | _ => Done (pad_to bs detect_window, true,
               match e with Some RInjected => Some (EExt wr) | Some REOF => Some e_eof | _ => None end, mw r1 pm g c)
  end.

Lemma peek_is_generated r pm g c : rest_len r -> peek_is_generated_subject (r_kind r) zeros (mw r pm g c) = peek_spec r pm g c.
Proof.
  intros Hwf. unfold peek_is_generated_subject, peek, peek_spec, mw.
  assert (Hz : Z.of_nat (List.length zeros) = 193) by (unfold zeros; rewrite repeat_length; lia).
  destruct (r_kind r) eqn:Ek; cbn [as_bufio_m is_some].
  - (* plain *)
    unfold read_full_m. cbn [mw_reader]. rewrite Hz. change detect_window with 193.
    destruct (read_full r 193) as [[bs e] r1] eqn:Hrf.
    pose proof (read_full_len r 193 bs e r1 ltac:(lia) Hrf) as Hle.
    cbn [obind]. unfold zeros at 1. rewrite (window_pad bs Hle). unfold mw_set_reader. cbn [mw_pm mw_groups mw_consulted].
    destruct e as [[| |]|]; reflexivity.
  - (* seekable *)
    unfold read_full_m. cbn [mw_reader]. rewrite Hz. change detect_window with 193.
    destruct (read_full r 193) as [[bs e] r1] eqn:Hrf.
    pose proof (read_full_len r 193 bs e r1 ltac:(lia) Hrf) as Hle.
    cbn [obind]. unfold zeros at 1. rewrite (window_pad bs Hle). unfold mw_set_reader. cbn [mw_pm mw_groups mw_consulted].
    destruct e as [[| |]|]; reflexivity.
  - (* bufio *)
    unfold peek_m. cbn [mw_reader]. rewrite Hz. change detect_window with 193.
    destruct (read_full r 193) as [[bs e] r1] eqn:Hrf.
    pose proof (read_full_len r 193 bs e r1 ltac:(lia) Hrf) as Hle.
    pose proof (read_full_classes r 193 bs e r1 Hwf ltac:(lia) Hrf) as Hcl.
    cbn [obind].
    destruct e as [[| |]|]; cbn [is_some andb orb negb oerr_eqb].
    + reflexivity.
    + subst bs. reflexivity.
    + change (gerr_eqb e_eof (EVar "io.EOF"%string)) with true. cbn [negb orb].
      destruct bs as [|b0 bs']; [contradiction Hcl; reflexivity|].
      replace (Z.of_nat (List.length (b0 :: bs')) =? 0) with false by (cbn [List.length]; lia). cbn [andb].
      unfold copy_at. rewrite Hz.
      replace (Z.min (193 - 0) (Z.of_nat (List.length (b0 :: bs')))) with (Z.of_nat (List.length (b0 :: bs'))) by lia.
      rewrite Nat2Z.id. cbn [Z.to_nat firstn app]. rewrite firstn_all. rewrite Z.add_0_l, Nat2Z.id.
      unfold zeros. rewrite (window_pad (b0 :: bs') Hle). reflexivity.
    + unfold copy_at. rewrite Hz.
      replace (Z.min (193 - 0) (Z.of_nat (List.length bs))) with (Z.of_nat (List.length bs)) by lia.
      rewrite Nat2Z.id. cbn [Z.to_nat firstn app]. rewrite firstn_all. rewrite Z.add_0_l, Nat2Z.id.
      unfold zeros. rewrite (window_pad bs Hle). reflexivity.
Qed.

(* ---- the search for the second sync byte ---- *)

Definition loop1_is_find_sync_subject (lst : list Z) (idx : Z) (b : list Z) (ok : bool) (ps0 : Z) (kd : rkind) (rerr : option gerr)
  (w : mworld) :=
  autoDetectPacketSize_loop1 mworld rkind unit as_seeker_m seek_m unit (read_full_m wr) discard_m
    lst idx w kd ps0 None 193 b false rerr (Some tt) ok.

Lemma loop1_is_find_sync lst : forall idx b ok ps0 kd rerr r pm g c,
  loop1_is_find_sync_subject lst idx b ok ps0 kd rerr (mw r pm g c) =
  match find_sync lst idx with
  | Some ps => Done (ps, None, mw r pm g c)
  | None => Done (ps0, Some ENew, mw (snd (read_full r detect_window)) pm g c)
  end.
Proof.
  induction lst as [|x rest IH]; intros idx b ok ps0 kd rerr r pm g c; unfold loop1_is_find_sync_subject;
    cbn [autoDetectPacketSize_loop1 find_sync].
  - reflexivity.
  - change syncByte with C_syncByte. rewrite Z.geb_leb.
    destruct (x =? C_syncByte); destruct (C_MpegTsPacketSize <=? idx); cbn [andb]; try reflexivity; apply IH.
Qed.

Definition loop2_is_find_sync_subject (lst : list Z) (idx : Z) (b : list Z) (br : option unit) (ok : bool) (ps0 : Z) (kd : rkind)
  (rerr : option gerr) (w : mworld) :=
  autoDetectPacketSize_loop2 mworld rkind unit as_seeker_m seek_m unit (read_full_m wr)
    lst idx w kd ps0 None 193 b true rerr br ok.

Definition resync (kd : rkind) (ps : Z) (r1 : reader) (pm : pmap) (g : list (list Packet)) (c : list Packet)
  : outcome (Z * option gerr * mworld) :=
  match kd with
  | Seekable => Done (ps, None, mw (r_seek0 r1) pm g c)
  | _ =>
      let '((_, e2), r2) := read_full r1 (ps - (detect_window - ps)) in
      Done (ps, match rerr_err wr e2 with Some e => Some (EWrap e) | None => None end, mw r2 pm g c)
  end.

Lemma loop2_is_find_sync lst : forall idx b br ok ps0 kd rerr r1 pm g c,
  loop2_is_find_sync_subject lst idx b br ok ps0 kd rerr (mw r1 pm g c) =
  match find_sync lst idx with
  | Some ps => resync kd ps r1 pm g c
  | None => Done (ps0, Some ENew, mw r1 pm g c)
  end.
Proof.
  induction lst as [|x rest IH]; intros idx b br ok ps0 kd rerr r1 pm g c; unfold loop2_is_find_sync_subject;
    cbn [autoDetectPacketSize_loop2 find_sync].
  - reflexivity.
  - change syncByte with C_syncByte. rewrite Z.geb_leb.
    destruct (x =? C_syncByte); destruct (C_MpegTsPacketSize <=? idx) eqn:E; cbn [andb]; try apply IH.
    assert (Hidx : C_MpegTsPacketSize <= idx) by lia. unfold C_MpegTsPacketSize in Hidx.
    cbn [negb]. unfold DemuxGen.rewind, resync, mw.
    destruct kd; cbn [as_seeker_m is_some obind seek_m Z.eqb andb mw_set_reader mw_reader mw_pm mw_groups mw_consulted].
    + (* plain: read on to the next packet boundary *)
      replace (-1 =? -1) with true by reflexivity. change detect_window with 193.
      replace (0 <=? idx - (193 - idx)) with true by lia.
      unfold read_full_m. cbn [mw_reader]. rewrite repeat_length. rewrite Z2Nat.id by lia.
      destruct (read_full r1 (idx - (193 - idx))) as [[bs e2] r2]. cbn [obind].
      unfold mw_set_reader. cbn [mw_pm mw_groups mw_consulted].
      destruct e2 as [[| |]|]; reflexivity.
    + reflexivity.
    + replace (-1 =? -1) with true by reflexivity. change detect_window with 193.
      replace (0 <=? idx - (193 - idx)) with true by lia.
      unfold read_full_m. cbn [mw_reader]. rewrite repeat_length. rewrite Z2Nat.id by lia.
      destruct (read_full r1 (idx - (193 - idx))) as [[bs e2] r2]. cbn [obind].
      unfold mw_set_reader. cbn [mw_pm mw_groups mw_consulted].
      destruct e2 as [[| |]|]; reflexivity.
Qed.

(* ---- autoDetectPacketSize ---- *)

Definition auto_detect_is_generated_subject (kd : rkind) (w : mworld) :=
  autoDetectPacketSize mworld rkind unit as_seeker_m seek_m unit as_bufio_m (peek_m wr) (read_full_m wr) discard_m kd w.

Definition ad_rel (pm : pmap) (g : list (list Packet)) (c : list Packet)
  (o : outcome (Z * option gerr * mworld)) (m : res Z * reader) : Prop :=
  match o with
  | Done (size, err, w') => w' = mw (snd m) pm g c /\ res_rel_exact (Some size) err (fst m)
  | _ => False
  end.

Lemma exact_injected e : has_ext e = true -> gerr_eqb e e_nomore = false ->
  code_x e = norm E_injected /\ gerr_eqb e e_nomore = (E_injected =? E_nomore).
Proof. intros H1 H2. unfold code_x. rewrite H1, H2. split; reflexivity. Qed.

Ltac non_bufio_found kd :=
  match goal with Hpl : Z.of_nat (List.length (pad_to ?bs detect_window)) = 193 |- context [mw ?r1 ?pm ?g ?c] =>
    cbn [as_bufio_m is_some]; rewrite Hpl; change (0 <? 193) with true; cbv iota;
    change C_syncByte with syncByte; change (Z.to_nat 0) with 0%nat;
    destruct (negb (nth 0 (pad_to bs detect_window) 0 =? syncByte)); [cbn [ad_rel fst snd res_rel_exact]; repeat split|];
    change (autoDetectPacketSize_loop2 mworld rkind unit as_seeker_m seek_m unit (read_full_m wr)
              (pad_to bs detect_window) 0 (mw r1 pm g c) kd 0 None 193 (pad_to bs detect_window) true None None false)
      with (loop2_is_find_sync_subject (pad_to bs detect_window) 0 (pad_to bs detect_window) None false 0 kd None (mw r1 pm g c));
    rewrite loop2_is_find_sync;
    destruct (find_sync (pad_to bs detect_window) 0) as [?ps|]; [|cbn [ad_rel fst snd res_rel_exact]; repeat split];
    unfold resync;
    try (destruct (read_full r1 (_ - (detect_window - _))) as [[?bs2 [[| |]|]] ?r2]);
    cbn [rerr_err ad_rel fst snd res_rel_exact]; repeat split
  end.

Ltac bufio_found Hrf :=
  match goal with Hpl : Z.of_nat (List.length (pad_to ?bs detect_window)) = 193 |- context [mw ?r ?pm ?g ?c] =>
    cbn [as_bufio_m is_some]; rewrite Hpl; change (0 <? 193) with true; cbv iota;
    change C_syncByte with syncByte; change (Z.to_nat 0) with 0%nat;
    destruct (negb (nth 0 (pad_to bs detect_window) 0 =? syncByte));
    [unfold discard_m, mw_set_reader, mw; cbn [obind mw_reader mw_pm mw_groups mw_consulted];
     change 193 with detect_window; rewrite Hrf; cbn [snd ad_rel fst res_rel_exact]; repeat split|];
    change (autoDetectPacketSize_loop1 mworld rkind unit as_seeker_m seek_m unit (read_full_m wr) discard_m
              (pad_to bs detect_window) 0 (mw r pm g c) Bufio 0 None 193 (pad_to bs detect_window) false None (Some tt) true)
      with (loop1_is_find_sync_subject (pad_to bs detect_window) 0 (pad_to bs detect_window) true 0 Bufio None (mw r pm g c));
    rewrite loop1_is_find_sync; rewrite Hrf;
    destruct (find_sync (pad_to bs detect_window) 0) as [?ps|]; cbn [snd ad_rel fst res_rel_exact]; repeat split
  end.

(* detection on a reader that is not a bufio.Reader (kd = Plain / Seekable) *)
Ltac non_bufio kd :=
  match goal with e : option rerr |- _ =>
    destruct e as [[| |]|]; cbn [obind is_some oerr_eqb ad_rel fst snd res_rel_exact ewrap];
    [ change (gerr_eqb (EExt wr) (EVar "io.EOF"%string)) with false; cbn [ad_rel fst snd res_rel_exact ewrap];
      split; [reflexivity|]; apply exact_injected; reflexivity
    | change (gerr_eqb e_eof (EVar "io.EOF"%string)) with true; cbn [ad_rel fst snd res_rel_exact]; repeat split
    | non_bufio_found kd
    | non_bufio_found kd ]
  end.

Theorem auto_detect_is_generated r pm g c : rest_len r ->
  ad_rel pm g c (auto_detect_is_generated_subject (r_kind r) (mw r pm g c)) (auto_detect r).
Proof.
  intros Hwf. unfold auto_detect_is_generated_subject, autoDetectPacketSize.
  change (0 <=? 193) with true. cbv iota zeta.
  change (peek mworld rkind unit as_bufio_m (peek_m wr) (read_full_m wr) (r_kind r) (repeat 0 (Z.to_nat 193)) (mw r pm g c))
    with (peek_is_generated_subject (r_kind r) zeros (mw r pm g c)).
  rewrite (peek_is_generated r pm g c Hwf). unfold peek_spec, auto_detect.
  destruct (read_full r detect_window) as [[bs e] r1] eqn:Hrf.
  pose proof (read_full_len r 193 bs e r1 ltac:(lia) Hrf) as Hle.
  pose proof (pad_length bs Hle) as Hpl.
  destruct (r_kind r) eqn:Ek.
  - (* plain *) non_bufio Plain.
  - (* seekable *) non_bufio Seekable.
  - (* bufio: nothing is consumed unless detection fails *)
    destruct e as [[| |]|]; cbn [obind is_some oerr_eqb ad_rel fst snd res_rel_exact ewrap].
    + change (gerr_eqb (EExt wr) (EVar "io.EOF"%string)) with false. cbn [ad_rel fst snd res_rel_exact ewrap].
      split; [reflexivity|]. apply exact_injected; reflexivity.
    + change (gerr_eqb e_eof (EVar "io.EOF"%string)) with true. cbn [ad_rel fst snd res_rel_exact]. repeat split.
    + bufio_found Hrf.
    + bufio_found Hrf.
Qed.


(* ---- newPacketBuffer ---- *)

Definition new_packet_buffer_is_generated_subject (kd : rkind) (size : Z) (sk : option go_skipper) (w : mworld) :=
  newPacketBuffer mworld rkind unit as_seeker_m seek_m unit as_bufio_m (peek_m wr) (read_full_m wr) discard_m kd size sk w.

Definition npb_rel (kd : rkind) (sk : option go_skipper) (pm : pmap) (g : list (list Packet)) (c : list Packet)
  (o : outcome (option (packetBuffer rkind) * option gerr * mworld)) (m : res pbuf * reader) : Prop :=
  match o with
  | Done (pb, err, w') =>
      w' = mw (snd m) pm g c /\
      res_rel_exact (option_map (fun rec => mk_pbuf (packetBuffer_packetSize rkind rec)) pb) err (fst m) /\
      (forall rec, pb = Some rec ->
         packetBuffer_s rkind rec = sk /\ packetBuffer_r rkind rec = kd /\ packetBuffer_packetReadBuffer rkind rec = [])
  | _ => False
  end.

Theorem new_packet_buffer_is_generated r opt sk pm g c : rest_len r ->
  npb_rel (r_kind r) sk pm g c (new_packet_buffer_is_generated_subject (r_kind r) opt sk (mw r pm g c)) (new_packet_buffer r opt).
Proof.
  intros Hwf. unfold new_packet_buffer_is_generated_subject, newPacketBuffer, new_packet_buffer. cbv zeta.
  destruct (opt =? 0).
  - change (autoDetectPacketSize mworld rkind unit as_seeker_m seek_m unit as_bufio_m (peek_m wr) (read_full_m wr) discard_m
              (r_kind r) (mw r pm g c)) with (auto_detect_is_generated_subject (r_kind r) (mw r pm g c)).
    pose proof (auto_detect_is_generated r pm g c Hwf) as Had. unfold ad_rel in Had.
    destruct (auto_detect_is_generated_subject (r_kind r) (mw r pm g c)) as [[[size err] w']| |]; [|contradiction|contradiction].
    destruct (auto_detect r) as [rs r']. cbn [fst snd] in Had. destruct Had as [-> Hr]. cbn [obind].
    destruct err as [e|]; destruct rs as [ps|cd|]; cbn [res_rel_exact] in Hr; try contradiction; cbn [is_some].
    + destruct Hr as [Hc Hx]. cbn [oerr_eqb]. change (EVar "ErrNoMorePackets"%string) with e_nomore. rewrite Hx.
      destruct (cd =? E_nomore) eqn:Ec; cbn [negb obind npb_rel fst snd option_map res_rel_exact ewrap].
      * repeat split; [exact Hc|rewrite Hx, Ec; reflexivity|discriminate|discriminate|discriminate].
      * rewrite code_x_wrap. repeat split; [exact Hc|cbn [gerr_eqb e_nomore]; rewrite Ec; reflexivity|discriminate|discriminate|discriminate].
    + inversion Hr; subst. cbn [npb_rel fst snd option_map res_rel_exact packetBuffer_packetSize].
      repeat split; try reflexivity; match goal with H : Some _ = Some _ |- _ => inversion H; reflexivity end.
  - cbn [npb_rel fst snd option_map res_rel_exact packetBuffer_packetSize].
    repeat split; try reflexivity; match goal with H : Some _ = Some _ |- _ => inversion H; reflexivity end.
Qed.

End Detect.
