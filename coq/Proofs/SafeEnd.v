(* C03, end of stream: once NextData has returned ErrNoMorePackets (reader that does not fail) the Demuxer is finished —
   nothing buffered, nothing pooled, nothing left in the reader — and from a finished state every later NextPacket and
   NextData returns ErrNoMorePackets again.  (Proofs/DemuxProofs.v has the same stability for states with a truncated
   tail left in the reader; here the state is derived from the first ErrNoMorePackets itself, whatever the size option,
   including the case where auto-detection found the stream empty and no packet buffer was ever created.) *)
From Coq Require Import ZArith List Lia Bool ZifyBool.
Require Import Base.Bits Base.Iter Gen.Consts Gen.Types Gen.Preds Model.Packet Model.Pool Model.Reader Model.Demux
  Model.Pes Model.Psi Model.DemuxFull.
Require Import Proofs.SafeProofs Proofs.SafeUnits Proofs.SafePsi Proofs.SafeDemux Proofs.ReaderProofs Proofs.PoolProofs
  Proofs.DemuxProofs Proofs.SafeBound.
Import ListNotations.
Open Scope Z_scope.

Definition finished (s : dstate) : Prop :=
  dinv2 s /\ d_buffer s = [] /\ d_pool s = [] /\ rem (d_reader s) = 0.

(* ---------------- at the end of the reader ---------------- *)

Lemma read_full_at_end r n : reader_wf r -> r_fault r = None -> rem r = 0 -> 0 < n ->
  snd (fst (read_full r n)) = Some REOF /\ rem (snd (read_full r n)) = 0.
Proof.
  intros Hwf Hf Hr Hn. pose proof (read_full_nofault r n Hwf Hf ltac:(lia)) as (_ & _ & R).
  destruct (snd (fst (read_full r n))) as [e|]; [|lia].
  destruct R as (_ & R1 & _ & R2). split; [|exact R1]. f_equal. apply R2. exact Hr.
Qed.

Lemma pb_next_at_end skip size fuel r : reader_wf r -> r_fault r = None -> rem r = 0 -> 0 < size ->
  fst (fst (pb_next (S fuel) skip size r)) = Err E_nomore /\ rem (snd (fst (pb_next (S fuel) skip size r))) = 0.
Proof.
  intros Hwf Hf Hr Hs. cbn [pb_next]. pose proof (read_full_at_end r size Hwf Hf Hr Hs) as [E1 E2].
  destruct (read_full r size) as [[bs e] r1]. cbn [fst snd] in *. subst e. cbn [fst snd]. auto.
Qed.

Lemma auto_detect_at_end r : reader_wf r -> r_fault r = None -> rem r = 0 ->
  fst (auto_detect r) = Err E_nomore /\ rem (snd (auto_detect r)) = 0.
Proof.
  intros Hwf Hf Hr. unfold auto_detect.
  pose proof (read_full_at_end r detect_window Hwf Hf Hr ltac:(unfold detect_window; lia)) as [E1 E2].
  destruct (r_kind r); destruct (read_full r detect_window) as [[bs e] r1]; cbn [fst snd] in *; subst e; cbn [fst snd]; auto.
Qed.

(* the error codes that are not ErrNoMorePackets *)
Ltac not_nomore := unfold E_sync, E_generic, E_injected, E_skipped, E_nomore in *; try discriminate; try congruence.

(* packetBuffer.next returns ErrNoMorePackets only when the reader is used up (its fuel is never what stops it) *)
Lemma pb_next_nomore skip size : C_MpegTsPacketSize <= size -> forall fuel r, reader_wf r -> r_fault r = None ->
  (Z.to_nat (rem r / size) < fuel)%nat -> fst (fst (pb_next fuel skip size r)) = Err E_nomore ->
  rem (snd (fst (pb_next fuel skip size r))) = 0.
Proof.
  intros Hsz. assert (Hsz0 : 0 < size) by (unfold C_MpegTsPacketSize in *; lia).
  induction fuel as [|k IH]; intros r Hwf Hf Hfuel; [lia|]. cbn [pb_next].
  pose proof (read_full_wf r size Hwf ltac:(lia)) as (W1 & Wb & Wl). pose proof (rem_nonneg r Hwf) as Hrem.
  pose proof (read_full_nofault r size Hwf Hf ltac:(lia)) as (F1 & T1 & R1).
  destruct (read_full r size) as [[bs e] r1]. cbn [fst snd] in *.
  destruct e as [[| |]|]; cbn [fst snd]; cbv beta iota in R1; try (intros _; lia).
  assert (Hlen : C_MpegTsPacketSize <= Z.of_nat (length bs)) by (rewrite (Wl eq_refl); lia).
  destruct (run_iter (parse_packet skip) bs) as [p|c|] eqn:Ep; cbn [fst snd]; try discriminate.
  destruct (c =? E_skipped) eqn:Ec.
  - assert (Hk : (Z.to_nat (rem r1 / size) < k)%nat).
    { destruct R1 as [R1 R2]. rewrite R2. replace (rem r - size) with (rem r + (-1) * size) by lia.
      rewrite Z.div_add by lia. assert (1 <= rem r / size) by (apply Z.div_le_lower_bound; lia). lia. }
    specialize (IH r1 W1 F1 Hk). destruct (pb_next k skip size r1) as [[x r''] l]. cbn [fst snd] in *. exact IH.
  - cbn [fst snd]. intros E. inversion E; subst. exfalso. eapply parse_packet_err; eauto.
Qed.

(* NextPacket returns ErrNoMorePackets only when the reader is used up; buffer and pool are untouched *)
Lemma next_packet_nomore skip s : dinv2 s -> fst (next_packet skip s) = Err E_nomore ->
  rem (d_reader (snd (next_packet skip s))) = 0.
Proof.
  intros (Hinv & Hf & Hsorted). pose proof Hinv as (Hr & Hpb & Hpl & Hopt).
  assert (Hpbn : forall pb r, C_MpegTsPacketSize <= pb_size pb -> reader_wf r -> r_fault r = None ->
            fst (fst (packet_buffer_next skip pb r)) = Err E_nomore -> rem (snd (fst (packet_buffer_next skip pb r))) = 0).
  { intros pb r Hsz Hwf Hfr. unfold packet_buffer_next. unfold C_MpegTsPacketSize in *.
    destruct (pb_size pb <? 0) eqn:E1; [lia|]. destruct (pb_size pb =? 0) eqn:E2; [lia|].
    apply pb_next_nomore; auto. unfold packets_left. unfold rem, r_len.
    replace (Z.max 1 (pb_size pb)) with (pb_size pb) by lia. lia. }
  unfold next_packet. destruct (d_pb s) as [pb|] eqn:Epb.
  - specialize (Hpbn pb (d_reader s) Hpb Hr Hf).
    destruct (packet_buffer_next skip pb (d_reader s)) as [[rp r'] l]. cbn [fst snd log_consulted set_reader d_reader] in *. exact Hpbn.
  - unfold new_packet_buffer. destruct (d_opt_size s =? 0) eqn:E0.
    + pose proof (auto_detect_wf (d_reader s) Hr) as [W A0].
      pose proof (auto_detect_nofault (d_reader s) Hr Hf) as (F & T & A).
      destruct (auto_detect (d_reader s)) as [[ps|c|] r'] eqn:Ead; cbn [fst snd] in *; [| |contradiction].
      * destruct A as [Hps _]. specialize (Hpbn (mk_pbuf ps) r' Hps W F). cbn [set_pb set_reader d_reader].
        destruct (packet_buffer_next skip (mk_pbuf ps) r') as [[rp r''] l]. cbn [fst snd log_consulted set_reader d_reader] in *. exact Hpbn.
      * cbn [set_reader d_reader]. intros E. inversion E; subst.
        (* the only way auto-detection reports ErrNoMorePackets is an empty read *)
        clear - Ead Hr Hf. pose proof (rem_nonneg _ Hr) as Hrem. unfold auto_detect in Ead.
        pose proof (read_full_nofault (d_reader s) detect_window Hr Hf ltac:(unfold detect_window; lia)) as (_ & _ & R1).
        destruct (r_kind (d_reader s)); destruct (read_full (d_reader s) detect_window) as [[bs e] r1]; cbn [fst snd] in *;
          destruct e as [[| |]|]; cbv beta iota in R1;
          try (destruct R1 as (_ & _ & R & _); exfalso; apply R; reflexivity);
          try (inversion Ead; subst; destruct R1 as (_ & R2 & _ & R3); first [exact R2|apply R3; reflexivity]);
          exfalso;
          repeat match type of Ead with
          | (if ?c then _ else _) = _ => destruct c
          | match ?x with _ => _ end = _ => destruct x as [?|] eqn:?
          | (let '(_, _) := ?x in _) = _ => destruct x as [[? [[| |]|]] ?]
          end; inversion Ead; not_nomore.
    + assert (Hsz : C_MpegTsPacketSize <= d_opt_size s) by (destruct Hopt; [lia|assumption]).
      specialize (Hpbn (mk_pbuf (d_opt_size s)) (d_reader s) Hsz Hr Hf). cbn [set_pb set_reader d_reader].
      destruct (packet_buffer_next skip (mk_pbuf (d_opt_size s)) (d_reader s)) as [[rp r''] l]. cbn [fst snd log_consulted set_reader d_reader] in *. exact Hpbn.
Qed.

(* ---------------- a finished Demuxer stays finished ---------------- *)

Lemma next_packet_finished skip s : dinv2 s -> rem (d_reader s) = 0 ->
  fst (next_packet skip s) = Err E_nomore /\ rem (d_reader (snd (next_packet skip s))) = 0.
Proof.
  intros (Hinv & Hf & Hsorted) Hrem. pose proof Hinv as (Hr & Hpb & Hpl & Hopt).
  assert (Hpbn : forall pb r, C_MpegTsPacketSize <= pb_size pb -> reader_wf r -> r_fault r = None -> rem r = 0 ->
            fst (fst (packet_buffer_next skip pb r)) = Err E_nomore /\ rem (snd (fst (packet_buffer_next skip pb r))) = 0).
  { intros pb r Hsz Hwf Hfr Hr0. unfold packet_buffer_next. unfold C_MpegTsPacketSize in *.
    destruct (pb_size pb <? 0) eqn:E1; [lia|]. destruct (pb_size pb =? 0) eqn:E2; [lia|].
    unfold packets_left. apply pb_next_at_end; auto; lia. }
  unfold next_packet. destruct (d_pb s) as [pb|] eqn:Epb.
  - specialize (Hpbn pb (d_reader s) Hpb Hr Hf Hrem).
    destruct (packet_buffer_next skip pb (d_reader s)) as [[rp r'] l]. cbn [fst snd log_consulted set_reader d_reader] in *. exact Hpbn.
  - unfold new_packet_buffer. destruct (d_opt_size s =? 0) eqn:E0.
    + pose proof (auto_detect_at_end (d_reader s) Hr Hf Hrem) as [A1 A2].
      destruct (auto_detect (d_reader s)) as [x r']. cbn [fst snd] in *. subst x. cbn [fst snd set_reader d_reader]. auto.
    + assert (Hsz : C_MpegTsPacketSize <= d_opt_size s) by (destruct Hopt; [lia|assumption]).
      specialize (Hpbn (mk_pbuf (d_opt_size s)) (d_reader s) Hsz Hr Hf Hrem). cbn [set_pb set_reader d_reader].
      destruct (packet_buffer_next skip (mk_pbuf (d_opt_size s)) (d_reader s)) as [[rp r''] l]. cbn [fst snd log_consulted set_reader d_reader] in *. exact Hpbn.
Qed.

Theorem finished_stable P prs skip s : finished s ->
  fst (next_packet skip s) = Err E_nomore /\ finished (snd (next_packet skip s)) /\
  fst (next_data P prs skip s) = Err E_nomore /\ finished (snd (next_data P prs skip s)).
Proof.
  intros (Hs & Hb & Hp & Hr).
  pose proof (next_packet_finished skip s Hs Hr) as [N1 N2].
  pose proof (next_packet_potential skip s Hs) as (Hs1 & Eb & Ep & _).
  assert (Hfin1 : finished (snd (next_packet skip s))).
  { split; [exact Hs1|]. rewrite Eb, Ep. auto. }
  split; [exact N1|]. split; [exact Hfin1|].
  unfold next_data. rewrite Hb. unfold nd_fuel. cbn [next_data_loop].
  destruct (next_packet skip s) as [rp s1]. cbn [fst snd] in *. subst rp. rewrite Z.eqb_refl.
  destruct Hfin1 as (F1 & F2 & F3 & F4). rewrite F3. cbn [length drain]. rewrite F3. cbn [pool_dump fst snd].
  split; [reflexivity|]. split; [|cbn [set_pool d_buffer d_pool d_reader]; auto].
  apply set_pool_inv2; [exact F1|constructor|exact I].
Qed.

(* after it, every call of either kind returns ErrNoMorePackets *)
Theorem finished_forever P prs skip : forall cs s, finished s ->
  Forall (fun x => x = Err E_nomore) (calls P prs skip cs s).
Proof.
  induction cs as [|c cs IH]; intros s Hs; [constructor|].
  cbn [calls]. destruct (finished_stable P prs skip s Hs) as (H1 & H2 & H3 & H4).
  destruct c; cbn [call].
  - destruct (next_packet skip s) as [r s']. cbn [fst snd] in *. subst r. constructor; [reflexivity|apply IH; exact H2].
  - destruct (next_data P prs skip s) as [r s']. cbn [fst snd] in *. subst r. constructor; [reflexivity|apply IH; exact H4].
Qed.

(* ---------------- the first ErrNoMorePackets of NextData leaves a finished Demuxer ---------------- *)

(* parseData never reports ErrNoMorePackets: the unit parsers only have the generic error *)
Lemma parse_data_err prs pm ps c : queue_ok ps -> parse_data full_parsers prs pm ps = Err c -> c <> E_nomore.
Proof.
  intros Hok. unfold parse_data.
  assert (Hdef : forall ds0,
    match ps with
    | [] => Panic
    | p0 :: _ =>
        if pid_of p0 =? C_PIDCAT then Ok ds0
        else if isPSIPayload (pid_of p0) (pm_mem pm)
             then dp_psi full_parsers (concat_payload ps)
                    {| Packet_AdaptationField := Packet_AdaptationField p0; Packet_Header := Packet_Header p0; Packet_Payload := [] |}
                    (pid_of p0)
             else if isPESPayload (concat_payload ps)
                  then res_map (fun pes => [pes_data {| Packet_AdaptationField := Packet_AdaptationField p0; Packet_Header := Packet_Header p0; Packet_Payload := [] |} pes (pid_of p0)])
                         (dp_pes full_parsers (concat_payload ps))
                  else Ok ds0
    end = Err c -> c <> E_nomore).
  { intros ds0. destruct ps as [|p0 r]; [discriminate|].
    pose proof (concat_payload_ok _ Hok) as Hb.
    destruct (pid_of p0 =? C_PIDCAT); [discriminate|].
    destruct (isPSIPayload (pid_of p0) (pm_mem pm)).
    - cbn [full_parsers dp_psi]. pose proof (parse_psi_data_no_panic _ Hb) as H.
      destruct (parse_psi_data_bytes (concat_payload (p0 :: r))); cbn [res_map]; try discriminate.
      intros E; inversion E; subst. destruct H as [->| ->]; not_nomore.
    - destruct (isPESPayload (concat_payload (p0 :: r))); [|discriminate].
      cbn [full_parsers dp_pes]. pose proof (parse_pes_data_no_panic _ Hb) as H.
      destruct (parse_pes_data_bytes (concat_payload (p0 :: r))); cbn [res_map]; try discriminate.
      intros E; inversion E; subst. destruct H as [->| ->]; not_nomore. }
  destruct prs as [f|]; [|apply Hdef].
  destruct (f ps) as [[ds [|]]|c'|]; try discriminate; [apply Hdef|]. intros E; inversion E; subst. not_nomore.
Qed.

Lemma pool_dump_shorter pl : snd (pool_dump pl) <> [] -> (length (fst (pool_dump pl)) < length pl)%nat.
Proof.
  induction pl as [|[k q] r IH]; cbn [pool_dump]; [intros H; exfalso; apply H; reflexivity|].
  destruct q; [intros H; specialize (IH H); cbn [length]; lia|]. cbn [fst snd length]. lia.
Qed.

Lemma drain_nomore prs : forall fuel s, dinv2 s -> d_buffer s = [] -> rem (d_reader s) = 0 ->
  (length (d_pool s) < fuel)%nat -> fst (drain full_parsers prs fuel s) = Err E_nomore ->
  finished (snd (drain full_parsers prs fuel s)).
Proof.
  induction fuel as [|k IH]; intros s Hs Hb Hr Hfuel; [lia|]. cbn [drain].
  pose proof Hs as ((_ & _ & Hpl & _) & _ & Hsorted).
  pose proof (pool_dump_ok _ Hpl) as [D1 D2]. pose proof (pool_dump_w _ Hsorted) as (S1 & _ & S3).
  pose proof (pool_dump_shorter (d_pool s)) as Hsh.
  destruct (pool_dump (d_pool s)) as [pl' ps]. cbn [fst snd] in *.
  pose proof (set_pool_inv2 s pl' Hs D1 S1) as Hs0.
  destruct ps as [|p ps].
  - cbn [fst snd]. intros _. rewrite (S3 eq_refl) in *. split; [exact Hs0|]. cbn [set_pool d_buffer d_pool d_reader]. auto.
  - specialize (Hsh ltac:(discriminate)).
    assert (Hs1 : dinv2 (log_group (set_pool s pl') (p :: ps))) by exact Hs0.
    destruct (parse_data full_parsers prs (d_pm (log_group (set_pool s pl') (p :: ps))) (p :: ps)) as [ds|c|] eqn:Epd.
    + pose proof (update_data_potential (log_group (set_pool s pl') (p :: ps)) ds) as Hu.
      destruct (update_data (log_group (set_pool s pl') (p :: ps)) ds) as [[d|] s2]; cbn [fst snd] in *; [discriminate|].
      destruct Hu as [-> _]. apply IH; auto. cbn [log_group set_pool d_pool]. lia.
    + apply IH; auto. cbn [log_group set_pool d_pool]. lia.
    + cbn [fst]. discriminate.
Qed.

Lemma next_data_loop_nomore prs skip : forall fuel s, dinv2 s -> d_buffer s = [] ->
  fst (next_data_loop full_parsers prs skip fuel s) = Err E_nomore ->
  finished (snd (next_data_loop full_parsers prs skip fuel s)).
Proof.
  induction fuel as [|k IH]; intros s Hs Hb; cbn [next_data_loop]; [cbn [fst]; intros E; inversion E; not_nomore|].
  pose proof (next_packet_potential skip s Hs) as (Hs1 & Eb & Ep & _).
  pose proof (next_packet_inv skip s (proj1 Hs)) as [_ Hpk].
  pose proof (next_packet_nomore skip s Hs) as Hnm.
  destruct (next_packet skip s) as [[p|c|] s1]; cbn [fst snd] in *.
  - pose proof Hs1 as ((_ & _ & Hpl & _) & _ & Hsorted).
    pose proof (pool_add_ok (d_pm s1) (d_pool s1) p Hpl Hpk) as [A1 A2].
    pose proof (pool_add_sorted (d_pm s1) (d_pool s1) p Hsorted) as As.
    destruct (pool_add (d_pm s1) (d_pool s1) p) as [pl' ps]. cbn [fst snd] in *.
    pose proof (set_pool_inv2 s1 pl' Hs1 A1 As) as Hs2.
    assert (Hb2 : d_buffer (set_pool s1 pl') = []) by (cbn [set_pool d_buffer]; congruence).
    destruct ps as [|q ps]; [apply IH; assumption|].
    assert (Hs2' : dinv2 (log_group (set_pool s1 pl') (q :: ps))) by exact Hs2.
    destruct (parse_data full_parsers prs (d_pm (log_group (set_pool s1 pl') (q :: ps))) (q :: ps)) as [ds|c|] eqn:Epd.
    + pose proof (update_data_potential (log_group (set_pool s1 pl') (q :: ps)) ds) as Hu.
      destruct (update_data (log_group (set_pool s1 pl') (q :: ps)) ds) as [[d|] s3]; cbn [fst snd] in *; [discriminate|].
      destruct Hu as [-> _]. apply IH; assumption.
    + cbn [fst snd]. intros E; inversion E; subst. exfalso. eapply parse_data_err; eauto.
    + cbn [fst]. discriminate.
  - destruct (c =? E_nomore) eqn:Ec.
    + assert (c = E_nomore) by lia. subst c. apply drain_nomore; [exact Hs1|congruence|apply Hnm; reflexivity|lia].
    + cbn [fst snd]. intros E; inversion E; subst. rewrite Z.eqb_refl in Ec. discriminate.
  - cbn [fst]. discriminate.
Qed.

Theorem next_data_nomore_finished prs skip s : dinv2 s ->
  fst (next_data full_parsers prs skip s) = Err E_nomore -> finished (snd (next_data full_parsers prs skip s)).
Proof.
  intros Hs. unfold next_data. destruct (d_buffer s) as [|d rest] eqn:Eb; [|cbn [fst]; discriminate].
  apply next_data_loop_nomore; assumption.
Qed.

(* a reachable state over a reader that does not fail satisfies dinv2 *)
Inductive reachable_nofault (prs : option custom_parser) (skip : Packet -> bool) : dstate -> Prop :=
| reachnf_init data k opt : bytes_ok data -> (opt = 0 \/ C_MpegTsPacketSize <= opt) ->
    reachable_nofault prs skip (init_dstate (new_reader data None k) opt)
| reachnf_packet s : reachable_nofault prs skip s -> reachable_nofault prs skip (snd (next_packet skip s))
| reachnf_data s : reachable_nofault prs skip s -> reachable_nofault prs skip (snd (next_data full_parsers prs skip s)).

Lemma reachable_nofault_inv2 prs skip s : parser_no_panic prs -> parser_bounded prs -> reachable_nofault prs skip s -> dinv2 s.
Proof.
  intros Hnp Hb. induction 1 as [data k opt Hd Ho|s _ IH|s _ IH].
  - apply init_inv2; assumption.
  - apply next_packet_potential'; exact IH.
  - apply next_data_potential; assumption.
Qed.

(* after the first ErrNoMorePackets of NextData, every later call of either kind returns ErrNoMorePackets *)
Theorem nomore_absorbing prs skip s : dinv2 s -> fst (next_data full_parsers prs skip s) = Err E_nomore ->
  forall P' prs' skip' cs, Forall (fun x => x = Err E_nomore) (calls P' prs' skip' cs (snd (next_data full_parsers prs skip s))).
Proof. intros Hs E P' prs' skip' cs. apply finished_forever. apply next_data_nomore_finished; assumption. Qed.

(* NextPacket: after its first ErrNoMorePackets the reader is used up and NextPacket keeps returning it
   (NextData may still hand out what the pool holds) *)
Theorem next_packet_nomore_stable skip s : dinv2 s -> fst (next_packet skip s) = Err E_nomore ->
  forall skip', fst (next_packet skip' (snd (next_packet skip s))) = Err E_nomore.
Proof.
  intros Hs E skip'. pose proof (next_packet_nomore skip s Hs E) as Hr.
  pose proof (next_packet_potential skip s Hs) as (Hs1 & _).
  apply (next_packet_finished skip' _ Hs1 Hr).
Qed.

(* a truncated final packet: fewer bytes left than a packet => ErrNoMorePackets (not an error), and the tail is consumed *)
Theorem truncated_tail skip s pb : dinv2 s -> d_pb s = Some pb -> rem (d_reader s) < pb_size pb ->
  fst (next_packet skip s) = Err E_nomore /\ rem (d_reader (snd (next_packet skip s))) = 0.
Proof.
  intros (Hinv & Hf & _) Epb Hlt. pose proof Hinv as (Hr & Hpb & _). rewrite Epb in Hpb.
  unfold next_packet. rewrite Epb. unfold packet_buffer_next. unfold C_MpegTsPacketSize in *.
  destruct (pb_size pb <? 0) eqn:E1; [lia|]. destruct (pb_size pb =? 0) eqn:E2; [lia|].
  unfold packets_left. cbn [pb_next].
  pose proof (read_full_nofault (d_reader s) (pb_size pb) Hr Hf ltac:(lia)) as (_ & _ & R).
  destruct (read_full (d_reader s) (pb_size pb)) as [[bs e] r1]. cbn [fst snd] in *.
  destruct e as [[| |]|]; cbv beta iota in R; cbn [fst snd log_consulted set_reader d_reader].
  - destruct R as (_ & _ & R & _). exfalso; apply R; reflexivity.
  - split; [reflexivity|tauto].
  - split; [reflexivity|tauto].
  - lia.
Qed.
