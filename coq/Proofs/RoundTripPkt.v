(* C01, packet level: what parsePacket returns for the 188 bytes of every packet the Muxer builds.
   The packets of WriteData and WriteTables are not all "conformant" in the sense of C11 (Spec.PacketSpec.wf_packet):
   an adaptation-field-only packet may carry the raw counter value 16 (written as its low 4 bits), and a table packet
   has a payload shorter than the room left (writePacket fills the packet with 0xFF).  [norm_pkt] is the conformant
   packet with the same bytes; C11_parse_write (Proofs.PacketRoundTrip.parse_write_packet) then gives the parse. *)
From Coq Require Import ZArith List Lia Bool ZifyBool.
Require Import Base.Bits Base.Iter Base.Wr Gen.Consts Gen.Types Gen.Preds
  Model.Clock Model.Packet Model.Pes Model.Desc Model.Psi Model.Muxer
  Spec.MuxSpec Spec.PesSpec Spec.PacketSpec
  Proofs.MuxerProofs Proofs.MuxerPackets Proofs.PesRoundTrip Proofs.PacketProofs Proofs.PacketRoundTrip.
Import ListNotations.
Open Scope Z_scope.

(* ---------------- normal form ---------------- *)

Definition set_cc (h : PacketHeader) (c : Z) : PacketHeader :=
  {| PacketHeader_ContinuityCounter := c;
     PacketHeader_HasAdaptationField := PacketHeader_HasAdaptationField h;
     PacketHeader_HasPayload := PacketHeader_HasPayload h;
     PacketHeader_PayloadUnitStartIndicator := PacketHeader_PayloadUnitStartIndicator h;
     PacketHeader_PID := PacketHeader_PID h;
     PacketHeader_TransportErrorIndicator := PacketHeader_TransportErrorIndicator h;
     PacketHeader_TransportPriority := PacketHeader_TransportPriority h;
     PacketHeader_TransportScramblingControl := PacketHeader_TransportScramblingControl h |}.

(* bytes writePacket appends behind the payload *)
Definition pad_len (q : Packet) : Z :=
  188 - 4 - ref_af_size (Packet_AdaptationField q) - Z.of_nat (length (Packet_Payload q)).

Definition norm_pkt (q : Packet) : Packet :=
  {| Packet_AdaptationField := Packet_AdaptationField q;
     Packet_Header := set_cc (Packet_Header q) (PacketHeader_ContinuityCounter (Packet_Header q) mod 16);
     Packet_Payload := Packet_Payload q ++ repeat 255 (Z.to_nat (pad_len q)) |}.

(* what the demuxer's packet parser returns for the bytes of q *)
Definition obs_pkt (q : Packet) : Packet := observed (norm_pkt q).

(* the packets the Muxer builds *)
Record mux_wf (q : Packet) : Prop := mk_mux_wf {
  mw_pid : 0 <= PacketHeader_PID (Packet_Header q) < 2 ^ 13;
  mw_tsc : 0 <= PacketHeader_TransportScramblingControl (Packet_Header q) < 4;
  mw_af : if PacketHeader_HasAdaptationField (Packet_Header q)
          then exists af, Packet_AdaptationField q = Some af /\ wf_af af
          else Packet_AdaptationField q = None;
  mw_payload : if PacketHeader_HasPayload (Packet_Header q) then bytes_ok (Packet_Payload q)
               else Packet_Payload q = [];
  mw_pad : 0 <= pad_len q;
  mw_full : PacketHeader_HasPayload (Packet_Header q) = false -> pad_len q = 0
}.

Lemma bytes_ok_repeat v k : byte_ok v -> bytes_ok (repeat v k).
Proof. intros H. induction k; cbn [repeat]; constructor; assumption. Qed.

Lemma bytes_ok_app a b : bytes_ok a -> bytes_ok b -> bytes_ok (a ++ b).
Proof. unfold bytes_ok. intros. apply Forall_app. split; assumption. Qed.

Lemma norm_wf q : mux_wf q -> wf_packet (norm_pkt q).
Proof.
  intros [Hpid Htsc Haf Hpl Hpad Hfull]. constructor; cbn [norm_pkt Packet_Header Packet_AdaptationField Packet_Payload set_cc
    PacketHeader_HasAdaptationField PacketHeader_HasPayload].
  - constructor; cbn [set_cc PacketHeader_PID PacketHeader_TransportScramblingControl PacketHeader_ContinuityCounter];
      try assumption. apply Z.mod_pos_bound. lia.
  - exact Haf.
  - destruct (PacketHeader_HasPayload (Packet_Header q)).
    + apply bytes_ok_app; [exact Hpl|]. apply bytes_ok_repeat. unfold byte_ok. lia.
    + rewrite Hpl, (Hfull eq_refl). reflexivity.
  - rewrite app_length, repeat_length. unfold pad_len in *. lia.
Qed.

(* ---------------- the bytes of a packet and of its normal form ---------------- *)

Lemma enc_packet_form q : mux_wf q ->
  enc_packet q 188 = Ok ([wu8 syncByte] ++ enc_packet_header (Packet_Header q) ++ af_opt_items q ++ payload_items q ++
                         repeat_item (pad_len q) (wu8 255)).
Proof.
  intros [Hpid Htsc A P Hpad Hfull].
  unfold enc_packet, af_opt_items, payload_items, pad_len in *. unfold C_mpegTsPacketHeaderSize.
  set (plen := Z.of_nat (length (Packet_Payload q))) in *.
  destruct (PacketHeader_HasAdaptationField (Packet_Header q)).
  - destruct A as (af & EA & Wa). rewrite EA in *. cbn [need res_bind ref_af_size] in *.
    pose proof (stuffing_range af Wa) as Hsr.
    destruct (PacketAdaptationField_StuffingLength af <? 0) eqn:Hst; [lia|].
    rewrite (af_size_eq af Wa). cbn [res_bind].
    destruct (188 - 1 - 3 - (1 + ref_af_length af) <? plen) eqn:E1; [lia|].
    rewrite (enc_af_any af Wa). cbn [res_bind].
    destruct (188 - (1 + 3 + (1 + ref_af_length af)) <? plen) eqn:E2; [lia|].
    destruct (PacketHeader_HasPayload (Packet_Header q)).
    + replace (188 - (1 + 3 + (1 + ref_af_length af) + plen)) with (188 - 4 - (1 + ref_af_length af) - plen) by lia. reflexivity.
    + specialize (Hfull eq_refl). subst plen. rewrite P in *. cbn [length Z.of_nat] in *.
      replace (188 - (1 + 3 + (1 + ref_af_length af))) with (188 - 4 - (1 + ref_af_length af) - 0) by lia. reflexivity.
  - rewrite A in *. cbn [res_bind ref_af_size] in *.
    destruct (188 - 1 - 3 <? plen) eqn:E1; [lia|]. cbn [res_bind].
    destruct (188 - (1 + 3 + 0) <? plen) eqn:E2; [lia|].
    destruct (PacketHeader_HasPayload (Packet_Header q)).
    + replace (188 - (1 + 3 + 0 + plen)) with (188 - 4 - 0 - plen) by lia. reflexivity.
    + specialize (Hfull eq_refl). subst plen. rewrite P in *. cbn [length Z.of_nat] in *.
      replace (188 - (1 + 3 + 0)) with (188 - 4 - 0 - 0) by lia. reflexivity.
Qed.

Lemma testbit_mod_pow2 v n k : 0 <= k < n -> Z.testbit (v mod 2 ^ n) k = Z.testbit v k.
Proof. intros H. apply Z.mod_pow2_bits_low. lia. Qed.

Lemma bits_of_mod w : forall v n, (w <= n)%nat -> bits_of w (v mod 2 ^ Z.of_nat n) = bits_of w v.
Proof.
  induction w as [|w IH]; intros v n Hn; [reflexivity|]. cbn [bits_of].
  rewrite testbit_mod_pow2 by lia. rewrite IH by lia. reflexivity.
Qed.

Lemma items_bits_repeat_wu8 v k : items_bits (repeat (wu8 v) k) = bits_of_bytes (repeat v k).
Proof.
  induction k as [|k IH]; [reflexivity|]. cbn [repeat]. unfold items_bits, bits_of_bytes in *. cbn [flat_map].
  rewrite IH. reflexivity.
Qed.

Lemma items_ok_repeat_wu8 v k : items_bytes_ok (repeat (wu8 v) k).
Proof. induction k; cbn [repeat]; constructor; [exact I|assumption]. Qed.

Lemma header_bits_norm h :
  items_bits (enc_packet_header (set_cc h (PacketHeader_ContinuityCounter h mod 16))) = items_bits (enc_packet_header h).
Proof.
  unfold enc_packet_header, items_bits. cbn [flat_map item_bits set_cc PacketHeader_TransportErrorIndicator
    PacketHeader_PayloadUnitStartIndicator PacketHeader_TransportPriority PacketHeader_PID
    PacketHeader_TransportScramblingControl PacketHeader_HasAdaptationField PacketHeader_HasPayload
    PacketHeader_ContinuityCounter].
  change 16 with (2 ^ Z.of_nat 4). rewrite (bits_of_mod 4 _ 4) by lia. reflexivity.
Qed.

Lemma af_opt_items_ok q : mux_wf q -> items_bytes_ok (af_opt_items q).
Proof.
  intros W. pose proof (mw_af q W) as A. unfold af_opt_items.
  destruct (PacketHeader_HasAdaptationField (Packet_Header q)); [|constructor].
  destruct A as (af & -> & Wa). apply (af_items_aligned af Wa).
Qed.

Lemma payload_items_ok q : mux_wf q -> items_bytes_ok (payload_items q).
Proof.
  intros W. pose proof (mw_payload q W) as P. unfold payload_items.
  destruct (PacketHeader_HasPayload (Packet_Header q)); constructor; [exact P|constructor].
Qed.

Lemma pkt_bytes_norm q : mux_wf q -> pkt_bytes q = pkt_bytes (norm_pkt q).
Proof.
  intros W. pose proof (norm_wf q W) as Wn. unfold pkt_bytes. change C_MpegTsPacketSize with 188.
  rewrite (enc_packet_form q W), (enc_packet_ok (norm_pkt q) Wn). unfold packet_items.
  pose proof (af_opt_items_ok q W) as Oa. pose proof (payload_items_ok q W) as Op.
  pose proof (header_aligned (Packet_Header q)) as [_ Oh].
  pose proof (header_aligned (Packet_Header (norm_pkt q))) as [_ Ohn].
  pose proof (mw_payload q W) as P. pose proof (mw_pad q W) as Hpad. pose proof (mw_full q W) as Hfull.
  assert (Opn : items_bytes_ok (payload_items (norm_pkt q))).
  { pose proof (payload_aligned (norm_pkt q) Wn) as [_ X]. exact X. }
  assert (Oan : af_opt_items (norm_pkt q) = af_opt_items q) by reflexivity.
  rewrite !chunks_concat.
  2:{ repeat apply items_bytes_ok_app; first [assumption | rewrite Oan; exact Oa | repeat constructor]. }
  2:{ repeat apply items_bytes_ok_app; first [assumption | apply items_ok_repeat_wu8 | repeat constructor]. }
  f_equal. rewrite !items_bits_app. f_equal.
  cbn [norm_pkt Packet_Header]. rewrite header_bits_norm. f_equal. rewrite Oan. f_equal.
  unfold payload_items, repeat_item. cbn [norm_pkt Packet_Header Packet_Payload set_cc PacketHeader_HasPayload].
  rewrite items_bits_repeat_wu8.
  destruct (PacketHeader_HasPayload (Packet_Header q)).
  - unfold items_bits. cbn [flat_map item_bits]. rewrite !app_nil_r. symmetry. apply bits_of_bytes_app.
  - rewrite (Hfull eq_refl). reflexivity.
Qed.

(* C11 for the Muxer's packets *)
Theorem parse_mux_pkt q : mux_wf q ->
  length (pkt_bytes q) = 188%nat /\ bytes_ok (pkt_bytes q) /\ parse_packet_bytes (pkt_bytes q) = Ok (obs_pkt q).
Proof.
  intros W. pose proof (norm_wf q W) as Wn. rewrite (pkt_bytes_norm q W).
  destruct (parse_write_packet (norm_pkt q) Wn) as (bs & Hw & Hl & Hp).
  unfold write_packet in Hw. unfold pkt_bytes. change C_MpegTsPacketSize with 188. rewrite (enc_packet_ok _ Wn) in *. cbn [res_map] in Hw.
  apply ok_inj in Hw. subst bs. split; [exact Hl|]. split; [|exact Hp].
  rewrite chunks_concat; [apply bytes_of_bits_ok|].
  unfold packet_items. pose proof (header_aligned (Packet_Header (norm_pkt q))) as [_ Oh].
  pose proof (af_opt_aligned _ Wn) as [_ Oa]. pose proof (payload_aligned _ Wn) as [_ Op].
  repeat apply items_bytes_ok_app; first [assumption | repeat constructor].
Qed.

(* ---------------- what the pool sees of an observed packet ---------------- *)

Lemma obs_header q : Packet_Header (obs_pkt q) = set_cc (Packet_Header q) (PacketHeader_ContinuityCounter (Packet_Header q) mod 16).
Proof. reflexivity. Qed.

Lemma obs_af q : Packet_AdaptationField (obs_pkt q) = option_map observed_af (Packet_AdaptationField q).
Proof. reflexivity. Qed.

Lemma obs_payload_full q : pad_len q = 0 -> Packet_Payload (obs_pkt q) = Packet_Payload q.
Proof. intros H. unfold obs_pkt, observed, norm_pkt. cbn [Packet_Payload]. rewrite H. cbn [Z.to_nat repeat]. apply app_nil_r. Qed.

Lemma obs_payload q : Packet_Payload (obs_pkt q) = Packet_Payload q ++ repeat 255 (Z.to_nat (pad_len q)).
Proof. reflexivity. Qed.

(* ---------------- adaptation fields the Muxer adds or extends ---------------- *)

Lemma wf_af_new_stuffing k : 1 <= k -> wf_af (newStuffingAdaptationField k).
Proof.
  intros Hk. unfold newStuffingAdaptationField, wf_af. destruct (k =? 1) eqn:E; cbn [PacketAdaptationField_IsOneByteStuffing].
  - unfold af_rest_zero. cbn. repeat split; reflexivity.
  - constructor; cbn; try reflexivity. lia.
Qed.

Lemma wf_af_with_stuffing a n : wf_af a -> PacketAdaptationField_IsOneByteStuffing a = false -> 0 <= n ->
  wf_af (with_stuffing a n).
Proof.
  unfold wf_af. intros W H Hn. rewrite H in W. unfold with_stuffing. cbn [PacketAdaptationField_IsOneByteStuffing]. rewrite H.
  destruct W as [W1 W2 W3 W4 W5 W6]. constructor; cbn; assumption.
Qed.

Lemma ref_af_length_with_stuffing a n : PacketAdaptationField_IsOneByteStuffing a = false ->
  ref_af_length (with_stuffing a n) = ref_af_length a - PacketAdaptationField_StuffingLength a + n.
Proof. intros H. unfold ref_af_length, with_stuffing. cbn. rewrite H. lia. Qed.

(* the caller's adaptation field inside the domain of C11 (S1 is af_entry_ok) *)
Definition af_wf_opt (af : option PacketAdaptationField) : Prop :=
  match af with Some a => wf_af a | None => True end.

Lemma stuffed_wf af n : af_wf_opt af -> af_entry_ok af -> 0 <= n -> (af = None -> 1 <= n) ->
  wf_af (stuffed af n) /\ ref_af_size (Some (stuffed af n)) = af_size_opt af + n.
Proof.
  intros Hw He Hn0 Hn1. destruct af as [a|]; cbn [stuffed af_wf_opt af_entry_ok af_size_opt ref_af_size] in *.
  - destruct He as [Hs Hone]. split; [apply wf_af_with_stuffing; [assumption|assumption|lia]|].
    rewrite (ref_af_length_with_stuffing a n Hone), Hs, (af_size_eq a Hw). lia.
  - specialize (Hn1 eq_refl). rename Hn1 into Hn. pose proof (wf_af_new_stuffing n Hn) as W. split; [exact W|].
    rewrite <- (af_size_eq _ W). destruct (new_stuffing_size n Hn) as [-> _]. lia.
Qed.

Lemma ref_af_size_opt af : af_wf_opt af -> ref_af_size af = af_size_opt af.
Proof. destruct af as [a|]; cbn [af_wf_opt ref_af_size af_size_opt]; [intros W; rewrite (af_size_eq a W); reflexivity|reflexivity]. Qed.

(* a packet writePacket accepts has no negative stuffing *)
Lemma enc_packet_stuffing q its a : enc_packet q 188 = Ok its ->
  PacketHeader_HasAdaptationField (Packet_Header q) = true -> Packet_AdaptationField q = Some a ->
  0 <= PacketAdaptationField_StuffingLength a.
Proof.
  unfold enc_packet. intros H Hh Ha. rewrite Hh, Ha in H. cbn [need res_bind] in H.
  destruct (PacketAdaptationField_StuffingLength a <? 0) eqn:E; [discriminate|lia].
Qed.

(* ---------------- the PES header bytes ---------------- *)

Lemma enc_pes_header_items_ok h n its k : wf_header h -> enc_pes_header h n = Ok (its, k) -> items_bytes_ok its.
Proof.
  intros [Hs Ho] H. unfold enc_pes_header in H. rewrite has_opt_lib in H.
  set (sid := PESHeader_StreamID h) in *. set (L := pes_packet_length h n) in *. fold (head_items sid L) in H.
  destruct (lib_has_optional_header sid) eqn:El.
  - destruct (Ho eq_refl) as (oh & Eo & W). rewrite Eo, (enc_opt_ok oh W) in H. cbn [res_bind] in H.
    apply ok_inj in H. apply pair_equal_spec in H. destruct H as [<- _].
    apply items_bytes_ok_app; [apply (head_aligned sid L)|apply (opt_aligned oh W)].
  - apply ok_inj in H. apply pair_equal_spec in H. destruct H as [<- _]. apply (head_aligned sid L).
Qed.

Lemma pes_header_bytes_ok h n : wf_header h -> bytes_ok (pes_header_bytes h n).
Proof.
  intros W. unfold pes_header_bytes. destruct (enc_pes_header h n) as [[its k]| |] eqn:E; try constructor.
  rewrite (chunks_concat its (enc_pes_header_items_ok h n its k W E)). apply bytes_of_bits_ok.
Qed.

Lemma bytes_ok_firstn n l : bytes_ok l -> bytes_ok (firstn n l).
Proof. unfold bytes_ok. revert l. induction n; intros l H; [constructor|]. destruct l; [constructor|]. inversion H; subst. constructor; auto. Qed.

Lemma bytes_ok_skipn n l : bytes_ok l -> bytes_ok (skipn n l).
Proof. unfold bytes_ok. revert l. induction n; intros l H; [exact H|]. destruct l; [constructor|]. inversion H; subst. cbn [skipn]. auto. Qed.

(* ---------------- the packets of one WriteData ---------------- *)

(* every packet of the unit is one C11 covers, and none is padded behind its payload *)
Definition unit_pkt_ok (q : Packet) : Prop := mux_wf q /\ pad_len q = 0.

Lemma wd_loop_pkts_ok fuel : forall pid h cc af ps left,
  0 <= pid < 2 ^ 13 -> af_entry_ok af -> af_wf_opt af -> bytes_ok left ->
  (ps = true -> bytes_ok (pes_header_bytes h (Z.of_nat (length left)))) ->
  pa_res (lo_part (wd_loop fuel pid h cc af ps left)) = Ok tt ->
  Forall unit_pkt_ok (pa_pkts (lo_part (wd_loop fuel pid h cc af ps left))).
Proof.
  induction fuel as [|fuel IH]; intros pid h cc af ps left Hpid Hen Hwf Hleft Hhb Hok.
  - destruct left; cbn [wd_loop lo_stop lo_part pa_res pa_pkts] in *; [constructor|discriminate].
  - destruct left as [|b0 left']; [constructor|]. cbn [wd_loop] in *. set (left := b0 :: left') in *.
    change (match af with Some a => packetAdaptationFieldSize a | None => 0 end) with (af_size_opt af) in *.
    set (avail := C_MpegTsPacketSize - (1 + C_mpegTsPacketHeaderSize + af_size_opt af)) in *.
    assert (Havail : avail = 184 - af_size_opt af) by (subst avail; unfold C_MpegTsPacketSize, C_mpegTsPacketHeaderSize; lia).
    destruct (ps && (avail <? C_pesHeaderLength + calcPESOptionalHeaderLength (PESHeader_OptionalHeader h))) eqn:Ebranch.
    + (* adaptation field only *)
      match type of Hok with context [emit_packet ?p] => set (q := p) in *; pose proof (emit_packet_tied q) as W; destruct (po_res (emit_packet q)) end;
        cbn [lo_cons lo_stop lo_part pa_res pa_pkts] in *; try discriminate.
      destruct W as (Wp & _ & (its & Wenc)). rewrite Wp. cbn [app].
      constructor.
      * pose proof (enc_packet_stuffing q its (stuffed af avail) Wenc eq_refl eq_refl) as Hst.
        assert (Hav0 : 0 <= avail /\ (af = None -> 1 <= avail)).
        { destruct af as [a0|]; cbn [stuffed with_stuffing PacketAdaptationField_StuffingLength af_size_opt] in *; split; try lia; try discriminate. }
        destruct (stuffed_wf af avail Hwf Hen (proj1 Hav0) (proj2 Hav0)) as [Wst Hsz].
        assert (Hpad : pad_len q = 0).
        { unfold pad_len, q. cbn [Packet_AdaptationField Packet_Payload length Z.of_nat]. rewrite Hsz. lia. }
        split; [|exact Hpad]. constructor; unfold q; cbn [Packet_Header Packet_AdaptationField Packet_Payload mk_header
          PacketHeader_PID PacketHeader_TransportScramblingControl PacketHeader_HasAdaptationField PacketHeader_HasPayload].
        -- exact Hpid.
        -- lia.
        -- eexists. split; [reflexivity|exact Wst].
        -- reflexivity.
        -- fold q. lia.
        -- intros _. exact Hpad.
      * apply IH; try assumption; exact I.
    + (* payload packet *)
      destruct (write_pes_data h left ps avail) as [[[items ntot] npayload]|c|] eqn:Ew;
        [|cbn [lo_stop lo_part pa_res] in Hok; discriminate|cbn [lo_stop lo_part pa_res] in Hok; discriminate].
      destruct (write_pes_data_ok _ _ _ _ _ _ _ Ew) as (Hbits & Hnp & Hnt & _ & _ & Hfull).
      destruct (write_pes_data_items _ _ _ _ _ _ _ Ew) as (hi & Hits & (nh & Hhi) & Hhb').
      match type of Hok with context [emit_packet ?p] => set (q := p) in *; pose proof (emit_packet_tied q) as W; destruct (po_res (emit_packet q)) end;
        cbn [lo_cons lo_stop lo_part pa_res pa_pkts] in *; try discriminate.
      destruct W as (Wp & _ & _). rewrite Wp. cbn [app].
      pose proof (items_len_bits _ _ Hbits) as Hlen.
      assert (Hqpl : Packet_Payload q = (if ps then pes_header_bytes h (Z.of_nat (length left)) else []) ++ firstn (Z.to_nat npayload) left).
      { unfold q. cbn [Packet_Payload]. rewrite Hits, (MuxerProofs.bytes_of_items_app hi _ nh Hhi), bytes_of_items_wbytes, Hhb'. reflexivity. }
      constructor.
      * assert (Hplok : bytes_ok (Packet_Payload q)).
        { rewrite Hqpl. apply bytes_ok_app; [|apply bytes_ok_firstn, Hleft]. destruct ps; [apply Hhb; reflexivity|constructor]. }
        assert (Hpl : Z.of_nat (length (Packet_Payload q)) = ntot) by exact Hlen.
        destruct (avail - ntot >? 0) eqn:Er.
        -- destruct (stuffed_wf af (avail - ntot) Hwf Hen ltac:(lia) ltac:(lia)) as [Wst Hsz].
           assert (Hpad : pad_len q = 0).
           { unfold pad_len. rewrite Hpl. unfold q. cbn [Packet_AdaptationField]. rewrite ?Er, Hsz. lia. }
           split; [|exact Hpad]. constructor; try (rewrite Hpad; try lia; intros; reflexivity);
             unfold q; cbn [Packet_Header Packet_AdaptationField mk_header
             PacketHeader_PID PacketHeader_TransportScramblingControl PacketHeader_HasAdaptationField PacketHeader_HasPayload].
           ++ exact Hpid.
           ++ lia.
           ++ rewrite ?Er, orb_true_r. eexists. split; [reflexivity|exact Wst].
           ++ exact Hplok.
        -- assert (Hpad : pad_len q = 0).
           { unfold pad_len. rewrite Hpl. unfold q. cbn [Packet_AdaptationField]. rewrite ?Er, (ref_af_size_opt af Hwf). lia. }
           split; [|exact Hpad]. constructor; try (rewrite Hpad; try lia; intros; reflexivity);
             unfold q; cbn [Packet_Header Packet_AdaptationField mk_header
             PacketHeader_PID PacketHeader_TransportScramblingControl PacketHeader_HasAdaptationField PacketHeader_HasPayload].
           ++ exact Hpid.
           ++ lia.
           ++ rewrite ?Er, orb_false_r. destruct af as [a1|]; cbn [af_wf_opt] in *; [eexists; split; [reflexivity|exact Hwf]|reflexivity].
           ++ exact Hplok.
      * apply IH; try assumption; try exact I; [apply bytes_ok_skipn, Hleft|discriminate].
Qed.

(* ---------------- table packets ---------------- *)

Lemma table_packet_wf pid cc payload : 0 <= pid < 2 ^ 13 -> bytes_ok payload -> Z.of_nat (length payload) <= 184 ->
  mux_wf (table_packet pid cc payload).
Proof.
  intros Hpid Hb Hl. constructor; unfold table_packet, pad_len; cbn [Packet_Header Packet_AdaptationField Packet_Payload mk_header
    PacketHeader_PID PacketHeader_TransportScramblingControl PacketHeader_HasAdaptationField PacketHeader_HasPayload ref_af_size];
    try assumption; try lia; try reflexivity; try discriminate.
Qed.
