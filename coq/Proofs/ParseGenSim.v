(* Lock-step simulation of two computations in the iterator monad, used by Proofs/ParseGenEq.v to prove the
   hand-written parsers of Model/ equal to the definitions translated from the Go source (Gen/ParseGen.v).

   [sim R m1 m2]: on every iterator whose bytes are in 0..255 the two computations end in the same way -- the same
   error tag, both panic, or both succeed on the same final iterator (whose bytes are those of the initial one) with
   results related by R.  It is preserved by bind, so a proof follows the two definitions primitive by primitive
   and never multiplies the paths through their optional blocks. *)
From Coq Require Import ZArith List Lia Bool ZifyBool.
Require Import Base.Bits Base.Iter.
Import ListNotations.
Open Scope Z_scope.

Definition okI (i : iter) : Prop := bytes_ok (ibs i).

Definition sim {A1 A2} (R : A1 -> A2 -> Prop) (m1 : IM A1) (m2 : IM A2) : Prop :=
  forall i, okI i ->
  match m1 i, m2 i with
  | Ok (a1, i1), Ok (a2, i2) => R a1 a2 /\ i1 = i2 /\ ibs i1 = ibs i
  | Err c1, Err c2 => c1 = c2
  | Panic, Panic => True
  | _, _ => False
  end.

Lemma sim_bind {A1 A2 B1 B2} (R : A1 -> A2 -> Prop) (S : B1 -> B2 -> Prop) m1 m2 f1 f2 :
  sim R m1 m2 -> (forall a1 a2, R a1 a2 -> sim S (f1 a1) (f2 a2)) -> sim S (ibind m1 f1) (ibind m2 f2).
Proof.
  intros Hm Hf i Hi. unfold ibind. specialize (Hm i Hi).
  destruct (m1 i) as [[a1 i1]|c1|], (m2 i) as [[a2 i2]|c2|]; try contradiction; auto.
  destruct Hm as (HR & <- & Hbs). specialize (Hf a1 a2 HR i1). unfold okI in *. rewrite Hbs in Hf. specialize (Hf Hi).
  destruct (f1 a1 i1) as [[b1 j1]|d1|], (f2 a2 i1) as [[b2 j2]|d2|]; try contradiction; auto.
Qed.

Lemma sim_ret {A1 A2} (R : A1 -> A2 -> Prop) a1 a2 : R a1 a2 -> sim R (iret a1) (iret a2).
Proof. intros H i Hi. cbn. auto. Qed.

Lemma sim_err {A1 A2} (R : A1 -> A2 -> Prop) c : sim R (ierr c) (ierr c).
Proof. intros i Hi. reflexivity. Qed.

Lemma sim_if {A1 A2} (R : A1 -> A2 -> Prop) (c : bool) m1 n1 m2 n2 :
  sim R m1 m2 -> sim R n1 n2 -> sim R (if c then m1 else n1) (if c then m2 else n2).
Proof. destruct c; auto. Qed.

Lemma sim_weaken {A1 A2} (R S : A1 -> A2 -> Prop) m1 m2 : sim R m1 m2 -> (forall a b, R a b -> S a b) -> sim S m1 m2.
Proof.
  intros H HS i Hi. specialize (H i Hi).
  destruct (m1 i) as [[a1 i1]|c1|], (m2 i) as [[a2 i2]|c2|]; auto. destruct H as (H1 & H2 & H3). auto.
Qed.

Lemma sim_point {A} (m1 m2 : IM A) : sim eq m1 m2 -> forall i, okI i -> m1 i = m2 i.
Proof.
  intros H i Hi. specialize (H i Hi).
  destruct (m1 i) as [[a1 i1]|c1|], (m2 i) as [[a2 i2]|c2|]; try contradiction; auto.
  - destruct H as (-> & -> & _). reflexivity.
  - subst. reflexivity.
Qed.

(* associativity, on either side *)
Lemma sim_assoc_r {A1 A B C} (R : A1 -> C -> Prop) m1 (m : IM A) (f : A -> IM B) (g : B -> IM C) :
  sim R m1 (ibind m (fun x => ibind (f x) g)) -> sim R m1 (ibind (ibind m f) g).
Proof.
  intros H i Hi. specialize (H i Hi). unfold ibind in *.
  destruct (m i) as [[a i']|c|]; exact H.
Qed.

Lemma sim_assoc_l {A2 A B C} (R : C -> A2 -> Prop) m2 (m : IM A) (f : A -> IM B) (g : B -> IM C) :
  sim R (ibind m (fun x => ibind (f x) g)) m2 -> sim R (ibind (ibind m f) g) m2.
Proof.
  intros H i Hi. specialize (H i Hi). unfold ibind in *.
  destruct (m i) as [[a i']|c|]; exact H.
Qed.

(* a conditional block followed by a continuation, against the same conditional with the continuation inside *)
Lemma sim_if_push_r {A1 B C} (R : A1 -> C -> Prop) m1 (c : bool) (m n : IM B) (g : B -> IM C) :
  sim R m1 (if c then ibind m g else ibind n g) -> sim R m1 (ibind (if c then m else n) g).
Proof. destruct c; auto. Qed.

(* pointwise step through a common first computation *)
Lemma bind_step {A B} (m : IM A) (f g : A -> IM B) i :
  (forall a i', m i = Ok (a, i') -> f a i' = g a i') -> ibind m f i = ibind m g i.
Proof. intros H. unfold ibind. destruct (m i) as [[a i']|c|]; auto. Qed.

(* the second computation maps its result *)
Lemma sim_map_r {A1 A2 B} (R0 : A1 -> A2 -> Prop) (R : A1 -> B -> Prop) m1 m2 (G : A2 -> B) :
  sim R0 m1 m2 -> (forall x y, R0 x y -> R x (G y)) -> sim R m1 (ibind m2 (fun y => iret (G y))).
Proof.
  intros H HG i Hi. specialize (H i Hi). unfold ibind, iret.
  destruct (m1 i) as [[a1 i1]|c1|], (m2 i) as [[a2 i2]|c2|]; auto.
  destruct H as (H1 & H2 & H3). auto.
Qed.

Lemma sim_ret_bind_r {A1 B C} (R : A1 -> C -> Prop) m1 (a : B) (g : B -> IM C) :
  sim R m1 (g a) -> sim R m1 (ibind (iret a) g).
Proof. intros H i Hi. exact (H i Hi). Qed.

Lemma sim_if_eqn {A1 A2} (R : A1 -> A2 -> Prop) (c : bool) m1 n1 m2 n2 :
  (c = true -> sim R m1 m2) -> (c = false -> sim R n1 n2) -> sim R (if c then m1 else n1) (if c then m2 else n2).
Proof. destruct c; auto. Qed.

Lemma sim_bind_ret_r {A1 B} (R : A1 -> B -> Prop) m1 (m2 : IM B) :
  sim R m1 m2 -> sim R m1 (ibind m2 (fun x => iret x)).
Proof.
  intros H i Hi. specialize (H i Hi). unfold ibind, iret.
  destruct (m1 i) as [[a1 i1]|c1|], (m2 i) as [[a2 i2]|c2|]; auto.
Qed.

(* ---------- the primitives ---------- *)

Lemma nth_byte_ok bs k : bytes_ok bs -> byte_ok (nth k bs 0).
Proof.
  intros H. revert k. induction H as [|b bs Hb _ IH]; intros k; destruct k; cbn; try (unfold byte_ok; lia); auto.
Qed.

Lemma bytes_ok_firstn n bs : bytes_ok bs -> bytes_ok (firstn n bs).
Proof. intros H. revert n. induction H as [|b bs Hb H IH]; intros [|n]; cbn; try constructor; auto. apply IH. Qed.
Lemma bytes_ok_skipn n bs : bytes_ok bs -> bytes_ok (skipn n bs).
Proof. intros H. revert n. induction H as [|b bs Hb H IH]; intros [|n]; cbn; try (constructor; assumption); auto. Qed.
Lemma bytes_ok_slice' bs a b : bytes_ok bs -> bytes_ok (slice bs a b).
Proof. intros H. unfold slice. apply bytes_ok_firstn, bytes_ok_skipn, H. Qed.

Lemma sim_next_byte : sim (fun a b => a = b /\ byte_ok a) next_byte next_byte.
Proof.
  intros i Hi. unfold next_byte. destruct (ilen i <? ioff i + 1); [reflexivity|].
  destruct (ioff i <? 0); [exact I|]. cbn [ibs]. split; [split; [reflexivity|apply nth_byte_ok, Hi]|split; reflexivity].
Qed.

Lemma sim_next_bytes n : sim (fun a b => a = b /\ bytes_ok a /\ length a = Z.to_nat n) (next_bytes n) (next_bytes n).
Proof.
  intros i Hi. unfold next_bytes. destruct (ilen i <? ioff i + n) eqn:E1; [reflexivity|].
  destruct (n <? 0) eqn:E2; [exact I|]. destruct (ioff i <? 0) eqn:E3; [exact I|]. cbn [ibs].
  split; [split; [reflexivity|split]|split; reflexivity].
  - apply bytes_ok_slice', Hi.
  - rewrite slice_length by (unfold ilen in *; lia). f_equal. lia.
Qed.

Lemma sim_next_bytes_nocopy n :
  sim (fun a b => a = b /\ bytes_ok a /\ length a = Z.to_nat n) (next_bytes_nocopy n) (next_bytes_nocopy n).
Proof. exact (sim_next_bytes n). Qed.

Lemma sim_iseek n : sim eq (iseek n) (iseek n).
Proof. intros i Hi. cbn. auto. Qed.
Lemma sim_iskip n : sim eq (iskip n) (iskip n).
Proof. intros i Hi. cbn. auto. Qed.
Lemma sim_ioffset : sim eq ioffset ioffset.
Proof. intros i Hi. cbn. auto. Qed.
Lemma sim_ilength : sim eq ilength ilength.
Proof. intros i Hi. cbn. auto. Qed.
Lemma sim_idump : sim (fun a b => a = b /\ bytes_ok a) idump idump.
Proof.
  intros i Hi. unfold idump. destruct (negb (ioff i <? ilen i)); [cbn; split; [split; [reflexivity|constructor]|split; reflexivity]|].
  destruct (ioff i <? 0); [exact I|]. cbn [ibs]. split; [split; [reflexivity|apply bytes_ok_skipn, Hi]|split; reflexivity].
Qed.

(* a list of known length, as its elements *)
Lemma length_to_nat_cons {A} (x : A) l n : length (x :: l) = Z.to_nat n -> 0 < n /\ length l = Z.to_nat (n - 1).
Proof. cbn [length]. intros H. split; [lia|]. lia. Qed.

Ltac explode_bytes bs Hlen Hok :=
  repeat (let b := fresh "b" in destruct bs as [|b bs]; [discriminate Hlen|]);
  destruct bs; [|discriminate Hlen].

(* byte_ok facts of a literal list *)
Ltac bytes_inv H :=
  unfold bytes_ok in H;
  repeat match type of H with
  | Forall byte_ok (_ :: _) => let Hx := fresh "Hbyte" in apply Forall_cons_iff in H; destruct H as [Hx H]
  end.

(* reduce nth (Z.to_nat k) on literal lists *)
Ltac nth_lit :=
  repeat match goal with
  | |- context [Z.to_nat ?k] => let n := eval compute in (Z.to_nat k) in change (Z.to_nat k) with n
  end; cbn [nth].

(* instantiate the relation of a block from the value its then-branch returns *)
Ltac inst_R :=
  lazymatch goal with
  | |- ?R ?x ?y =>
      let f := eval pattern x in y in
      lazymatch f with ?F _ => unify R (fun u v => v = F u) end
  end; cbv beta; reflexivity.

