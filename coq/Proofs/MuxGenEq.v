(* The hand-written Muxer model (Model/Muxer.v) IS what go/gen/muxgen*.go regenerates from the current
   /repo/muxer.go (Gen/MuxGen.v).

   Every theorem of C04 / C05 / C17 (and C01 through them) talks about new_muxer, add_es, remove_es, set_pcr,
   generate_pat, generate_pmt, write_tables, retransmit_tables, write_data. The lemmas below identify each of them
   with the definition translated from the source on every run, so a change to the BODY of NewMuxer,
   AddElementaryStream, RemoveElementaryStream, SetPCRPID, generatePAT, generatePMT, WriteTables, retransmitTables
   or of the part of WriteData in front of its packetisation loop changes Gen/MuxGen.v, one of these proofs stops
   checking, and the check names it — without a generated history having to reach the change.

   How the generated definitions are instantiated:
     map[uint32]*esContext      := the model's association list ms_es (list (Z * esctx)); an entry is the generated
                                   record {es := Some stream; cc := counter} (ctx_gen / ctx_mod); get / set / delete
                                   := es_find / es_put / es_del of Model/Muxer.v
     map[uint32]wrappingCounter := the model's ms_removed with the same three operations
     m.pmt                      := {ElementaryStreams := ms_streams; PCRPID := ms_pcr_pid; ProgramDescriptors := [];
                                    ProgramNumber := programNumberStart} (pmt_data_of, what generatePMT sees)
     error                      := the model's error codes (err_res)
     the program map            := unit; toPATDataUnlocked := the constant pat_data (one program, set by NewMuxer)
     writePSIData / writePacket := write_psi_data / write_packet of Model/Psi.v, Model/Packet.v appended to the
                                   buffer they write into (buffer unchanged on an error: a failing writePacket has
                                   written nothing, MuxerProofs; m.buf is reset before every use)
     calcPMTSectionLength / calcDescriptorLength := calc_pmt_section_length / calc_descriptor_length
     the io.Writer              := the list of Write calls made so far; Write never fails (C18 has its own runner)
     fuel_ (the PID search loop of AddElementaryStream) := the fuel of the model, 2 + number of contexts *)
From Coq Require Import ZArith List Lia Bool ZifyBool.
Require Import Base.Bits Base.Iter Base.Wr Gen.Consts Gen.Types Gen.Preds Gen.MuxGen
  Model.Packet Model.Psi Model.Desc Model.Muxer Proofs.MuxerProofs.
Import ListNotations.
Open Scope Z_scope.

(* ---- instantiation of the abstract maps ---- *)

Definition ctx_gen (c : esctx) : esContext := {| esContext_es := Some (ec_es c); esContext_cc := ec_cc c |}.
Definition ctx_mod (c : esContext) : esctx :=
  {| ec_cc := esContext_cc c; ec_es := odflt zero_PMTElementaryStream (esContext_es c) |}.

Definition ge_get (l : list (Z * esctx)) (k : Z) : option esContext := option_map ctx_gen (es_find k l).
Definition ge_set (l : list (Z * esctx)) (k : Z) (c : esContext) : list (Z * esctx) := es_put k (ctx_mod c) l.
Definition ge_del (l : list (Z * esctx)) (k : Z) : list (Z * esctx) := es_del k l.
Definition gr_get (l : list (Z * wrappingCounter)) (k : Z) : option wrappingCounter := es_find k l.
Definition gr_set (l : list (Z * wrappingCounter)) (k : Z) (c : wrappingCounter) := es_put k c l.
Definition gr_del (l : list (Z * wrappingCounter)) (k : Z) := es_del k l.

Lemma ctx_mod_gen c : ctx_mod (ctx_gen c) = c.
Proof. destruct c; reflexivity. Qed.

(* the association lists behave as the Go maps *)
Lemma ge_map_model l k c x :
  ge_get (ge_set l k (ctx_gen c)) x = (if k =? x then Some (ctx_gen c) else ge_get l x) /\
  ge_get (ge_del l k) x = (if k =? x then None else ge_get l x).
Proof.
  unfold ge_get, ge_set, ge_del. rewrite es_find_put, es_find_del, ctx_mod_gen. split; destruct (k =? x); reflexivity.
Qed.

Lemma gr_map_model l k c x :
  gr_get (gr_set l k c) x = (if k =? x then Some c else gr_get l x) /\
  gr_get (gr_del l k) x = (if k =? x then None else gr_get l x).
Proof. unfold gr_get, gr_set, gr_del. rewrite es_find_put, es_find_del. split; reflexivity. Qed.

(* ---- errors ---- *)

Definition err_res (e : merror) : res unit :=
  match e with
  | ENil => Ok tt
  | EErrPIDAlreadyExists => Err E_pid_exists
  | EErrPIDNotFound => Err E_pid_not_found
  | EErrPCRPIDInvalid => Err E_pcr_pid
  | EFmt => Err E_generic
  | EExt c => Err c
  end.

(* ---- m.pmt ---- *)

Definition pmt_of (s : mstate) : PMTData := pmt_data_of (ms_streams s) (ms_pcr_pid s).

(* the state after a configuration call, from the fields the generated functions return *)
Definition cfg_state (s : mstate) (pmt : PMTData) (upd : bool) (np : Z) (es : list (Z * esctx))
    (rm : list (Z * wrappingCounter)) : mstate :=
  {| ms_period := ms_period s; ms_streams := PMTData_ElementaryStreams pmt; ms_pcr_pid := PMTData_PCRPID pmt;
     ms_pm_updated := ms_pm_updated s; ms_pmt_updated := upd; ms_next_pid := np;
     ms_pat_version := ms_pat_version s; ms_pmt_version := ms_pmt_version s; ms_pat_cc := ms_pat_cc s;
     ms_pmt_cc := ms_pmt_cc s; ms_es := es; ms_retransmit := ms_retransmit s; ms_removed := rm |}.

Lemma cfg_state_same s : cfg_state s (pmt_of s) (ms_pmt_updated s) (ms_next_pid s) (ms_es s) (ms_removed s) = s.
Proof. destruct s; reflexivity. Qed.

(* ---- small facts about the association lists ---- *)

Lemma es_del_absent {A} pid (l : list (Z * A)) : es_find pid l = None -> es_del pid l = l.
Proof.
  induction l as [|[q c] r IH]; [reflexivity|].
  rewrite es_find_cons. unfold es_del in *. cbn [filter fst]. destruct (q =? pid) eqn:E; [discriminate|].
  cbn [negb]. intros H. rewrite (IH H). reflexivity.
Qed.

Lemma ge_get_mem l k : match ge_get l k with Some _ => true | None => false end = es_mem k l.
Proof. unfold ge_get. rewrite es_mem_find. destruct (es_find k l); reflexivity. Qed.

(* ---- AddElementaryStream ---- *)

(* the duplicate test: for _, oes := range m.pmt.ElementaryStreams { if oes.ElementaryPID == es.ElementaryPID { return .. } } *)
Lemma add_loop1_is_model l : forall es escs np pmt pb upd rm,
  Muxer_AddElementaryStream_loop1 ge_get ge_set gr_del gr_get l pmt upd np pb escs rm es =
  if stream_pid_in (PMTElementaryStream_ElementaryPID es) l
  then inl (Some (pmt, upd, np, pb, escs, rm, EErrPIDAlreadyExists)) else inr tt.
Proof.
  induction l as [|e r IH]; intros; [reflexivity|].
  cbn [Muxer_AddElementaryStream_loop1 stream_pid_in existsb].
  destruct (PMTElementaryStream_ElementaryPID e =? PMTElementaryStream_ElementaryPID es); [reflexivity|].
  rewrite IH. reflexivity.
Qed.

(* the PID search: for _, ok := m.esContexts[nextPID]; ok || nextPID == pmtStartPID; _, ok = .. { nextPID++ } *)
Lemma add_loop2_is_model fuel : forall es escs n pmt pb upd rm,
  Muxer_AddElementaryStream_loop2 ge_get ge_set gr_del gr_get fuel pmt upd n pb escs rm es (es_mem n escs) =
  match next_free_pid fuel escs n with
  | None => inl None
  | Some p => inr (p, es_mem p escs)
  end.
Proof.
  induction fuel as [|k IH]; intros; [reflexivity|].
  cbn [Muxer_AddElementaryStream_loop2 next_free_pid].
  destruct (es_mem n escs || (n =? C_pmtStartPID)); [|reflexivity].
  rewrite ge_get_mem. apply IH.
Qed.

(* what the generated function returns, read off the model's result *)
Definition add_view (pb : list Z) (r : mstate * res unit) :=
  match r with
  | (s', Ok _) => Some (pmt_of s', ms_pmt_updated s', ms_next_pid s', @nil Z, ms_es s', ms_removed s', ENil)
  | (s', Err _) => Some (pmt_of s', ms_pmt_updated s', ms_next_pid s', pb, ms_es s', ms_removed s', EErrPIDAlreadyExists)
  | (_, Panic) => None
  end.

(* the tail both branches of AddElementaryStream share: append, context (with the counter of a removed PID), flags *)
Ltac add_tail :=
  unfold add_view, pmt_of, set_streams_es, gr_get, gr_del, ge_set, readded_context, new_es_context, newEsContext, ctx_mod, cc_wrap, with_pid;
  cbn [ms_streams ms_pcr_pid ms_pmt_updated ms_next_pid ms_es ms_removed pmt_data_of PMTData_ElementaryStreams
       PMTData_PCRPID PMTData_ProgramDescriptors PMTData_ProgramNumber PMTElementaryStream_ElementaryPID];
  let E := fresh "E" in
  match goal with |- context [es_find ?p ?l] => destruct (es_find p l) as [?|] eqn:E end;
  cbn [odflt esContext_es esContext_cc];
  [reflexivity | rewrite (es_del_absent _ _ E); reflexivity].

Lemma add_es_is_generated s es pb :
  Muxer_AddElementaryStream ge_get ge_set gr_del gr_get (S (S (length (ms_es s))))
    (pmt_of s) (ms_pmt_updated s) (ms_next_pid s) pb (ms_es s) (ms_removed s) es =
  add_view pb (add_es s es).
Proof.
  unfold Muxer_AddElementaryStream, add_es.
  destruct (PMTElementaryStream_ElementaryPID es =? 0) eqn:E0; cbn [negb].
  - (* automatic PID *)
    rewrite ge_get_mem, add_loop2_is_model.
    destruct (next_free_pid (S (S (length (ms_es s)))) (ms_es s) (ms_next_pid s)) as [p|]; [|reflexivity].
    fold (with_pid es p). add_tail.
  - rewrite add_loop1_is_model. unfold pmt_of at 1. cbn [pmt_data_of PMTData_ElementaryStreams].
    destruct (stream_pid_in (PMTElementaryStream_ElementaryPID es) (ms_streams s)); [reflexivity|].
    add_tail.
Qed.

(* the model's result is the generated function's (None = the loop ran out of fuel = the model's Panic) *)
Definition add_of_gen (s : mstate)
    (r : option (PMTData * bool * Z * list Z * list (Z * esctx) * list (Z * wrappingCounter) * merror)) : mstate * res unit :=
  match r with
  | None => (s, Panic)
  | Some (pmt, upd, np, _, es, rm, e) => (cfg_state s pmt upd np es rm, err_res e)
  end.

Lemma add_es_frame s es : forall s' r, add_es s es = (s', r) ->
  s' = cfg_state s (pmt_of s') (ms_pmt_updated s') (ms_next_pid s') (ms_es s') (ms_removed s') /\
  (r = Ok tt \/ (r = Err E_pid_exists /\ s' = s) \/ (r = Panic /\ s' = s)).
Proof.
  unfold add_es. intros s' r.
  destruct (negb (PMTElementaryStream_ElementaryPID es =? 0)).
  - destruct (stream_pid_in _ _); intros H; inversion H; subst.
    + split; [symmetry; apply cfg_state_same|right; left; split; reflexivity].
    + split; [reflexivity|left; reflexivity].
  - destruct (next_free_pid _ _ _); intros H; inversion H; subst.
    + split; [reflexivity|left; reflexivity].
    + split; [symmetry; apply cfg_state_same|right; right; split; reflexivity].
Qed.

Lemma add_es_of_generated s es pb :
  add_es s es = add_of_gen s (Muxer_AddElementaryStream ge_get ge_set gr_del gr_get (S (S (length (ms_es s))))
                                (pmt_of s) (ms_pmt_updated s) (ms_next_pid s) pb (ms_es s) (ms_removed s) es).
Proof.
  rewrite add_es_is_generated. destruct (add_es s es) as [s' r] eqn:E.
  destruct (add_es_frame s es s' r E) as [F [->|[[-> ->]|[-> ->]]]]; unfold add_view, add_of_gen, err_res.
  - rewrite <- F. reflexivity.
  - rewrite cfg_state_same. reflexivity.
  - reflexivity.
Qed.

(* ---- RemoveElementaryStream ---- *)

Fixpoint pid_index (pid : Z) (l : list PMTElementaryStream) : option Z :=
  match l with
  | [] => None
  | e :: r => if PMTElementaryStream_ElementaryPID e =? pid then Some 0 else option_map Z.succ (pid_index pid r)
  end.

Lemma pid_index_nonneg pid l : forall j, pid_index pid l = Some j -> 0 <= j.
Proof.
  induction l as [|e r IH]; intros j; cbn [pid_index]; [discriminate|].
  destruct (_ =? pid); [intros H; inversion H; lia|].
  destruct (pid_index pid r) as [k|]; cbn [option_map]; [|discriminate].
  intros H; inversion H. specialize (IH k eq_refl). lia.
Qed.

Lemma pid_index_in pid l : stream_pid_in pid l = match pid_index pid l with Some _ => true | None => false end.
Proof.
  induction l as [|e r IH]; [reflexivity|]. cbn [stream_pid_in existsb pid_index].
  destruct (_ =? pid); [reflexivity|]. cbn [orb]. unfold stream_pid_in in IH. rewrite IH.
  destruct (pid_index pid r); reflexivity.
Qed.

Lemma slice_delete_cons {A} (e : A) r j : 0 <= j -> slice_delete (e :: r) (Z.succ j) = e :: slice_delete r j.
Proof.
  intros H. unfold slice_delete.
  replace (Z.to_nat (Z.succ j)) with (S (Z.to_nat j)) by lia.
  replace (Z.to_nat (Z.succ j + 1)) with (S (Z.to_nat (j + 1))) by lia. reflexivity.
Qed.

(* x = append(x[:i], x[i+1:]...) at the index the loop found = the model's removal of the first stream of that PID *)
Lemma slice_delete_is_remove_first pid l : forall j, pid_index pid l = Some j ->
  slice_delete l j = remove_first_pid pid l.
Proof.
  induction l as [|e r IH]; intros j; cbn [pid_index remove_first_pid]; [discriminate|].
  destruct (_ =? pid); [intros H; inversion H; reflexivity|].
  destruct (pid_index pid r) as [k|] eqn:E; cbn [option_map]; [|discriminate].
  intros H; inversion H. rewrite slice_delete_cons by (apply (pid_index_nonneg pid r); exact E).
  rewrite (IH k eq_refl). reflexivity.
Qed.

(* for i, oes := range m.pmt.ElementaryStreams { if oes.ElementaryPID == pid { foundIdx = i; break } } *)
Lemma remove_loop1_is_model l : forall i found escs pmt pb upd rm pid,
  Muxer_RemoveElementaryStream_loop1 ge_del ge_get gr_set l i pmt upd pb escs rm pid found =
  inr (match pid_index pid l with Some j => i + j | None => found end).
Proof.
  induction l as [|e r IH]; intros; [reflexivity|].
  cbn [Muxer_RemoveElementaryStream_loop1 pid_index].
  destruct (_ =? pid); [f_equal; lia|].
  rewrite IH. destruct (pid_index pid r); cbn [option_map]; f_equal; lia.
Qed.

Definition remove_of_gen (s : mstate)
    (r : PMTData * bool * list Z * list (Z * esctx) * list (Z * wrappingCounter) * merror) : mstate * res unit :=
  let '(pmt, upd, _, es, rm, e) := r in (cfg_state s pmt upd (ms_next_pid s) es rm, err_res e).

(* what the generated function returns, read off the model's result (pb: the PMT cache before the call) *)
Definition remove_view (pb : list Z) (r : mstate * res unit) :=
  match r with
  | (s', Ok _) => (pmt_of s', ms_pmt_updated s', @nil Z, ms_es s', ms_removed s', ENil)
  | (s', _) => (pmt_of s', ms_pmt_updated s', pb, ms_es s', ms_removed s', EErrPIDNotFound)
  end.

Lemma remove_es_is_generated s pid pb :
  Muxer_RemoveElementaryStream ge_del ge_get gr_set (pmt_of s) (ms_pmt_updated s) pb (ms_es s) (ms_removed s) pid =
  remove_view pb (remove_es s pid).
Proof.
  unfold Muxer_RemoveElementaryStream, remove_es. rewrite remove_loop1_is_model.
  unfold pmt_of. cbn [pmt_data_of PMTData_ElementaryStreams PMTData_PCRPID PMTData_ProgramDescriptors PMTData_ProgramNumber].
  rewrite pid_index_in.
  destruct (pid_index pid (ms_streams s)) as [j|] eqn:E.
  - pose proof (pid_index_nonneg _ _ _ E) as Hj.
    match goal with |- (if ?c then _ else _) = _ => replace c with false by lia end.
    unfold remove_view, pmt_of, set_streams_es, gr_set, ge_del, ge_get.
    cbn [ms_streams ms_pcr_pid ms_pmt_updated ms_next_pid ms_es ms_removed pmt_data_of PMTData_ElementaryStreams
         PMTData_PCRPID PMTData_ProgramDescriptors PMTData_ProgramNumber].
    replace (0 + j) with j by lia. rewrite (slice_delete_is_remove_first _ _ _ E).
    destruct (es_find pid (ms_es s)) as [c|]; reflexivity.
  - reflexivity.
Qed.

Lemma remove_es_of_generated s pid pb :
  remove_es s pid =
  remove_of_gen s (Muxer_RemoveElementaryStream ge_del ge_get gr_set (pmt_of s) (ms_pmt_updated s) pb (ms_es s) (ms_removed s) pid).
Proof.
  rewrite remove_es_is_generated. unfold remove_es.
  destruct (stream_pid_in pid (ms_streams s)); unfold remove_view, remove_of_gen, err_res.
  - reflexivity.
  - rewrite cfg_state_same. reflexivity.
Qed.

(* ---- SetPCRPID ---- *)

Lemma set_pcr_is_generated s pid :
  Muxer_SetPCRPID (pmt_of s) (ms_pmt_updated s) pid = (pmt_of (set_pcr s pid), ms_pmt_updated (set_pcr s pid)).
Proof. reflexivity. Qed.

Lemma set_pcr_of_generated s pid :
  set_pcr s pid =
  let '(pmt, upd) := Muxer_SetPCRPID (pmt_of s) (ms_pmt_updated s) pid in
  cfg_state s pmt upd (ms_next_pid s) (ms_es s) (ms_removed s).
Proof. reflexivity. Qed.

(* newEsContext: a fresh context starts the 4-bit counter at wrapAt + 1 *)
Lemma new_es_context_is_generated es : new_es_context es = ctx_mod (newEsContext es).
Proof. reflexivity. Qed.

(* ---- NewMuxer ---- *)

(* the program map as an association list PID -> program number; NewMuxer puts one entry in it *)
Definition gpm := list (Z * Z).
Definition gpm_set (pm : gpm) (pid n : Z) : gpm := es_put pid n pm.
Definition mux_pm : gpm := [(C_pmtStartPID, C_programNumberStart)].

(* for _, opt := range opts { opt(m) }: the period the last option sets, the default when there is none *)
Definition opts_period (opts : list MuxerOpt) (d : Z) : Z := fold_left (fun p o => MuxerOpt_apply o p) opts d.

Lemma new_loop_is_model (W : Type) l : forall (buf : list Z) (escs : list (Z * esctx)) np ps pb patcc patv (pm : gpm) pmu pmt mb pmtcc
    pmtu pmtv (rm : list (Z * wrappingCounter)) cnt period (mw : W) opts (w : W),
  NewMuxer_loop1 [] [] [] gpm_set l mw ps period pm pmu pmt pmtu np patv pmtv patcc pmtcc pb mb buf escs cnt rm w opts =
  inr (opts_period l period).
Proof.
  induction l as [|o r IH]; intros; [reflexivity|].
  cbn [NewMuxer_loop1 opts_period fold_left]. apply IH.
Qed.

(* every field of the fresh Muxer, read off the model's initial state *)
Definition new_view {W} (w : W) (s : mstate) :=
  (w, C_MpegTsPacketSize, ms_period s, mux_pm, ms_pm_updated s, pmt_of s, ms_pmt_updated s, ms_next_pid s,
   ms_pat_version s, ms_pmt_version s, ms_pat_cc s, ms_pmt_cc s, @nil Z, @nil Z, @nil Z, ms_es s, ms_retransmit s,
   ms_removed s).

Lemma new_muxer_is_generated (W : Type) (w : W) opts :
  NewMuxer [] [] [] gpm_set w opts = new_view w (new_muxer (opts_period opts 40)).
Proof. unfold NewMuxer. rewrite new_loop_is_model. reflexivity. Qed.

(* NewMuxer(ctx, w, MuxerOptTablesRetransmitPeriod(period)) and NewMuxer(ctx, w) *)
Lemma new_muxer_period_is_generated (W : Type) (w : W) period :
  NewMuxer [] [] [] gpm_set w [MuxerOptTablesRetransmitPeriod period] = new_view w (new_muxer period).
Proof. apply new_muxer_is_generated. Qed.

Lemma new_muxer_default_is_generated (W : Type) (w : W) :
  NewMuxer [] [] [] gpm_set w [] = new_view w (new_muxer default_period).
Proof. apply new_muxer_is_generated. Qed.

(* the counter that makes the first WriteData emit the tables is read AFTER the options ran, whatever they are *)
Lemma new_muxer_counter_after_options period opts :
  ms_retransmit (new_muxer (opts_period opts period)) = opts_period opts period /\
  ms_period (new_muxer (opts_period opts period)) = opts_period opts period.
Proof. split; reflexivity. Qed.

(* ---- the abstract byte producers, the program map, the io.Writer ---- *)

(* programMap.toPATDataUnlocked for a map with its entries in list order (one entry in a Muxer) *)
Definition to_pat (pm : gpm) : PATData :=
  {| PATData_Programs := map (fun e => {| PATProgram_ProgramMapID := fst e; PATProgram_ProgramNumber := snd e |}) pm;
     PATData_TransportStreamID := C_PSITableIDPAT |}.

Lemma to_pat_mux_pm : to_pat mux_pm = pat_data.
Proof. reflexivity. Qed.

(* what an abstract callee hands back: nil, its error code, or (odd codes) a panic *)
Definition ext_code {A} (r : res A) : merror :=
  match r with Ok _ => ENil | Err c => EExt (2 * c) | Panic => EExt 1 end.

Definition g_wpsi (buf : list Z) (d : PSIData) : list Z * Z * merror :=
  match write_psi_data d with Ok bs => (buf ++ bs, blen bs, ENil) | r => (buf, 0, ext_code r) end.
Definition g_wpkt (buf : list Z) (p : Packet) (target : Z) : list Z * Z * merror :=
  match write_packet p target with Ok bs => (buf ++ bs, blen bs, ENil) | r => (buf, 0, ext_code r) end.

(* the io.Writer: the Write calls so far; no Write fails here *)
Definition gw := list (list Z).
Definition g_write (w : gw) (bs : list Z) : gw * Z * merror := (w ++ [bs], blen bs, ENil).

(* errors of the table functions: as err_res, with the callee's panic decoded *)
Definition terr_res (e : merror) : res unit :=
  match e with
  | EExt k => if Z.odd k then Panic else Err (k / 2)
  | e => err_res e
  end.

Definition table_res {A} (e : merror) (v : A) : res A :=
  match terr_res e with Ok _ => Ok v | Err c => Err c | Panic => Panic end.

Lemma terr_res_err c : terr_res (EExt (2 * c)) = Err c.
Proof.
  unfold terr_res. rewrite Z.odd_mul. cbn [Z.odd andb].
  replace (2 * c / 2) with c by (rewrite Z.mul_comm, Z.div_mul; lia). reflexivity.
Qed.

Lemma terr_nil e : merror_is_nil e = match terr_res e with Ok _ => true | _ => false end.
Proof. destruct e; try reflexivity. cbn [terr_res merror_is_nil]. destruct (Z.odd code); reflexivity. Qed.

Lemma set_tables_same s :
  set_tables s (ms_pat_version s) (ms_pmt_version s) (ms_pat_cc s) (ms_pmt_cc s) (ms_pm_updated s) (ms_pmt_updated s) = s.
Proof. destruct s; reflexivity. Qed.

(* ---- generatePAT ---- *)

Lemma generate_pat_of_generated s pb buf :
  generate_pat s =
  let '(pmu, patv, patcc, pbytes, buf', e) :=
    Muxer_generatePAT to_pat g_wpsi g_wpkt C_MpegTsPacketSize mux_pm (ms_pm_updated s) (ms_pat_version s) (ms_pat_cc s) pb buf in
  (set_tables s patv (ms_pmt_version s) patcc (ms_pmt_cc s) pmu (ms_pmt_updated s),
   table_res e (table_packet C_PIDPAT (wrappingCounter_inc (ms_pat_cc s)) buf', pbytes)).
Proof.
  unfold Muxer_generatePAT, generate_pat, next_version.
  destruct (ms_pm_updated s) eqn:Epm;
    match goal with |- context [write_psi_data ?d] =>
      match goal with |- context [g_wpsi ?b ?d'] => change d' with d end end;
    unfold g_wpsi; destruct (write_psi_data _) as [payload|c|]; cbn [ext_code merror_is_nil negb];
    try (unfold table_res; rewrite ?terr_res_err; reflexivity);
    cbn [app];
    match goal with |- context [write_packet ?p ?t] =>
      match goal with |- context [g_wpkt ?b ?p' ?t'] => change p' with p end end;
    unfold g_wpkt; destruct (write_packet _ _) as [bs|c|]; cbn [ext_code merror_is_nil negb];
    unfold table_res; rewrite ?terr_res_err; reflexivity.
Qed.

(* ---- generatePMT ---- *)

Section pmt_loops.
Variables (buf : list Z) (ps : Z) (pmt : PMTData) (mb : list Z) (cc : wrappingCounter) (upd : bool) (ver : wrappingCounter).

(* for _, es := range m.pmt.ElementaryStreams { if es.ElementaryPID == m.pmt.PCRPID { hasPCRPID = true; break } } *)
Lemma pmt_loop1_is_model l : forall h,
  Muxer_generatePMT_loop1 calc_descriptor_length calc_pmt_section_length g_wpsi g_wpkt l ps pmt upd ver cc mb buf h =
  inr (if stream_pid_in (PMTData_PCRPID pmt) l then true else h).
Proof.
  induction l as [|e r IH]; intros; [reflexivity|].
  cbn [Muxer_generatePMT_loop1 stream_pid_in existsb].
  destruct (PMTElementaryStream_ElementaryPID e =? PMTData_PCRPID pmt); [|apply IH].
  (* with or without the break *)
  first [reflexivity | rewrite IH; unfold stream_pid_in; cbn [orb]; destruct (existsb _ r); reflexivity].
Qed.

Lemma pmt_loop2_is_model l : forall h size,
  Muxer_generatePMT_loop2 calc_descriptor_length calc_pmt_section_length g_wpsi g_wpkt l ps pmt upd ver cc mb buf h size =
  inr (fold_left (fun k d => k + (2 + calc_descriptor_length d)) l size).
Proof. induction l as [|d r IH]; intros; [reflexivity|]. cbn [Muxer_generatePMT_loop2 fold_left]. apply IH. Qed.

Lemma pmt_loop4_is_model l : forall es h size,
  Muxer_generatePMT_loop4 calc_descriptor_length calc_pmt_section_length g_wpsi g_wpkt l ps pmt upd ver cc mb buf h size es =
  inr (fold_left (fun k d => k + (2 + calc_descriptor_length d)) l size).
Proof. induction l as [|d r IH]; intros; [reflexivity|]. cbn [Muxer_generatePMT_loop4 fold_left]. apply IH. Qed.

Lemma pmt_loop3_is_model l : forall h size,
  Muxer_generatePMT_loop3 calc_descriptor_length calc_pmt_section_length g_wpsi g_wpkt l ps pmt upd ver cc mb buf h size =
  inr (fold_left (fun n es => fold_left (fun k d => k + (2 + calc_descriptor_length d))
                                        (PMTElementaryStream_ElementaryStreamDescriptors es) (n + 5)) l size).
Proof.
  induction l as [|e r IH]; intros; [reflexivity|].
  cbn [Muxer_generatePMT_loop3 fold_left]. rewrite pmt_loop4_is_model. apply IH.
Qed.
End pmt_loops.

Lemma generate_pmt_of_generated s mb buf :
  generate_pmt s =
  let '(pmtu, pmtv, pmtcc, mbytes, buf', e) :=
    Muxer_generatePMT calc_descriptor_length calc_pmt_section_length g_wpsi g_wpkt C_MpegTsPacketSize
      (pmt_of s) (ms_pmt_updated s) (ms_pmt_version s) (ms_pmt_cc s) mb buf in
  (set_tables s (ms_pat_version s) pmtv (ms_pat_cc s) pmtcc (ms_pm_updated s) pmtu,
   table_res e (table_packet C_pmtStartPID (wrappingCounter_inc (ms_pmt_cc s)) buf', mbytes)).
Proof.
  unfold Muxer_generatePMT, generate_pmt.
  rewrite pmt_loop1_is_model. unfold pmt_of at 1 2. cbn [pmt_data_of PMTData_ElementaryStreams PMTData_PCRPID].
  destruct (stream_pid_in (ms_pcr_pid s) (ms_streams s)); cbn [negb];
    [|rewrite set_tables_same; reflexivity].
  rewrite pmt_loop2_is_model, pmt_loop3_is_model.
  unfold pmt_of at 1 2. cbn [pmt_data_of PMTData_ElementaryStreams PMTData_ProgramDescriptors fold_left].
  fold (pmt_size (ms_streams s)).
  (* the bound, however the source spells the constant *)
  repeat match goal with |- context [pmt_size ?l >? ?b] =>
    let v := eval vm_compute in b in progress change b with v end.
  destruct (pmt_size (ms_streams s) >? 1012); [rewrite set_tables_same; reflexivity|].
  unfold next_version.
  destruct (ms_pmt_updated s) eqn:Epm;
    match goal with |- context [write_psi_data ?d] =>
      match goal with |- context [g_wpsi ?b ?d'] => change d' with d end end;
    unfold g_wpsi; destruct (write_psi_data _) as [payload|c|]; cbn [ext_code merror_is_nil negb];
    try (unfold table_res; rewrite ?terr_res_err; reflexivity);
    cbn [app];
    match goal with |- context [write_packet ?p ?t] =>
      match goal with |- context [g_wpkt ?b ?p' ?t'] => change p' with p end end;
    unfold g_wpkt; destruct (write_packet _ _) as [bs|c|]; cbn [ext_code merror_is_nil negb];
    unfold table_res; rewrite ?terr_res_err; reflexivity.
Qed.

(* ---- WriteTables ---- *)

Definition groups_of (w : gw) : list (list (list Z)) := map (fun b => [b]) w.

Ltac gen_tuple E :=
  match goal with |- context [let '(_, _) := ?g in _] =>
    let x := fresh "g" in remember g as x eqn:E; repeat (let a := fresh "v" in destruct x as [x a])
  end.

(* When no table generation panics (the model does not restore the six fields in that case: restore is not
   deferred), the state and the output of WriteTables are those of the generated function. *)
Lemma write_tables_of_generated s pb mb buf : pa_res (snd (write_tables s)) <> Panic ->
  let '(w, pmu, pmtu, patv, pmtv, patcc, pmtcc, _, _, _, n, e) :=
    Muxer_WriteTables calc_descriptor_length calc_pmt_section_length g_write to_pat g_wpsi g_wpkt
      (@nil (list Z)) C_MpegTsPacketSize mux_pm (ms_pm_updated s) (pmt_of s) (ms_pmt_updated s)
      (ms_pat_version s) (ms_pmt_version s) (ms_pat_cc s) (ms_pmt_cc s) pb mb buf in
  fst (write_tables s) = set_tables s patv pmtv patcc pmtcc pmu pmtu /\
  mout_of_part (snd (write_tables s)) = mk_mout (terr_res e) n (groups_of w).
Proof.
  unfold write_tables, Muxer_WriteTables.
  rewrite (generate_pat_of_generated s pb buf).
  destruct (Muxer_generatePAT _ _ _ _ _ _ _ _ _ _) as [[[[[pmu patv] patcc] pbytes] buf1] e1].
  unfold table_res. rewrite terr_nil.
  destruct (terr_res e1) as [u|c|] eqn:E1; cbn [negb].
  2:{ intros _. cbn [fst snd mout_of_part pa_res pa_n pa_groups]. rewrite E1. split; reflexivity. }
  2:{ cbn [snd pa_res]. congruence. }
  rewrite (generate_pmt_of_generated _ mb buf1).
  cbn [pmt_of ms_streams ms_pcr_pid ms_pmt_updated ms_pmt_version ms_pmt_cc ms_pat_version ms_pat_cc ms_pm_updated set_tables].
  fold (pmt_of s).
  destruct (Muxer_generatePMT _ _ _ _ _ _ _ _ _ _ _) as [[[[[pmtu pmtv] pmtcc] mbytes] buf2] e2].
  unfold table_res. rewrite terr_nil.
  destruct (terr_res e2) as [u2|c|] eqn:E2; cbn [negb].
  2:{ intros _. cbn [fst snd mout_of_part pa_res pa_n pa_groups]. rewrite E2. split; reflexivity. }
  2:{ cbn [snd pa_res]. congruence. }
  intros _. unfold g_write. cbn [merror_is_nil negb fst snd mout_of_part pa_res pa_n pa_groups app groups_of map terr_res err_res].
  split; [reflexivity|]. unfold mout_of_part; cbn [pa_res pa_n pa_groups]. f_equal.
Qed.

(* ---- retransmitTables ---- *)

Lemma retransmit_of_generated s force pb mb buf : pa_res (snd (retransmit_tables s force)) <> Panic ->
  let '(w, pmu, pmtu, patv, pmtv, patcc, pmtcc, _, _, _, cnt, n, e) :=
    Muxer_retransmitTables calc_descriptor_length calc_pmt_section_length g_write to_pat g_wpsi g_wpkt
      (@nil (list Z)) C_MpegTsPacketSize (ms_period s) mux_pm (ms_pm_updated s) (pmt_of s) (ms_pmt_updated s)
      (ms_pat_version s) (ms_pmt_version s) (ms_pat_cc s) (ms_pmt_cc s) pb mb buf (ms_retransmit s) force in
  fst (retransmit_tables s force) = set_retransmit (set_tables s patv pmtv patcc pmtcc pmu pmtu) cnt /\
  mout_of_part (snd (retransmit_tables s force)) = mk_mout (terr_res e) n (groups_of w).
Proof.
  unfold retransmit_tables, Muxer_retransmitTables.
  cbn [ms_retransmit ms_period set_retransmit].
  intros NP.
  (* the atoms of the condition, whatever its boolean shape in the source *)
  unfold Z.ltb, Z.geb, Z.leb, Z.gtb in *.
  destruct force; destruct (ms_retransmit s + 1 ?= ms_period s); cbn [negb andb orb] in *;
  first
  [ (* not due: only the counter moved *)
    cbn [fst snd mout_of_part pa_res pa_n pa_groups groups_of map terr_res err_res];
    rewrite set_tables_same; split; reflexivity
  | (* due: WriteTables, the counter restarts only when it succeeded *)
    assert (NP1 : pa_res (snd (write_tables (set_retransmit s (ms_retransmit s + 1)))) <> Panic)
      by (destruct (write_tables (set_retransmit s (ms_retransmit s + 1))) as [s2 [[u|c|] n g p]];
          cbn [snd pa_res] in *; congruence);
    pose proof (write_tables_of_generated (set_retransmit s (ms_retransmit s + 1)) pb mb buf NP1) as W;
    cbn [pmt_of ms_streams ms_pcr_pid ms_pmt_updated ms_pmt_version ms_pmt_cc ms_pat_version ms_pat_cc ms_pm_updated set_retransmit] in W;
    fold (pmt_of s) in W;
    destruct (Muxer_WriteTables _ _ _ _ _ _ _ _ _ _ _ _ _ _ _ _ _ _ _)
      as [[[[[[[[[[[w pmu] pmtu] patv] pmtv] patcc] pmtcc] b1] b2] b3] n] e];
    destruct W as [W1 W2]; rewrite terr_nil;
    destruct (write_tables (set_retransmit s (ms_retransmit s + 1))) as [s2 [r2 n2 g2 p2]];
    cbn [fst snd mout_of_part pa_res pa_n pa_groups] in *; inversion W2; subst;
    let Ee := fresh "Ee" in
    destruct (terr_res e) as [[]|c|] eqn:Ee;
    cbn [negb fst snd mout_of_part pa_res pa_n pa_groups terr_res err_res]; rewrite ?Ee; split; reflexivity ].
Qed.

(* ---- WriteData up to its packetisation loop ---- *)

(* the part of the model that stands for the rest of the function (from `for payloadBytesWritten < len(d.PES.Data)`) *)
Definition wd_rest (s1 : mstate) (tables : part) (ctx : esctx) (d : MuxerData) : mstate * part :=
  let pid := MuxerData_PID d in
  match MuxerData_PES d with
  | None => (s1, part_app tables (mk_part Panic 0 [] []))
  | Some pes =>
      match PESData_Data pes, PESData_Header pes with
      | [], _ => (s1, tables)
      | _ :: _, None => (s1, part_app tables (mk_part Panic 0 [] []))
      | data, Some h0 =>
          let h := filled_header h0 (ec_es ctx) in
          let r := wd_loop (length data + 3) pid h (ec_cc ctx) (MuxerData_AdaptationField d) true data in
          (set_es s1 (es_put pid (mk_esctx (lo_cc r) (ec_es ctx)) (ms_es s1)), part_app tables (lo_part r))
      end
  end.

Lemma write_data_unfold s d :
  write_data s d =
  match es_find (MuxerData_PID d) (ms_es s) with
  | None => (s, mk_part (Err E_pid_not_found) 0 [] [])
  | Some ctx =>
      match retransmit_tables s (af_rai (MuxerData_AdaptationField d) && (MuxerData_PID d =? ms_pcr_pid s)) with
      | (s1, mk_part (Ok _) n g p) => wd_rest s1 (mk_part (Ok tt) n g p) ctx d
      | r => r
      end
  end.
Proof. reflexivity. Qed.

(* the rest depends on the tables part only through what the caller sees of it (the ghost packet list aside) *)
Lemma wd_rest_mout s1 t t' ctx d : pa_res t = pa_res t' -> pa_n t = pa_n t' -> pa_groups t = pa_groups t' ->
  fst (wd_rest s1 t ctx d) = fst (wd_rest s1 t' ctx d) /\
  mout_of_part (snd (wd_rest s1 t ctx d)) = mout_of_part (snd (wd_rest s1 t' ctx d)).
Proof.
  intros H1 H2 H3. unfold wd_rest.
  destruct (MuxerData_PES d) as [pes|]; [destruct (PESData_Data pes), (PESData_Header pes)|];
    cbn [fst snd]; unfold mout_of_part, part_app; cbn [pa_res pa_n pa_groups]; rewrite ?H1, ?H2, ?H3; split; reflexivity.
Qed.

Definition wd_ret (s : mstate)
    (r : gw * bool * bool * wrappingCounter * wrappingCounter * wrappingCounter * wrappingCounter *
         list Z * list Z * list Z * Z * Z * merror) : mstate * mout :=
  let '(w, pmu, pmtu, patv, pmtv, patcc, pmtcc, _, _, _, cnt, n, e) := r in
  (set_retransmit (set_tables s patv pmtv patcc pmtcc pmu pmtu) cnt, mk_mout (terr_res e) n (groups_of w)).

(* rest_: the model's remainder, started from the fields and locals the translated part hands over (the fields in the
   order of the struct, then the parameter and the locals in the order of their declarations in WriteData) *)
Definition wd_rest_gen (s : mstate) (w : gw) (ps period : Z) (pm : gpm) (pmu : bool) (pmt : PMTData) (pmtu : bool)
    (patv pmtv patcc pmtcc : wrappingCounter) (pbytes mbytes buf : list Z) (escs : list (Z * esctx)) (cnt : Z)
    (d : MuxerData) (ctx : esContext) (ok : bool) (bytesWritten : Z) (force : bool) (n : Z) (err : merror)
    (pstart waf : bool) (pbw : Z) : mstate * mout :=
  let s1 := set_retransmit (set_tables s patv pmtv patcc pmtcc pmu pmtu) cnt in
  let '(s', p) := wd_rest s1 (mk_part (Ok tt) bytesWritten (groups_of w) []) (ctx_mod ctx) d in
  (s', mout_of_part p).

Lemma set_retransmit_same s : set_retransmit s (ms_retransmit s) = s.
Proof. destruct s; reflexivity. Qed.

Lemma write_data_of_generated s d pb mb buf :
  pa_res (snd (retransmit_tables s (af_rai (MuxerData_AdaptationField d) && (MuxerData_PID d =? ms_pcr_pid s)))) <> Panic ->
  (fst (write_data s d), mout_of_part (snd (write_data s d))) =
  Muxer_WriteData_until_loop calc_descriptor_length calc_pmt_section_length g_write ge_get to_pat g_wpsi g_wpkt
    (wd_ret s) (wd_rest_gen s)
    (@nil (list Z)) C_MpegTsPacketSize (ms_period s) mux_pm (ms_pm_updated s) (pmt_of s) (ms_pmt_updated s)
    (ms_pat_version s) (ms_pmt_version s) (ms_pat_cc s) (ms_pmt_cc s) pb mb buf (ms_es s) (ms_retransmit s) d.
Proof.
  rewrite write_data_unfold. unfold Muxer_WriteData_until_loop, ge_get.
  destruct (es_find (MuxerData_PID d) (ms_es s)) as [ctx|]; cbn [option_map odflt negb].
  2:{ intros _. unfold wd_ret. cbn [fst snd mout_of_part pa_res pa_n pa_groups groups_of map terr_res err_res].
      rewrite set_tables_same, set_retransmit_same. reflexivity. }
  match goal with |- context [Muxer_retransmitTables _ _ _ _ _ _ _ _ _ _ _ _ _ _ _ _ _ _ _ _ _ ?f] =>
    replace f with (af_rai (MuxerData_AdaptationField d) && (MuxerData_PID d =? ms_pcr_pid s))
      by (unfold af_rai, pmt_of; cbn [pmt_data_of PMTData_PCRPID]; destruct (MuxerData_AdaptationField d); reflexivity)
  end.
  set (force := af_rai (MuxerData_AdaptationField d) && (MuxerData_PID d =? ms_pcr_pid s)).
  intros NP. pose proof (retransmit_of_generated s force pb mb buf NP) as R.
  destruct (Muxer_retransmitTables _ _ _ _ _ _ _ _ _ _ _ _ _ _ _ _ _ _ _ _ _ _)
    as [[[[[[[[[[[[w pmu] pmtu] patv] pmtv] patcc] pmtcc] b1] b2] b3] cnt] n] e].
  destruct R as [R1 R2]. rewrite terr_nil.
  destruct (retransmit_tables s force) as [s1 [r1 n1 g1 p1]].
  cbn [fst snd] in R1, R2. unfold mout_of_part in R2. cbn [pa_res pa_n pa_groups] in R2. inversion R2; subst.
  destruct (terr_res e) as [u|c|] eqn:Ee; cbn [negb].
  - unfold wd_rest_gen. rewrite ctx_mod_gen.
    destruct (wd_rest_mout (set_retransmit (set_tables s patv pmtv patcc pmtcc pmu pmtu) cnt)
                (mk_part (Ok tt) n (groups_of w) p1) (mk_part (Ok tt) (0 + n) (groups_of w) []) ctx d
                eq_refl eq_refl eq_refl) as [M1 M2].
    destruct (wd_rest _ {| pa_res := Ok tt; pa_n := n; pa_groups := groups_of w; pa_pkts := p1 |} ctx d) as [a pa].
    destruct (wd_rest _ {| pa_res := Ok tt; pa_n := 0 + n; pa_groups := groups_of w; pa_pkts := [] |} ctx d) as [b pb2].
    cbn [fst snd] in M1, M2. cbn [fst snd]. rewrite M1, M2. reflexivity.
  - unfold wd_ret. rewrite Ee. reflexivity.
  - unfold wd_ret. rewrite Ee. reflexivity.
Qed.
