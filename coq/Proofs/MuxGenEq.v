(* The hand-written Muxer model (Model/Muxer.v) IS what go/gen/muxgen*.go regenerates from the current
   /repo/muxer.go (Gen/MuxGen.v).

   Every theorem of C04 / C05 / C17 (and C01 through them) talks about new_muxer, add_es, remove_es, set_pcr,
   generate_pat, generate_pmt, write_tables, retransmit_tables, write_data. The lemmas below identify each of them
   with the definition translated from the source on every run, so a change to the BODY of NewMuxer,
   AddElementaryStream, RemoveElementaryStream, SetPCRPID, generatePAT, generatePMT, WriteTables, retransmitTables
   or of the part of WriteData in front of its packetisation loop changes Gen/MuxGen.v, one of these proofs stops
   checking, and the check names it — without a generated history having to reach the change.

   How the generated definitions are instantiated:
     map[uint32]*esContext      := the model's association list ms_es (list (Z * esctx)); an entry is the generated
                                   record {es := Some stream; cc := counter} (ctx_gen / ctx_mod); get / set / delete
                                   := es_find / es_put / es_del of Model/Muxer.v
     map[uint32]wrappingCounter := the model's ms_removed with the same three operations
     m.pmt                      := {ElementaryStreams := ms_streams; PCRPID := ms_pcr_pid; ProgramDescriptors := [];
                                    ProgramNumber := programNumberStart} (pmt_data_of, what generatePMT sees)
     error                      := the model's error codes (err_res)
     the program map            := unit; toPATDataUnlocked := the constant pat_data (one program, set by NewMuxer)
     writePSIData / writePacket := write_psi_data / write_packet of Model/Psi.v, Model/Packet.v appended to the
                                   buffer they write into (buffer unchanged on an error: a failing writePacket has
                                   written nothing, MuxerProofs; m.buf is reset before every use)
     calcPMTSectionLength / calcDescriptorLength := calc_pmt_section_length / calc_descriptor_length
     the io.Writer              := the list of Write calls made so far; Write never fails (C18 has its own runner)
     fuel_ (the PID search loop of AddElementaryStream) := the fuel of the model, 2 + number of contexts *)
From Coq Require Import ZArith List Lia Bool ZifyBool.
Require Import Base.Bits Base.Iter Base.Wr Gen.Consts Gen.Types Gen.Preds Gen.MuxGen
  Model.Packet Model.Psi Model.Desc Model.Muxer Proofs.MuxerProofs.
Import ListNotations.
Open Scope Z_scope.

(* ---- instantiation of the abstract maps ---- *)

Definition ctx_gen (c : esctx) : esContext := {| esContext_es := Some (ec_es c); esContext_cc := ec_cc c |}.
Definition ctx_mod (c : esContext) : esctx :=
  {| ec_cc := esContext_cc c; ec_es := odflt zero_PMTElementaryStream (esContext_es c) |}.

Definition ge_get (l : list (Z * esctx)) (k : Z) : option esContext := option_map ctx_gen (es_find k l).
Definition ge_set (l : list (Z * esctx)) (k : Z) (c : esContext) : list (Z * esctx) := es_put k (ctx_mod c) l.
Definition ge_del (l : list (Z * esctx)) (k : Z) : list (Z * esctx) := es_del k l.
Definition gr_get (l : list (Z * wrappingCounter)) (k : Z) : option wrappingCounter := es_find k l.
Definition gr_set (l : list (Z * wrappingCounter)) (k : Z) (c : wrappingCounter) := es_put k c l.
Definition gr_del (l : list (Z * wrappingCounter)) (k : Z) := es_del k l.

Lemma ctx_mod_gen c : ctx_mod (ctx_gen c) = c.
Proof. destruct c; reflexivity. Qed.

(* the association lists behave as the Go maps *)
Lemma ge_map_model l k c x :
  ge_get (ge_set l k (ctx_gen c)) x = (if k =? x then Some (ctx_gen c) else ge_get l x) /\
  ge_get (ge_del l k) x = (if k =? x then None else ge_get l x).
Proof.
  unfold ge_get, ge_set, ge_del. rewrite es_find_put, es_find_del, ctx_mod_gen. split; destruct (k =? x); reflexivity.
Qed.

Lemma gr_map_model l k c x :
  gr_get (gr_set l k c) x = (if k =? x then Some c else gr_get l x) /\
  gr_get (gr_del l k) x = (if k =? x then None else gr_get l x).
Proof. unfold gr_get, gr_set, gr_del. rewrite es_find_put, es_find_del. split; reflexivity. Qed.

(* ---- errors ---- *)

Definition err_res (e : merror) : res unit :=
  match e with
  | ENil => Ok tt
  | EErrPIDAlreadyExists => Err E_pid_exists
  | EErrPIDNotFound => Err E_pid_not_found
  | EErrPCRPIDInvalid => Err E_pcr_pid
  | EFmt => Err E_generic
  | EExt c => Err c
  end.

(* ---- m.pmt ---- *)

Definition pmt_of (s : mstate) : PMTData := pmt_data_of (ms_streams s) (ms_pcr_pid s).

(* the state after a configuration call, from the fields the generated functions return *)
Definition cfg_state (s : mstate) (pmt : PMTData) (upd : bool) (np : Z) (es : list (Z * esctx))
    (rm : list (Z * wrappingCounter)) : mstate :=
  {| ms_period := ms_period s; ms_streams := PMTData_ElementaryStreams pmt; ms_pcr_pid := PMTData_PCRPID pmt;
     ms_pm_updated := ms_pm_updated s; ms_pmt_updated := upd; ms_next_pid := np;
     ms_pat_version := ms_pat_version s; ms_pmt_version := ms_pmt_version s; ms_pat_cc := ms_pat_cc s;
     ms_pmt_cc := ms_pmt_cc s; ms_es := es; ms_retransmit := ms_retransmit s; ms_removed := rm |}.

Lemma cfg_state_same s : cfg_state s (pmt_of s) (ms_pmt_updated s) (ms_next_pid s) (ms_es s) (ms_removed s) = s.
Proof. destruct s; reflexivity. Qed.

(* ---- small facts about the association lists ---- *)

Lemma es_del_absent {A} pid (l : list (Z * A)) : es_find pid l = None -> es_del pid l = l.
Proof.
  induction l as [|[q c] r IH]; [reflexivity|].
  rewrite es_find_cons. unfold es_del in *. cbn [filter fst]. destruct (q =? pid) eqn:E; [discriminate|].
  cbn [negb]. intros H. rewrite (IH H). reflexivity.
Qed.

Lemma ge_get_mem l k : match ge_get l k with Some _ => true | None => false end = es_mem k l.
Proof. unfold ge_get. rewrite es_mem_find. destruct (es_find k l); reflexivity. Qed.

(* ---- AddElementaryStream ---- *)

(* the duplicate test: for _, oes := range m.pmt.ElementaryStreams { if oes.ElementaryPID == es.ElementaryPID { return .. } } *)
Lemma add_loop1_is_model l : forall es escs np pmt pb upd rm,
  Muxer_AddElementaryStream_loop1 ge_get ge_set gr_del gr_get l es escs np pmt pb upd rm =
  if stream_pid_in (PMTElementaryStream_ElementaryPID es) l
  then inl (Some (pmt, upd, np, pb, escs, rm, EErrPIDAlreadyExists)) else inr tt.
Proof.
  induction l as [|e r IH]; intros; [reflexivity|].
  cbn [Muxer_AddElementaryStream_loop1 stream_pid_in existsb].
  destruct (PMTElementaryStream_ElementaryPID e =? PMTElementaryStream_ElementaryPID es); [reflexivity|].
  rewrite IH. reflexivity.
Qed.

(* the PID search: for _, ok := m.esContexts[nextPID]; ok || nextPID == pmtStartPID; _, ok = .. { nextPID++ } *)
Lemma add_loop2_is_model fuel : forall es escs n pmt pb upd rm,
  Muxer_AddElementaryStream_loop2 ge_get ge_set gr_del gr_get fuel es escs n pmt pb upd rm (es_mem n escs) =
  match next_free_pid fuel escs n with
  | None => inl None
  | Some p => inr (p, es_mem p escs)
  end.
Proof.
  induction fuel as [|k IH]; intros; [reflexivity|].
  cbn [Muxer_AddElementaryStream_loop2 next_free_pid].
  destruct (es_mem n escs || (n =? C_pmtStartPID)); [|reflexivity].
  rewrite ge_get_mem. apply IH.
Qed.

(* what the generated function returns, read off the model's result *)
Definition add_view (pb : list Z) (r : mstate * res unit) :=
  match r with
  | (s', Ok _) => Some (pmt_of s', ms_pmt_updated s', ms_next_pid s', @nil Z, ms_es s', ms_removed s', ENil)
  | (s', Err _) => Some (pmt_of s', ms_pmt_updated s', ms_next_pid s', pb, ms_es s', ms_removed s', EErrPIDAlreadyExists)
  | (_, Panic) => None
  end.

(* the tail both branches of AddElementaryStream share: append, context (with the counter of a removed PID), flags *)
Ltac add_tail :=
  unfold add_view, pmt_of, set_streams_es, gr_get, gr_del, ge_set, readded_context, new_es_context, newEsContext, ctx_mod, cc_wrap, with_pid;
  cbn [ms_streams ms_pcr_pid ms_pmt_updated ms_next_pid ms_es ms_removed pmt_data_of PMTData_ElementaryStreams
       PMTData_PCRPID PMTData_ProgramDescriptors PMTData_ProgramNumber PMTElementaryStream_ElementaryPID];
  let E := fresh "E" in
  match goal with |- context [es_find ?p ?l] => destruct (es_find p l) as [?|] eqn:E end;
  cbn [odflt esContext_es esContext_cc];
  [reflexivity | rewrite (es_del_absent _ _ E); reflexivity].

Lemma add_es_is_generated s es pb :
  Muxer_AddElementaryStream ge_get ge_set gr_del gr_get (S (S (length (ms_es s))))
    (pmt_of s) (ms_pmt_updated s) (ms_next_pid s) pb (ms_es s) (ms_removed s) es =
  add_view pb (add_es s es).
Proof.
  unfold Muxer_AddElementaryStream, add_es.
  destruct (PMTElementaryStream_ElementaryPID es =? 0) eqn:E0; cbn [negb].
  - (* automatic PID *)
    rewrite ge_get_mem, add_loop2_is_model.
    destruct (next_free_pid (S (S (length (ms_es s)))) (ms_es s) (ms_next_pid s)) as [p|]; [|reflexivity].
    fold (with_pid es p). add_tail.
  - rewrite add_loop1_is_model. unfold pmt_of at 1. cbn [pmt_data_of PMTData_ElementaryStreams].
    destruct (stream_pid_in (PMTElementaryStream_ElementaryPID es) (ms_streams s)); [reflexivity|].
    add_tail.
Qed.

(* the model's result is the generated function's (None = the loop ran out of fuel = the model's Panic) *)
Definition add_of_gen (s : mstate)
    (r : option (PMTData * bool * Z * list Z * list (Z * esctx) * list (Z * wrappingCounter) * merror)) : mstate * res unit :=
  match r with
  | None => (s, Panic)
  | Some (pmt, upd, np, _, es, rm, e) => (cfg_state s pmt upd np es rm, err_res e)
  end.

Lemma add_es_frame s es : forall s' r, add_es s es = (s', r) ->
  s' = cfg_state s (pmt_of s') (ms_pmt_updated s') (ms_next_pid s') (ms_es s') (ms_removed s') /\
  (r = Ok tt \/ (r = Err E_pid_exists /\ s' = s) \/ (r = Panic /\ s' = s)).
Proof.
  unfold add_es. intros s' r.
  destruct (negb (PMTElementaryStream_ElementaryPID es =? 0)).
  - destruct (stream_pid_in _ _); intros H; inversion H; subst.
    + split; [symmetry; apply cfg_state_same|right; left; split; reflexivity].
    + split; [reflexivity|left; reflexivity].
  - destruct (next_free_pid _ _ _); intros H; inversion H; subst.
    + split; [reflexivity|left; reflexivity].
    + split; [symmetry; apply cfg_state_same|right; right; split; reflexivity].
Qed.

Lemma add_es_of_generated s es pb :
  add_es s es = add_of_gen s (Muxer_AddElementaryStream ge_get ge_set gr_del gr_get (S (S (length (ms_es s))))
                                (pmt_of s) (ms_pmt_updated s) (ms_next_pid s) pb (ms_es s) (ms_removed s) es).
Proof.
  rewrite add_es_is_generated. destruct (add_es s es) as [s' r] eqn:E.
  destruct (add_es_frame s es s' r E) as [F [->|[[-> ->]|[-> ->]]]]; unfold add_view, add_of_gen, err_res.
  - rewrite <- F. reflexivity.
  - rewrite cfg_state_same. reflexivity.
  - reflexivity.
Qed.

(* ---- RemoveElementaryStream ---- *)

Fixpoint pid_index (pid : Z) (l : list PMTElementaryStream) : option Z :=
  match l with
  | [] => None
  | e :: r => if PMTElementaryStream_ElementaryPID e =? pid then Some 0 else option_map Z.succ (pid_index pid r)
  end.

Lemma pid_index_nonneg pid l : forall j, pid_index pid l = Some j -> 0 <= j.
Proof.
  induction l as [|e r IH]; intros j; cbn [pid_index]; [discriminate|].
  destruct (_ =? pid); [intros H; inversion H; lia|].
  destruct (pid_index pid r) as [k|]; cbn [option_map]; [|discriminate].
  intros H; inversion H. specialize (IH k eq_refl). lia.
Qed.

Lemma pid_index_in pid l : stream_pid_in pid l = match pid_index pid l with Some _ => true | None => false end.
Proof.
  induction l as [|e r IH]; [reflexivity|]. cbn [stream_pid_in existsb pid_index].
  destruct (_ =? pid); [reflexivity|]. cbn [orb]. unfold stream_pid_in in IH. rewrite IH.
  destruct (pid_index pid r); reflexivity.
Qed.

Lemma slice_delete_cons {A} (e : A) r j : 0 <= j -> slice_delete (e :: r) (Z.succ j) = e :: slice_delete r j.
Proof.
  intros H. unfold slice_delete.
  replace (Z.to_nat (Z.succ j)) with (S (Z.to_nat j)) by lia.
  replace (Z.to_nat (Z.succ j + 1)) with (S (Z.to_nat (j + 1))) by lia. reflexivity.
Qed.

(* x = append(x[:i], x[i+1:]...) at the index the loop found = the model's removal of the first stream of that PID *)
Lemma slice_delete_is_remove_first pid l : forall j, pid_index pid l = Some j ->
  slice_delete l j = remove_first_pid pid l.
Proof.
  induction l as [|e r IH]; intros j; cbn [pid_index remove_first_pid]; [discriminate|].
  destruct (_ =? pid); [intros H; inversion H; reflexivity|].
  destruct (pid_index pid r) as [k|] eqn:E; cbn [option_map]; [|discriminate].
  intros H; inversion H. rewrite slice_delete_cons by (apply (pid_index_nonneg pid r); exact E).
  rewrite (IH k eq_refl). reflexivity.
Qed.

(* for i, oes := range m.pmt.ElementaryStreams { if oes.ElementaryPID == pid { foundIdx = i; break } } *)
Lemma remove_loop1_is_model l : forall i found escs pmt pb upd rm pid,
  Muxer_RemoveElementaryStream_loop1 ge_del ge_get gr_set l i found escs pmt pb upd rm pid =
  inr (match pid_index pid l with Some j => i + j | None => found end).
Proof.
  induction l as [|e r IH]; intros; [reflexivity|].
  cbn [Muxer_RemoveElementaryStream_loop1 pid_index].
  destruct (_ =? pid); [f_equal; lia|].
  rewrite IH. destruct (pid_index pid r); cbn [option_map]; f_equal; lia.
Qed.

Definition remove_of_gen (s : mstate)
    (r : PMTData * bool * list Z * list (Z * esctx) * list (Z * wrappingCounter) * merror) : mstate * res unit :=
  let '(pmt, upd, _, es, rm, e) := r in (cfg_state s pmt upd (ms_next_pid s) es rm, err_res e).

(* what the generated function returns, read off the model's result (pb: the PMT cache before the call) *)
Definition remove_view (pb : list Z) (r : mstate * res unit) :=
  match r with
  | (s', Ok _) => (pmt_of s', ms_pmt_updated s', @nil Z, ms_es s', ms_removed s', ENil)
  | (s', _) => (pmt_of s', ms_pmt_updated s', pb, ms_es s', ms_removed s', EErrPIDNotFound)
  end.

Lemma remove_es_is_generated s pid pb :
  Muxer_RemoveElementaryStream ge_del ge_get gr_set (pmt_of s) (ms_pmt_updated s) pb (ms_es s) (ms_removed s) pid =
  remove_view pb (remove_es s pid).
Proof.
  unfold Muxer_RemoveElementaryStream, remove_es. rewrite remove_loop1_is_model.
  unfold pmt_of. cbn [pmt_data_of PMTData_ElementaryStreams PMTData_PCRPID PMTData_ProgramDescriptors PMTData_ProgramNumber].
  rewrite pid_index_in.
  destruct (pid_index pid (ms_streams s)) as [j|] eqn:E.
  - pose proof (pid_index_nonneg _ _ _ E) as Hj.
    replace (0 + j =? -1) with false by lia.
    unfold remove_view, pmt_of, set_streams_es, gr_set, ge_del, ge_get.
    cbn [ms_streams ms_pcr_pid ms_pmt_updated ms_next_pid ms_es ms_removed pmt_data_of PMTData_ElementaryStreams
         PMTData_PCRPID PMTData_ProgramDescriptors PMTData_ProgramNumber].
    replace (0 + j) with j by lia. rewrite (slice_delete_is_remove_first _ _ _ E).
    destruct (es_find pid (ms_es s)) as [c|]; reflexivity.
  - reflexivity.
Qed.

Lemma remove_es_of_generated s pid pb :
  remove_es s pid =
  remove_of_gen s (Muxer_RemoveElementaryStream ge_del ge_get gr_set (pmt_of s) (ms_pmt_updated s) pb (ms_es s) (ms_removed s) pid).
Proof.
  rewrite remove_es_is_generated. unfold remove_es.
  destruct (stream_pid_in pid (ms_streams s)); unfold remove_view, remove_of_gen, err_res.
  - reflexivity.
  - rewrite cfg_state_same. reflexivity.
Qed.

(* ---- SetPCRPID ---- *)

Lemma set_pcr_is_generated s pid :
  Muxer_SetPCRPID (pmt_of s) (ms_pmt_updated s) pid = (pmt_of (set_pcr s pid), ms_pmt_updated (set_pcr s pid)).
Proof. reflexivity. Qed.

Lemma set_pcr_of_generated s pid :
  set_pcr s pid =
  let '(pmt, upd) := Muxer_SetPCRPID (pmt_of s) (ms_pmt_updated s) pid in
  cfg_state s pmt upd (ms_next_pid s) (ms_es s) (ms_removed s).
Proof. reflexivity. Qed.

(* newEsContext: a fresh context starts the 4-bit counter at wrapAt + 1 *)
Lemma new_es_context_is_generated es : new_es_context es = ctx_mod (newEsContext es).
Proof. reflexivity. Qed.
