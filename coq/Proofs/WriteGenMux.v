(* The packetisation of Model/Muxer.v IS what go/gen/writegen.go regenerates from the current /repo/muxer.go:
   Muxer.WritePacket (write_packet_op) and the part of Muxer.WriteData from its packetisation loop on (wd_loop and the
   end of write_data), which Gen/MuxGen.v's Muxer_WriteData_until_loop takes as its parameter rest_.

   write_data_is_source: for every state s and argument d on which the model's WriteData does not panic, the translated
   prefix (Gen/MuxGen.v) applied to the translated rest (Gen/WriteGen.v, Muxer_WriteData_rest) returns the model's result
   class, the model's count and hands the io.Writer the model's Write calls in the model's order, and leaves the model's
   state (the stream contexts compared as maps: the generated code stores the context back under its key).
   The proof is a simulation of wd_loop by the generated Fixpoint (loop_sim): the generated state (the record d with the
   stores made through it, the context, writeAf, payloadBytesWritten) is related to the arguments of wd_loop by [inv];
   one iteration is either the adaptation-field-only packet or a payload packet, each in the four combinations of
   "first iteration with the caller's adaptation field" and payloadStart.  The generated writePacket / writePESData are
   replaced by the model's through Proofs/WriteGenEq.v / WriteGenPes.v (capture_packet, capture_pes).

   What the statement does not cover: a panic of the model (a nil pointer behind d, out of fuel) is matched by no claim;
   the caller's struct d as mutated by the generated code (the model does not return it) is existentially quantified.

   Instantiation, as in Proofs/MuxGenEq.v: the io.Writer is the list of Write calls (g_write), the map of stream contexts
   the association list ms_es (ge_get / ge_set), m.packetSize = 188, the loop's fuel = S (length of the payload + 3).

   loop_sim and rest_sim are stated over the parameter lists of the generated definitions: a new local variable in front
   of the loop changes them (reported as a broken proof; the lemma has to be restated). *)
From Coq Require Import ZArith List Lia Bool ZifyBool.
Require Import Base.Bits Base.Iter Base.Wr Gen.Consts Gen.Types Gen.Preds Gen.MuxGen Gen.WriteGen
  Model.Clock Model.Packet Model.Pes Model.Desc Model.Psi Model.Muxer Proofs.MuxerProofs Proofs.MuxGenEq
  Proofs.WriteGenBase Proofs.WriteGenEq Proofs.WriteGenPes.
Import ListNotations.
Open Scope Z_scope.

Lemma io_write_all_g w cs : io_write_all g_write w cs = w ++ cs.
Proof.
  unfold io_write_all. revert w. induction cs as [|c r IH]; intros w; cbn [fold_left].
  - rewrite app_nil_r. reflexivity.
  - rewrite IH. unfold g_write. cbn [fst]. rewrite <- app_assoc. reflexivity.
Qed.

Lemma to_pes_is_source t : StreamType_ToPESStreamID t = to_pes_stream_id t.
Proof.
  unfold StreamType_ToPESStreamID, to_pes_stream_id, is_in. cbn [existsb].
  rewrite ?orb_false_r, ?orb_assoc. reflexivity.
Qed.

(* a writePacket that returns an error has handed nothing to the BitsWriter: the size test in front of the first write
   is exact, the second one (after sync byte, header and adaptation field) cannot fire *)
Lemma writePacket_err_nothing p t a e :
  snd (writePacket p t) = Some (a, e) -> merror_is_nil e = false -> fst (writePacket p t) = [].
Proof.
  unfold writePacket.
  destruct (PacketHeader_HasAdaptationField (Packet_Header p)).
  - destruct (Packet_AdaptationField p) as [af|]; [|wsimpl; discriminate]. wsimpl.
    destruct (PacketAdaptationField_StuffingLength af <? 0) eqn:C0; wsimpl; [reflexivity|].
    destruct (_ <? Z.of_nat (length (Packet_Payload p))) eqn:C1; wsimpl; [reflexivity|].
    wcallee (writePacketHeader_is_model (Packet_Header p)). wsimpl.
    pose proof (writeAF_is_model af) as HA.
    destruct (enc_adaptation_field af) as [[ai an]|c|] eqn:EA.
    + pose proof (enc_adaptation_field_n _ _ _ EA ltac:(lia)) as Han.
      wcallee HA. wsimpl.
      match goal with |- context [wbind (if ?c then _ else _) _] => destruct c eqn:C2 end; [exfalso; lia|]. wsimpl.
      destruct (PacketHeader_HasPayload (Packet_Header p)); wsimpl; rewrite packet_loop_is; wsimpl;
        intros H H2; inversion H; subst; cbn in H2; discriminate H2.
    + exfalso. eapply enc_adaptation_field_no_err; eauto.
    + destruct (wf_sim_panic_inv _ HA) as (lx & EX). rewrite EX. wsimpl. discriminate.
  - wsimpl.
    destruct (_ <? Z.of_nat (length (Packet_Payload p))) eqn:C1; wsimpl; [reflexivity|].
    wcallee (writePacketHeader_is_model (Packet_Header p)). wsimpl.
    match goal with |- context [wbind (if ?c then _ else _) _] => destruct c eqn:C2 end; [exfalso; lia|]. wsimpl.
    destruct (PacketHeader_HasPayload (Packet_Header p)); wsimpl; rewrite packet_loop_is; wsimpl;
      intros H H2; inversion H; subst; cbn in H2; discriminate H2.
Qed.

(* a call of the generated writePacket through the Muxer's bits writer, against emit_packet *)
Lemma capture_packet {R} (p : Packet) :
  match po_res (emit_packet p) with
  | Ok n => exists l, @wcapture R _ (writePacket p C_MpegTsPacketSize) = ([], WVal (l, (n, ENil))) /\
                      chunks_of (map snd l) = po_group (emit_packet p) /\ n = C_MpegTsPacketSize
  | Err c => exists a e, @wcapture R _ (writePacket p C_MpegTsPacketSize) = ([], WVal ([], (a, e))) /\ werr e = Some c
  | Panic => @wcapture R _ (writePacket p C_MpegTsPacketSize) = ([], WPanic)
  end.
Proof.
  pose proof (writePacket_is_model p C_MpegTsPacketSize) as S. unfold enc_packet_n in S. unfold emit_packet.
  destruct (enc_packet p C_MpegTsPacketSize) as [items|c|]; cbn [res_map po_res po_group] in *.
  - destruct (wf_ok_chunks _ _ _ S) as (S1 & S2 & _). destruct (writePacket p C_MpegTsPacketSize) as [l o].
    cbn [fst snd] in *. subst o. exists l. cbn [wcapture]. auto.
  - destruct (wf_sim_err_inv _ _ S) as (l & a & e & E & He).
    pose proof (writePacket_err_nothing p C_MpegTsPacketSize a e) as N. rewrite E in N. cbn [fst snd] in N.
    rewrite (N eq_refl (werr_not_nil _ _ He)) in E. rewrite E. cbn [wcapture]. eauto.
  - destruct (wf_sim_panic_inv _ S) as (l & E). rewrite E. reflexivity.
Qed.

(* Muxer.WritePacket *)
Lemma write_packet_of_generated (w : gw) p :
  match pa_res (write_packet_op p) with
  | Ok _ => Muxer_WritePacket g_write w C_MpegTsPacketSize p =
              ([], Some (w ++ concat (pa_groups (write_packet_op p)), pa_n (write_packet_op p), ENil))
  | Err c => exists a e, Muxer_WritePacket g_write w C_MpegTsPacketSize p = ([], Some (w, a, e)) /\ werr e = Some c
  | Panic => Muxer_WritePacket g_write w C_MpegTsPacketSize p = ([], None)
  end.
Proof.
  unfold Muxer_WritePacket, write_packet_op.
  pose proof (@capture_packet (gw * Z * merror) p) as C.
  destruct (po_res (emit_packet p)) as [n|c|]; cbn [pa_res pa_groups pa_n concat].
  - destruct C as (l & E & Hc & Hn). rewrite E. wsimpl. rewrite io_write_all_g, Hc, app_nil_r. reflexivity.
  - destruct C as (a & e & E & He). rewrite E. wsimpl. eauto.
  - rewrite C. reflexivity.
Qed.

(* ---- the packetisation loop ---- *)

Notation G := (gw * list Z * list (Z * esctx) * MuxerData * Z * merror)%type.

Definition gloop := @Muxer_WriteData_rest_loop1 gw (list (Z * esctx)) gpm g_write ge_set.

(* the generated state (d, ctx, writeAf, payloadBytesWritten) against the arguments of wd_loop *)
Record inv (d : MuxerData) (ctx : esContext) (waf : bool) (pbw : Z)
           (pid : Z) (es : PMTElementaryStream) (h : PESHeader) (cc : wrappingCounter)
           (af : option PacketAdaptationField) (data left : list Z) : Prop := {
  inv_pid : MuxerData_PID d = pid;
  inv_pes : exists pes hd, MuxerData_PES d = Some pes /\ PESData_Data pes = data /\ PESData_Header pes = Some hd /\
                           filled_header hd es = h;
  inv_es : esContext_es ctx = Some es;
  inv_cc : esContext_cc ctx = cc;
  inv_left : left = skipn (Z.to_nat pbw) data /\ 0 <= pbw <= Z.of_nat (length data);
  inv_af : af = if waf then MuxerData_AdaptationField d else None;
  inv_waf : waf = true -> MuxerData_AdaptationField d <> None
}.

Lemma capture_pes {R} h pl st av :
  match write_pes_data h pl st av with
  | Ok (items, ntot, np) => exists l, @wcapture R _ (writePESData h pl st av) = ([], WVal (l, (ntot, np, ENil))) /\
                                      bytes_of_items (map snd l) = bytes_of_items items
  | Err c => exists l a b e, @wcapture R _ (writePESData h pl st av) = ([], WVal (l, (a, b, e))) /\ werr e = Some c
  | Panic => @wcapture R _ (writePESData h pl st av) = ([], WPanic)
  end.
Proof.
  pose proof (writePESData_is_model h pl st av) as S. unfold write_pes_data_n in S.
  destruct (write_pes_data h pl st av) as [[[items ntot] np]|c|]; cbn [res_map] in *.
  - destruct (wf_ok_chunks _ _ _ S) as (S1 & _ & S3 & _). destruct (writePESData h pl st av) as [l o].
    cbn [fst snd] in *. subst o. exists l. cbn [wcapture]. auto.
  - destruct (wf_sim_err_inv _ _ S) as (l & [a b] & e & E & He). rewrite E. cbn [wcapture]. eauto 10.
  - destruct (wf_sim_panic_inv _ S) as (l & E). rewrite E. reflexivity.
Qed.

Lemma write_pes_data_bounds h pl st av items ntot np : write_pes_data h pl st av = Ok (items, ntot, np) ->
  0 <= np <= Z.of_nat (length pl).
Proof.
  unfold write_pes_data. destruct (if st then enc_pes_header h (Z.of_nat (length pl)) else Ok ([], 0)) as [[hi n]|c|];
    cbn [res_bind]; try discriminate.
  destruct (_ <? 0) eqn:E; [discriminate|]. intros H. inversion H; subst. clear H.
  destruct (av - n >? Z.of_nat (length pl)) eqn:E2 in *; lia.
Qed.

Lemma left_cond (data : list Z) pbw : 0 <= pbw <= Z.of_nat (length data) ->
  (pbw <? Z.of_nat (length data)) = match skipn (Z.to_nat pbw) data with [] => false | _ => true end.
Proof.
  intros H. destruct (skipn (Z.to_nat pbw) data) eqn:E.
  - assert (length (skipn (Z.to_nat pbw) data) = 0%nat) by (rewrite E; reflexivity). rewrite skipn_length in H0. lia.
  - assert (length (skipn (Z.to_nat pbw) data) <> 0%nat) by (rewrite E; discriminate). rewrite skipn_length in H0. lia.
Qed.

(* the variables the loop assigns, in the order of their declarations: m.w, m.buf (fields), d, ctx, bytesWritten, n, err,
   payloadStart, writeAf, payloadBytesWritten *)
Notation LV := (gw * list Z * MuxerData * esContext * Z * Z * merror * bool * bool * Z)%type.

Definition loop_post (bw : Z) (ctx : esContext) (w : gw) (escs : list (Z * esctx)) (key : Z) (r : loop_out)
    (g : WM (option G) LV) : Prop :=
  let ctx' := wset_esContext_cc (lo_cc r) ctx in
  let w' := w ++ concat (pa_groups (lo_part r)) in
  let bw' := bw + pa_n (lo_part r) in
  match pa_res (lo_part r) with
  | Ok _ => exists d' err' buf' n' pbw' ps' waf', g = ([], WVal (w', buf', d', ctx', bw', n', err', ps', waf', pbw'))
  | Err c => exists d' buf' e, g = ([], WExit (Some (w', buf', ge_set escs key ctx', d', bw', e))) /\ werr e = Some c
  | Panic => True
  end.

Lemma wset_cc_same ctx : wset_esContext_cc (esContext_cc ctx) ctx = ctx.
Proof. destruct ctx; reflexivity. Qed.

Lemma loop_post_cons bw ctx ctx2 w escs key n g p r G :
  loop_post (bw + n) ctx2 (w ++ g) escs key r G -> esContext_es ctx2 = esContext_es ctx ->
  loop_post bw ctx w escs key (lo_cons n g p r) G.
Proof.
  unfold loop_post, lo_cons. cbn [lo_part lo_cc pa_res pa_n pa_groups concat]. intros H He. revert H.
  replace (wset_esContext_cc (lo_cc r) ctx2) with (wset_esContext_cc (lo_cc r) ctx)
    by (destruct ctx, ctx2; cbn in *; subst; reflexivity).
  rewrite <- app_assoc, Z.add_assoc. exact (fun H => H).
Qed.

Lemma pair_eta_let {A B} (x : A * B) : (let '(a, b) := x in (a, b)) = x.
Proof. destruct x; reflexivity. Qed.

Ltac wsets :=
  cbn [wset_Packet_AdaptationField wset_Packet_Header wset_Packet_Payload wset_PacketHeader_HasAdaptationField
       wset_PacketHeader_HasPayload wset_PacketHeader_PayloadUnitStartIndicator wset_PacketHeader_ContinuityCounter
       Packet_AdaptationField Packet_Header Packet_Payload PacketHeader_HasPayload PacketHeader_HasAdaptationField
       PacketHeader_ContinuityCounter PacketHeader_PayloadUnitStartIndicator PacketHeader_PID
       PacketHeader_TransportErrorIndicator PacketHeader_TransportPriority PacketHeader_TransportScramblingControl].

Lemma filled_same hd es : PESHeader_StreamID hd =? 0 = false -> filled_header hd es = hd.
Proof. unfold filled_header. intros ->. reflexivity. Qed.
Lemma filled_set hd es : PESHeader_StreamID hd =? 0 = true ->
  wset_PESHeader_StreamID (StreamType_ToPESStreamID (PMTElementaryStream_StreamType es)) hd = filled_header hd es.
Proof. unfold filled_header. intros ->. rewrite to_pes_is_source. reflexivity. Qed.
Lemma filled_idem hd es : filled_header (filled_header hd es) es = filled_header hd es.
Proof.
  destruct (PESHeader_StreamID hd =? 0) eqn:E.
  - unfold filled_header. rewrite E. cbn [PESHeader_StreamID PESHeader_OptionalHeader PESHeader_PacketLength].
    destruct (to_pes_stream_id (PMTElementaryStream_StreamType es) =? 0); reflexivity.
  - rewrite !(filled_same hd es E). reflexivity.
Qed.

Lemma wslice_tail {R} (data : list Z) pbw : 0 <= pbw <= Z.of_nat (length data) ->
  @wslice R data pbw (Z.of_nat (length data)) = wret (skipn (Z.to_nat pbw) data).
Proof.
  intros H. unfold wslice.
  replace (orb (orb (pbw <? 0) (Z.of_nat (length data) <? pbw)) (Z.of_nat (length data) <? Z.of_nat (length data))) with false by lia.
  rewrite firstn_all2; [reflexivity|]. rewrite skipn_length. lia.
Qed.

Ltac wd_sets := cbn [wset_MuxerData_PES wset_MuxerData_AdaptationField wset_PESData_Header MuxerData_PES MuxerData_PID
                     MuxerData_AdaptationField PESData_Header PESData_Data esContext_es esContext_cc wset_esContext_cc].

Lemma skipn_more (data : list Z) pbw np left : left = skipn (Z.to_nat pbw) data -> 0 <= pbw <= Z.of_nat (length data) ->
  0 <= np <= Z.of_nat (length left) ->
  skipn (Z.to_nat np) left = skipn (Z.to_nat (pbw + np)) data /\ 0 <= pbw + np <= Z.of_nat (length data).
Proof.
  intros -> H1 H2. rewrite skipn_length in H2. split; [|lia].
  replace (Z.to_nat (pbw + np)) with (Z.to_nat pbw + Z.to_nat np)%nat by lia.
  generalize (Z.to_nat pbw) (Z.to_nat np). clear. intros a b. revert data.
  induction a as [|a IH]; intros data; [reflexivity|].
  destruct data as [|y r]; [destruct b; reflexivity|]. cbn [skipn Nat.add]. apply IH.
Qed.

Ltac inv_payload :=
  constructor; wd_sets;
  [ reflexivity
  | first [ do 2 eexists; repeat split; [ eassumption | eassumption | eassumption | eassumption ]
          | do 2 eexists; repeat split; try reflexivity; wd_sets; try eassumption;
            match goal with H : filled_header ?hd ?es = ?h |- filled_header ?h ?es = ?h => rewrite <- H; apply filled_idem end ]
  | assumption
  | reflexivity
  | match goal with HL : _ :: _ = skipn _ _, HB : 0 <= _ <= Z.of_nat (length _), BD : 0 <= _ <= _ |- _ =>
      exact (skipn_more _ _ _ _ HL HB BD) end
  | reflexivity
  | intros; discriminate ].

(* case split on every integer comparison in sight, whatever way round the source and the model write it; the
   combinations that contradict each other are discharged by lia *)
Ltac zconds :=
  repeat match goal with
  | |- context [?a <? ?b] => let C := fresh "C" in destruct (a <? b) eqn:C
  | |- context [?a >? ?b] => let C := fresh "C" in destruct (a >? b) eqn:C
  | |- context [?a <=? ?b] => let C := fresh "C" in destruct (a <=? b) eqn:C
  | |- context [?a >=? ?b] => let C := fresh "C" in destruct (a >=? b) eqn:C
  end.

Ltac pkt_tail IH vES vDATA :=
  wsets; cbn [negb orb];
  let pk := fresh "pk" in
  match goal with |- context [emit_packet ?P] => set (pk := P) end;
  match goal with |- context [writePacket ?q _] => change q with pk end;
  let CP := fresh "CP" in pose proof (@capture_packet (option G) pk) as CP;
  let nn := fresh "nn" in let cc := fresh "cc" in
  destruct (po_res (emit_packet pk)) as [nn|cc|];
  [ let l := fresh "l" in let E := fresh "E" in let Hc := fresh "Hc" in let Hn := fresh "Hn" in
    destruct CP as (l & E & Hc & Hn); rewrite E; wsimpl; rewrite io_write_all_g, Hc; subst nn;
    eapply loop_post_cons; [rewrite !pair_eta_let; apply IH with (es := vES) (data := vDATA) | reflexivity]
  | let a0 := fresh "a" in let e := fresh "e" in let E := fresh "E" in let He := fresh "He" in
    destruct CP as (a0 & e & E & He); rewrite E; wsimpl; rewrite (werr_not_nil _ _ He); wsimpl;
    unfold loop_post, lo_stop; cbn [lo_part lo_cc pa_res pa_n pa_groups concat];
    rewrite ?wset_cc_same, Z.add_0_r, app_nil_r; eauto
  | exact I ].

Lemma loop_sim f : forall bw ctx d err force key buf escs pb pcc pv pm pmu pmt mb mcc mu mv cnt per w n ok pbw ps waf
    pid es h cc af data left,
  inv d ctx waf pbw pid es h cc af data left ->
  loop_post bw ctx w escs key (wd_loop f pid h cc af ps left)
    (gloop (S f) w C_MpegTsPacketSize per pm pmu pmt mu pv mv pcc mcc pb mb buf escs cnt d ctx key ok bw force n err ps waf pbw).
Proof.
  induction f as [|k IH]; intros until left; intros I.
  all: destruct I as [Ipid (pes & hd & Hpes & Hdata & Hhd & Hfill) Ies Icc (Hleft & Hb) Iaf Iwaf].
  all: destruct left as [|x left']; cbn [wd_loop].
  3,4: remember (S k) as fk eqn:Hfk.
  all: unfold gloop; cbn [Muxer_WriteData_rest_loop1]; rewrite Hpes; wsimpl; rewrite Hdata, (left_cond data pbw Hb), <- Hleft.
  1,3: unfold loop_post, lo_stop; cbn [lo_part lo_cc pa_res pa_n pa_groups concat]; wsimpl;
       rewrite app_nil_r, Z.add_0_r, <- Icc, wset_cc_same; eauto 10.
  - exact I.
  - (* one iteration *)
    subst pid cc.
    assert (Haf : exists oa, MuxerData_AdaptationField d = oa /\ af = (if waf then oa else None) /\ (waf = true -> oa <> None))
      by (eexists; eauto).
    destruct Haf as (oa & Hoa & Haf & Hnn). rewrite Hoa. clear Iaf Iwaf.
    assert (HOH : PESHeader_OptionalHeader hd = PESHeader_OptionalHeader h)
      by (subst h; unfold filled_header; destruct (PESHeader_StreamID hd =? 0); reflexivity).
    (* a packet without payload: the adaptation field takes what is left, the counter stays *)
    Ltac afonly IH vES vDATA :=
      wsets; cbn [negb];
      let pk := fresh "pk" in
      match goal with |- context [emit_packet ?P] => set (pk := P) end;
      match goal with |- context [writePacket ?q _] => change q with pk end;
      let CP := fresh "CP" in pose proof (@capture_packet (option G) pk) as CP;
      let nn := fresh "nn" in let cc := fresh "cc" in
      destruct (po_res (emit_packet pk)) as [nn|cc|];
      [ let l := fresh "l" in let E := fresh "E" in let Hc := fresh "Hc" in let Hn := fresh "Hn" in
        destruct CP as (l & E & Hc & Hn); rewrite E; wsimpl; rewrite io_write_all_g, Hc; subst nn;
        eapply loop_post_cons; [rewrite !pair_eta_let; apply IH with (es := vES) (data := vDATA) | reflexivity];
        constructor; wd_sets; eauto 10; intros; discriminate
      | let a0 := fresh "a" in let e := fresh "e" in let E := fresh "E" in let He := fresh "He" in
        destruct CP as (a0 & e & E & He); rewrite E; wsimpl; rewrite (werr_not_nil _ _ He); wsimpl;
        unfold loop_post, lo_stop; cbn [lo_part lo_cc pa_res pa_n pa_groups concat];
        rewrite wset_cc_same, Z.add_0_r, app_nil_r; eauto
      | exact I ].
    (* a packet with payload *)
    Ltac payload IH vES vDATA Hpes Hhd Hdata Ies Hfill Hb Hleft :=
      wsets; cbn [negb];
      repeat progress (wsimpl; wd_sets; rewrite ?Hpes, ?Hhd, ?Hdata, ?Ies);
      match goal with |- context [PESHeader_StreamID ?hd =? 0] =>
        let CS := fresh "CS" in
        destruct (PESHeader_StreamID hd =? 0) eqn:CS;
        repeat progress (wsimpl; wd_sets; rewrite ?Hpes, ?Hhd, ?Hdata, ?Ies);
        rewrite (wslice_tail _ _ Hb), <- Hleft; wsimpl;
        [ rewrite (filled_set hd vES CS), Hfill
        | match type of Hfill with _ = ?h => replace hd with h by (rewrite <- Hfill; apply filled_same; exact CS) end ]
      end;
      match goal with |- context [write_pes_data ?a ?b ?c ?e] =>
        let CD := fresh "CD" in let BD := fresh "BD" in
        pose proof (@capture_pes (option G) a b c e) as CD; pose proof (write_pes_data_bounds a b c e) as BD;
        destruct (write_pes_data a b c e) as [[[?items ?ntot] ?np]|?c0|];
        [ let l := fresh "l" in let E := fresh "E" in let Hbytes := fresh "Hbytes" in
          destruct CD as (l & E & Hbytes); rewrite E; wsimpl; rewrite Hbytes; specialize (BD _ _ _ eq_refl);
          zconds; wsimpl; first [ exfalso; lia | pkt_tail IH vES vDATA; inv_payload ]
        | let l := fresh "l" in let a0 := fresh "a" in let b0 := fresh "b" in let e := fresh "e" in
          let E := fresh "E" in let He := fresh "He" in
          destruct CD as (l & a0 & b0 & e & E & He); rewrite E; wsimpl; rewrite (werr_not_nil _ _ He); wsimpl;
          unfold loop_post, lo_stop; cbn [lo_part lo_cc pa_res pa_n pa_groups concat];
          rewrite Z.add_0_r, app_nil_r; eauto
        | exact I ]
      end.
    destruct waf.
    + destruct oa as [a|]; [|exfalso; apply Hnn; reflexivity]. subst af. wsimpl.
      destruct ps; wsimpl.
      * rewrite ?Hpes; wsimpl; rewrite ?Hhd; wsimpl; rewrite ?HOH; cbn [andb].
        cbn [wset_Packet_AdaptationField wset_Packet_Header wset_PacketHeader_HasAdaptationField Packet_AdaptationField Packet_Header].
        zconds; wsimpl; try (exfalso; lia).
        -- afonly IH constr:(es) constr:(data).
        -- payload IH constr:(es) constr:(data) Hpes Hhd Hdata Ies Hfill Hb Hleft.
      * cbn [andb]. payload IH constr:(es) constr:(data) Hpes Hhd Hdata Ies Hfill Hb Hleft.
    + subst af. wsimpl. rewrite ?Z.add_0_r.
      destruct ps; wsimpl.
      * rewrite ?Hpes; wsimpl; rewrite ?Hhd; wsimpl; rewrite ?HOH; cbn [andb].
        cbn [wset_Packet_AdaptationField wset_Packet_Header wset_PacketHeader_HasAdaptationField Packet_AdaptationField Packet_Header].
        zconds; wsimpl; try (exfalso; lia).
        -- afonly IH constr:(es) constr:(data).
        -- payload IH constr:(es) constr:(data) Hpes Hhd Hdata Ies Hfill Hb Hleft.
      * cbn [andb]. payload IH constr:(es) constr:(data) Hpes Hhd Hdata Ies Hfill Hb Hleft.
Qed.

(* ---- the rest of WriteData ---- *)

Definition grest := @Muxer_WriteData_rest gw (list (Z * esctx)) gpm g_write ge_set.

Definition wd_fuel (d : MuxerData) : nat :=
  match MuxerData_PES d with Some pes => S (length (PESData_Data pes) + 3) | None => 1%nat end.

Definition es_eq {A} (l l' : list (Z * A)) : Prop := forall k, es_find k l = es_find k l'.

Lemma concat_groups_of (w : gw) : concat (groups_of w) = w.
Proof. unfold groups_of. induction w as [|c r IH]; cbn [map concat app]; [reflexivity|]. rewrite IH. reflexivity. Qed.

(* what the generated rest returns, read as the model reads it *)
Definition rest_ok (s1 : mstate) (r : mstate * part) (g : WF (option G)) : Prop :=
  exists w' buf' escs' d' n' e,
    g = ([], Some (Some (w', buf', escs', d', n', e))) /\
    match pa_res (snd r) with Ok _ => e = ENil | Err c => werr e = Some c | Panic => False end /\
    n' = pa_n (snd r) /\ w' = concat (pa_groups (snd r)) /\
    es_eq escs' (ms_es (fst r)) /\ fst r = set_es s1 (ms_es (fst r)).

Lemma rest_sim s1 bw c d err force buf pb pcc pv pm pmu pmt mb mcc mu mv cnt per (w : gw) n ok :
  es_find (MuxerData_PID d) (ms_es s1) = Some c ->
  let r := wd_rest s1 (mk_part (Ok tt) bw (groups_of w) []) c d in
  pa_res (snd r) <> Panic ->
  rest_ok s1 r
    (grest (wd_fuel d) w C_MpegTsPacketSize per pm pmu pmt mu pv mv pcc mcc pb mb buf (ms_es s1) cnt d (ctx_gen c) ok bw force n err
       true (negb (match MuxerData_AdaptationField d with Some _ => false | None => true end)) 0).
Proof.
  intros Hc r NP. subst r. unfold wd_rest in *. unfold grest, Muxer_WriteData_rest, wd_fuel.
  destruct (MuxerData_PES d) as [pes|] eqn:Hpes; [|exfalso; apply NP; reflexivity].
  destruct (PESData_Data pes) as [|x data'] eqn:Hdata.
  - (* no payload: the loop does not run *)
    cbn [Muxer_WriteData_rest_loop1 length Nat.add]. rewrite Hpes. wsimpl. rewrite Hdata. cbn [length Z.of_nat Z.ltb Z.compare]. wsimpl.
    cbn [fst snd pa_res pa_n pa_groups].
    destruct (MuxerData_AdaptationField d) as [a|]; wsimpl; wd_sets.
    all: do 6 eexists; split; [reflexivity|]; repeat split; try reflexivity; try (symmetry; apply concat_groups_of).
    all: try (intros k; unfold ge_set; rewrite es_find_put, ctx_mod_gen; destruct (MuxerData_PID d =? k) eqn:E;
              [apply Z.eqb_eq in E; subst k; symmetry; exact Hc | reflexivity]).
    all: destruct s1; reflexivity.
  - destruct (PESData_Header pes) as [h0|] eqn:Hhd; [|exfalso; apply NP; reflexivity].
    cbn [fst snd] in *.
    set (h := filled_header h0 (ec_es c)) in *.
    set (data := x :: data') in *.
    set (af := MuxerData_AdaptationField d) in *.
    pose proof (loop_sim (length data + 3) bw (ctx_gen c) d err force (MuxerData_PID d) buf (ms_es s1) pb pcc pv pm pmu pmt mb mcc mu mv
                  cnt per w n ok 0 true (negb (match af with Some _ => false | None => true end))
                  (MuxerData_PID d) (ec_es c) h (ec_cc c) af data data) as L.
    assert (I : inv d (ctx_gen c) (negb (match af with Some _ => false | None => true end)) 0 (MuxerData_PID d) (ec_es c) h
                  (ec_cc c) af data data).
    { constructor; try reflexivity.
      - exists pes, h0. subst data. auto.
      - split; [reflexivity|]. lia.
      - subst af. destruct (MuxerData_AdaptationField d); reflexivity.
      - subst af. destruct (MuxerData_AdaptationField d); [discriminate|]. intros; discriminate. }
    specialize (L I). clear I.
    set (rl := wd_loop (length data + 3) (MuxerData_PID d) h (ec_cc c) af true data) in *.
    unfold part_app in *. cbn [pa_res pa_n pa_groups fst snd] in *.
    unfold loop_post in L. unfold gloop in L.
    destruct (pa_res (lo_part rl)) as [u|ce|] eqn:Er; [| |exfalso; apply NP; reflexivity].
    + destruct L as (d' & err' & buf' & n' & pbw' & ps' & waf' & EL). fold af. rewrite EL. wsimpl.
      destruct (MuxerData_AdaptationField d') as [a|]; wsimpl; wd_sets.
      all: do 6 eexists; split; [reflexivity|]; cbn [fst snd pa_res pa_n pa_groups]; repeat split; try reflexivity.
      all: try (rewrite concat_app, concat_groups_of; reflexivity).
      all: try (intros k; unfold ge_set; cbn [set_es ms_es]; unfold ctx_mod; cbn [wset_esContext_cc ctx_gen esContext_cc esContext_es odflt]; reflexivity).
      all: destruct s1; reflexivity.
    + destruct L as (d' & buf' & e & EL & He). fold af. rewrite EL. wsimpl.
      do 6 eexists; split; [reflexivity|]; cbn [fst snd pa_res pa_n pa_groups]; repeat split; try reflexivity; try exact He.
      all: try (rewrite concat_app, concat_groups_of; reflexivity).
      all: try (intros k; unfold ge_set; cbn [set_es ms_es]; unfold ctx_mod; cbn [wset_esContext_cc ctx_gen esContext_cc esContext_es odflt]; reflexivity).
      all: try (destruct s1; reflexivity).
Qed.

(* ---- WriteData as a whole: the translated prefix of Gen/MuxGen.v applied to the translated rest ---- *)

Definition flat_out : Type := (res unit * Z * gw)%type.      (* result class, returned count, io.Writer calls in order *)
Definition flat_of (p : part) : flat_out := (pa_res p, pa_n p, concat (pa_groups p)).

Definition werr_res (e : merror) : res unit := match werr e with None => Ok tt | Some c => Err c end.

(* ret_: the function returned in front of the loop (tables part, as in Proofs/MuxGenEq.v) *)
Definition wd_ret_src (s : mstate)
    (x : gw * bool * bool * wrappingCounter * wrappingCounter * wrappingCounter * wrappingCounter *
         list Z * list Z * list Z * Z * Z * merror) : option (mstate * flat_out) :=
  let '(s', o) := wd_ret s x in Some (s', (mo_res o, mo_n o, concat (mo_groups o))).

(* rest_: the generated remainder; None = it panicked or ran out of fuel *)
Definition wd_rest_src (s : mstate) (w : gw) (ps period : Z) (pm : gpm) (pmu : bool) (pmt : PMTData) (pmtu : bool)
    (patv pmtv patcc pmtcc : wrappingCounter) (pbytes mbytes buf : list Z) (escs : list (Z * esctx)) (cnt : Z)
    (d : MuxerData) (ctx : esContext) (ok : bool) (bytesWritten : Z) (force : bool) (n : Z) (err : merror)
    (pstart waf : bool) (pbw : Z) : option (mstate * flat_out) :=
  let s1 := set_retransmit (set_tables s patv pmtv patcc pmtcc pmu pmtu) cnt in
  match snd (grest (wd_fuel d) w ps period pm pmu pmt pmtu patv pmtv patcc pmtcc pbytes mbytes buf escs cnt
               d ctx ok bytesWritten force n err pstart waf pbw) with
  | Some (Some (w', _, escs', _, n', e)) => Some (set_es s1 escs', (werr_res e, n', w'))
  | _ => None
  end.

(* equal states, the stream contexts compared as maps (a Go map cannot hold two entries for a key) *)
Definition mstate_eqv (a b : mstate) : Prop := es_eq (ms_es a) (ms_es b) /\ a = set_es b (ms_es a).

Lemma mstate_eqv_refl a : mstate_eqv a a.
Proof. split; [intros k; reflexivity|destruct a; reflexivity]. Qed.

Theorem write_data_is_source s d pb mb buf :
  pa_res (snd (write_data s d)) <> Panic ->
  exists s',
    Muxer_WriteData_until_loop calc_descriptor_length calc_pmt_section_length g_write ge_get to_pat g_wpsi g_wpkt
      (wd_ret_src s) (wd_rest_src s)
      (@nil (list Z)) C_MpegTsPacketSize (ms_period s) mux_pm (ms_pm_updated s) (pmt_of s) (ms_pmt_updated s)
      (ms_pat_version s) (ms_pmt_version s) (ms_pat_cc s) (ms_pmt_cc s) pb mb buf (ms_es s) (ms_retransmit s) d
    = Some (s', flat_of (snd (write_data s d))) /\ mstate_eqv s' (fst (write_data s d)).
Proof.
  rewrite write_data_unfold. unfold Muxer_WriteData_until_loop, ge_get.
  destruct (es_find (MuxerData_PID d) (ms_es s)) as [c|] eqn:Hc; cbn [option_map odflt negb].
  2:{ intros _. unfold wd_ret_src, wd_ret. cbn [fst snd mout_of_part pa_res pa_n pa_groups groups_of map terr_res err_res flat_of concat mo_res mo_n mo_groups].
      rewrite set_tables_same, set_retransmit_same. eexists. split; [reflexivity|apply mstate_eqv_refl]. }
  match goal with |- context [Muxer_retransmitTables _ _ _ _ _ _ _ _ _ _ _ _ _ _ _ _ _ _ _ _ _ ?f] =>
    replace f with (af_rai (MuxerData_AdaptationField d) && (MuxerData_PID d =? ms_pcr_pid s))
      by (unfold af_rai, pmt_of; cbn [pmt_data_of PMTData_PCRPID]; destruct (MuxerData_AdaptationField d); reflexivity)
  end.
  set (force := af_rai (MuxerData_AdaptationField d) && (MuxerData_PID d =? ms_pcr_pid s)).
  intros NP.
  assert (NPr : pa_res (snd (retransmit_tables s force)) <> Panic).
  { intros HP. apply NP. destruct (retransmit_tables s force) as [s1 [[u|ce|] n1 g1 p1]]; cbn [snd pa_res] in *; try discriminate. reflexivity. }
  pose proof (retransmit_of_generated s force pb mb buf NPr) as R.
  destruct (Muxer_retransmitTables _ _ _ _ _ _ _ _ _ _ _ _ _ _ _ _ _ _ _ _ _ _)
    as [[[[[[[[[[[[w pmu] pmtu] patv] pmtv] patcc] pmtcc] b1] b2] b3] cnt] n] e].
  destruct R as [R1 R2]. rewrite terr_nil.
  destruct (retransmit_tables s force) as [s1 [r1 n1 g1 p1]].
  cbn [fst snd] in R1, R2. unfold mout_of_part in R2. cbn [pa_res pa_n pa_groups] in R2. inversion R2; subst. clear R2.
  destruct (terr_res e) as [u|ce|] eqn:Ee; cbn [negb].
  - (* the tables part succeeded: the packetisation *)
    set (s1 := set_retransmit (set_tables s patv pmtv patcc pmtcc pmu pmtu) cnt) in *.
    destruct u. change (0 + n) with n in *.
    destruct (wd_rest_mout s1 (mk_part (Ok tt) n (groups_of w) p1) (mk_part (Ok tt) n (groups_of w) []) c d
                eq_refl eq_refl eq_refl) as [M1 M2].
    assert (NP2 : pa_res (snd (wd_rest s1 (mk_part (Ok tt) n (groups_of w) []) c d)) <> Panic).
    { intros HP. apply NP. unfold mout_of_part in M2. inversion M2. congruence. }
    pose proof (rest_sim s1 n c d e force
                  b3 b1 patcc patv mux_pm pmu (pmt_of s) b2 pmtcc pmtu pmtv cnt (ms_period s) w n true Hc NP2) as RS.
    destruct RS as (w' & buf' & escs' & d' & n' & e' & EG & He & Hn & Hw & Hes & Hst).
    unfold wd_rest_src. fold s1. unfold grest in *.
    replace (ms_es s) with (ms_es s1) by reflexivity.
    rewrite EG. cbn [snd].
    exists (set_es s1 escs').
    unfold mout_of_part in M2. inversion M2 as [[Q1 Q2 Q3]]. rewrite M1. unfold flat_of. rewrite Q1, Q2, Q3.
    set (r' := wd_rest s1 (mk_part (Ok tt) n (groups_of w) []) c d) in *.
    split.
    + rewrite <- Hn, <- Hw. do 3 f_equal. unfold werr_res.
      destruct (pa_res (snd r')) as [[]|ce|]; [subst e'; reflexivity|rewrite He; reflexivity|contradiction].
    + split; [exact Hes|]. rewrite Hst. destruct s1; reflexivity.
  - (* the tables part failed: its error is returned *)
    unfold wd_ret_src, wd_ret. rewrite Ee.
    cbn [mo_res mo_n mo_groups flat_of snd fst pa_res pa_n pa_groups].
    eexists. split; [|apply mstate_eqv_refl]. unfold flat_of. cbn [pa_res pa_n pa_groups]. rewrite ?concat_groups_of. reflexivity.
  - exfalso. apply NPr. reflexivity.
Qed.

(* the continuity counters after the call are those the generated code leaves in the map *)
Corollary write_data_counters_are_source s d pb mb buf :
  pa_res (snd (write_data s d)) <> Panic ->
  exists s',
    Muxer_WriteData_until_loop calc_descriptor_length calc_pmt_section_length g_write ge_get to_pat g_wpsi g_wpkt
      (wd_ret_src s) (wd_rest_src s)
      (@nil (list Z)) C_MpegTsPacketSize (ms_period s) mux_pm (ms_pm_updated s) (pmt_of s) (ms_pmt_updated s)
      (ms_pat_version s) (ms_pmt_version s) (ms_pat_cc s) (ms_pmt_cc s) pb mb buf (ms_es s) (ms_retransmit s) d
    = Some (s', flat_of (snd (write_data s d))) /\
    (forall pid, option_map ec_cc (es_find pid (ms_es s')) = option_map ec_cc (es_find pid (ms_es (fst (write_data s d))))) /\
    ms_pat_cc s' = ms_pat_cc (fst (write_data s d)) /\ ms_pmt_cc s' = ms_pmt_cc (fst (write_data s d)).
Proof.
  intros NP. destruct (write_data_is_source s d pb mb buf NP) as (s' & E & Hes & Hst).
  exists s'. split; [exact E|]. split; [intros pid; rewrite (Hes pid); reflexivity|].
  rewrite Hst. destruct (fst (write_data s d)); split; reflexivity.
Qed.
