(* program_map.go as regenerated (Gen/RestGen.v), Muxer side: see the header of Proofs/RestGenPm.v. *)
From Coq Require Import ZArith List Lia Bool ZifyBool Permutation.
Require Import Gen.Consts Gen.Types Gen.Preds Gen.MuxGen Gen.RestGen
  Model.Pool Model.Muxer Proofs.MuxerProofs Proofs.MuxGenEq Proofs.RestGenPm.
Import ListNotations.
Open Scope Z_scope.

(* ---------------- the Muxer side ---------------- *)

(* gpm / gpm_set of MuxGenEq.v are this instance *)
Lemma gpm_set_is_lm_set pm pid n : gpm_set pm pid n = lm_set pm pid n.
Proof. reflexivity. Qed.

(* toPATDataUnlocked in list order is to_pat, for keys that are PIDs (uint16(pid) of the uint32 key) *)
Lemma to_pat_loop (l : lmap) : forall d,
  Forall (fun e => 0 <= fst e < 65536) l ->
  fold_left programMap_toPATDataUnlocked_loop1 l d =
  {| PATData_Programs := PATData_Programs d ++
        map (fun e => {| PATProgram_ProgramMapID := fst e; PATProgram_ProgramNumber := snd e |}) l;
     PATData_TransportStreamID := PATData_TransportStreamID d |}.
Proof.
  induction l as [|[k v] r IH]; intros d H.
  - cbn [fold_left map]. rewrite app_nil_r. destruct d; reflexivity.
  - inversion H as [|x y Hk Hr]; subst. cbn [fst] in Hk. cbn [fold_left].
    rewrite (IH _ Hr). unfold programMap_toPATDataUnlocked_loop1.
    cbn [PATData_Programs PATData_TransportStreamID map fst snd].
    rewrite Z.mod_small by lia. rewrite <- app_assoc. reflexivity.
Qed.

Lemma to_pat_is_generated (pm : lmap) :
  Forall (fun e => 0 <= fst e < 65536) pm ->
  programMap_toPATDataUnlocked lm_range (mk_programMap pm) = to_pat pm.
Proof.
  intro H. unfold programMap_toPATDataUnlocked, lm_range. cbn [programMap_p].
  rewrite (to_pat_loop _ _ H). reflexivity.
Qed.

(* a Muxer's map has one entry: whatever order the runtime enumerates a map in, the PAT is pat_data *)
Lemma to_pat_mux_any_order (rng : lmap -> list (Z * Z)) :
  (forall m, Permutation (rng m) m) ->
  programMap_toPATDataUnlocked rng (mk_programMap mux_pm) = pat_data.
Proof.
  intro H. unfold programMap_toPATDataUnlocked. cbn [programMap_p].
  pose proof (H mux_pm) as P. unfold mux_pm in *. apply Permutation_sym, Permutation_length_1_inv in P.
  rewrite P. reflexivity.
Qed.

(* NewMuxer with the regenerated newProgramMap / setUnlocked: every field as in the model, m.pm = {p := mux_pm} *)
Definition new_view_pm {W} (w : W) (s : mstate) :=
  (w, C_MpegTsPacketSize, ms_period s, mk_programMap mux_pm, ms_pm_updated s, pmt_of s, ms_pmt_updated s, ms_next_pid s,
   ms_pat_version s, ms_pmt_version s, ms_pat_cc s, ms_pmt_cc s, @nil Z, @nil Z, @nil Z, ms_es s, ms_retransmit s,
   ms_removed s).

Lemma new_loop_pm (W : Type) l : forall (buf : list Z) (escs : list (Z * esctx)) np ps pb patcc patv (pm : @programMap lmap) pmu pmt mb pmtcc
    pmtu pmtv (rm : list (Z * wrappingCounter)) cnt period (mw : W) opts (w : W),
  NewMuxer_loop1 [] [] (newProgramMap lm_make) (programMap_setUnlocked lm_set) l mw ps period pm pmu pmt pmtu np patv pmtv patcc pmtcc pb mb buf escs cnt rm w opts =
  inr (opts_period l period).
Proof.
  induction l as [|o r IH]; intros; [reflexivity|].
  cbn [NewMuxer_loop1 opts_period fold_left]. apply IH.
Qed.

Lemma new_muxer_pm_is_generated (W : Type) (w : W) opts :
  NewMuxer [] [] (newProgramMap lm_make) (programMap_setUnlocked lm_set) w opts = new_view_pm w (new_muxer (opts_period opts 40)).
Proof. unfold NewMuxer. rewrite new_loop_pm. reflexivity. Qed.

(* generatePAT reads the map through the regenerated toPATDataUnlocked: same PAT as with the hand-written to_pat *)
Lemma generate_pat_pm (rng : lmap -> list (Z * Z)) wpsi wpkt ps u v cc pb buf :
  (forall m, Permutation (rng m) m) ->
  Muxer_generatePAT (programMap_toPATDataUnlocked rng) wpsi wpkt ps (mk_programMap mux_pm) u v cc pb buf =
  Muxer_generatePAT to_pat wpsi wpkt ps mux_pm u v cc pb buf.
Proof.
  intro H. unfold Muxer_generatePAT. rewrite (to_pat_mux_any_order rng H), to_pat_mux_pm. reflexivity.
Qed.

Lemma program_map_mux_is_generated :
  (forall (W : Type) (w : W) opts,
     NewMuxer [] [] (newProgramMap lm_make) (programMap_setUnlocked lm_set) w opts =
     new_view_pm w (new_muxer (opts_period opts 40))) /\
  (forall pm, Forall (fun e => 0 <= fst e < 65536) pm ->
     programMap_toPATDataUnlocked lm_range (mk_programMap pm) = to_pat pm) /\
  (forall rng, (forall m, Permutation (rng m) m) ->
     programMap_toPATDataUnlocked rng (mk_programMap mux_pm) = pat_data /\
     forall wpsi wpkt ps u v cc pb buf,
       Muxer_generatePAT (programMap_toPATDataUnlocked rng) wpsi wpkt ps (mk_programMap mux_pm) u v cc pb buf =
       Muxer_generatePAT to_pat wpsi wpkt ps mux_pm u v cc pb buf).
Proof.
  split; [exact new_muxer_pm_is_generated|]. split; [exact to_pat_is_generated|].
  intros rng H. split; [exact (to_pat_mux_any_order rng H)|]. intros. apply generate_pat_pm, H.
Qed.

Example program_map_mux_example :
  programMap_toPATDataUnlocked lm_range (programMap_setUnlocked lm_set (newProgramMap lm_make) C_pmtStartPID C_programNumberStart)
  = pat_data.
Proof. reflexivity. Qed.
