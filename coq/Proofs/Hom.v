(* XOR-homomorphisms on Z: two homomorphisms that agree on the basis 2^i, i < n,
   agree on every 0 <= x < 2^n.  Used by C10 to lift a 40-point computation to
   all 2^40 (state, byte) pairs. *)
From Coq Require Import ZArith List Lia Bool.
Import ListNotations.
Open Scope Z_scope.

Definition hom (f : Z -> Z) := forall x y, f (Z.lxor x y) = Z.lxor (f x) (f y).

Lemma hom_0 f : hom f -> f 0 = 0.
Proof.
  intros H. specialize (H 0 0). rewrite Z.lxor_0_l in H.
  assert (E : Z.lxor (f 0) (f 0) = 0) by apply Z.lxor_nilpotent. congruence.
Qed.

Lemma lxor_swap a b c d : Z.lxor (Z.lxor a b) (Z.lxor c d) = Z.lxor (Z.lxor a c) (Z.lxor b d).
Proof.
  rewrite !Z.lxor_assoc. f_equal. rewrite <- !Z.lxor_assoc. f_equal. apply Z.lxor_comm.
Qed.

Lemma hom_lxor f g : hom f -> hom g -> hom (fun x => Z.lxor (f x) (g x)).
Proof. intros Hf Hg x y. rewrite Hf, Hg. apply lxor_swap. Qed.

Lemma hom_shiftl k : hom (fun x => Z.shiftl x k).
Proof. intros x y. apply Z.shiftl_lxor. Qed.
Lemma hom_shiftr k : hom (fun x => Z.shiftr x k).
Proof. intros x y. apply Z.shiftr_lxor. Qed.
Lemma hom_land m : hom (fun x => Z.land x m).
Proof.
  intros x y. apply Z.bits_inj'. intros i Hi.
  rewrite Z.land_spec, !Z.lxor_spec, !Z.land_spec.
  destruct (Z.testbit x i), (Z.testbit y i), (Z.testbit m i); reflexivity.
Qed.
Lemma hom_mod_pow2 n : 0 <= n -> hom (fun x => x mod 2 ^ n).
Proof.
  intros Hn x y. rewrite <- !Z.land_ones by assumption. apply hom_land.
Qed.

Lemma hom_basis f g : hom f -> hom g ->
  forall (n : nat) k, 0 <= k ->
  (forall i, 0 <= i < Z.of_nat n -> f (2 ^ (i + k)) = g (2 ^ (i + k))) ->
  forall x, 0 <= x < 2 ^ Z.of_nat n -> f (x * 2 ^ k) = g (x * 2 ^ k).
Proof.
  intros Hf Hg n. induction n as [|n IH]; intros k Hk Hb x Hx.
  - assert (x = 0) by (simpl in Hx; lia). subst. simpl.
    rewrite (hom_0 f Hf), (hom_0 g Hg). reflexivity.
  - set (x' := Z.div2 x). set (b := Z.odd x).
    assert (Ex : x = 2 * x' + Z.b2z b) by apply Z.div2_odd.
    assert (Hb01 : 0 <= Z.b2z b <= 1) by (destruct b; simpl; lia).
    assert (Hx' : 0 <= x' < 2 ^ Z.of_nat n).
    { rewrite Nat2Z.inj_succ, Z.pow_succ_r in Hx by lia. lia. }
    assert (Esplit : x * 2 ^ k = Z.lxor (x' * 2 ^ (Z.succ k)) (Z.b2z b * 2 ^ k)).
    { rewrite <- Z.add_nocarry_lxor.
      - rewrite Ex at 1. rewrite Z.pow_succ_r by lia. ring.
      - apply Z.bits_inj'. intros i Hi. rewrite Z.land_spec, Z.bits_0.
        rewrite <- !Z.shiftl_mul_pow2 by lia.
        destruct (Z.ltb_spec i (Z.succ k)) as [Hlt|Hge].
        + rewrite (Z.shiftl_spec_low x') by assumption. reflexivity.
        + rewrite (Z.shiftl_spec_high (Z.b2z b)) by lia.
          assert (Hb0 : Z.testbit (Z.b2z b) (i - k) = false).
          { destruct b; cbn [Z.b2z]; [|apply Z.bits_0].
            apply Z.bits_above_log2; [lia|]. cbn. lia. }
          rewrite Hb0. apply andb_false_r. }
    rewrite Esplit, Hf, Hg. f_equal.
    + apply IH; [lia| |assumption]. intros i Hi.
      replace (i + Z.succ k) with (Z.succ i + k) by lia. apply Hb. lia.
    + destruct b; cbn [Z.b2z].
      * replace (1 * 2 ^ k) with (2 ^ (0 + k)) by (rewrite Z.add_0_l; lia). apply Hb. lia.
      * rewrite Z.mul_0_l, (hom_0 f Hf), (hom_0 g Hg). reflexivity.
Qed.
