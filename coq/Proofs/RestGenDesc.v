(* descriptor.go leftovers as regenerated (Gen/RestGen.v): calcDescriptorUserDefinedLength and
   calcDescriptorExtensionLength against calc_user_defined_length / calc_extension_length of Model/Desc.v (the two
   length functions calc_descriptor_length still took from the hand model).
   A slice compared with nil has a companion boolean in the regenerated function (a list does not tell nil from
   empty): Go guarantees that a nil slice has length 0, which is the hypothesis of the first lemma. *)
From Coq Require Import ZArith List Bool.
Require Import Gen.Consts Gen.Types Gen.Preds Gen.RestGen Model.Desc.
Import ListNotations.
Open Scope Z_scope.

Lemma user_defined_length_is_generated (d : list Z) (d_nil : bool) :
  (d_nil = true -> d = []) -> calcDescriptorUserDefinedLength d d_nil = calc_user_defined_length d.
Proof.
  intro H. unfold calcDescriptorUserDefinedLength, calc_user_defined_length, blen.
  destruct d_nil; [rewrite (H eq_refl)|]; reflexivity.
Qed.

Lemma extension_length_is_generated (d : option DescriptorExtension) :
  calcDescriptorExtensionLength d = calc_extension_length d.
Proof.
  unfold calcDescriptorExtensionLength, calc_extension_length, blen.
  destruct d as [e|]; [|reflexivity].
  destruct (DescriptorExtension_Tag e =? C_DescriptorTagExtensionSupplementaryAudio); [reflexivity|].
  destruct (DescriptorExtension_Unknown e); reflexivity.
Qed.

Example extension_length_example :
  calcDescriptorExtensionLength (Some {| DescriptorExtension_SupplementaryAudio := None; DescriptorExtension_Tag := 1;
                                         DescriptorExtension_Unknown := Some [1; 2; 3] |}) = 4 /\
  calcDescriptorUserDefinedLength [1; 2] false = 2 /\ calcDescriptorUserDefinedLength [] true = 0.
Proof. vm_compute. repeat split. Qed.
