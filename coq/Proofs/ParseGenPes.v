(* data_pes.go: the hand-written parsers of Model/Pes.v (and parse_escr of Model/Clock.v) are equal, as computations in
   the iterator monad, to the definitions translated from the CURRENT source into Gen/ParseGen.v, on every iterator
   whose bytes are in 0..255.  See Proofs/ParseGenEq.v for the packet side and the method. *)
From Coq Require Import ZArith List Lia Bool ZifyBool.
Require Import Base.Bits Base.Iter Gen.Consts Gen.Types Gen.Preds Gen.ParseGen.
Require Import Model.Clock Model.Pes Proofs.ParseGenBits Proofs.ParseGenSim Proofs.ParseGenEq.
Import ListNotations.
Open Scope Z_scope.

(* ---------------- ESCR ---------------- *)

Lemma parse_escr_sim : sim eq parse_escr parseESCR.
Proof.
  unfold parse_escr, parseESCR. cbv zeta. apply sim_bytes_fun. intros bs Hok Hlen.
  explode_bytes bs Hlen Hok. nth_lit. pose proof Hok as Hok'. bytes_inv Hok'.
  unfold mk_cr, newClockReference, sint. change (64 - 1) with 63. f_equal; bridge.
Qed.

(* ---------------- DSM trick mode (a pure function of one byte: complete sweep) ---------------- *)

Definition dsm_eqb (x y : DSMTrickMode) : bool :=
  (DSMTrickMode_FieldID x =? DSMTrickMode_FieldID y) && (DSMTrickMode_FrequencyTruncation x =? DSMTrickMode_FrequencyTruncation y)
  && (DSMTrickMode_IntraSliceRefresh x =? DSMTrickMode_IntraSliceRefresh y) && (DSMTrickMode_RepeatControl x =? DSMTrickMode_RepeatControl y)
  && (DSMTrickMode_TrickModeControl x =? DSMTrickMode_TrickModeControl y).

Lemma dsm_eqb_eq x y : dsm_eqb x y = true -> x = y.
Proof.
  destruct x, y. unfold dsm_eqb. cbn. intros H.
  repeat (apply andb_true_iff in H; destruct H as [H ?]).
  repeat match goal with E : (_ =? _) = true |- _ => apply Z.eqb_eq in E end. subst. reflexivity.
Qed.

Lemma parse_dsm_trick_mode_gen : forall b, byte_ok b -> parse_dsm_trick_mode b = parseDSMTrickMode b.
Proof.
  intros b Hb. apply dsm_eqb_eq. revert b Hb.
  apply (byte_sweep (fun b => dsm_eqb (parse_dsm_trick_mode b) (parseDSMTrickMode b))).
  vm_compute. reflexivity.
Qed.

(* ---------------- PES optional header ---------------- *)

(* what the PES extension part of the hand model contributes, as the generated code stores it *)
Definition apply_ext (e : PesExt) (h : PESOptionalHeader) : PESOptionalHeader :=
  set_PESOptionalHeader_Extension2Data (pe_e2data e) (set_PESOptionalHeader_Extension2Length (pe_e2len e)
  (set_PESOptionalHeader_PSTDBufferSize (pe_size e) (set_PESOptionalHeader_PSTDBufferScale (pe_scale e)
  (set_PESOptionalHeader_OriginalStuffingLength (pe_osl e) (set_PESOptionalHeader_MPEG1OrMPEG2ID (pe_mpeg e)
  (set_PESOptionalHeader_PacketSequenceCounter (pe_psc e) (set_PESOptionalHeader_PackField (pe_pack e)
  (set_PESOptionalHeader_PrivateData (pe_pd e) (set_PESOptionalHeader_HasExtension2 (pe_hasExt2 e)
  (set_PESOptionalHeader_HasPSTDBuffer (pe_hasPSTD e) (set_PESOptionalHeader_HasProgramPacketSequenceCounter (pe_hasPSC e)
  (set_PESOptionalHeader_HasPackHeaderField (pe_hasPack e) (set_PESOptionalHeader_HasPrivateData (pe_hasPD e) h))))))))))))).

Ltac poh_norm := cbn beta iota zeta delta [fst snd odflt zero_PESOptionalHeader apply_ext zero_PesExt
  pe_hasPD pe_hasPack pe_hasPSC pe_hasPSTD pe_hasExt2 pe_pd pe_pack pe_psc pe_mpeg pe_osl pe_scale pe_size pe_e2len pe_e2data
  set_PESOptionalHeader_AdditionalCopyInfo set_PESOptionalHeader_CRC set_PESOptionalHeader_DSMTrickMode set_PESOptionalHeader_DTS set_PESOptionalHeader_DataAlignmentIndicator set_PESOptionalHeader_ESCR set_PESOptionalHeader_ESRate set_PESOptionalHeader_Extension2Data set_PESOptionalHeader_Extension2Length set_PESOptionalHeader_HasAdditionalCopyInfo set_PESOptionalHeader_HasCRC set_PESOptionalHeader_HasDSMTrickMode set_PESOptionalHeader_HasESCR set_PESOptionalHeader_HasESRate set_PESOptionalHeader_HasExtension set_PESOptionalHeader_HasExtension2 set_PESOptionalHeader_HasPSTDBuffer set_PESOptionalHeader_HasPackHeaderField set_PESOptionalHeader_HasPrivateData set_PESOptionalHeader_HasProgramPacketSequenceCounter set_PESOptionalHeader_HeaderLength set_PESOptionalHeader_IsCopyrighted set_PESOptionalHeader_IsOriginal set_PESOptionalHeader_MPEG1OrMPEG2ID set_PESOptionalHeader_MarkerBits set_PESOptionalHeader_OriginalStuffingLength set_PESOptionalHeader_PSTDBufferScale set_PESOptionalHeader_PSTDBufferSize set_PESOptionalHeader_PTS set_PESOptionalHeader_PTSDTSIndicator set_PESOptionalHeader_PackField set_PESOptionalHeader_PacketSequenceCounter set_PESOptionalHeader_Priority set_PESOptionalHeader_PrivateData set_PESOptionalHeader_ScramblingControl 
    PESOptionalHeader_AdditionalCopyInfo   PESOptionalHeader_CRC   PESOptionalHeader_DSMTrickMode   PESOptionalHeader_DTS   PESOptionalHeader_DataAlignmentIndicator   PESOptionalHeader_ESCR   PESOptionalHeader_ESRate   PESOptionalHeader_Extension2Data   PESOptionalHeader_Extension2Length   PESOptionalHeader_HasAdditionalCopyInfo   PESOptionalHeader_HasCRC   PESOptionalHeader_HasDSMTrickMode   PESOptionalHeader_HasESCR   PESOptionalHeader_HasESRate   PESOptionalHeader_HasExtension   PESOptionalHeader_HasExtension2   PESOptionalHeader_HasOptionalFields   PESOptionalHeader_HasPSTDBuffer   PESOptionalHeader_HasPackHeaderField   PESOptionalHeader_HasPrivateData   PESOptionalHeader_HasProgramPacketSequenceCounter   PESOptionalHeader_HeaderLength   PESOptionalHeader_IsCopyrighted   PESOptionalHeader_IsOriginal   PESOptionalHeader_MPEG1OrMPEG2ID   PESOptionalHeader_MarkerBits   PESOptionalHeader_OriginalStuffingLength   PESOptionalHeader_PSTDBufferScale   PESOptionalHeader_PSTDBufferSize   PESOptionalHeader_PTS   PESOptionalHeader_PTSDTSIndicator   PESOptionalHeader_PackField   PESOptionalHeader_PacketSequenceCounter   PESOptionalHeader_Priority   PESOptionalHeader_PrivateData   PESOptionalHeader_ScramblingControl ].
Ltac poh_cbv := cbv beta iota zeta delta [fst snd odflt zero_PESOptionalHeader apply_ext zero_PesExt
  pe_hasPD pe_hasPack pe_hasPSC pe_hasPSTD pe_hasExt2 pe_pd pe_pack pe_psc pe_mpeg pe_osl pe_scale pe_size pe_e2len pe_e2data
  set_PESOptionalHeader_AdditionalCopyInfo set_PESOptionalHeader_CRC set_PESOptionalHeader_DSMTrickMode set_PESOptionalHeader_DTS set_PESOptionalHeader_DataAlignmentIndicator set_PESOptionalHeader_ESCR set_PESOptionalHeader_ESRate set_PESOptionalHeader_Extension2Data set_PESOptionalHeader_Extension2Length set_PESOptionalHeader_HasAdditionalCopyInfo set_PESOptionalHeader_HasCRC set_PESOptionalHeader_HasDSMTrickMode set_PESOptionalHeader_HasESCR set_PESOptionalHeader_HasESRate set_PESOptionalHeader_HasExtension set_PESOptionalHeader_HasExtension2 set_PESOptionalHeader_HasPSTDBuffer set_PESOptionalHeader_HasPackHeaderField set_PESOptionalHeader_HasPrivateData set_PESOptionalHeader_HasProgramPacketSequenceCounter set_PESOptionalHeader_HeaderLength set_PESOptionalHeader_IsCopyrighted set_PESOptionalHeader_IsOriginal set_PESOptionalHeader_MPEG1OrMPEG2ID set_PESOptionalHeader_MarkerBits set_PESOptionalHeader_OriginalStuffingLength set_PESOptionalHeader_PSTDBufferScale set_PESOptionalHeader_PSTDBufferSize set_PESOptionalHeader_PTS set_PESOptionalHeader_PTSDTSIndicator set_PESOptionalHeader_PackField set_PESOptionalHeader_PacketSequenceCounter set_PESOptionalHeader_Priority set_PESOptionalHeader_PrivateData set_PESOptionalHeader_ScramblingControl 
    PESOptionalHeader_AdditionalCopyInfo   PESOptionalHeader_CRC   PESOptionalHeader_DSMTrickMode   PESOptionalHeader_DTS   PESOptionalHeader_DataAlignmentIndicator   PESOptionalHeader_ESCR   PESOptionalHeader_ESRate   PESOptionalHeader_Extension2Data   PESOptionalHeader_Extension2Length   PESOptionalHeader_HasAdditionalCopyInfo   PESOptionalHeader_HasCRC   PESOptionalHeader_HasDSMTrickMode   PESOptionalHeader_HasESCR   PESOptionalHeader_HasESRate   PESOptionalHeader_HasExtension   PESOptionalHeader_HasExtension2   PESOptionalHeader_HasOptionalFields   PESOptionalHeader_HasPSTDBuffer   PESOptionalHeader_HasPackHeaderField   PESOptionalHeader_HasPrivateData   PESOptionalHeader_HasProgramPacketSequenceCounter   PESOptionalHeader_HeaderLength   PESOptionalHeader_IsCopyrighted   PESOptionalHeader_IsOriginal   PESOptionalHeader_MPEG1OrMPEG2ID   PESOptionalHeader_MarkerBits   PESOptionalHeader_OriginalStuffingLength   PESOptionalHeader_PSTDBufferScale   PESOptionalHeader_PSTDBufferSize   PESOptionalHeader_PTS   PESOptionalHeader_PTSDTSIndicator   PESOptionalHeader_PackField   PESOptionalHeader_PacketSequenceCounter   PESOptionalHeader_Priority   PESOptionalHeader_PrivateData   PESOptionalHeader_ScramblingControl ].

(* a block that stores into the record A what the hand model returns *)
Ltac blk_set S :=
  try apply sim_assoc_r;
  lazymatch goal with |- sim _ _ (ibind (if _ then _ else iret ?A) _) => eapply (sim_bind (fun x a' => a' = S x A)) end.

Lemma parse_pes_optional_header_sim : sim eq parse_pes_optional_header parsePESOptionalHeader.
Proof.
  unfold parse_pes_optional_header, parsePESOptionalHeader. poh_norm.
  eapply sim_bind; [apply sim_next_byte|]. intros b0 ? (<- & Hb0). cbv beta.
  eapply sim_bind; [apply sim_next_byte|]. intros b1 ? (<- & Hb1). cbv beta.
  eapply sim_bind; [apply sim_next_byte|]. intros b2 ? (<- & Hb2). cbv beta.
  eapply sim_bind; [apply sim_ioffset|]. intros off ? <-. cbv beta.
  flags b0 Hb0. flags b1 Hb1.
  rewrite ?(byte_shr6 b0 Hb0), ?(byte_shr4_and3 b0 Hb0), ?(byte_shr6_and3 b1 Hb1).
  (* PTS / DTS *)
  lazymatch goal with |- sim _ _ (ibind (if _ then _ else ibind (if _ then _ else iret ?A) _) _) =>
    eapply (sim_bind (fun (p : option ClockReference * option ClockReference) a' =>
             a' = set_PESOptionalHeader_DTS (snd p) (set_PESOptionalHeader_PTS (fst p) A))) end.
  { unfold parse_ptsdts. apply sim_if.
    - eapply sim_bind; [apply parse_pts_or_dts_sim|]. intros p ? <-. apply sim_ret. poh_cbv. reflexivity.
    - apply sim_bind_ret_r. apply sim_if.
      + eapply sim_bind; [apply parse_pts_or_dts_sim|]. intros p ? <-. cbv beta.
        eapply sim_bind; [apply parse_pts_or_dts_sim|]. intros d ? <-. apply sim_ret. poh_cbv. reflexivity.
      + apply sim_ret. poh_cbv. reflexivity. }
  cbv beta. intros [pts dts] h ->. poh_norm.
  (* ESCR *)
  blk_set set_PESOptionalHeader_ESCR.
  { unfold parse_escr_opt. apply sim_if.
    - eapply sim_bind; [apply parse_escr_sim|]. intros e ? <-. apply sim_ret. reflexivity.
    - apply sim_ret. poh_cbv. reflexivity. }
  cbv beta. intros escr h ->. poh_norm.
  (* ES rate *)
  blk_set set_PESOptionalHeader_ESRate.
  { unfold parse_es_rate. apply sim_if.
    - eapply sim_bind; [apply sim_next_bytes_nocopy|]. intros x ? (<- & Hok & Hlen). apply sim_ret.
      explode_bytes x Hlen Hok. nth_lit. pose proof Hok as Hok'. bytes_inv Hok'. f_equal. bridge.
    - apply sim_ret. poh_cbv. reflexivity. }
  cbv beta. intros esrate h ->. poh_norm.
  (* trick mode *)
  blk_set set_PESOptionalHeader_DSMTrickMode.
  { unfold parse_dsm_opt. apply sim_if.
    - eapply sim_bind; [apply sim_next_byte|]. intros x ? (<- & Hx). apply sim_ret.
      rewrite (parse_dsm_trick_mode_gen x Hx). reflexivity.
    - apply sim_ret. poh_cbv. reflexivity. }
  cbv beta. intros dsm h ->. poh_norm.
  (* additional copy info *)
  blk_set set_PESOptionalHeader_AdditionalCopyInfo.
  { unfold parse_aci. apply sim_if.
    - eapply sim_bind; [apply sim_next_byte|]. intros x ? (<- & Hx). apply sim_ret.
      rewrite (byte_and127 x Hx). reflexivity.
    - apply sim_ret. poh_cbv. reflexivity. }
  cbv beta. intros aci h ->. poh_norm.
  (* CRC *)
  blk_set set_PESOptionalHeader_CRC.
  { unfold parse_crc. apply sim_if.
    - eapply sim_bind; [apply sim_next_bytes_nocopy|]. intros x ? (<- & Hok & Hlen). apply sim_ret.
      explode_bytes x Hlen Hok. nth_lit. pose proof Hok as Hok'. bytes_inv Hok'. f_equal. bridge.
    - apply sim_ret. poh_cbv. reflexivity. }
  cbv beta. intros crc h ->. poh_norm.
  (* extension *)
  lazymatch goal with |- sim _ _ (ibind (if _ then _ else iret ?A) _) =>
    eapply (sim_bind (fun e a' => a' = apply_ext e A)) end.
  { unfold parse_pes_extension. apply sim_if; [|apply sim_ret; poh_cbv; reflexivity].
    eapply sim_bind; [apply sim_next_byte|]. intros fl ? (<- & Hfl). cbv beta zeta. flags fl Hfl.
    (* private data *)
    blk_set set_PESOptionalHeader_PrivateData.
    { unfold parse_private_data. apply sim_if.
      - eapply sim_map_r; [apply sim_next_bytes|]. intros x ? (<- & _ & _). reflexivity.
      - apply sim_ret. poh_cbv. reflexivity. }
    cbv beta. intros pd h ->. poh_norm.
    (* pack header *)
    blk_set set_PESOptionalHeader_PackField.
    { unfold parse_pack_field. apply sim_if.
      - eapply sim_bind; [apply sim_next_byte|]. intros x ? (<- & Hx). cbv beta.
        eapply sim_bind; [apply sim_iskip|]. intros _ _ _. apply sim_ret. reflexivity.
      - apply sim_ret. poh_cbv. reflexivity. }
    cbv beta. intros pack h ->. poh_norm.
    (* program packet sequence counter *)
    blk_set (fun (t : Z * Z * Z) h => set_PESOptionalHeader_OriginalStuffingLength (snd t)
               (set_PESOptionalHeader_MPEG1OrMPEG2ID (snd (fst t)) (set_PESOptionalHeader_PacketSequenceCounter (fst (fst t)) h))).
    { unfold parse_psc. apply sim_if.
      - eapply sim_bind; [apply sim_next_bytes_nocopy|]. intros x ? (<- & Hok & Hlen). apply sim_ret.
        explode_bytes x Hlen Hok. nth_lit. pose proof Hok as Hok'. bytes_inv Hok'. cbn [fst snd]. repeat f_equal; bridge.
      - apply sim_ret. poh_cbv. reflexivity. }
    cbv beta. intros [[psc mpeg] osl] h ->. poh_norm.
    (* P-STD buffer *)
    blk_set (fun (t : Z * Z) h => set_PESOptionalHeader_PSTDBufferSize (snd t) (set_PESOptionalHeader_PSTDBufferScale (fst t) h)).
    { unfold parse_pstd. apply sim_if.
      - eapply sim_bind; [apply sim_next_bytes_nocopy|]. intros x ? (<- & Hok & Hlen). apply sim_ret.
        explode_bytes x Hlen Hok. nth_lit. pose proof Hok as Hok'. bytes_inv Hok'. cbn [fst snd]. repeat f_equal; bridge.
      - apply sim_ret. poh_cbv. reflexivity. }
    cbv beta. intros [scale size] h ->. poh_norm.
    (* extension 2 *)
    blk_set (fun (t : Z * list Z) h => set_PESOptionalHeader_Extension2Data (snd t) (set_PESOptionalHeader_Extension2Length (fst t) h)).
    { unfold parse_ext2. apply sim_if.
      - eapply sim_bind; [apply sim_next_byte|]. intros x ? (<- & Hx). cbv beta zeta. rewrite (byte_and127 x Hx).
        eapply sim_bind; [apply sim_next_bytes|]. intros d ? (<- & _ & _). apply sim_ret. reflexivity.
      - apply sim_ret. poh_cbv. reflexivity. }
    cbv beta. intros [e2len e2data] h ->. poh_norm.
    apply sim_ret. poh_cbv. reflexivity. }
  cbv beta. intros e h ->.
  apply sim_ret. poh_cbv. reflexivity.
Qed.

(* ---------------- PES header ---------------- *)

Ltac pes_norm := cbn beta iota zeta delta [fst snd odflt zero_PESHeader zero_PESData
  set_PESData_Data set_PESData_Header set_PESHeader_OptionalHeader set_PESHeader_PacketLength set_PESHeader_StreamID
  PESHeader_OptionalHeader PESHeader_PacketLength PESHeader_StreamID PESData_Data PESData_Header].
Ltac pes_cbv := cbv beta iota zeta delta [fst snd odflt zero_PESHeader zero_PESData
  set_PESData_Data set_PESData_Header set_PESHeader_OptionalHeader set_PESHeader_PacketLength set_PESHeader_StreamID
  PESHeader_OptionalHeader PESHeader_PacketLength PESHeader_StreamID PESData_Data PESData_Header].

(* Go reads the offset or the length, the model reads both: neither moves the iterator *)
Lemma sim_offset_or_length {B1 B2} (R : B1 -> B2 -> Prop) (c : bool) (p : Z) (K1 : Z -> Z -> IM B1) (K2 : Z -> IM B2) :
  (forall off len, sim R (K1 off len) (K2 (if c then off + p else len))) ->
  sim R (ibind ioffset (fun off => ibind ilength (fun len => K1 off len)))
        (ibind (if c then ibind ioffset (fun o => iret (o + p)) else ibind ilength (fun l => iret l)) K2).
Proof.
  intros H i Hi. unfold ibind, ioffset, ilength, iret. destruct c; apply H; exact Hi.
Qed.

Lemma parse_pes_header_sim : sim eq parse_pes_header parsePESHeader.
Proof.
  unfold parse_pes_header, parsePESHeader. pes_norm.
  eapply sim_bind; [apply sim_next_byte|]. intros sid ? (<- & Hsid). cbv beta.
  eapply sim_bind; [apply sim_next_bytes_nocopy|]. intros x ? (<- & Hok & Hlen). cbv beta zeta.
  explode_bytes x Hlen Hok. nth_lit. pose proof Hok as Hok'. bytes_inv Hok'.
  replace (Z.lor (Z.shiftl b 8 mod 65536) b0) with (bitsf [b; b0] 0 16) by bridge.
  pes_norm.
  apply sim_offset_or_length. intros off len. cbv beta.
  apply sim_if_push_r. apply sim_if.
  - apply sim_assoc_r. eapply sim_bind; [apply parse_pes_optional_header_sim|]. intros [oh ds] ? <-. cbn beta iota.
    apply sim_ret_bind_r. apply sim_ret. pes_cbv. reflexivity.
  - apply sim_assoc_r. eapply sim_bind; [apply sim_ioffset|]. intros ds ? <-. cbv beta.
    apply sim_ret_bind_r. apply sim_ret. pes_cbv. reflexivity.
Qed.

Lemma parse_pes_data_sim : sim eq parse_pes_data parsePESData.
Proof.
  unfold parse_pes_data, parsePESData. pes_norm.
  eapply sim_bind; [apply sim_iseek|]. intros _ _ _.
  eapply sim_bind; [apply parse_pes_header_sim|]. intros [[h ds] de] ? <-. cbn beta iota zeta.
  apply sim_if; [apply sim_err|].
  eapply sim_bind; [apply sim_iseek|]. intros _ _ _.
  eapply sim_bind; [apply sim_next_bytes|]. intros d ? (<- & _ & _).
  apply sim_ret. pes_cbv. reflexivity.
Qed.


(* ---------------- pointwise statements ---------------- *)

Lemma parse_escr_gen : same_on_bytes parse_escr parseESCR.
Proof. exact (sim_point _ _ parse_escr_sim). Qed.
Lemma parse_pes_optional_header_gen : same_on_bytes parse_pes_optional_header parsePESOptionalHeader.
Proof. exact (sim_point _ _ parse_pes_optional_header_sim). Qed.
Lemma parse_pes_header_gen : same_on_bytes parse_pes_header parsePESHeader.
Proof. exact (sim_point _ _ parse_pes_header_sim). Qed.
Lemma parse_pes_data_gen : same_on_bytes parse_pes_data parsePESData.
Proof. exact (sim_point _ _ parse_pes_data_sim). Qed.

(* what Props/C12.v quotes *)
Lemma pes_parsers_are_source :
  same_on_bytes parse_pts_or_dts parsePTSOrDTS /\
  same_on_bytes parse_escr parseESCR /\
  (forall b, byte_ok b -> parse_dsm_trick_mode b = parseDSMTrickMode b) /\
  same_on_bytes parse_pes_optional_header parsePESOptionalHeader /\
  same_on_bytes parse_pes_header parsePESHeader /\
  same_on_bytes parse_pes_data parsePESData /\
  (forall bs, bytes_ok bs -> parse_pes_data_bytes bs = run_iter parsePESData bs).
Proof.
  repeat split.
  - exact parse_pts_or_dts_gen.
  - exact parse_escr_gen.
  - exact parse_dsm_trick_mode_gen.
  - exact parse_pes_optional_header_gen.
  - exact parse_pes_header_gen.
  - exact parse_pes_data_gen.
  - intros bs Hb. unfold parse_pes_data_bytes. apply run_iter_same; [exact parse_pes_data_gen|exact Hb].
Qed.
