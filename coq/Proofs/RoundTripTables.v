(* C01, tables: the PAT / PMT packets the Muxer emits, as the demuxer handles them: the accumulator finds the unit
   complete in its single packet and flushes it at once; parseData decodes the payload (pointer_field 0, the section,
   0xFF fill) to exactly one table.  Built on C13 (write = reference encoding, parse of the reference encoding,
   several sections / stop byte) and C17 (what the payloads are). *)
From Coq Require Import ZArith List Lia Bool ZifyBool.
Require Import Base.Bits Base.Iter Base.Wr Gen.Consts Gen.Types Gen.Preds Model.Packet Model.Desc Model.Dvb Model.Psi
  Model.Pool Model.PoolRun Model.Reader Model.Demux Model.DemuxFull Model.Muxer.
Require Import Spec.CrcSpec Spec.PsiSpec Spec.MuxSpec Spec.PacketSpec
  Proofs.CrcProofs Proofs.PsiProofs Proofs.PsiParse Proofs.PsiParsePmt Proofs.PsiWritePmt Proofs.PsiDescLink
  Proofs.PsiSiLink Proofs.PsiUserDesc Proofs.PoolProofs Proofs.MuxerProofs
  Proofs.RoundTripPkt Proofs.RoundTripDemux Proofs.RoundTripUnit.
Import ListNotations.
Open Scope Z_scope.

(* ---------------- isPSIComplete on one section followed by fill ---------------- *)

(* the 12-bit section_length as isPSIComplete reads it (mask) and as the section parser reads it (bit field) *)
Lemma land_be16_field : forall b1 b2, byte_ok b1 -> byte_ok b2 -> Z.land (be16 [b1; b2]) 4095 = bitsf [b1; b2] 4 12.
Proof.
  assert (H : forallb (fun b1 => forallb (fun b2 => Z.land (be16 [b1; b2]) 4095 =? bitsf [b1; b2] 4 12)
                                          (map Z.of_nat (seq 0 256))) (map Z.of_nat (seq 0 256)) = true) by (vm_compute; reflexivity).
  intros b1 b2 H1 H2. rewrite forallb_forall in H.
  assert (Hin : forall b, byte_ok b -> In b (map Z.of_nat (seq 0 256))).
  { intros b Hb. unfold byte_ok in Hb. apply in_map_iff. exists (Z.to_nat b). split; [lia|]. apply in_seq. lia. }
  specialize (H b1 (Hin b1 H1)). rewrite forallb_forall in H. specialize (H b2 (Hin b2 H2)). apply Z.eqb_eq, H.
Qed.

Lemma at_nil_end i : at_ i [] -> ilen i <= ioff i.
Proof.
  intros [H0 H]. unfold ilen. pose proof (skipn_length (Z.to_nat (ioff i)) (ibs i)) as L. rewrite H in L. cbn [length] in L. lia.
Qed.

Lemma at_cons_lt i b r : at_ i (b :: r) -> ioff i < ilen i.
Proof. intros H. pose proof (at_bound i [b] r H ltac:(cbn; lia)). cbn [length] in *. lia. Qed.

Lemma psi_complete_section tid ssi pb body k :
  0 <= tid < 256 -> shouldStopPSIParsing tid = false -> Z.of_nat (length body) + 4 < 4096 ->
  is_psi_complete_bytes (0 :: spec_section tid ssi pb body ++ repeat 255 k) = Ok true.
Proof.
  intros Ht Hstop HL. set (L := Z.of_nat (length body) + 4) in *.
  assert (Hsec : exists crc, length crc = 4%nat /\ spec_section tid ssi pb body =
                 tid :: bytes_of_bits (hdr_tail_bits ssi pb L) ++ (body ++ crc)).
  { exists (CrcSpec.be32 (crc32_mpeg2 (spec_section_prefix tid ssi pb body))). split; [reflexivity|].
    unfold spec_section. cbv zeta. generalize (CrcSpec.be32 (crc32_mpeg2 (spec_section_prefix tid ssi pb body))). intros crc.
    unfold spec_section_prefix. fold L. rewrite PsiParse.header_bytes by exact Ht. cbn [app]. rewrite <- !app_assoc. reflexivity. }
  destruct Hsec as (crc & Hcrc & Hsec).
  set (tl := bytes_of_bits (hdr_tail_bits ssi pb L)) in *.
  assert (Htl : length tl = 2%nat) by apply hdr_tail_length.
  assert (Hrest : Z.of_nat (length (body ++ crc)) = L).
  { rewrite app_length, Hcrc. unfold L. lia. }
  set (B := 0 :: spec_section tid ssi pb body ++ repeat 255 k).
  unfold is_psi_complete_bytes. fold B.
  assert (Hat0 : at_ (new_iter B) (0 :: spec_section tid ssi pb body ++ repeat 255 k)) by (split; [cbn; lia|reflexivity]).
  rewrite (read_byte _ _ _ Hat0). cbn [ibs ioff new_iter].
  pose proof (at_move1 _ _ _ Hat0) as Hat1. cbn [ibs ioff new_iter] in Hat1. rewrite Hsec in Hat1. cbn [app] in Hat1.
  change (0 + 1 + 0) with 1.
  (* first round of the walk: the section header *)
  cbn [psi_walk ioff ibs]. change (0 + 1) with 1 in Hat1.
  pose proof (at_cons_lt _ _ _ Hat1) as Hlt1. cbn [ioff] in Hlt1.
  destruct (1 <? ilen (mk_iter B 1)) eqn:E1; [|lia]. cbn [negb].
  rewrite (read_byte _ _ _ Hat1), Hstop. cbn [ibs ioff].
  pose proof (at_move1 _ _ _ Hat1) as Hat2. cbn [ibs ioff] in Hat2. rewrite <- app_assoc in Hat2.
  unfold next_bytes_nocopy. rewrite (read_bytes _ tl _ 2 Hat2) by (rewrite ?Htl; lia). cbn [ibs ioff].
  assert (Hland : Z.land (be16 tl) 4095 = L).
  { destruct tl as [|b1 [|b2 [|? ?]]] eqn:Etl; try discriminate Htl.
    assert (Hok : bytes_ok [b1; b2]) by (rewrite <- Etl; apply bytes_of_bits_ok).
    inversion Hok as [|? ? Hb1 Hok']; subst. inversion Hok' as [|? ? Hb2 _]; subst.
    rewrite (land_be16_field b1 b2 Hb1 Hb2), <- Etl. apply (hdr_tail_fields ssi pb L). unfold L. lia. }
  rewrite Hland.
  pose proof (at_shift B (1 + 1) tl _ Hat2) as Hat3. rewrite Htl in Hat3.
  pose proof (at_shift B (1 + 1 + Z.of_nat 2) (body ++ crc) _ Hat3) as Hat4. rewrite Hrest in Hat4.
  change (1 + 1 + Z.of_nat 2) with 4 in *. change (1 + 1 + 2) with 4.
  (* second round: end of data or a fill byte *)
  destruct (length B) as [|n] eqn:EB; [discriminate EB|]. cbn [psi_walk ioff ibs].
  destruct k as [|k'].
  - cbn [repeat] in Hat4. pose proof (at_nil_end _ Hat4) as Hend. cbn [ioff] in Hend.
    destruct (4 + L <? ilen (mk_iter B (4 + L))) eqn:E2; [lia|]. cbn [negb ioff].
    destruct (4 + L <=? ilen (mk_iter B (4 + L))) eqn:E3; [reflexivity|].
    exfalso. destruct Hat4 as [_ Hsk]. cbn [ibs ioff] in Hsk.
    assert (Hlen : Z.of_nat (length B) = 4 + L).
    { unfold B. rewrite Hsec. cbn [length app]. rewrite !app_length, Htl. cbn [repeat length]. lia. }
    unfold ilen in E3. cbn [ibs] in E3. lia.
  - cbn [repeat] in Hat4. pose proof (at_cons_lt _ _ _ Hat4) as Hlt4. cbn [ioff] in Hlt4.
    destruct (4 + L <? ilen (mk_iter B (4 + L))) eqn:E2; [|lia]. cbn [negb].
    rewrite (read_byte _ _ _ Hat4). change (shouldStopPSIParsing 255) with true. cbn [ibs ioff].
    pose proof (at_bound _ [255] _ Hat4 ltac:(cbn; lia)) as Hb. cbn [length ioff] in Hb.
    destruct (4 + L + 1 <=? ilen (mk_iter B (4 + L + 1))) eqn:E3; [reflexivity|].
    unfold ilen in *. cbn [ibs] in *. lia.
Qed.

(* ---------------- a unit of one section, filled up with 0xFF ---------------- *)

Lemma fill_tail k : exists ts, unit_tail (repeat 255 k) ts /\ forall fp pid, flat_map (fun s => section_to_data s fp pid) ts = [].
Proof.
  destruct k as [|k].
  - exists []. split; [constructor|reflexivity].
  - exists [stop_section 255]. split; [cbn [repeat]; constructor; [lia|reflexivity]|reflexivity].
Qed.

Lemma one_section_unit sec sv k fp pid : sec_parses sec sv ->
  res_map (fun d => psi_to_data d fp pid) (parse_psi_data_bytes (0 :: sec ++ repeat 255 k)) = Ok (section_to_data sv fp pid).
Proof.
  intros Hs. destruct (fill_tail k) as (ts & Ht & Hts).
  pose proof (parse_unit 0 [] [sec] [sv] (repeat 255 k) ts ltac:(lia) eq_refl (Forall2_cons _ _ Hs (Forall2_nil _)) Ht) as H.
  cbn [concat app] in H. rewrite app_nil_r in H. rewrite H. cbn [res_map]. f_equal.
  unfold psi_to_data. cbn [PSIData_Sections app flat_map]. rewrite Hts, app_nil_r. reflexivity.
Qed.

(* parseData on the single packet of such a unit, on a PID the demuxer treats as PSI *)
Lemma parse_table_group pm p sec sv k :
  Packet_Payload p = 0 :: sec ++ repeat 255 k -> sec_parses sec sv ->
  (pid_of p =? C_PIDCAT) = false -> isPSIPayload (pid_of p) (pm_mem pm) = true ->
  parse_data full_parsers None pm [p] = Ok (section_to_data sv (first_packet_of p) (pid_of p)).
Proof.
  intros Hpl Hs Hcat Hpsi. unfold parse_data. rewrite Hcat, Hpsi. cbn [full_parsers dp_psi].
  unfold concat_payload. cbn [flat_map]. rewrite app_nil_r, Hpl. apply (one_section_unit sec sv k), Hs.
Qed.

(* the accumulator of a PSI PID with nothing pending: a packet that holds a complete unit is flushed at once *)
Lemma acc_add_complete pm pid p : (Z.eqb pid C_PIDPAT || pm_mem pm pid) = true -> is_psi_complete [p] = true ->
  acc_add pm pid [] p = ([], [p]).
Proof.
  intros Hpsi Hc. pose proof (DemuxProofs.early_flush pm pid [] p Hpsi eq_refl) as H. cbn zeta in H.
  assert (E : (if pusi p then [] else if resets [] p then [] else []) = (@nil Packet)) by (destruct (pusi p), (resets [] p); reflexivity).
  rewrite E in H. apply H, Hc.
Qed.

Lemma is_psi_complete_one p tid ssi pb body k :
  Packet_Payload p = 0 :: spec_section tid ssi pb body ++ repeat 255 k ->
  0 <= tid < 256 -> shouldStopPSIParsing tid = false -> Z.of_nat (length body) + 4 < 4096 ->
  is_psi_complete [p] = true.
Proof.
  intros Hpl Ht Hs HL. unfold is_psi_complete, concat_payload. cbn [flat_map]. rewrite app_nil_r, Hpl.
  rewrite (psi_complete_section tid ssi pb body k Ht Hs HL). reflexivity.
Qed.

(* ---------------- spec sections hold bytes ---------------- *)

Lemma be32_ok v : bytes_ok (CrcSpec.be32 v).
Proof. unfold CrcSpec.be32. repeat constructor; apply Z.mod_pos_bound; lia. Qed.

Lemma spec_section_ok tid ssi pb body : bytes_ok body -> bytes_ok (spec_section tid ssi pb body).
Proof.
  intros Hb. unfold spec_section, spec_section_prefix. cbv zeta.
  repeat (apply Forall_app; split); try assumption; try apply be32_ok. apply bytes_of_bits_ok.
Qed.

Lemma pat_body_ok ext ver cni sn lsn progs : bytes_ok (spec_pat_body ext ver cni sn lsn progs).
Proof.
  unfold spec_pat_body. apply Forall_app. split; [apply bytes_of_bits_ok|].
  induction progs as [|p l IH]; cbn [flat_map]; [constructor|]. apply Forall_app. split; [apply bytes_of_bits_ok|exact IH].
Qed.

(* ---------------- the table packets ---------------- *)

Lemma enc_packet_payload_len q its : enc_packet q 188 = Ok its -> PacketHeader_HasAdaptationField (Packet_Header q) = false ->
  Z.of_nat (length (Packet_Payload q)) <= 184.
Proof.
  unfold enc_packet. intros H Hh. rewrite Hh in H. cbn [res_bind] in H. unfold C_mpegTsPacketHeaderSize in H.
  destruct (188 - 1 - 3 <? Z.of_nat (length (Packet_Payload q))) eqn:E; [discriminate|]. lia.
Qed.

(* a table packet whose payload is pointer_field 0 and one section, as the demuxer sees it *)
Lemma table_packet_seen pid cc sec its : 0 <= pid < 2 ^ 13 -> bytes_ok sec ->
  enc_packet (table_packet pid cc (0 :: sec)) 188 = Ok its ->
  let q := table_packet pid cc (0 :: sec) in
  mux_wf q /\ pid_of (obs_pkt q) = pid /\ tei (obs_pkt q) = false /\ has_payload (obs_pkt q) = true /\
  exists k, Packet_Payload (obs_pkt q) = 0 :: sec ++ repeat 255 k.
Proof.
  intros Hpid Hb He q.
  pose proof (enc_packet_payload_len _ _ He eq_refl) as Hl. cbn [table_packet Packet_Payload] in Hl.
  assert (W : mux_wf q).
  { apply table_packet_wf; [exact Hpid| |exact Hl]. constructor; [unfold Bits.byte_ok; lia|exact Hb]. }
  split; [exact W|]. repeat split; try reflexivity.
  exists (Z.to_nat (pad_len q)). rewrite obs_payload. reflexivity.
Qed.

(* ---------------- PAT ---------------- *)

Definition pat_sec (ver : Z) : list Z :=
  spec_pat_section true false C_PSITableIDPAT ver true 0 0 [(C_programNumberStart, C_pmtStartPID)].

Lemma write_pat_payload v : write_psi_data (psi_of_section (pat_section v)) = Ok (0 :: pat_sec (v mod 256)).
Proof.
  pose proof (write_pat 0 0
    {| PSISectionHeader_PrivateBit := false; PSISectionHeader_SectionLength := calcPATSectionLength pat_data;
       PSISectionHeader_SectionSyntaxIndicator := true; PSISectionHeader_TableID := PATData_TransportStreamID pat_data;
       PSISectionHeader_TableType := [] |}
    {| PSISectionSyntaxHeader_CurrentNextIndicator := true; PSISectionSyntaxHeader_LastSectionNumber := 0;
       PSISectionSyntaxHeader_SectionNumber := 0; PSISectionSyntaxHeader_TableIDExtension := PATData_TransportStreamID pat_data;
       PSISectionSyntaxHeader_VersionNumber := v mod 256 |}
    {| PSISectionSyntaxData_EIT := None; PSISectionSyntaxData_NIT := None; PSISectionSyntaxData_PAT := Some pat_data;
       PSISectionSyntaxData_PMT := None; PSISectionSyntaxData_SDT := None; PSISectionSyntaxData_TOT := None |}
    pat_data ltac:(lia) eq_refl ltac:(reflexivity) eq_refl ltac:(cbn; lia)) as H.
  exact H.
Qed.

Definition pat_datum (fp : Packet) : DemuxerData :=
  demuxer_data fp C_PIDPAT None None (Some pat_data) None None None.

Lemma pat_sec_value v : 0 <= v < 32 ->
  sec_parses (pat_sec v) (pat_section_value true false C_PSITableIDPAT v true 0 0 [(C_programNumberStart, C_pmtStartPID)]).
Proof.
  intros Hv.
  assert (Hwf : pat_wf C_PSITableIDPAT v 0 0 [(C_programNumberStart, C_pmtStartPID)]).
  { unfold pat_wf, pat_entry_ok, C_PSITableIDPAT, C_programNumberStart, C_pmtStartPID.
    cbn [fst snd length]. repeat split; try lia. repeat constructor; cbn [fst snd]; lia. }
  exact (pat_sec_parses true false C_PSITableIDPAT v true 0 0 [(C_programNumberStart, C_pmtStartPID)] Hwf).
Qed.

(* what the demuxer makes of a PAT packet: complete at once, parsed to the PAT, program 1 registered *)
Theorem pat_packet_demuxed pm cc v its : 0 <= v < 32 ->
  enc_packet (table_packet C_PIDPAT cc (0 :: pat_sec v)) 188 = Ok its ->
  let q := table_packet C_PIDPAT cc (0 :: pat_sec v) in
  mux_wf q /\ on_pid C_PIDPAT (obs_pkt q) /\ is_psi_complete [obs_pkt q] = true /\
  parse_data full_parsers None pm [obs_pkt q] = Ok [pat_datum (first_packet_of (obs_pkt q))] /\
  pm_after pm [pat_datum (first_packet_of (obs_pkt q))] = pm_add pm C_pmtStartPID.
Proof.
  intros Hv He q.
  assert (Hb : bytes_ok (pat_sec v)) by (unfold pat_sec, spec_pat_section; apply spec_section_ok, pat_body_ok).
  destruct (table_packet_seen C_PIDPAT cc (pat_sec v) its ltac:(unfold C_PIDPAT; lia) Hb He) as (W & Hpid & Ht & Hh & k & Hpl).
  fold q in W, Hpid, Ht, Hh, Hpl.
  split; [exact W|]. split; [repeat split; assumption|]. split.
  - apply (is_psi_complete_one _ C_PSITableIDPAT true false _ k Hpl); [unfold C_PSITableIDPAT; lia|reflexivity|].
    rewrite pat_body_length. cbn [length]. lia.
  - split; [|reflexivity].
    rewrite (parse_table_group pm (obs_pkt q) (pat_sec v) _ k Hpl (pat_sec_value v Hv)); [rewrite Hpid; reflexivity|rewrite Hpid; reflexivity|].
    rewrite Hpid. reflexivity.
Qed.

(* ---------------- PMT, relative to the descriptor domain ---------------- *)

Section PMT.
Variable D : list Descriptor -> list Z -> Prop.
Hypothesis D_parse : desc_premises D.
Hypothesis D_write : forall ds bytes, D ds bytes -> desc_bytes ds bytes.
Hypothesis D_nil : D [] [].
(* the bytes of a loop body are what the Muxer's PMT size check adds up *)
Hypothesis D_size : forall ds bytes, D ds bytes ->
  fold_left (fun k d => k + (2 + calc_descriptor_length d)) ds 0 = Z.of_nat (length bytes).

(* an elementary stream the tables theorems cover *)
Definition stream_in_dom (e : PMTElementaryStream) : Prop :=
  0 <= PMTElementaryStream_StreamType e < 256 /\ 0 <= spid e < 2 ^ 13 /\
  exists bytes, D (PMTElementaryStream_ElementaryStreamDescriptors e) bytes.

Lemma streams_xs l : Forall stream_in_dom l -> exists xs, map stream_value xs = l /\ Forall (stream_ok D) xs.
Proof using. clear D_parse D_write D_nil D_size.
  induction 1 as [|e l (Ht & Hp & bytes & Hd) _ (xs & Hm & Hok)]; [exists []; split; constructor|].
  exists ((PMTElementaryStream_StreamType e, spid e, PMTElementaryStream_ElementaryStreamDescriptors e, bytes) :: xs).
  cbn [map]. split; [rewrite Hm; destruct e; reflexivity|]. constructor; [|exact Hok].
  unfold stream_ok, st_type, st_pid, st_descs, st_bytes. cbn [fst snd]. repeat split; try assumption; lia.
Qed.

Lemma fold_add_acc (ds : list Descriptor) : forall a,
  fold_left (fun k d => k + (2 + calc_descriptor_length d)) ds a = a + fold_left (fun k d => k + (2 + calc_descriptor_length d)) ds 0.
Proof. clear D_parse D_write D_nil D_size.
  induction ds as [|d ds IH]; intros a; cbn [fold_left]; [lia|]. rewrite IH, (IH (0 + _)). lia.
Qed.

Lemma pmt_size_acc xs : Forall (stream_ok D) xs -> forall a,
  fold_left (fun n es => fold_left (fun k d => k + (2 + calc_descriptor_length d))
                                   (PMTElementaryStream_ElementaryStreamDescriptors es) (n + 5))
            (map stream_value xs) a = a + Z.of_nat (length (flat_map stream_bytes xs)).
Proof using D_size. clear D_parse D_write D_nil.
  induction 1 as [|x xs (_ & _ & Hd) _ IH]; intros a; cbn [map fold_left flat_map length]; [lia|].
  rewrite IH, app_length, stream_bytes_length. cbn [stream_value PMTElementaryStream_ElementaryStreamDescriptors].
  rewrite fold_add_acc, (D_size _ _ Hd). lia.
Qed.

Lemma pmt_size_eq xs : Forall (stream_ok D) xs -> pmt_size (map stream_value xs) = 4 + Z.of_nat (length (flat_map stream_bytes xs)).
Proof using D_size. intros H. unfold pmt_size. apply (pmt_size_acc xs H). Qed.

Lemma calc_pmt_len_acc xs : Forall (stream_ok D) xs -> forall a, 0 <= a ->
  a + Z.of_nat (length (flat_map stream_bytes xs)) < 65536 ->
  fold_left (fun ret es => ((ret + 5) mod 65536
                            + calc_descriptors_length (PMTElementaryStream_ElementaryStreamDescriptors es)) mod 65536)
            (map stream_value xs) a = a + Z.of_nat (length (flat_map stream_bytes xs)).
Proof using D_write. clear D_parse D_nil D_size.
  induction 1 as [|x xs (_ & _ & Hd) _ IH]; intros a Ha Hlt; cbn [map fold_left flat_map length] in *; [lia|].
  rewrite app_length, stream_bytes_length in Hlt |- *.
  destruct (desc_write_premise _ _ (D_write _ _ Hd)) as (_ & Hc & _).
  cbn [stream_value PMTElementaryStream_ElementaryStreamDescriptors]. rewrite Hc.
  rewrite (Z.mod_small (a + 5)) by lia. rewrite Z.mod_small by lia. rewrite IH by lia. lia.
Qed.

Definition pmt_sec (pcr ver : Z) (xs : list stream) : list Z :=
  spec_pmt_section true false C_programNumberStart ver true 0 0 pcr [] (map stream_spec xs).

Lemma write_pmt_payload pcr v xs : Forall (stream_ok D) xs ->
  9 + Z.of_nat (length (flat_map stream_bytes xs)) + 4 < 4096 ->
  write_psi_data (psi_of_section (pmt_section_of (map stream_value xs) pcr v)) = Ok (0 :: pmt_sec pcr (v mod 256) xs).
Proof using D_write D_nil. clear D_parse D_size.
  intros Hxs Hfit.
  set (d := pmt_data_of (map stream_value xs) pcr).
  assert (Hlen : calc_pmt_section_length d = 4 + Z.of_nat (length (flat_map stream_bytes xs))).
  { unfold calc_pmt_section_length, d, pmt_data_of. cbn [PMTData_ElementaryStreams PMTData_ProgramDescriptors].
    change ((4 + calc_descriptors_length []) mod 65536) with 4. apply (calc_pmt_len_acc xs Hxs); lia. }
  assert (Hw : Forall (wstream_ok desc_bytes) xs).
  { clear - Hxs D_write. induction Hxs as [|x xs (_ & _ & Hd) _ IH]; constructor; [apply D_write, Hd|exact IH]. }
  assert (Hpos : calc_pmt_section_length d > 0) by (rewrite Hlen; lia).
  exact (write_pmt_closed 0 0
    {| PSISectionHeader_PrivateBit := false; PSISectionHeader_SectionLength := calc_pmt_section_length d;
       PSISectionHeader_SectionSyntaxIndicator := true; PSISectionHeader_TableID := C_PSITableIDPMT;
       PSISectionHeader_TableType := [] |}
    {| PSISectionSyntaxHeader_CurrentNextIndicator := true; PSISectionSyntaxHeader_LastSectionNumber := 0;
       PSISectionSyntaxHeader_SectionNumber := 0; PSISectionSyntaxHeader_TableIDExtension := PMTData_ProgramNumber d;
       PSISectionSyntaxHeader_VersionNumber := v mod 256 |}
    {| PSISectionSyntaxData_EIT := None; PSISectionSyntaxData_NIT := None; PSISectionSyntaxData_PAT := None;
       PSISectionSyntaxData_PMT := Some d; PSISectionSyntaxData_SDT := None; PSISectionSyntaxData_TOT := None |}
    C_programNumberStart pcr [] [] xs ltac:(lia) eq_refl Hpos eq_refl (D_write _ _ D_nil) Hw ltac:(cbn [length]; lia)).
Qed.

Definition pmt_datum (fp : Packet) (streams : list PMTElementaryStream) (pcr : Z) : DemuxerData :=
  demuxer_data fp C_pmtStartPID None None None (Some (pmt_data_of streams pcr)) None None.

(* what the demuxer makes of a PMT packet once the PAT has registered its PID *)
Theorem pmt_packet_demuxed pm cc pcr v xs its : 0 <= v < 32 -> 0 <= pcr < 2 ^ 13 ->
  Forall (stream_ok D) xs -> 9 + Z.of_nat (length (flat_map stream_bytes xs)) + 4 < 4096 ->
  pm_mem pm C_pmtStartPID = true ->
  enc_packet (table_packet C_pmtStartPID cc (0 :: pmt_sec pcr v xs)) 188 = Ok its ->
  let q := table_packet C_pmtStartPID cc (0 :: pmt_sec pcr v xs) in
  mux_wf q /\ on_pid C_pmtStartPID (obs_pkt q) /\ is_psi_complete [obs_pkt q] = true /\
  parse_data full_parsers None pm [obs_pkt q] = Ok [pmt_datum (first_packet_of (obs_pkt q)) (map stream_value xs) pcr] /\
  pm_after pm [pmt_datum (first_packet_of (obs_pkt q)) (map stream_value xs) pcr] = pm.
Proof using D_parse D_nil. clear D_write D_size.
  intros Hv Hpcr Hxs Hfit Hpm He q.
  destruct D_parse as [Dok Dinv].
  assert (Dinv15 : forall ds bytes i r, D ds bytes -> at_ i (spec_desc_loop bytes ++ r) ->
            parse_descriptors i = Ok (ds, mk_iter (ibs i) (ioff i + 2 + Z.of_nat (length bytes)))).
  { intros ds bytes i r Hd Hat. apply (Dinv 15 ds bytes i r ltac:(lia) Hd). exact Hat. }
  assert (Hbody : bytes_ok (spec_pmt_body C_programNumberStart v true 0 0 pcr [] (map stream_spec xs))).
  { rewrite pmt_body_eq. apply Forall_app. split; [apply bytes_of_bits_ok|]. apply Forall_app. split; [apply bytes_of_bits_ok|].
    apply Forall_app. split; [|apply (streams_bytes_ok D Dok); assumption].
    unfold spec_desc_loop. apply Forall_app. split; [apply bytes_of_bits_ok|constructor]. }
  assert (Hb : bytes_ok (pmt_sec pcr v xs)) by (unfold pmt_sec, spec_pmt_section; apply spec_section_ok, Hbody).
  destruct (table_packet_seen C_pmtStartPID cc (pmt_sec pcr v xs) its ltac:(unfold C_pmtStartPID; lia) Hb He) as (W & Hpid & Ht & Hh & k & Hpl).
  fold q in W, Hpid, Ht, Hh, Hpl.
  assert (Hwf : pmt_wf D C_programNumberStart v 0 0 pcr [] [] xs).
  { unfold pmt_wf, C_programNumberStart. cbn [length]. repeat split; try lia; assumption. }
  split; [exact W|]. split; [repeat split; assumption|]. split.
  - apply (is_psi_complete_one _ 2 true false _ k Hpl); [lia|reflexivity|].
    rewrite (pmt_body_length D Dok Dinv15). cbn [length]. lia.
  - split; [|reflexivity].
    rewrite (parse_table_group pm (obs_pkt q) (pmt_sec pcr v xs) _ k Hpl (pmt_sec_parses_p D (conj Dok Dinv) true false _ _ true _ _ _ _ _ _ Hwf)).
    + rewrite Hpid. reflexivity.
    + rewrite Hpid. reflexivity.
    + rewrite Hpid. unfold isPSIPayload. rewrite Hpm. rewrite orb_true_r. reflexivity.
Qed.

End PMT.

(* ---------------- a table pair through the pool ---------------- *)

Lemma feed_table_packet pm pl p pid ds : sorted pl -> qof pl pid = [] -> on_pid pid p ->
  (Z.eqb pid C_PIDPAT || pm_mem pm pid) = true -> is_psi_complete [p] = true ->
  parse_data full_parsers None pm [p] = Ok ds ->
  exists pl1, sorted pl1 /\ (forall y, qof pl1 y = qof pl y) /\
    forall r, feed full_parsers pl pm (p :: r) =
              match feed full_parsers pl1 (pm_after pm ds) r with Some (pl2, pm2, out) => Some (pl2, pm2, ds ++ out) | None => None end.
Proof.
  intros Hs Hq Hon Hpsi Hc Hparse.
  assert (Hacc : acc_add pm pid (qof pl pid) p = ([], [p])) by (rewrite Hq; apply acc_add_complete; assumption).
  destruct (pool_add_step pm pl p pid _ _ Hs Hon Hacc) as (pl1 & Hadd & Hs1 & Hq1 & Hfr1).
  exists pl1. split; [exact Hs1|]. split.
  - intros y. destruct (Z.eq_dec y pid) as [->|Hy]; [rewrite Hq1, Hq; reflexivity|apply Hfr1, Hy].
  - intros r. cbn [feed]. rewrite Hadd, Hparse. reflexivity.
Qed.
