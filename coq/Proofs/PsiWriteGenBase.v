(* What it means for a PSI / descriptor / DVB writer regenerated from the source (Gen/PsiWriteGen.v) to BE the hand-written
   writer of Model/Psi.v, Model/Desc.v, Model/Dvb.v, and the lemmas the equality proofs share.

   The hand models of this area are `res (list witem)` (no byte count); the generated functions return the count the Go
   code returns, or only an error:

   [wfn_sim m r n]   m : WF (Z * merror)   = wf_sim m (r paired with the count n)   (Proofs/WriteGenBase.v):
                     r = Ok items -> m returns (n, nil) and hands over the same items in the same order up to [norm], none
                     through a w.Write whose result is dropped; r = Err c -> m returns an error of class c; r = Panic -> m panics
   [wfe_sim m r]     m : WF merror         the same for a writer that returns only an error
   [wm_sim errof m r P]  the same for a block / a loop of the writer monad (WM): Ok -> it falls through with a value
                     satisfying P; Err c -> it returns (wexit) an error of class c; Panic -> it panics.

   wcb_crc: the value read from the accumulator of writePSISection's write callback is updateCRC32 over the bytes of the
   items handed over since the registration. *)
From Coq Require Import ZArith List Lia Bool ZifyBool.
Require Import Base.Bits Base.Iter Base.Wr Gen.Consts Gen.Types Gen.Preds Gen.MuxGen Gen.WriteGen Gen.PsiWriteGen
  Proofs.WriteGenBase.
Import ListNotations.
Open Scope Z_scope.

Definition wfn_sim (m : WF (Z * merror)) (r : res (list witem)) (n : Z) : Prop :=
  wf_sim m (res_map (fun items => (items, n)) r).

Definition wfe_sim (m : WF merror) (r : res (list witem)) : Prop :=
  match r with
  | Ok items => snd m = Some ENil /\ map nsnd (fst m) = map norm items /\ nd (fst m) = true
  | Err c => exists e, snd m = Some e /\ werr e = Some c
  | Panic => snd m = None
  end.

Definition wm_sim {R A} (errof : R -> merror) (m : WM R A) (r : res (list witem)) (P : A -> Prop) : Prop :=
  match r with
  | Ok items => exists a, snd m = WVal a /\ P a /\ map nsnd (fst m) = map norm items /\ nd (fst m) = true
  | Err c => exists x, snd m = WExit x /\ werr (errof x) = Some c
  | Panic => snd m = WPanic
  end.

(* ---- inversion: the shape a caller sees ---- *)

Lemma wfn_ok_inv m items n : wfn_sim m (Ok items) n ->
  exists l, m = (l, Some (n, ENil)) /\ map nsnd l = map norm items /\ nd l = true.
Proof. apply wf_sim_ok_inv. Qed.

Lemma wfn_err_inv m c n : wfn_sim m (Err c) n -> exists l a e, m = (l, Some (a, e)) /\ werr e = Some c.
Proof. unfold wfn_sim. cbn [res_map]. apply wf_sim_err_inv. Qed.

Lemma wfn_panic_inv m n : wfn_sim m Panic n -> exists l, m = (l, None).
Proof. unfold wfn_sim. cbn [res_map]. apply wf_sim_panic_inv. Qed.

Lemma wfe_ok_inv m items : wfe_sim m (Ok items) ->
  exists l, m = (l, Some ENil) /\ map nsnd l = map norm items /\ nd l = true.
Proof. destruct m as [l o]. intros (H1 & H2 & H3). cbn [fst snd] in *. subst o. eauto. Qed.

Lemma wfe_err_inv m c : wfe_sim m (Err c) -> exists l e, m = (l, Some e) /\ werr e = Some c.
Proof. destruct m as [l o]. intros (e & H1 & H2). cbn [snd] in H1. subst o. eauto. Qed.

Lemma wfe_panic_inv m : wfe_sim m Panic -> exists l, m = (l, None).
Proof. destruct m as [l o]. cbn [wfe_sim snd]. intros ->. eauto. Qed.

Lemma wm_ok_inv {R A} (errof : R -> merror) (m : WM R A) items P : wm_sim errof m (Ok items) P ->
  exists l a, m = (l, WVal a) /\ P a /\ map nsnd l = map norm items /\ nd l = true.
Proof. destruct m as [l o]. intros (a & H1 & H2 & H3 & H4). cbn [fst snd] in *. subst o. eauto 6. Qed.

Lemma wm_err_inv {R A} (errof : R -> merror) (m : WM R A) c P : wm_sim errof m (Err c) P ->
  exists l x, m = (l, WExit x) /\ werr (errof x) = Some c.
Proof. destruct m as [l o]. intros (x & H1 & H2). cbn [snd] in H1. subst o. eauto. Qed.

Lemma wm_panic_inv {R A} (errof : R -> merror) (m : WM R A) P : wm_sim errof m Panic P -> exists l, m = (l, WPanic).
Proof. destruct m as [l o]. cbn [wm_sim snd]. intros ->. eauto. Qed.

(* ---- the write callback ---- *)

Lemma fold_crc_bytes bs : forall c,
  fold_left (fun (sectionCRC32 : Z) (b : list Z) => updateCRC32 sectionCRC32 b) (map (fun b => [b]) bs) c = updateCRC32 c bs.
Proof.
  induction bs as [|b bs IH]; intros c; [reflexivity|].
  cbn [map fold_left]. rewrite IH. unfold updateCRC32. reflexivity.
Qed.

Lemma wcb_crc (on : bool) c items :
  wcb_value on (fun sectionCRC32 bs => updateCRC32 sectionCRC32 bs) c items =
  if on then updateCRC32 c (bytes_of_items (map snd items)) else c.
Proof. unfold wcb_value. destruct on; [apply fold_crc_bytes|reflexivity]. Qed.

(* ---- item lists ---- *)

Lemma ieq_bytes l m : ieq l m -> bytes_of_items (map snd l) = bytes_of_items m.
Proof. unfold ieq. rewrite map_nsnd_snd. apply bytes_same_norm. Qed.

Lemma ieq_app_nil_l l m : ieq l m -> ieq ([] ++ l) m.
Proof. exact (fun H => H). Qed.

Lemma ieq_map_nsnd l m : map nsnd l = map norm m -> ieq l m.
Proof. exact (fun H => H). Qed.

Lemma norm_wbits_mod w v : norm (WBits w (v mod 2 ^ Z.of_nat w)) = norm (WBits w v).
Proof. cbn [norm]. rewrite Z.mod_mod by (apply Z.pow_nonzero; lia). reflexivity. Qed.

(* wbytes_n of the generated code and wbytesn of Model/Desc.v *)
Lemma ieq_flat_map {A} (f : A -> list gitem) (g : A -> list witem) l :
  (forall a, ieq (f a) (g a)) -> ieq (flat_map f l) (flat_map g l).
Proof.
  intros H. induction l as [|a l IH]; [apply ieq_nil|]. cbn [flat_map]. apply ieq_app; auto.
Qed.

Lemma nd_flat_map {A} (f : A -> list gitem) l : (forall a, nd (f a) = true) -> nd (flat_map f l) = true.
Proof.
  intros H. induction l as [|a l IH]; [reflexivity|]. cbn [flat_map]. apply nd_app'; auto.
Qed.

(* equality of two uintN accumulations that differ in where the intermediate `mod 2^N` are taken *)
Ltac zmod_eq :=
  repeat first [ rewrite Zplus_mod_idemp_l | rewrite Zplus_mod_idemp_r ];
  first [ reflexivity | f_equal; ring ].

Ltac wsimpl ::=
  cbn [wbind wrun wcall wret wexit wpanic wemit wemits w_write wneed wlisten batch_err merror_is_nil negb fst snd app].
