(* C01, level 1: one WriteData, demultiplexed alone.  Also the packaging of "the packets of one WriteData as the
   demuxer sees them" used by the history-level theorem. *)
From Coq Require Import ZArith List Lia Bool ZifyBool Sorted.
Require Import Base.Bits Base.Iter Base.Wr Gen.Consts Gen.Types Gen.Preds
  Model.Clock Model.Packet Model.Pes Model.Desc Model.Psi Model.Pool Model.PoolRun Model.Reader Model.Demux Model.DemuxFull Model.Muxer
  Spec.MuxSpec Spec.PesSpec Spec.PacketSpec
  Proofs.MuxerProofs Proofs.MuxerPackets Proofs.PesRoundTrip Proofs.PacketRoundTrip
  Proofs.PoolProofs Proofs.LossProofs Proofs.DemuxProofs
  Proofs.RoundTripPkt Proofs.RoundTripDemux Proofs.RoundTripUnit Proofs.RoundTripPool.
Import ListNotations.
Open Scope Z_scope.

(* ---------------- the domain of one WriteData ---------------- *)

(* the call is one the property quantifies over: a stream PID the demuxer treats as PES, S1 and C11's domain for the
   adaptation field, PES and header present, non-empty byte payload, a header C12 covers (after the stream id is
   filled in from the stream type) *)
Record data_in_domain (s : mstate) (d : MuxerData) (ctx : esctx) (h0 : PESHeader) (data : list Z) : Prop := {
  dd_pid : es_pid (MuxerData_PID d);
  dd_entry : af_entry_ok (MuxerData_AdaptationField d);
  dd_af : af_wf_opt (MuxerData_AdaptationField d);
  dd_ctx : es_find (MuxerData_PID d) (ms_es s) = Some ctx;
  dd_pes : exists pes, MuxerData_PES d = Some pes /\ PESData_Header pes = Some h0 /\ PESData_Data pes = data;
  dd_data : data <> [] /\ bytes_ok data;
  dd_header : wf_header (filled_header h0 (ec_es ctx))
}.

(* write_data_unit (C04_unit) with, in addition, every packet of the unit inside C11's domain and filled exactly *)
Theorem write_data_unit_ok s d s' p ctx h0 data :
  ms_inv s -> data_in_domain s d ctx h0 data -> write_data s d = (s', p) -> pa_res p = Ok tt ->
  let pid := MuxerData_PID d in
  let h := filled_header h0 (ec_es ctx) in
  exists sr tables unit,
    pa_pkts p = tables ++ unit /\ tables_effect s sr tables /\
    (tables = [] \/ starts_with_tables tables = true) /\
    unit_facts pid h (MuxerData_AdaptationField d) true data unit /\
    (let n := length (filter pkt_has_payload unit) in
     map pkt_cc (filter pkt_has_payload unit) = ccs_from (ec_cc ctx) n /\
     es_cc pid s' = Some (iter_inc n (ec_cc ctx))) /\
    map (@concat Z) (pa_groups p) = map pkt_bytes (pa_pkts p) /\
    Forall unit_pkt_ok unit.
Proof.
  intros Hinv [Hpid Haf Hafw Hfind (pes & Hpes & Hhdr & Hdat) [Hdata Hbytes] Hwh] Hwd Hok pid h. subst pid. set (pid := MuxerData_PID d) in *.
  pose proof (step_part_tied s (MWriteData d)) as [Htied _]. cbn [mux_step_part] in Htied. rewrite Hwd in Htied. cbn [snd] in Htied.
  unfold write_data in Hwd. fold pid in Hwd. rewrite Hfind in Hwd.
  change (af_rai (MuxerData_AdaptationField d) && (pid =? ms_pcr_pid s)) with (data_forced s d) in Hwd.
  destruct (retransmit_tables s (data_forced s d)) as [sr pt] eqn:Ert.
  destruct pt as [rt nt gt pkt]. destruct rt as [u|c|]; [|pinj Hwd; cbn in Hok; discriminate|pinj Hwd; cbn in Hok; discriminate].
  destruct u. rewrite Hpes in Hwd. rewrite Hdat in Hwd. destruct data as [|b0 data'] eqn:Edata; [congruence|]. rewrite Hhdr in Hwd.
  pinj Hwd. fold h in Hok, Htied |- *.
  set (r := wd_loop (length (b0 :: data') + 3) pid h (ec_cc ctx) (MuxerData_AdaptationField d) true (b0 :: data')) in *.
  rewrite part_app_res in Hok.
  assert (Hpt : pa_res (mk_part (Ok tt) nt gt pkt) <> Panic) by (cbn; congruence).
  pose proof (retransmit_effect _ _ _ _ Ert Hpt) as Heff. cbn [pa_pkts] in Heff.
  assert (Hnp : pa_res (lo_part r) <> Panic) by (rewrite Hok; discriminate).
  destruct (wd_loop_spec (length (b0 :: data') + 3) pid h (ec_cc ctx) (MuxerData_AdaptationField d) true (b0 :: data')
              (inv_es_wf _ Hinv _ _ Hfind) Haf Hnp) as (k & Hk1 & Hk2 & Hk3). fold r in Hk1, Hk2, Hk3.
  pose proof (wd_loop_unit _ pid h (ec_cc ctx) (MuxerData_AdaptationField d) true (b0 :: data') Hok) as Hunit. fold r in Hunit.
  assert (Hpid13 : 0 <= pid < 2 ^ 13) by (destruct Hpid as [Hp _]; lia).
  pose proof (wd_loop_pkts_ok _ pid h (ec_cc ctx) (MuxerData_AdaptationField d) true (b0 :: data') Hpid13 Haf Hafw Hbytes
                (fun _ => pes_header_bytes_ok h _ Hwh) Hok) as Hpk. fold r in Hpk.
  exists sr, pkt, (pa_pkts (lo_part r)). cbn [part_app pa_pkts pa_groups].
  split; [reflexivity|]. split; [exact Heff|]. split.
  { destruct Heff as [(-> & _)|(ppay & mpay & -> & _)]; [left; reflexivity|right; reflexivity]. }
  split; [exact Hunit|]. split; [|split; [exact Htied|exact Hpk]].
  rewrite (payload_ccs_same_pid pid _ Hk3) in Hk1.
  assert (Hlen : length (filter pkt_has_payload (pa_pkts (lo_part r))) = k).
  { rewrite <- (map_length pkt_cc), Hk1. apply ccs_from_length. }
  cbn zeta. rewrite Hlen. split; [exact Hk1|].
  unfold es_cc. cbn [set_es ms_es]. rewrite es_find_put, Z.eqb_refl. cbn [option_map ec_cc]. rewrite Hk2. reflexivity.
Qed.

(* ---------------- the unit as the demuxer sees it ---------------- *)

Lemma filter_map_obs l : filter has_payload (map obs_pkt l) = map obs_pkt (filter pkt_has_payload l).
Proof.
  induction l as [|q l IH]; [reflexivity|]. cbn [map filter]. rewrite obs_has_payload.
  destruct (pkt_has_payload q); cbn [map]; rewrite IH; reflexivity.
Qed.

Lemma filter_incl {A} (f : A -> bool) l : incl (filter f l) l.
Proof. intros x Hx. apply filter_In in Hx. apply Hx. Qed.

(* packets behind the first payload packet of a unit carry no caller adaptation field *)
Lemma rest_tail_ok af unit p1 rest : unit_shape af unit -> filter pkt_has_payload unit = p1 :: rest -> Forall tail_ok rest.
Proof.
  destruct unit as [|q1 tl]; [discriminate|]. cbn [unit_shape filter]. intros (_ & Htl & _) Hf.
  assert (Hin : incl rest tl).
  { destruct (pkt_has_payload q1).
    - injection Hf as _ <-. apply filter_incl.
    - intros x Hx. apply (filter_incl pkt_has_payload tl). rewrite Hf. right. exact Hx. }
  apply Forall_forall. intros x Hx. apply (proj1 (Forall_forall _ _) Htl), Hin, Hx.
Qed.

Record unit_seen (x : Z) (h : PESHeader) (data : list Z) (c : wrappingCounter) (unit : list Packet) (p1 : Packet) (rest : list Packet) : Prop := {
  us_filter : filter pkt_has_payload unit = p1 :: rest;
  us_bufs : Forall (buf_ok 188) (map pkt_bytes unit);
  us_parse : Forall2 (fun b p => parse_packet_bytes b = Ok p) (map pkt_bytes unit) (map obs_pkt unit);
  us_tei : Forall (fun p => tei p = false) (map obs_pkt unit);
  us_pay : filter has_payload (map obs_pkt unit) = obs_pkt p1 :: map obs_pkt rest;
  us_first : on_pid x (obs_pkt p1) /\ pusi (obs_pkt p1) = true;
  us_rest : Forall (fun p => on_pid x p /\ pusi p = false /\ no_disc_flag p) (map obs_pkt rest);
  us_ccs : map cc_of (obs_pkt p1 :: map obs_pkt rest) = ccs_from c (S (length (map obs_pkt rest)));
  us_payload : concat (map Packet_Payload (obs_pkt p1 :: map obs_pkt rest)) = pes_header_bytes h (Z.of_nat (length data)) ++ data
}.

Lemma unit_is_seen x h af data c unit :
  data <> [] -> unit_facts x h af true data unit -> Forall unit_pkt_ok unit ->
  map pkt_cc (filter pkt_has_payload unit) = ccs_from c (length (filter pkt_has_payload unit)) ->
  exists p1 rest, unit_seen x h data c unit p1 rest.
Proof.
  intros Hne [Hhdr Hnop Hpusi _ Hpay Hshape _] Hok Hccs.
  destruct (Hpusi Hne) as (p1 & rest & Hf & Hp1 & Hrest). exists p1, rest.
  assert (Hin1 : In p1 unit) by (apply (filter_incl pkt_has_payload unit); rewrite Hf; left; reflexivity).
  assert (Hinr : incl rest unit) by (intros y Hy; apply (filter_incl pkt_has_payload unit); rewrite Hf; right; exact Hy).
  assert (Hpl : forall y, In y (p1 :: rest) -> pkt_has_payload y = true).
  { intros y Hy. rewrite <- Hf in Hy. apply filter_In in Hy. apply Hy. }
  pose proof (proj1 (Forall_forall _ _) Hhdr) as Hh. pose proof (proj1 (Forall_forall _ _) Hok) as Ho.
  constructor.
  - exact Hf.
  - apply Forall_forall. intros b Hb. apply in_map_iff in Hb. destruct Hb as (q & <- & Hq).
    destruct (parse_mux_pkt q (proj1 (Ho q Hq))) as (Hl & Hb & _). split; [rewrite Hl; reflexivity|exact Hb].
  - clear - Ho. induction unit as [|q l IH]; [constructor|]. cbn [map]. constructor.
    + apply (parse_mux_pkt q), (Ho q). left. reflexivity.
    + apply IH. intros y Hy. apply Ho. right. exact Hy.
  - apply Forall_forall. intros p Hp. apply in_map_iff in Hp. destruct Hp as (q & <- & Hq). rewrite obs_tei.
    apply (Hh q Hq).
  - rewrite filter_map_obs, Hf. reflexivity.
  - split; [|rewrite obs_pusi; exact Hp1]. unfold on_pid. rewrite obs_pid, obs_tei, obs_has_payload.
    destruct (Hh p1 Hin1) as (H1 & H2 & _). repeat split; try assumption. apply Hpl. left. reflexivity.
  - pose proof (rest_tail_ok af unit p1 rest Hshape Hf) as Htl.
    apply Forall_forall. intros p Hp. apply in_map_iff in Hp. destruct Hp as (q & <- & Hq).
    unfold on_pid. rewrite obs_pid, obs_tei, obs_has_payload, obs_pusi.
    destruct (Hh q (Hinr q Hq)) as (H1 & H2 & _). repeat split; try assumption.
    + apply Hpl. right. exact Hq.
    + apply (proj1 (Forall_forall _ _) Hrest q Hq).
    + apply obs_no_disc. intros a Ha. apply (tail_ok_no_discontinuity q a (proj1 (Forall_forall _ _) Htl q Hq) Ha).
  - rewrite map_length. rewrite Hf in Hccs. cbn [length] in Hccs. rewrite <- Hccs. cbn [map]. rewrite obs_cc. f_equal.
    rewrite map_map. apply map_ext. intros q. apply obs_cc.
  - rewrite <- (Hpay Hne), Hf. cbn [map concat]. f_equal; [apply obs_payload_full, (Ho p1 Hin1)|].
    f_equal. rewrite map_map. apply map_ext_in. intros q Hq. apply obs_payload_full, (Ho q (Hinr q Hq)).
Qed.

(* ---------------- level 1 ---------------- *)

Lemma concat_concat_map {A} (l : list (list (list A))) : concat (concat l) = concat (map (@concat A) l).
Proof. induction l as [|a l IH]; [reflexivity|]. cbn [concat map]. rewrite concat_app, IH. reflexivity. Qed.

Notation ndf := (next_data full_parsers None no_skip).

(* One WriteData inside the domain, emitted without tables; a demuxer (packet size 188) whose reader holds exactly the
   bytes of that call, with an empty pool and buffer and a program map that does not contain the PID: the first
   NextData returns the PES that was written -- payload, header with its derived fields, PID, and as FirstPacket the
   header and adaptation field of the unit's first payload packet -- and the second one ErrNoMorePackets. *)
Theorem roundtrip_one_unit s d s' p ctx h0 data dem :
  ms_inv s -> data_in_domain s d ctx h0 data -> write_data s d = (s', p) -> pa_res p = Ok tt ->
  starts_with_tables (pa_pkts p) = false ->
  (d_pb dem = Some (mk_pbuf 188) \/ (d_pb dem = None /\ d_opt_size dem = 188)) ->
  reader_ok (d_reader dem) -> r_rest (d_reader dem) = concat (concat (pa_groups p)) ->
  d_pool dem = [] -> d_buffer dem = [] -> pm_mem (d_pm dem) (MuxerData_PID d) = false ->
  exists p1 rest dem1 dem2,
    filter pkt_has_payload (pa_pkts p) = p1 :: rest /\
    ndf dem = (Ok (pes_datum (MuxerData_PID d) (obs_pkt p1) (filled_header h0 (ec_es ctx)) data), dem1) /\
    ndf dem1 = (Err E_nomore, dem2).
Proof.
  intros Hinv Hdom Hwd Hok Hnt Hpb Hrok Hrest Hpool Hbuf Hpm.
  destruct (write_data_unit_ok s d s' p ctx h0 data Hinv Hdom Hwd Hok) as (sr & tables & unit & Hpk & _ & Htab & Huf & (Hccs & _) & Hgr & Hpok).
  assert (tables = []) as ->.
  { destruct Htab as [->|Ht]; [reflexivity|]. exfalso. destruct tables as [|a [|b r]]; try discriminate Ht.
    rewrite Hpk in Hnt. cbn [app starts_with_tables] in *. congruence. }
  cbn [app] in Hpk. rewrite Hpk in *.
  destruct Hdom as [Hpid Haf Hafw Hfind Hpes [Hne Hbytes] Hwh].
  set (x := MuxerData_PID d) in *. set (h := filled_header h0 (ec_es ctx)) in *.
  destruct (unit_is_seen x h _ data (ec_cc ctx) unit Hne Huf Hpok Hccs) as (p1 & rest & [U1 U2 U3 U4 U5 [U6 U6'] U7 U8 U9]).
  destruct (es_pid_not_psi x (d_pm dem) Hpid Hpm) as (_ & _ & Hnpsi).
  (* the pool after the unit *)
  destruct (feed_unit_payload full_parsers x (d_pm dem) (obs_pkt p1) (map obs_pkt rest) [] (ec_cc ctx) [] Hnpsi I U6 U6' U7 U8
              (inv_es_wf _ Hinv _ _ Hfind) (or_introl (conj eq_refl eq_refl)))
    as (pl' & Hfeed & Hs' & Hq' & Hfr').
  destruct (parse_unit_group x (d_pm dem) (obs_pkt p1) (map obs_pkt rest) h data Hpid Hpm (proj1 U6) Hwh Hbytes U9) as [Hparse Hpmsame].
  set (dat := pes_datum x (obs_pkt p1) h data) in *.
  assert (Hpids : pool_pids pl' = [x]).
  { apply sorted_singleton; [apply pool_pids_sorted, Hs'|]. intros y. rewrite (pool_pids_in pl' Hs' y).
    destruct (Z.eq_dec y x) as [->|Hy].
    - rewrite Hq'. split; [reflexivity|discriminate].
    - rewrite (Hfr' y Hy). unfold qof. cbn [pool_lookup]. split; [congruence|intros; contradiction]. }
  assert (Hdrain : drain_data full_parsers (d_pm dem) pl' = Some [dat]).
  { rewrite (drain_data_by_qof full_parsers (d_pm dem) (fun y => if y =? x then [dat] else []) pl' Hs').
    - rewrite Hpids. cbn [flat_map]. rewrite Z.eqb_refl. reflexivity.
    - intros k Hk. destruct (Z.eq_dec k x) as [->|Hy].
      + rewrite Z.eqb_refl, Hq'. split; [exact Hparse|exact Hpmsame].
      + rewrite (Hfr' k Hy) in Hk. unfold qof in Hk. cbn [pool_lookup] in Hk. congruence. }
  assert (Hy : yields full_parsers dem [dat]).
  { exists (map pkt_bytes unit), (map obs_pkt unit), pl', (d_pm dem), [], [dat].
    split; [|split; [exact U3|split; [|split; [exact Hdrain|rewrite Hbuf; reflexivity]]]].
    - split; [exact Hpb|]. split; [exact Hrok|]. split; [|exact U2]. rewrite Hrest, <- Hgr. apply concat_concat_map.
    - rewrite Hpool, (feed_filter_payload full_parsers _ _ _ U4), U5. exact Hfeed. }
  destruct (yields_step full_parsers dem [dat] Hy) as (dem1 & E1 & Hy1).
  destruct (yields_step full_parsers dem1 [] Hy1) as (dem2 & E2 & _).
  exists p1, rest, dem1, dem2. split; [exact U1|]. split; [exact E1|exact E2].
Qed.

(* the first packet: when the adaptation field leaves room for the PES header in the first packet (always, when there
   is none), the unit's first payload packet is its first packet and carries the caller's adaptation field, with at
   most its stuffing changed *)
Theorem first_packet_af pid h af data unit p1 rest :
  unit_facts pid h af true data unit -> data <> [] -> filter pkt_has_payload unit = p1 :: rest ->
  (C_MpegTsPacketSize - (1 + C_mpegTsPacketHeaderSize + af_size_opt af) <?
     C_pesHeaderLength + calcPESOptionalHeaderLength (PESHeader_OptionalHeader h)) = false ->
  first_ok af p1 /\ exists tl, unit = p1 :: tl.
Proof.
  intros [_ _ _ _ _ Hshape Hall] Hne Hf Hroom. specialize (Hall ltac:(rewrite Hroom; reflexivity)).
  destruct unit as [|q1 tl]; [discriminate|]. inversion Hall as [|? ? Hq1 _]; subst. cbn [filter] in Hf. rewrite Hq1 in Hf.
  injection Hf as <- _. cbn [unit_shape] in Hshape. split; [apply Hshape|exists tl; reflexivity].
Qed.

(* what FirstPacket then reports *)
Lemma first_packet_observed p1 a : Packet_AdaptationField p1 = Some a ->
  Packet_AdaptationField (first_packet_of (obs_pkt p1)) = Some (observed_af a) /\
  Packet_Payload (first_packet_of (obs_pkt p1)) = [].
Proof. intros H. unfold first_packet_of. cbn [Packet_AdaptationField Packet_Payload]. rewrite obs_af, H. split; reflexivity. Qed.
