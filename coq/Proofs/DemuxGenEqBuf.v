(* packetBuffer.next (packet_buffer.go) as regenerated from the current source (Gen/DemuxGen.v, Section PacketBuffer)
   IS packet_buffer_next of Model/Reader.v: the read buffer is (re)allocated when its length is not the packet size
   (make panics for a negative size), then `for p == nil`: io.ReadFull of one packet — io.EOF and io.ErrUnexpectedEOF,
   compared with ==, become ErrNoMorePackets, any other failure is wrapped — parsePacket, whose errSkippedPacket
   (errors.Is) continues the loop and whose other errors are wrapped and returned.  io.ReadFull and parsePacket are
   abstract operations instantiated by read_full and parse_packet of the model; the reader's own failure is EExt wr
   for an ARBITRARY wr (it may wrap io.EOF), which is why `errors.Is(err, io.EOF)` in place of `==` breaks this proof,
   as does a bound on the number of packets skipped in a row.

   Fuel: S (packets_left r size) suffices — every turn of the loop that goes on has consumed size > 0 bytes.
   Hypotheses: the reader's bookkeeping is consistent (rest_len: true of every reader built by new_reader and kept by
   every operation); parse_packet never answers with the "no more packets" code (Props/C03.v, C03_packet_no_panic: its
   errors are generic / sync / skipped). *)
From Coq Require Import ZArith List Lia Bool String.
Require Import Base.Bits Base.Iter Gen.Consts Gen.Types Gen.Preds Gen.DemuxGen
  Model.Packet Model.Pool Model.Reader Model.Demux Proofs.DemuxGenEq.
Import ListNotations.
Open Scope Z_scope.

Section Buf.
Variable err_of : Z -> gerr.
Hypothesis err_of_code : forall c, code_x (err_of c) = norm c.
Hypothesis err_of_skipped : forall c, gerr_is (err_of c) e_skipped = (c =? E_skipped).
Variable wr : gerr.
Variable skip : Packet -> bool.
Hypothesis parse_codes : forall bs c, run_iter (parse_packet skip) bs = Err c -> c <> E_nomore.

Definition gsk : option go_skipper := Some (embed_skip skip).

Definition pbn_out : Type := outcome (list Z * option Packet * option gerr * mworld).

Definition pbn_rel (size : Z) (pm : pmap) (g : list (list Packet)) (cons : list Packet)
  (o : pbn_out) (m : res Packet * reader * list Packet) : Prop :=
  match o with
  | Done (buf', p, err, w') =>
      res_rel_exact p err (fst (fst m)) /\ w' = mk_mworld (snd (fst m)) pm g (cons ++ snd m) /\
      Z.of_nat (List.length buf') = size
  | Panicked => fst (fst m) = Panic
  | OutOfFuel => False
  end.

Definition next_loop_is_generated_subject (fuel : nat) (err : option gerr) (f1 : nat) (p : option Packet) (buf : list Z) (size : Z)
  (k : rkind) (w : mworld) : pbn_out :=
  packetBuffer_next_loop1 mworld rkind (read_full_m wr) (parse_packet_m err_of) fuel size gsk k buf f1 w p err.

Lemma next_loop_is_generated size pm g : 0 < size -> forall fuel r cons err0 f1 buf kd,
  rest_len r -> Z.of_nat (List.length buf) = size ->
  (Z.to_nat ((r_len r - r_pos r) / size) < fuel)%nat ->
  pbn_rel size pm g cons (next_loop_is_generated_subject (S fuel) err0 f1 None buf size kd (mk_mworld r pm g cons))
          (pb_next fuel skip size r).
Proof.
  intros Hsize. induction fuel as [|k IH]; intros r cons err0 f1 buf kd Hwf Hbuf Hfuel; [lia|].
  unfold next_loop_is_generated_subject. cbn [pb_next]. remember (S k) as k1 eqn:Ek1.
  cbn [packetBuffer_next_loop1 is_some negb].
  unfold read_full_m at 1. cbn [mw_reader]. rewrite Hbuf.
  destruct (read_full r size) as [[bs e] r'] eqn:Hrf.
  destruct e as [e|].
  - (* the read failed *)
    pose proof (read_full_len r size bs _ r' ltac:(lia) Hrf) as Hle.
    assert (Hov : Z.of_nat (List.length (bs ++ skipn (List.length bs) buf)) = size) by (rewrite overwrite_length; lia).
    cbn [obind rerr_err].
    destruct e; cbn [is_some oerr_eqb];
      change (gerr_eqb (EExt wr) (EVar "io.EOF"%string)) with false;
      change (gerr_eqb (EExt wr) (EVar "io.ErrUnexpectedEOF"%string)) with false;
      change (gerr_eqb e_eof (EVar "io.EOF"%string)) with true;
      change (gerr_eqb e_eof (EVar "io.ErrUnexpectedEOF"%string)) with false;
      change (gerr_eqb e_ueof (EVar "io.EOF"%string)) with false;
      change (gerr_eqb e_ueof (EVar "io.ErrUnexpectedEOF"%string)) with true;
      cbn [orb obind pbn_rel fst snd res_rel_exact ewrap]; rewrite app_nil_r; unfold mw_set_reader;
      cbn [mw_pm mw_groups mw_consulted].
    + (* the reader's own failure: wrapped, whatever it wraps *)
      rewrite code_x_wrap. repeat split. exact Hov.
    + repeat split. exact Hov.
    + repeat split. exact Hov.
  - (* one packet read *)
    pose proof (read_full_ok r size bs r' Hwf ltac:(lia) Hrf) as (Hbs & Hwf' & Hlen' & Hpos' & Hfit & _).
    cbn [obind rerr_err is_some].
    assert (Hbuf' : bs ++ skipn (List.length bs) buf = bs).
    { rewrite skipn_all2 by lia. apply app_nil_r. }
    rewrite Hbuf'. unfold parse_packet_m at 1. unfold mw_set_reader.
    cbn [new_iter ibs mw_reader mw_pm mw_groups mw_consulted skip_of gsk].
    change (unembed_skip (embed_skip skip)) with skip.
    destruct (run_iter (parse_packet skip) bs) as [pk|c|] eqn:Hpp; cbn [obind is_some].
    + (* a packet: the loop condition ends the loop *)
      subst k1. cbn [packetBuffer_next_loop1 is_some negb pbn_rel fst snd res_rel_exact].
      repeat split. exact Hbs.
    + cbn [oerr_is]. change (EVar "errSkippedPacket"%string) with e_skipped. rewrite err_of_skipped.
      destruct (c =? E_skipped) eqn:Ec; cbn [negb].
      * (* skipped: read the next one *)
        specialize (IH r' (cons ++ consulted bs) (Some (err_of c)) f1 bs kd Hwf' Hbs).
        assert (Hk : (Z.to_nat ((r_len r' - r_pos r') / size) < k)%nat).
        { rewrite Hlen', Hpos'. replace (r_len r - (r_pos r + size)) with ((r_len r - r_pos r) + (-1) * size) by lia.
          rewrite Z.div_add by lia.
          assert (0 < (r_len r - r_pos r) / size) by (apply Z.div_str_pos; lia). lia. }
        specialize (IH Hk). unfold next_loop_is_generated_subject in IH. subst k1.
        destruct (pb_next k skip size r') as [[x r''] l].
        destruct (packetBuffer_next_loop1 _ _ _ _ (S k) _ _ _ _ _ _ _ _) as [[[[buf' p] err] w']| |];
          cbn [pbn_rel fst snd] in *; [|exact IH|exact IH].
        destruct IH as (H1 & H2 & H3). rewrite app_assoc in *. repeat split; assumption.
      * cbn [pbn_rel fst snd res_rel_exact ewrap]. rewrite code_x_wrap, err_of_code. cbn [gerr_eqb e_nomore].
        pose proof (parse_codes bs c Hpp) as Hne. repeat split; [symmetry; apply Z.eqb_neq; exact Hne|exact Hbs].
    + reflexivity.
Qed.

Definition pb_next_is_generated_subject (size : Z) (kd : rkind) (buf : list Z) (fuel : nat) (w : mworld) : pbn_out :=
  packetBuffer_next mworld rkind (read_full_m wr) (parse_packet_m err_of) size gsk kd buf fuel w.

Theorem pb_next_is_generated size r pm g cons kd buf : size <> 0 -> rest_len r ->
  pbn_rel size pm g cons (pb_next_is_generated_subject size kd buf (S (packets_left r size)) (mk_mworld r pm g cons))
          (packet_buffer_next skip (mk_pbuf size) r).
Proof.
  intros Hnz Hwf. unfold pb_next_is_generated_subject, packetBuffer_next, packet_buffer_next. cbn [pb_size].
  destruct (size <? 0) eqn:Eneg.
  - (* make([]byte, size) panics *)
    replace (negb (Z.of_nat (List.length buf) =? size)) with true by lia.
    replace (0 <=? size) with false by lia. reflexivity.
  - replace (size =? 0) with false by lia.
    assert (Hpos : 0 < size) by lia.
    assert (Hfuel : (Z.to_nat ((r_len r - r_pos r) / size) < packets_left r size)%nat).
    { unfold packets_left. rewrite Z.max_r by lia. lia. }
    destruct (negb (Z.of_nat (List.length buf) =? size)) eqn:Eb.
    + replace (0 <=? size) with true by lia. cbn [obind].
      apply (next_loop_is_generated size pm g Hpos (packets_left r size) r cons None _ _ kd Hwf); [|exact Hfuel].
      rewrite repeat_length. lia.
    + cbn [obind].
      apply (next_loop_is_generated size pm g Hpos (packets_left r size) r cons None _ _ kd Hwf); [|exact Hfuel].
      lia.
Qed.

End Buf.
