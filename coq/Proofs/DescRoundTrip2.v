(* C14, per-tag round trips, second part: the generic machinery for list-valued bodies (a `for i.Offset() < offsetEnd`
   loop over items written by a `for _, item := range` loop) and the tags content, parental rating, subtitling,
   teletext, VBI teletext.  Same pattern as Proofs/DescProofs.v part C: body_rt at body level, then lifted through
   single_descriptor_loop (one descriptor) and, through entry_rt, to loops of mixed tags (loop_roundtrip). *)
From Coq Require Import ZArith List Lia Bool ZifyBool.
Require Import Base.Bits Base.Iter Base.Wr Gen.Consts Gen.Types Gen.Preds Model.Dvb Model.Desc Spec.DescSpec Proofs.DescProofs.
Import ListNotations.
Open Scope Z_scope.

(* ================= generic steps ================= *)

(* steps that leave the buffer as it is and move the offset (the buffer stays `pre ++ consumed ++ rest`) *)
Lemma next_byte_at pre b rest :
  next_byte (mk_iter (pre ++ b :: rest) (zlen pre)) = Ok (b, mk_iter (pre ++ b :: rest) (zlen pre + 1)).
Proof.
  rewrite next_byte_step. rewrite <- app_assoc, zlen_app. reflexivity.
Qed.

Lemma next_bytes_at pre a rest n : zlen a = n ->
  next_bytes n (mk_iter (pre ++ a ++ rest) (zlen pre)) = Ok (a, mk_iter (pre ++ a ++ rest) (zlen pre + n)).
Proof.
  intros H. rewrite next_bytes_step by exact H. rewrite <- app_assoc, zlen_app, H. reflexivity.
Qed.

(* the same steps at an offset given as a number: off = zlen pre is a side condition *)
Lemma next_byte_off pre b rest off : off = zlen pre ->
  next_byte (mk_iter (pre ++ b :: rest) off) = Ok (b, mk_iter (pre ++ b :: rest) (off + 1)).
Proof. intros ->. apply next_byte_at. Qed.

Lemma next_bytes_off pre a rest n off : off = zlen pre -> zlen a = n ->
  next_bytes n (mk_iter (pre ++ a ++ rest) off) = Ok (a, mk_iter (pre ++ a ++ rest) (off + n)).
Proof. intros -> H. apply next_bytes_at. exact H. Qed.

(* the length of the body a descriptor's writer emitted *)
Lemma body_len d bi : enc_descriptor_body d = Ok bi -> items_bytes_ok bi -> zlen (bytes_of_items bi) = desc_size d.
Proof. intros E Hok. apply bytes_of_items_zlen; [exact Hok|]. apply enc_descriptor_body_size. exact E. Qed.

Lemma items_ok_flat_map_inv {A} (f : A -> list witem) l :
  items_bytes_ok (flat_map f l) -> Forall (fun x => items_bytes_ok (f x)) l.
Proof.
  induction l as [|x l IH]; intros H; [constructor|]. cbn [flat_map] in H. apply items_bytes_ok_app_inv in H.
  destruct H as [Hx Hl]. constructor; [exact Hx|apply IH; exact Hl].
Qed.

Lemma Forall_and_inv {A} (P Q : A -> Prop) l : Forall P l -> Forall Q l -> Forall (fun x => P x /\ Q x) l.
Proof. intros HP. induction HP; intros HQ; inversion HQ; subst; constructor; auto. Qed.

(* ================= list-valued bodies ================= *)

(* one item: its writer fills n whole bytes (n > 0) and the item parser, started on those bytes at any position of
   any buffer, returns the item and stops right behind them *)
Definition item_rt {A} (item : IM A) (enc : A -> list witem) (n : A -> Z) (x : A) : Prop :=
  items_bytes_ok (enc x) ->
  bitlen (enc x) = 8 * n x /\ 0 < n x /\
  forall pre rest, item (mk_iter (pre ++ bytes_of_items (enc x) ++ rest) (zlen pre)) =
                   Ok (x, mk_iter (pre ++ bytes_of_items (enc x) ++ rest) (zlen pre + n x)).

Section ItemLoop.
  Context {A : Type} (item : IM A) (enc : A -> list witem) (n : A -> Z).

  Let g (x : A) : list Z := bytes_of_items (enc x).
  Let good (x : A) : Prop := item_rt item enc n x /\ items_bytes_ok (enc x).

  Lemma item_len x : good x -> zlen (g x) = n x.
  Proof. intros [Hrt Hok]. destruct (Hrt Hok) as (Hb & _ & _). apply bytes_of_items_zlen; assumption. Qed.

  Lemma items_count l : Forall good l -> zlen l <= zlen (flat_map g l).
  Proof.
    induction 1 as [|x l Hx _ IH]; [reflexivity|]. cbn [flat_map]. rewrite zlen_cons, zlen_app, (item_len x Hx).
    destruct Hx as [Hrt Hok]. destruct (Hrt Hok) as (_ & Hp & _). lia.
  Qed.

  Lemma iloop_fuel_items l : Forall good l -> forall k pre rest, (length l < k)%nat ->
    iloop_fuel k (zlen pre + zlen (flat_map g l)) item (mk_iter (pre ++ flat_map g l ++ rest) (zlen pre)) =
    Ok (l, mk_iter (pre ++ flat_map g l ++ rest) (zlen pre + zlen (flat_map g l))).
  Proof.
    induction 1 as [|x l Hx HF IH]; intros k pre rest Hk.
    - destruct k; [cbn [length] in Hk; lia|]. cbn [flat_map]. rewrite zlen_nil, Z.add_0_r. apply iloop_fuel_done. lia.
    - destruct k; [lia|]. cbn [flat_map]. pose proof (item_len x Hx) as Hl. pose proof (zlen_nonneg (flat_map g l)) as Hnn.
      destruct Hx as [Hrt Hok]. destruct (Hrt Hok) as (Hb & Hp & Hrun). rewrite zlen_app, Hl.
      cbn [iloop_fuel]. unfold ibind at 1. rewrite ioffset_step.
      destruct (zlen pre <? zlen pre + (n x + zlen (flat_map g l))) eqn:E; [|lia].
      unfold ibind at 1. rewrite <- (app_assoc (g x)).
      pose proof (Hrun pre (flat_map g l ++ rest)) as Hr. fold (g x) in Hr. rewrite Hr. clear Hr.
      unfold ibind at 1.
      replace (pre ++ g x ++ flat_map g l ++ rest) with ((pre ++ g x) ++ flat_map g l ++ rest) by (rewrite <- app_assoc; reflexivity).
      replace (zlen pre + n x) with (zlen (pre ++ g x)) by (rewrite zlen_app; lia).
      replace (zlen pre + (n x + zlen (flat_map g l))) with (zlen (pre ++ g x) + zlen (flat_map g l)) by (rewrite zlen_app; lia).
      rewrite IH by (cbn [length] in Hk; lia). reflexivity.
  Qed.

  (* the loop of the parser over what the loop of the writer emitted *)
  Lemma iloop_items l pre rest : Forall (item_rt item enc n) l -> items_bytes_ok (flat_map enc l) ->
    let body := bytes_of_items (flat_map enc l) in
    iloop (zlen pre + zlen body) item (mk_iter (pre ++ body ++ rest) (zlen pre)) =
    Ok (l, mk_iter (pre ++ body ++ rest) (zlen pre + zlen body)).
  Proof.
    intros HR Hok body.
    assert (HG : Forall good l) by (apply Forall_and_inv; [exact HR|apply items_ok_flat_map_inv; exact Hok]).
    assert (Eb : body = flat_map g l).
    { unfold body. apply (bytes_of_items_flat_map enc g n good l); [|exact HG].
      intros x [Hrt Hx]. destruct (Hrt Hx) as (Hb & _ & _). split; [exact Hx|]. split; [exact Hb|reflexivity]. }
    rewrite Eb. unfold iloop, ibind. rewrite ioffset_step. apply iloop_fuel_items; [exact HG|].
    pose proof (items_count l HG) as Hc. unfold zlen in Hc at 1. lia.
  Qed.
End ItemLoop.

(* the shape shared by the list-valued tags: body_rt from the item-level round trip *)
Lemma flat_map_body_rt {A} (item : IM A) (enc : A -> list witem) (n : A -> Z) (l : list A) d d'
      (mk : list A -> Descriptor) :
  Forall (item_rt item enc n) l ->
  enc_descriptor_body d = Ok (flat_map enc l) ->
  (forall e i, parse_descriptor_body (Descriptor_Tag d) (desc_size d) e i = (v <- iloop e item ;; iret (mk v)) i) ->
  d' = mk l ->
  body_rt d d'.
Proof.
  intros HR Eenc Hparse -> pre body rest' (bi & Ebi & Hbok & ->).
  rewrite Eenc in Ebi. inversion Ebi; subst bi. rewrite Hparse.
  rewrite <- (body_len d _ Eenc Hbok). unfold ibind.
  rewrite (iloop_items item enc n l pre rest' HR Hbok). unfold iret. eexists. reflexivity.
Qed.

(* parse_descriptor_body of a list-valued tag is one loop followed by the constructors *)
Ltac loop_parser newd :=
  match goal with
  | |- parse_descriptor_body ?t ?l ?e ?i = _ =>
      let b := eval cbv beta iota delta [parse_descriptor_body is_user_defined] in (parse_descriptor_body t l e) in
      change (parse_descriptor_body t l e) with b
  end;
  cbn [Z.leb Z.eqb Z.compare Pos.compare Pos.compare_cont andb Pos.eqb]; unfold_tags;
  cbn [Z.leb Z.eqb Z.compare Pos.compare Pos.compare_cont andb Pos.eqb];
  unfold newd, ibind;
  match goal with |- match match ?m with _ => _ end with _ => _ end = _ => destruct m as [[? ?]| |]; reflexivity end.

(* ---- a 3-byte code in front of an item ---- *)
Lemma bytes_of_items_code3 code l : length code = 3%nat -> items_bytes_ok (wbytesn code 3 0 ++ l) ->
  bytes_ok code /\ items_bytes_ok l /\ bytes_of_items (wbytesn code 3 0 ++ l) = code ++ bytes_of_items l.
Proof.
  intros H3 Hok. rewrite wbytesn_3 in * by exact H3. cbn [app] in *.
  assert (Hc : bytes_ok code) by (apply items_ok_head_bytes in Hok; exact Hok).
  apply items_ok_tail in Hok. split; [exact Hc|]. split; [exact Hok|].
  apply bytes_of_items_cons_bytes; assumption.
Qed.

Lemma zlen_3 {A} (l : list A) : length l = 3%nat -> zlen l = 3.
Proof. intros H. unfold zlen. rewrite H. reflexivity. Qed.

(* a group of bit fields that fills one byte, in front of more items *)
Lemma bytes_of_items_group1 g l : items_bytes_ok g -> items_bytes_ok l -> bitlen g = 8 ->
  exists b, bytes_of_items (g ++ l) = b :: bytes_of_items l /\ bits_of_bytes [b] = items_bits g.
Proof.
  intros Hg Hl Hb. destruct (one_byte_group g Hg Hb) as (b & Eb & Hbits). exists b. split; [|exact Hbits].
  rewrite (bytes_of_items_app g l 1) by (auto; lia). rewrite Eb. reflexivity.
Qed.

(* ================= content (EN 300 468 6.2.9) ================= *)

Definition wf_content_item (it : DescriptorContentItem) : Prop :=
  0 <= DescriptorContentItem_ContentNibbleLevel1 it < 16 /\ 0 <= DescriptorContentItem_ContentNibbleLevel2 it < 16 /\
  byte_range (DescriptorContentItem_UserByte it).

Lemma content_item_rt it : wf_content_item it -> item_rt content_item enc_content_item (fun _ => 2) it.
Proof.
  intros (H1 & H2 & Hu). destruct it as [n1 n2 ub].
  cbn [DescriptorContentItem_ContentNibbleLevel1 DescriptorContentItem_ContentNibbleLevel2 DescriptorContentItem_UserByte] in *.
  unfold item_rt, enc_content_item. cbn [DescriptorContentItem_ContentNibbleLevel1 DescriptorContentItem_ContentNibbleLevel2 DescriptorContentItem_UserByte].
  intros _. split; [bl; reflexivity|]. split; [lia|]. intros pre rest.
  destruct (bytes_of_group [WBits 4 n1; WBits 4 n2; wu8 ub] 2) as [Hl Hb]; [iok|bl; reflexivity|].
  unfold content_item, ibind. rewrite next_bytes_at by exact Hl. unfold iret, bitsf. rewrite Hb.
  unfold wu8, items_bits. cbn [flat_map item_bits]. rewrite app_nil_r.
  rewrite field_here by exact H1.
  rewrite (field_skip 4) by lia. change (4 - 4)%nat with 0%nat. rewrite field_here by exact H2.
  rewrite (field_skip 4) by lia. change (8 - 4)%nat with 4%nat. rewrite (field_skip 4) by lia. change (4 - 4)%nat with 0%nat.
  rewrite <- (app_nil_r (bits_of 8 ub)), field_here by exact Hu. reflexivity.
Qed.

Lemma brt_content d v :
  Descriptor_Tag d = 84 -> Descriptor_Content d = Some v -> Forall wf_content_item (DescriptorContent_Items v) ->
  body_rt d (set_Content (desc_hdr 84 (2 * zlen (DescriptorContent_Items v))) v).
Proof.
  intros Ht Hv HF.
  assert (Hs : desc_size d = 2 * zlen (DescriptorContent_Items v)) by (unfold desc_size; rewrite Ht, Hv; reflexivity).
  apply (flat_map_body_rt content_item enc_content_item (fun _ => 2) (DescriptorContent_Items v) d _
           (fun items => set_Content (desc_hdr 84 (2 * zlen (DescriptorContent_Items v))) {| DescriptorContent_Items := items |})).
  - eapply Forall_impl; [|exact HF]. intros it. apply content_item_rt.
  - unfold enc_descriptor_body. rewrite Ht, Hv. reflexivity.
  - intros e i. rewrite Ht, Hs. loop_parser new_descriptor_content.
  - destruct v. reflexivity.
Qed.

(* ================= parental rating (EN 300 468 6.2.28) ================= *)

Definition wf_parental_rating_item (it : DescriptorParentalRatingItem) : Prop :=
  length (DescriptorParentalRatingItem_CountryCode it) = 3%nat /\ byte_range (DescriptorParentalRatingItem_Rating it).

Lemma parental_rating_item_rt it : wf_parental_rating_item it ->
  item_rt parental_rating_item enc_parental_rating_item (fun _ => 4) it.
Proof.
  intros (H3 & Hr). destruct it as [code rating].
  cbn [DescriptorParentalRatingItem_CountryCode DescriptorParentalRatingItem_Rating] in *.
  unfold item_rt, enc_parental_rating_item. cbn [DescriptorParentalRatingItem_CountryCode DescriptorParentalRatingItem_Rating].
  intros Hok. destruct (bytes_of_items_code3 code _ H3 Hok) as (Hc & Hl & ->).
  split; [bl; reflexivity|]. split; [lia|]. intros pre rest.
  rewrite bytes_of_items_cons_u8, bytes_of_items_nil, Z.mod_small by (auto; iok).
  unfold parental_rating_item, ibind. rewrite next_bytes_at by (rewrite zlen_app, (zlen_3 code H3); reflexivity).
  unfold iret. do 3 (destruct code as [|? code]; [discriminate|]). destruct code; [|discriminate]. reflexivity.
Qed.

Lemma brt_parental_rating d v :
  Descriptor_Tag d = 85 -> Descriptor_ParentalRating d = Some v -> Forall wf_parental_rating_item (DescriptorParentalRating_Items v) ->
  body_rt d (set_ParentalRating (desc_hdr 85 (4 * zlen (DescriptorParentalRating_Items v))) v).
Proof.
  intros Ht Hv HF.
  assert (Hs : desc_size d = 4 * zlen (DescriptorParentalRating_Items v)) by (unfold desc_size; rewrite Ht, Hv; reflexivity).
  apply (flat_map_body_rt parental_rating_item enc_parental_rating_item (fun _ => 4) (DescriptorParentalRating_Items v) d _
           (fun items => set_ParentalRating (desc_hdr 85 (4 * zlen (DescriptorParentalRating_Items v))) {| DescriptorParentalRating_Items := items |})).
  - eapply Forall_impl; [|exact HF]. intros it. apply parental_rating_item_rt.
  - unfold enc_descriptor_body. rewrite Ht, Hv. reflexivity.
  - intros e i. rewrite Ht, Hs. loop_parser new_descriptor_parental_rating.
  - destruct v. reflexivity.
Qed.

(* ---- finishing a symbolic run: same value, same buffer up to re-association, same offset ---- *)
Lemma ok_pair_eq {A} (v x : A) b1 b2 o1 o2 : v = x -> b1 = b2 -> o1 = o2 -> Ok (v, mk_iter b1 o1) = Ok (x, mk_iter b2 o2).
Proof. intros -> -> ->. reflexivity. Qed.

Ltac fin_run :=
  unfold iret; apply ok_pair_eq;
  [ | rewrite <- ?app_assoc; cbn [app]; rewrite <- ?app_assoc; reflexivity
    | rewrite ?zlen_app, ?zlen_cons, ?zlen_nil; try lia ].

(* 16-bit word read back *)
Lemma u16_group x : 0 <= x < 2 ^ 16 ->
  zlen (bytes_of_items [wu16 x]) = 2 /\ bitsf (bytes_of_items [wu16 x]) 0 16 = x.
Proof.
  intros Hx. destruct (bytes_of_group [wu16 x] 2) as [Hl Hb]; [iok|unfold wu16; bl; reflexivity|].
  split; [exact Hl|]. unfold bitsf. rewrite Hb. unfold wu16, items_bits. cbn [flat_map item_bits].
  apply field_here. exact Hx.
Qed.

Lemma bytes_of_items_cons_u16_group x l : items_bytes_ok l ->
  bytes_of_items (wu16 x :: l) = bytes_of_items [wu16 x] ++ bytes_of_items l.
Proof.
  intros Hl. change (wu16 x :: l) with ([wu16 x] ++ l). apply (bytes_of_items_app _ _ 2); [iok|exact Hl|unfold wu16; bl; reflexivity].
Qed.

(* ================= subtitling (EN 300 468 6.2.41) ================= *)

Definition wf_subtitling_item (it : DescriptorSubtitlingItem) : Prop :=
  length (DescriptorSubtitlingItem_Language it) = 3%nat /\ byte_range (DescriptorSubtitlingItem_Type it) /\
  0 <= DescriptorSubtitlingItem_CompositionPageID it < 2 ^ 16 /\ 0 <= DescriptorSubtitlingItem_AncillaryPageID it < 2 ^ 16.

Lemma subtitling_item_rt it : wf_subtitling_item it -> item_rt subtitling_item enc_subtitling_item (fun _ => 8) it.
Proof.
  intros (H3 & Ht & Hc & Ha). destruct it as [ap cp lang ty].
  cbn [DescriptorSubtitlingItem_Language DescriptorSubtitlingItem_Type DescriptorSubtitlingItem_CompositionPageID
       DescriptorSubtitlingItem_AncillaryPageID] in *.
  unfold item_rt, enc_subtitling_item.
  cbn [DescriptorSubtitlingItem_Language DescriptorSubtitlingItem_Type DescriptorSubtitlingItem_CompositionPageID
       DescriptorSubtitlingItem_AncillaryPageID].
  intros Hok. destruct (bytes_of_items_code3 lang _ H3 Hok) as (Hl & Hrest & ->).
  split; [bl; reflexivity|]. split; [lia|]. intros pre rest.
  rewrite bytes_of_items_cons_u8, bytes_of_items_cons_u16_group, bytes_of_items_cons_u16_group, bytes_of_items_nil, app_nil_r by iok.
  rewrite Z.mod_small by exact Ht.
  destruct (u16_group cp Hc) as [Lc Bc]. destruct (u16_group ap Ha) as [La Ba].
  set (gc := bytes_of_items [wu16 cp]) in *. set (ga := bytes_of_items [wu16 ap]) in *.
  rewrite <- !app_assoc. cbn [app]. rewrite <- !app_assoc.
  unfold subtitling_item, ibind. rewrite next_bytes_step by (apply zlen_3; exact H3).
  rewrite next_byte_step. rewrite next_bytes_nocopy_step by exact Lc. rewrite next_bytes_nocopy_step by exact La.
  rewrite Bc, Ba. pose proof (zlen_3 lang H3). fin_run. reflexivity.
Qed.

Lemma brt_subtitling d v :
  Descriptor_Tag d = 89 -> Descriptor_Subtitling d = Some v -> Forall wf_subtitling_item (DescriptorSubtitling_Items v) ->
  body_rt d (set_Subtitling (desc_hdr 89 (8 * zlen (DescriptorSubtitling_Items v))) v).
Proof.
  intros Ht Hv HF.
  assert (Hs : desc_size d = 8 * zlen (DescriptorSubtitling_Items v)) by (unfold desc_size; rewrite Ht, Hv; reflexivity).
  apply (flat_map_body_rt subtitling_item enc_subtitling_item (fun _ => 8) (DescriptorSubtitling_Items v) d _
           (fun items => set_Subtitling (desc_hdr 89 (8 * zlen (DescriptorSubtitling_Items v))) {| DescriptorSubtitling_Items := items |})).
  - eapply Forall_impl; [|exact HF]. intros it. apply subtitling_item_rt.
  - unfold enc_descriptor_body. rewrite Ht, Hv. reflexivity.
  - intros e i. rewrite Ht, Hs. loop_parser new_descriptor_subtitling.
  - destruct v. reflexivity.
Qed.

(* ================= teletext and VBI teletext (EN 300 468 6.2.43, 6.2.48) ================= *)

(* the page number is written as two 4-bit digits Page/10 and Page%10: every page below 160 comes back *)
Definition wf_teletext_item (it : DescriptorTeletextItem) : Prop :=
  length (DescriptorTeletextItem_Language it) = 3%nat /\ 0 <= DescriptorTeletextItem_Type it < 32 /\
  0 <= DescriptorTeletextItem_Magazine it < 8 /\ 0 <= DescriptorTeletextItem_Page it < 160.

Lemma teletext_item_rt it : wf_teletext_item it -> item_rt teletext_item enc_teletext_item (fun _ => 5) it.
Proof.
  intros (H3 & Ht & Hm & Hp). destruct it as [lang mag page ty].
  cbn [DescriptorTeletextItem_Language DescriptorTeletextItem_Type DescriptorTeletextItem_Magazine DescriptorTeletextItem_Page] in *.
  unfold item_rt, enc_teletext_item.
  cbn [DescriptorTeletextItem_Language DescriptorTeletextItem_Type DescriptorTeletextItem_Magazine DescriptorTeletextItem_Page].
  intros Hok. destruct (bytes_of_items_code3 lang _ H3 Hok) as (Hl & Hrest & ->).
  split; [bl; reflexivity|]. split; [lia|]. intros pre rest.
  change [WBits 5 ty; WBits 3 mag; WBits 4 (page / 10); WBits 4 (page mod 10)] with
    ([WBits 5 ty; WBits 3 mag] ++ [WBits 4 (page / 10); WBits 4 (page mod 10)] ++ []).
  destruct (bytes_of_items_group1 [WBits 5 ty; WBits 3 mag] ([WBits 4 (page / 10); WBits 4 (page mod 10)] ++ [])) as (b1 & -> & B1);
    [iok|iok|bl; reflexivity|].
  destruct (bytes_of_items_group1 [WBits 4 (page / 10); WBits 4 (page mod 10)] []) as (b2 & -> & B2); [iok|iok|bl; reflexivity|].
  rewrite bytes_of_items_nil. rewrite <- !app_assoc. cbn [app].
  unfold teletext_item, ibind. rewrite next_bytes_step by (apply zlen_3; exact H3).
  rewrite next_byte_step. rewrite next_byte_step. unfold bitsf. rewrite B1, B2.
  unfold items_bits. cbn [flat_map item_bits].
  rewrite (field_skip 5 ty) by lia. change (5 - 5)%nat with 0%nat. rewrite (field_here 3 mag) by exact Hm.
  rewrite (field_here 5 ty) by exact Ht.
  rewrite (field_here 4 (page / 10)) by (change (2 ^ Z.of_nat 4) with 16; Z.div_mod_to_equations; lia).
  rewrite (field_skip 4 (page / 10)) by lia. change (4 - 4)%nat with 0%nat.
  rewrite (field_here 4 (page mod 10)) by (change (2 ^ Z.of_nat 4) with 16; Z.div_mod_to_equations; lia).
  pose proof (zlen_3 lang H3). fin_run. f_equal. Z.div_mod_to_equations; lia.
Qed.

Lemma brt_teletext d v :
  Descriptor_Tag d = 86 -> Descriptor_Teletext d = Some v -> Forall wf_teletext_item (DescriptorTeletext_Items v) ->
  body_rt d (set_Teletext (desc_hdr 86 (5 * zlen (DescriptorTeletext_Items v))) v).
Proof.
  intros Ht Hv HF.
  assert (Hs : desc_size d = 5 * zlen (DescriptorTeletext_Items v)) by (unfold desc_size; rewrite Ht, Hv; reflexivity).
  apply (flat_map_body_rt teletext_item enc_teletext_item (fun _ => 5) (DescriptorTeletext_Items v) d _
           (fun items => set_Teletext (desc_hdr 86 (5 * zlen (DescriptorTeletext_Items v))) {| DescriptorTeletext_Items := items |})).
  - eapply Forall_impl; [|exact HF]. intros it. apply teletext_item_rt.
  - unfold enc_descriptor_body. rewrite Ht, Hv. reflexivity.
  - intros e i. rewrite Ht, Hs. loop_parser new_descriptor_teletext.
  - destruct v. reflexivity.
Qed.

Lemma brt_vbi_teletext d v :
  Descriptor_Tag d = 70 -> Descriptor_VBITeletext d = Some v -> Forall wf_teletext_item (DescriptorTeletext_Items v) ->
  body_rt d (set_VBITeletext (desc_hdr 70 (5 * zlen (DescriptorTeletext_Items v))) v).
Proof.
  intros Ht Hv HF.
  assert (Hs : desc_size d = 5 * zlen (DescriptorTeletext_Items v)) by (unfold desc_size; rewrite Ht, Hv; reflexivity).
  apply (flat_map_body_rt teletext_item enc_teletext_item (fun _ => 5) (DescriptorTeletext_Items v) d _
           (fun items => set_VBITeletext (desc_hdr 70 (5 * zlen (DescriptorTeletext_Items v))) {| DescriptorTeletext_Items := items |})).
  - eapply Forall_impl; [|exact HF]. intros it. apply teletext_item_rt.
  - unfold enc_descriptor_body. rewrite Ht, Hv. reflexivity.
  - intros e i. rewrite Ht, Hs. loop_parser new_descriptor_teletext.
  - destruct v. reflexivity.
Qed.

(* ================= from the body level to a loop that holds the one descriptor ================= *)

Theorem rt_of_brt d d' out rest :
  body_rt d d' -> 0 <= Descriptor_Tag d < 256 -> 0 < desc_size d < 256 ->
  enc_descriptors_with_length [d] = Ok out -> items_bytes_ok out ->
  parse_descriptors (new_iter (bytes_of_items out ++ rest)) = Ok ([d'], mk_iter (bytes_of_items out ++ rest) (4 + desc_size d)).
Proof.
  intros Hbrt Htag Hs H Hok.
  destruct (single_descriptor_loop d out rest d' H Hok Htag Hs) as [E _]; [|exact E].
  intros pre body rest' _ Hex. apply Hbrt. exact Hex.
Qed.

Theorem rt_content d v out rest :
  Descriptor_Tag d = 84 -> Descriptor_Content d = Some v -> Forall wf_content_item (DescriptorContent_Items v) ->
  0 < zlen (DescriptorContent_Items v) < 128 ->
  enc_descriptors_with_length [d] = Ok out -> items_bytes_ok out ->
  parse_descriptors (new_iter (bytes_of_items out ++ rest)) =
    Ok ([set_Content (desc_hdr 84 (2 * zlen (DescriptorContent_Items v))) v],
        mk_iter (bytes_of_items out ++ rest) (4 + 2 * zlen (DescriptorContent_Items v))).
Proof.
  intros Ht Hv HF Hn H Hok.
  assert (Hs : desc_size d = 2 * zlen (DescriptorContent_Items v)) by (unfold desc_size; rewrite Ht, Hv; reflexivity).
  rewrite <- Hs at 2. apply rt_of_brt; try assumption; [apply brt_content; assumption|rewrite Ht; lia|lia].
Qed.

Theorem rt_parental_rating d v out rest :
  Descriptor_Tag d = 85 -> Descriptor_ParentalRating d = Some v -> Forall wf_parental_rating_item (DescriptorParentalRating_Items v) ->
  0 < zlen (DescriptorParentalRating_Items v) < 64 ->
  enc_descriptors_with_length [d] = Ok out -> items_bytes_ok out ->
  parse_descriptors (new_iter (bytes_of_items out ++ rest)) =
    Ok ([set_ParentalRating (desc_hdr 85 (4 * zlen (DescriptorParentalRating_Items v))) v],
        mk_iter (bytes_of_items out ++ rest) (4 + 4 * zlen (DescriptorParentalRating_Items v))).
Proof.
  intros Ht Hv HF Hn H Hok.
  assert (Hs : desc_size d = 4 * zlen (DescriptorParentalRating_Items v)) by (unfold desc_size; rewrite Ht, Hv; reflexivity).
  rewrite <- Hs at 2. apply rt_of_brt; try assumption; [apply brt_parental_rating; assumption|rewrite Ht; lia|lia].
Qed.

Theorem rt_subtitling d v out rest :
  Descriptor_Tag d = 89 -> Descriptor_Subtitling d = Some v -> Forall wf_subtitling_item (DescriptorSubtitling_Items v) ->
  0 < zlen (DescriptorSubtitling_Items v) < 32 ->
  enc_descriptors_with_length [d] = Ok out -> items_bytes_ok out ->
  parse_descriptors (new_iter (bytes_of_items out ++ rest)) =
    Ok ([set_Subtitling (desc_hdr 89 (8 * zlen (DescriptorSubtitling_Items v))) v],
        mk_iter (bytes_of_items out ++ rest) (4 + 8 * zlen (DescriptorSubtitling_Items v))).
Proof.
  intros Ht Hv HF Hn H Hok.
  assert (Hs : desc_size d = 8 * zlen (DescriptorSubtitling_Items v)) by (unfold desc_size; rewrite Ht, Hv; reflexivity).
  rewrite <- Hs at 2. apply rt_of_brt; try assumption; [apply brt_subtitling; assumption|rewrite Ht; lia|lia].
Qed.

Theorem rt_teletext d v out rest :
  Descriptor_Tag d = 86 -> Descriptor_Teletext d = Some v -> Forall wf_teletext_item (DescriptorTeletext_Items v) ->
  0 < zlen (DescriptorTeletext_Items v) < 52 ->
  enc_descriptors_with_length [d] = Ok out -> items_bytes_ok out ->
  parse_descriptors (new_iter (bytes_of_items out ++ rest)) =
    Ok ([set_Teletext (desc_hdr 86 (5 * zlen (DescriptorTeletext_Items v))) v],
        mk_iter (bytes_of_items out ++ rest) (4 + 5 * zlen (DescriptorTeletext_Items v))).
Proof.
  intros Ht Hv HF Hn H Hok.
  assert (Hs : desc_size d = 5 * zlen (DescriptorTeletext_Items v)) by (unfold desc_size; rewrite Ht, Hv; reflexivity).
  rewrite <- Hs at 2. apply rt_of_brt; try assumption; [apply brt_teletext; assumption|rewrite Ht; lia|lia].
Qed.

Theorem rt_vbi_teletext d v out rest :
  Descriptor_Tag d = 70 -> Descriptor_VBITeletext d = Some v -> Forall wf_teletext_item (DescriptorTeletext_Items v) ->
  0 < zlen (DescriptorTeletext_Items v) < 52 ->
  enc_descriptors_with_length [d] = Ok out -> items_bytes_ok out ->
  parse_descriptors (new_iter (bytes_of_items out ++ rest)) =
    Ok ([set_VBITeletext (desc_hdr 70 (5 * zlen (DescriptorTeletext_Items v))) v],
        mk_iter (bytes_of_items out ++ rest) (4 + 5 * zlen (DescriptorTeletext_Items v))).
Proof.
  intros Ht Hv HF Hn H Hok.
  assert (Hs : desc_size d = 5 * zlen (DescriptorTeletext_Items v)) by (unfold desc_size; rewrite Ht, Hv; reflexivity).
  rewrite <- Hs at 2. apply rt_of_brt; try assumption; [apply brt_vbi_teletext; assumption|rewrite Ht; lia|lia].
Qed.
