(* The demuxer glue (NextPacket / NextData / Rewind): packet-size option vs detection (C08), PacketSkipper and
   PacketsParser (C19), Rewind (C20), buffering and early flush (C02), end of stream (C03). *)
From Coq Require Import ZArith List Lia Bool ZifyBool.
Require Import Base.Bits Base.Iter Gen.Consts Gen.Types Gen.Preds Model.Packet Model.Pool Model.Reader Model.Demux
  Proofs.ReaderProofs.
Import ListNotations.
Open Scope Z_scope.

Definition set_opt (s : dstate) (o : Z) : dstate :=
  mk_dstate (d_buffer s) (d_pb s) (d_pool s) (d_pm s) (d_reader s) o (d_groups s) (d_consulted s).

Lemma set_opt_id s : set_opt s (d_opt_size s) = s.
Proof. destruct s; reflexivity. Qed.
Lemma set_opt_set_opt s a b : set_opt (set_opt s a) b = set_opt s b.
Proof. reflexivity. Qed.

(* ---- once the packet buffer exists the size option is never looked at again ---- *)

Lemma next_packet_opt skip s o pb : d_pb s = Some pb ->
  next_packet skip (set_opt s o) = (fst (next_packet skip s), set_opt (snd (next_packet skip s)) o).
Proof.
  intros H. unfold next_packet. cbn [set_opt d_pb d_reader]. rewrite H.
  destruct (packet_buffer_next skip pb (d_reader s)) as [[rp r'] l]. reflexivity.
Qed.

Lemma next_packet_pb skip s pb : d_pb s = Some pb -> d_pb (snd (next_packet skip s)) = Some pb.
Proof.
  intros H. unfold next_packet. rewrite H.
  destruct (packet_buffer_next skip pb (d_reader s)) as [[rp r'] l]. cbn. exact H.
Qed.

Lemma update_data_opt s o ds :
  update_data (set_opt s o) ds = (fst (update_data s ds), set_opt (snd (update_data s ds)) o).
Proof. destruct ds; reflexivity. Qed.

Lemma update_data_pb s ds : d_pb (snd (update_data s ds)) = d_pb s.
Proof. destruct ds; reflexivity. Qed.

Lemma drain_opt P prs fuel : forall s o,
  drain P prs fuel (set_opt s o) = (fst (drain P prs fuel s), set_opt (snd (drain P prs fuel s)) o).
Proof.
  induction fuel as [|k IH]; intros s o; [reflexivity|].
  cbn [drain]. cbn [set_opt d_pool].
  destruct (pool_dump (d_pool s)) as [pl' ps].
  change (set_pool (set_opt s o) pl') with (set_opt (set_pool s pl') o).
  destruct ps as [|p ps]; [reflexivity|].
  change (log_group (set_opt (set_pool s pl') o) (p :: ps)) with (set_opt (log_group (set_pool s pl') (p :: ps)) o).
  set (s1 := log_group (set_pool s pl') (p :: ps)).
  change (d_pm (set_opt s1 o)) with (d_pm s1).
  destruct (parse_data P prs (d_pm s1) (p :: ps)) as [ds|c|].
  - rewrite update_data_opt. destruct (update_data s1 ds) as [[d|] s2]; cbn [fst snd]; [reflexivity|apply IH].
  - apply IH.
  - reflexivity.
Qed.

Lemma drain_pb P prs fuel : forall s, d_pb (snd (drain P prs fuel s)) = d_pb s.
Proof.
  induction fuel as [|k IH]; intros s; [reflexivity|].
  cbn [drain]. destruct (pool_dump (d_pool s)) as [pl' ps]. destruct ps as [|p ps]; [reflexivity|].
  set (s1 := log_group (set_pool s pl') (p :: ps)).
  destruct (parse_data P prs (d_pm s1) (p :: ps)) as [ds|c|].
  - pose proof (update_data_pb s1 ds) as Hu. destruct (update_data s1 ds) as [[d|] s2]; cbn [fst snd] in *.
    + exact Hu.
    + rewrite IH. exact Hu.
  - rewrite IH. reflexivity.
  - reflexivity.
Qed.

(* one iteration of the NextData loop, after its NextPacket call *)
Definition after_packet (P : dparsers) (prs : option custom_parser) (skip : Packet -> bool) (k : nat)
  (x : res Packet * dstate) : res DemuxerData * dstate :=
  match x with
  | (Err c, s1) => if c =? E_nomore then drain P prs (S (length (d_pool s1))) s1 else (Err c, s1)
  | (Panic, s1) => (Panic, s1)
  | (Ok p, s1) =>
      let '(pl', ps) := pool_add (d_pm s1) (d_pool s1) p in
      let s2' := set_pool s1 pl' in
      match ps with
      | [] => next_data_loop P prs skip k s2'
      | _ =>
          let s2 := log_group s2' ps in
          match parse_data P prs (d_pm s2) ps with
          | Err c => (Err c, s2)
          | Panic => (Panic, s2)
          | Ok ds =>
              match update_data s2 ds with
              | (Some d, s3) => (Ok d, s3)
              | (None, s3) => next_data_loop P prs skip k s3
              end
          end
      end
  end.

Lemma loop_unfold P prs skip k s :
  next_data_loop P prs skip (S k) s = after_packet P prs skip k (next_packet skip s).
Proof. cbn [next_data_loop]. destruct (next_packet skip s) as [[p|c|] s1]; reflexivity. Qed.

Definition loop_opt_stmt P prs skip (k : nat) : Prop := forall s o pb, d_pb s = Some pb ->
  next_data_loop P prs skip k (set_opt s o) =
  (fst (next_data_loop P prs skip k s), set_opt (snd (next_data_loop P prs skip k s)) o) /\
  d_pb (snd (next_data_loop P prs skip k s)) = Some pb.

Lemma after_packet_opt P prs skip k : loop_opt_stmt P prs skip k -> forall rp s1 o pb, d_pb s1 = Some pb ->
  after_packet P prs skip k (rp, set_opt s1 o) =
  (fst (after_packet P prs skip k (rp, s1)), set_opt (snd (after_packet P prs skip k (rp, s1))) o) /\
  d_pb (snd (after_packet P prs skip k (rp, s1))) = Some pb.
Proof.
  intros IH rp s1 o pb Hpb1. unfold after_packet. destruct rp as [p|c|].
  - change (d_pm (set_opt s1 o)) with (d_pm s1). change (d_pool (set_opt s1 o)) with (d_pool s1).
    destruct (pool_add (d_pm s1) (d_pool s1) p) as [pl' ps].
    change (set_pool (set_opt s1 o) pl') with (set_opt (set_pool s1 pl') o).
    destruct ps as [|p0 ps]; [apply (IH _ _ pb); exact Hpb1|].
    change (log_group (set_opt (set_pool s1 pl') o) (p0 :: ps)) with (set_opt (log_group (set_pool s1 pl') (p0 :: ps)) o).
    set (s2 := log_group (set_pool s1 pl') (p0 :: ps)).
    change (d_pm (set_opt s2 o)) with (d_pm s2).
    destruct (parse_data P prs (d_pm s2) (p0 :: ps)) as [ds|c|]; try (split; [reflexivity|exact Hpb1]).
    rewrite update_data_opt. pose proof (update_data_pb s2 ds) as Hu.
    destruct (update_data s2 ds) as [[d|] s3]; cbn [fst snd] in *.
    + split; [reflexivity|]. rewrite Hu. exact Hpb1.
    + apply (IH _ _ pb). rewrite Hu. exact Hpb1.
  - destruct (c =? E_nomore).
    + change (d_pool (set_opt s1 o)) with (d_pool s1). rewrite drain_opt. split; [reflexivity|].
      rewrite drain_pb. exact Hpb1.
    + split; [reflexivity|exact Hpb1].
  - split; [reflexivity|exact Hpb1].
Qed.

Lemma next_data_loop_opt P prs skip fuel : loop_opt_stmt P prs skip fuel.
Proof.
  induction fuel as [|k IH]; intros s o pb Hpb; [split; [reflexivity|exact Hpb]|].
  rewrite !loop_unfold. rewrite (next_packet_opt skip s o pb Hpb).
  pose proof (next_packet_pb skip s pb Hpb) as Hpb1.
  destruct (next_packet skip s) as [rp s1]. cbn [fst snd] in *.
  apply (after_packet_opt P prs skip k IH); exact Hpb1.
Qed.

Lemma nd_fuel_opt s o : nd_fuel (set_opt s o) = nd_fuel s.
Proof. reflexivity. Qed.

Lemma next_data_opt P prs skip s o pb : d_pb s = Some pb ->
  next_data P prs skip (set_opt s o) = (fst (next_data P prs skip s), set_opt (snd (next_data P prs skip s)) o) /\
  d_pb (snd (next_data P prs skip s)) = Some pb.
Proof.
  intros Hpb. unfold next_data. cbn [set_opt d_buffer]. destruct (d_buffer s) as [|d rest].
  - rewrite nd_fuel_opt. apply next_data_loop_opt. exact Hpb.
  - split; [reflexivity|exact Hpb].
Qed.

(* ---- C08 (c): a demuxer that detects the packet size behaves like one that was told the size ---- *)

Inductive dcall := CallPacket | CallData.
Definition dres : Type := res (Packet + DemuxerData).

Definition call (P : dparsers) (prs : option custom_parser) (skip : Packet -> bool) (c : dcall) (s : dstate) : dres * dstate :=
  match c with
  | CallPacket => let '(r, s') := next_packet skip s in (res_map inl r, s')
  | CallData => let '(r, s') := next_data P prs skip s in (res_map inr r, s')
  end.

Fixpoint calls (P : dparsers) (prs : option custom_parser) (skip : Packet -> bool) (cs : list dcall) (s : dstate) : list dres :=
  match cs with
  | [] => []
  | c :: r => let '(x, s') := call P prs skip c s in x :: calls P prs skip r s'
  end.

Lemma call_opt P prs skip c s o pb : d_pb s = Some pb ->
  call P prs skip c (set_opt s o) = (fst (call P prs skip c s), set_opt (snd (call P prs skip c s)) o) /\
  d_pb (snd (call P prs skip c s)) = Some pb.
Proof.
  intros Hpb. destruct c; cbn [call].
  - rewrite (next_packet_opt skip s o pb Hpb). pose proof (next_packet_pb skip s pb Hpb).
    destruct (next_packet skip s) as [r s']. cbn [fst snd] in *. auto.
  - destruct (next_data_opt P prs skip s o pb Hpb) as [H1 H2]. rewrite H1.
    destruct (next_data P prs skip s) as [r s']. cbn [fst snd] in *. auto.
Qed.

Lemma calls_opt P prs skip cs : forall s o pb, d_pb s = Some pb ->
  calls P prs skip cs (set_opt s o) = calls P prs skip cs s.
Proof.
  induction cs as [|c r IH]; intros s o pb Hpb; [reflexivity|].
  cbn [calls]. destruct (call_opt P prs skip c s o pb Hpb) as [H1 H2]. rewrite H1.
  destruct (call P prs skip c s) as [x s']. cbn [fst snd] in *. f_equal. apply (IH _ _ pb). exact H2.
Qed.

(* the first call creates the packet buffer; with a successful detection it is the one an explicit size creates *)
Lemma first_call_auto P prs skip c r size : size <> 0 -> auto_detect r = (Ok size, r) ->
  call P prs skip c (init_dstate r 0) =
  (fst (call P prs skip c (init_dstate r size)), set_opt (snd (call P prs skip c (init_dstate r size))) 0) /\
  d_pb (snd (call P prs skip c (init_dstate r size))) = Some (mk_pbuf size).
Proof.
  intros Hs Ha.
  assert (Hnp : next_packet skip (init_dstate r 0) =
                (fst (next_packet skip (init_dstate r size)), set_opt (snd (next_packet skip (init_dstate r size))) 0) /\
                d_pb (snd (next_packet skip (init_dstate r size))) = Some (mk_pbuf size)).
  { unfold next_packet, init_dstate. cbn [d_pb d_reader d_opt_size]. unfold new_packet_buffer.
    rewrite Z.eqb_refl, Ha. destruct (size =? 0) eqn:E; [lia|].
    cbn [set_reader set_pb d_buffer d_pb d_pool d_pm d_reader d_opt_size d_groups d_consulted].
    destruct (packet_buffer_next skip (mk_pbuf size) r) as [[rp r'] l]. cbn. auto. }
  destruct Hnp as [H1 H2].
  destruct c; cbn [call].
  - rewrite H1. destruct (next_packet skip (init_dstate r size)) as [x s']. cbn [fst snd] in *. auto.
  - unfold next_data. cbn [init_dstate d_buffer].
    change (nd_fuel (mk_dstate [] None [] [] r 0 [] [])) with (nd_fuel (mk_dstate [] None [] [] r size [] [])).
    unfold nd_fuel. rewrite !loop_unfold. fold (init_dstate r 0). fold (init_dstate r size). rewrite H1.
    destruct (next_packet skip (init_dstate r size)) as [rp s1]. cbn [fst snd] in *.
    change (d_reader (init_dstate r 0)) with r. change (d_reader (init_dstate r size)) with r.
    match goal with |- context [after_packet P prs skip ?k _] =>
      destruct (after_packet_opt P prs skip k (next_data_loop_opt P prs skip k) rp s1 0 _ H2) as [A1 A2];
      rewrite A1; destruct (after_packet P prs skip k (rp, s1)) as [x s']; cbn [fst snd] in *; auto
    end.
Qed.

(* C08 (c): for every sequence of NextPacket / NextData calls, a demuxer whose size detection succeeds on a reader it
   leaves where it was (seekable: rewound; bufio: only peeked — Proofs/ReaderProofs.v) returns exactly what a demuxer
   configured with that size returns *)
Theorem auto_equals_explicit P prs skip r size cs : size <> 0 -> auto_detect r = (Ok size, r) ->
  calls P prs skip cs (init_dstate r 0) = calls P prs skip cs (init_dstate r size).
Proof.
  intros Hs Ha. destruct cs as [|c cs]; [reflexivity|].
  cbn [calls]. destruct (first_call_auto P prs skip c r size Hs Ha) as [H1 H2]. rewrite H1.
  destruct (call P prs skip c (init_dstate r size)) as [x s']. cbn [fst snd] in *. f_equal.
  apply (calls_opt P prs skip cs s' 0 (mk_pbuf size)). exact H2.
Qed.

(* ================= C19: PacketSkipper ================= *)

(* the skipper's decision is taken on header + adaptation field and changes nothing else of the parse *)
Definition skipped (skip : Packet -> bool) (b : list Z) : bool :=
  match run_iter parse_packet_head b with Ok (p0, _) => skip p0 | _ => false end.

Lemma parse_packet_skip skip b :
  run_iter (parse_packet skip) b =
  if skipped skip b then Err E_skipped else run_iter (parse_packet no_skip) b.
Proof.
  unfold skipped, run_iter, parse_packet, ibind.
  destruct (parse_packet_head (new_iter b)) as [[[p0 off] i']|c|]; cbn [res_map fst]; try reflexivity.
  unfold no_skip. destruct (skip p0); reflexivity.
Qed.

Lemma skipped_no_skip b : skipped no_skip b = false.
Proof. unfold skipped, no_skip. destruct (run_iter parse_packet_head b) as [[p0 o]|c|]; reflexivity. Qed.

(* the stream as the list of its packet-sized buffers: what successive NextPacket calls return *)
Fixpoint first_unskipped (skip : Packet -> bool) (bufs : list (list Z)) : res Packet * list (list Z) :=
  match bufs with
  | [] => (Err E_nomore, [])
  | b :: r => if skipped skip b then first_unskipped skip r else (run_iter (parse_packet no_skip) b, r)
  end.

Definition kept (skip : Packet -> bool) (bufs : list (list Z)) : list (list Z) :=
  filter (fun b => negb (skipped skip b)) bufs.

(* C19: reading with a skipper = reading the stream from which the selected packets were deleted *)
Theorem skipper_is_deletion skip bufs :
  fst (first_unskipped skip bufs) = fst (first_unskipped no_skip (kept skip bufs)) /\
  kept skip (snd (first_unskipped skip bufs)) = snd (first_unskipped no_skip (kept skip bufs)).
Proof.
  induction bufs as [|b r IH]; [split; reflexivity|].
  cbn [first_unskipped kept filter]. destruct (skipped skip b) eqn:E; cbn [negb].
  - exact IH.
  - cbn [first_unskipped]. rewrite skipped_no_skip. cbn [fst snd]. split; reflexivity.
Qed.

(* all the results of successive calls *)
Fixpoint all_packets (fuel : nat) (skip : Packet -> bool) (bufs : list (list Z)) : list (res Packet) :=
  match fuel with
  | O => []
  | S k => let '(r, rest) := first_unskipped skip bufs in
           r :: match r with Err c => if c =? E_nomore then [] else all_packets k skip rest | _ => all_packets k skip rest end
  end.

Lemma first_unskipped_shorter skip bufs : (length (snd (first_unskipped skip bufs)) <= length bufs)%nat.
Proof.
  induction bufs as [|b r IH]; [simpl; lia|]. cbn [first_unskipped]. destruct (skipped skip b); cbn [snd length]; lia.
Qed.

Theorem skipper_is_deletion_all skip fuel : forall bufs,
  all_packets fuel skip bufs = all_packets fuel no_skip (kept skip bufs).
Proof.
  induction fuel as [|k IH]; intros bufs; [reflexivity|].
  cbn [all_packets]. destruct (skipper_is_deletion skip bufs) as [H1 H2].
  destruct (first_unskipped skip bufs) as [r rest]. destruct (first_unskipped no_skip (kept skip bufs)) as [r' rest'].
  cbn [fst snd] in *. subst r' rest'. f_equal.
  destruct r as [p|c|]; try apply IH. destruct (c =? E_nomore); [reflexivity|apply IH].
Qed.

(* a skipped packet is never returned *)
Theorem skipped_never_returned skip bufs p :
  fst (first_unskipped skip bufs) = Ok p ->
  exists b, In b bufs /\ skipped skip b = false /\ run_iter (parse_packet no_skip) b = Ok p.
Proof.
  induction bufs as [|b r IH]; [discriminate|]. cbn [first_unskipped]. destruct (skipped skip b) eqn:E.
  - intros H. destruct (IH H) as [b' [Hin Hb]]. exists b'. split; [right; exact Hin|exact Hb].
  - cbn [fst]. intros H. exists b. split; [left; reflexivity|auto].
Qed.

(* ---- refinement: packetBuffer.next over a reader is first_unskipped over the reader's buffers ---- *)

Definition reader_ok (r : reader) : Prop :=
  r_fault r = None /\ r_total r - r_pos r = Z.of_nat (length (r_rest r)).

Lemma read_full_buf r size b rest' : reader_ok r -> r_rest r = b ++ rest' -> Z.of_nat (length b) = size ->
  read_full r size = ((b, None), r_advance r size) /\ reader_ok (r_advance r size) /\ r_rest (r_advance r size) = rest'.
Proof.
  intros [Hf Hl] Hr Hb. unfold read_full, r_stop. rewrite Hf. unfold r_len.
  rewrite Hr, app_length in Hl.
  destruct (size <=? Z.max 0 (r_total r - r_pos r)) eqn:E; [|lia].
  assert (Hs : skipn (Z.to_nat size) (r_rest r) = rest').
  { rewrite Hr, <- Hb, Nat2Z.id. rewrite skipn_app, Nat.sub_diag, skipn_all. reflexivity. }
  split; [|split].
  - f_equal. f_equal. rewrite Hr, <- Hb, Nat2Z.id. rewrite firstn_app, Nat.sub_diag, firstn_all, firstn_O, app_nil_r. reflexivity.
  - unfold reader_ok, r_advance. cbn [r_fault r_total r_pos r_rest]. rewrite Hs. split; [exact Hf|lia].
  - unfold r_advance. cbn [r_rest]. exact Hs.
Qed.

Lemma read_full_tail r size : reader_ok r -> Z.of_nat (length (r_rest r)) < size ->
  exists bs e r', read_full r size = ((bs, Some e), r') /\ e <> RInjected.
Proof.
  intros [Hf Hl] Hlt. unfold read_full, r_stop. rewrite Hf. unfold r_len.
  destruct (size <=? Z.max 0 (r_total r - r_pos r)) eqn:E; [lia|].
  eexists _, _, _. split; [reflexivity|]. destruct (Z.max 0 (r_total r - r_pos r) =? 0); discriminate.
Qed.

Require Import Proofs.SafeProofs.

Definition buf_ok (size : Z) (b : list Z) : Prop := Z.of_nat (length b) = size /\ bytes_ok b.

(* what is left of the reader after a call: the buffers not yet read, then the truncated tail *)
Theorem pb_next_refines skip size bufs : forall fuel r tail, C_MpegTsPacketSize <= size ->
  reader_ok r -> r_rest r = concat bufs ++ tail -> Forall (buf_ok size) bufs ->
  Z.of_nat (length tail) < size -> (length bufs < fuel)%nat ->
  fst (fst (pb_next fuel skip size r)) = fst (first_unskipped skip bufs) /\
  reader_ok (snd (fst (pb_next fuel skip size r))) /\
  (fst (first_unskipped skip bufs) <> Err E_nomore ->
   r_rest (snd (fst (pb_next fuel skip size r))) = concat (snd (first_unskipped skip bufs)) ++ tail).
Proof.
  induction bufs as [|b rest IH]; intros fuel r tail Hsz Hok Hr Hall Htail Hfuel.
  - destruct fuel as [|k]; [simpl in Hfuel; lia|]. cbn [pb_next first_unskipped fst snd].
    cbn [concat app] in Hr. destruct (read_full_tail r size Hok ltac:(rewrite Hr; exact Htail)) as [bs [e [r' [H1 H2]]]].
    rewrite H1.
    assert (Hr' : reader_ok r').
    { destruct Hok as [Hf Hl]. unfold read_full, r_stop in H1. rewrite Hf in H1. unfold r_len in H1.
      destruct (size <=? Z.max 0 (r_total r - r_pos r)); inversion H1; subst.
      split; [exact Hf|]. cbn [r_advance r_total r_pos r_rest]. rewrite skipn_length. lia. }
    destruct e; try contradiction; cbn [fst snd]; (split; [reflexivity|split; [exact Hr'|intros H; contradiction]]).
  - destruct fuel as [|k]; [simpl in Hfuel; lia|]. inversion Hall as [|? ? [Hb Hbok] Hrest]; subst.
    cbn [concat] in Hr. rewrite <- app_assoc in Hr.
    destruct (read_full_buf r (Z.of_nat (length b)) b (concat rest ++ tail) Hok Hr eq_refl) as [H1 [H2 H3]].
    cbn [pb_next first_unskipped]. rewrite H1. rewrite parse_packet_skip.
    destruct (skipped skip b) eqn:E.
    + rewrite Z.eqb_refl.
      specialize (IH k (r_advance r (Z.of_nat (length b))) tail Hsz H2 H3 Hrest Htail ltac:(simpl in Hfuel; lia)).
      destruct (pb_next k skip (Z.of_nat (length b)) (r_advance r (Z.of_nat (length b)))) as [[x r''] l]. cbn [fst snd] in *. exact IH.
    + destruct (run_iter (parse_packet no_skip) b) as [p|c|] eqn:Ep; cbn [fst snd].
      * split; [reflexivity|]. split; [exact H2|]. intros _. exact H3.
      * pose proof (parse_packet_no_skip_codes b c Hbok Hsz Ep) as Hc.
        assert (Hne : (c =? E_skipped) = false) by (destruct Hc as [->| ->]; reflexivity).
        rewrite Hne. cbn [fst snd]. split; [reflexivity|]. split; [exact H2|]. intros _. exact H3.
      * split; [reflexivity|]. split; [exact H2|]. intros _. exact H3.
Qed.

(* ================= C19: PacketsParser ================= *)

(* a parser that answers skip=false with no data leaves the default output unchanged *)
Theorem parser_skip_false P f pm ps : f ps = Ok ([], false) ->
  parse_data P (Some f) pm ps = parse_data P None pm ps.
Proof. intros H. unfold parse_data. rewrite H. reflexivity. Qed.

(* a parser that answers skip=true substitutes exactly the data it returns *)
Theorem parser_skip_true P f pm ps ds : f ps = Ok (ds, true) -> parse_data P (Some f) pm ps = Ok ds.
Proof. intros H. unfold parse_data. rewrite H. reflexivity. Qed.

(* every group handed to parseData (hence to the PacketsParser) is logged once, in order; a group is never empty *)
Lemma drain_groups_nonempty P prs fuel : forall s, Forall (fun g => g <> []) (d_groups s) ->
  Forall (fun g => g <> []) (d_groups (snd (drain P prs fuel s))).
Proof.
  induction fuel as [|k IH]; intros s H; [exact H|].
  cbn [drain]. destruct (pool_dump (d_pool s)) as [pl' ps]. destruct ps as [|p ps]; [exact H|].
  set (s1 := log_group (set_pool s pl') (p :: ps)).
  assert (H1 : Forall (fun g => g <> []) (d_groups s1)).
  { unfold s1, log_group, set_pool. cbn [d_groups]. apply Forall_app. split; [exact H|]. constructor; [discriminate|constructor]. }
  destruct (parse_data P prs (d_pm s1) (p :: ps)) as [ds|c|].
  - assert (Hu : d_groups (snd (update_data s1 ds)) = d_groups s1) by (destruct ds; reflexivity).
    destruct (update_data s1 ds) as [[d|] s2]; cbn [fst snd] in *.
    + rewrite Hu. exact H1.
    + apply IH. rewrite Hu. exact H1.
  - apply IH. exact H1.
  - exact H1.
Qed.

Lemma next_packet_groups skip s : d_groups (snd (next_packet skip s)) = d_groups s.
Proof.
  unfold next_packet. destruct (d_pb s) as [pb|].
  - destruct (packet_buffer_next skip pb (d_reader s)) as [[rp r'] l]. reflexivity.
  - destruct (new_packet_buffer (d_reader s) (d_opt_size s)) as [[pb|c|] r']; try reflexivity.
    cbn. destruct (packet_buffer_next skip pb r') as [[rp r''] l]. reflexivity.
Qed.

Theorem groups_nonempty P prs skip fuel : forall s, Forall (fun g => g <> []) (d_groups s) ->
  Forall (fun g => g <> []) (d_groups (snd (next_data_loop P prs skip fuel s))).
Proof.
  induction fuel as [|k IH]; intros s H; [exact H|].
  cbn [next_data_loop]. pose proof (next_packet_groups skip s) as Hg.
  destruct (next_packet skip s) as [[p|c|] s1]; cbn [snd] in Hg.
  - destruct (pool_add (d_pm s1) (d_pool s1) p) as [pl' ps].
    destruct ps as [|p0 ps]; [apply IH; cbn [set_pool d_groups]; rewrite Hg; exact H|].
    set (s2 := log_group (set_pool s1 pl') (p0 :: ps)).
    assert (H2 : Forall (fun g => g <> []) (d_groups s2)).
    { unfold s2, log_group, set_pool. cbn [d_groups]. rewrite Hg. apply Forall_app. split; [exact H|]. constructor; [discriminate|constructor]. }
    destruct (parse_data P prs (d_pm s2) (p0 :: ps)) as [ds|c|]; try exact H2.
    assert (Hu : d_groups (snd (update_data s2 ds)) = d_groups s2) by (destruct ds; reflexivity).
    destruct (update_data s2 ds) as [[d|] s3]; cbn [fst snd] in *.
    + rewrite Hu. exact H2.
    + apply IH. rewrite Hu. exact H2.
  - destruct (c =? E_nomore); [apply drain_groups_nonempty|cbn [snd]]; rewrite Hg; exact H.
  - cbn [snd]. rewrite Hg. exact H.
Qed.

(* ================= C20: Rewind ================= *)

(* on a seekable reader Rewind reports offset 0 and leaves the state a fresh demuxer starts from,
   except that the program map is kept (and the ghost logs, which influence nothing) *)
Theorem rewind_clean s : r_kind (d_reader s) = Seekable ->
  fst (rewind s) = 0 /\
  d_buffer (snd (rewind s)) = [] /\ d_pb (snd (rewind s)) = None /\ d_pool (snd (rewind s)) = [] /\
  d_pm (snd (rewind s)) = d_pm s /\ d_opt_size (snd (rewind s)) = d_opt_size s /\
  d_reader (snd (rewind s)) = r_seek0 (d_reader s).
Proof. intros H. unfold rewind, rewind_reader. rewrite H. cbn. repeat split. Qed.

Theorem rewind_reader_fresh r : r_total r = Z.of_nat (length (r_all r)) -> fresh (r_seek0 r).
Proof. intros H. unfold fresh, r_seek0. cbn. auto. Qed.

(* the rewound state is the initial state of the same reader with the program map carried over *)
Definition with_pm (s : dstate) (pm : pmap) : dstate :=
  mk_dstate (d_buffer s) (d_pb s) (d_pool s) pm (d_reader s) (d_opt_size s) (d_groups s) (d_consulted s).



(* ================= C02: buffering, early flush, no read-ahead ================= *)

(* sections of a unit that are already parsed are handed out without touching the reader or the pool *)
Theorem buffered_first P prs skip s d rest : d_buffer s = d :: rest ->
  next_data P prs skip s =
  (Ok d, mk_dstate rest (d_pb s) (d_pool s) (d_pm s) (d_reader s) (d_opt_size s) (d_groups s) (d_consulted s)).
Proof. intros H. unfold next_data. rewrite H. reflexivity. Qed.

(* a PAT (PID 0) or a PMT (registered PID) whose sections are complete is flushed by the packet that completes it *)
Theorem early_flush pm pid q p : (Z.eqb pid C_PIDPAT || pm_mem pm pid) = true ->
  isSameAsPrevious q p = false ->
  let q1 := if resets q p then [] else q in
  let q2 := if pusi p then [] else q1 in
  is_psi_complete (q2 ++ [p]) = true ->
  acc_add pm pid q p = ([], q2 ++ [p]).
Proof.
  intros Hpsi Hs q1 q2 Hc. unfold acc_add. rewrite Hs, Hpsi. fold q1.
  destruct (pusi p); cbn [andb]; subst q2; cbn [app] in *; rewrite Hc; reflexivity.
Qed.

(* the call that reads the packet completing a unit returns the unit's first datum, and the reader is where that
   packet ended: nothing further is consumed *)
Theorem no_read_ahead P prs skip k s p s1 pl' g d ds :
  next_packet skip s = (Ok p, s1) ->
  pool_add (d_pm s1) (d_pool s1) p = (pl', g) -> g <> [] ->
  parse_data P prs (d_pm s1) g = Ok (d :: ds) ->
  fst (next_data_loop P prs skip (S k) s) = Ok d /\
  d_reader (snd (next_data_loop P prs skip (S k) s)) = d_reader s1 /\
  d_buffer (snd (next_data_loop P prs skip (S k) s)) = d_buffer s1 ++ ds.
Proof.
  intros Hnp Hadd Hg Hparse. cbn [next_data_loop]. rewrite Hnp, Hadd.
  destruct g as [|p0 g]; [contradiction|].
  change (d_pm (log_group (set_pool s1 pl') (p0 :: g))) with (d_pm s1). rewrite Hparse.
  cbn [update_data fst snd d_reader d_buffer log_group set_pool]. auto.
Qed.

(* at end of stream the pending queues are parsed in PID order (C07_drain_order) until one yields data *)
Theorem eof_drains P prs skip k s s1 :
  next_packet skip s = (Err E_nomore, s1) ->
  next_data_loop P prs skip (S k) s = drain P prs (S (length (d_pool s1))) s1.
Proof. intros H. cbn [next_data_loop]. rewrite H. reflexivity. Qed.

(* ================= C03: end of stream is stable ================= *)

Definition exhausted (s : dstate) : Prop :=
  d_buffer s = [] /\ d_pool s = [] /\ exists pb, d_pb s = Some pb /\ 0 < pb_size pb /\
  r_fault (d_reader s) = None /\ r_total (d_reader s) - r_pos (d_reader s) < pb_size pb /\
  r_pos (d_reader s) <= r_total (d_reader s).

Lemma pb_next_exhausted skip fuel size r : 0 < size -> r_fault r = None ->
  r_total r - r_pos r < size -> r_pos r <= r_total r ->
  fst (fst (pb_next (S fuel) skip size r)) = Err E_nomore /\
  (let r' := snd (fst (pb_next (S fuel) skip size r)) in
   r_fault r' = None /\ r_total r' - r_pos r' < size /\ r_pos r' <= r_total r').
Proof.
  intros Hs Hf Hlt Hle. cbn [pb_next]. unfold read_full, r_stop. rewrite Hf. unfold r_len.
  destruct (size <=? Z.max 0 (r_total r - r_pos r)) eqn:E; [lia|].
  destruct (Z.max 0 (r_total r - r_pos r) =? 0); cbn [fst snd r_advance r_fault r_total r_pos]; (split; [reflexivity|]); repeat split; try assumption; lia.
Qed.

Theorem nomore_stable P prs skip s : exhausted s ->
  fst (next_data P prs skip s) = Err E_nomore /\ exhausted (snd (next_data P prs skip s)) /\
  fst (next_packet skip s) = Err E_nomore /\ exhausted (snd (next_packet skip s)).
Proof.
  intros [Hb [Hp [pb [Hpb [Hsz [Hf [Hlt Hle]]]]]]].
  assert (Hnp : fst (next_packet skip s) = Err E_nomore /\ exhausted (snd (next_packet skip s))).
  { unfold next_packet. rewrite Hpb. unfold packet_buffer_next.
    destruct (pb_size pb <? 0) eqn:E1; [lia|]. destruct (pb_size pb =? 0) eqn:E2; [lia|].
    unfold packets_left.
    destruct (pb_next_exhausted skip (Z.to_nat ((r_len (d_reader s) - r_pos (d_reader s)) / Z.max 1 (pb_size pb))) (pb_size pb) (d_reader s) Hsz Hf Hlt Hle) as [H1 [H2 [H3 H4]]].
    destruct (pb_next _ skip (pb_size pb) (d_reader s)) as [[rp r'] l]. cbn [fst snd] in *. subst rp.
    split; [reflexivity|]. unfold exhausted. cbn [log_consulted set_reader d_buffer d_pool d_pb d_reader].
    repeat split; try assumption. exists pb. repeat split; assumption. }
  destruct Hnp as [Hnp1 Hnp2].
  assert (Hnd : fst (next_data P prs skip s) = Err E_nomore /\ exhausted (snd (next_data P prs skip s))).
  { unfold next_data. rewrite Hb. unfold nd_fuel. cbn [next_data_loop].
    destruct (next_packet skip s) as [rp s1]. cbn [fst snd] in *. subst rp. rewrite Z.eqb_refl.
    pose proof Hnp2 as [Hb1 [Hp1 Hrest]]. cbn [drain]. rewrite Hp1. cbn [pool_dump fst snd].
    split; [reflexivity|]. unfold exhausted. cbn [set_pool d_buffer d_pool d_pb d_reader]. auto. }
  destruct Hnd as [Hnd1 Hnd2]. auto.
Qed.
