(* C10: the table-driven checksum translated from crc32.go / crc32_table.go
   (Gen.Preds, Gen.CrcTable) equals the bitwise CRC-32/MPEG-2 of Spec.CrcSpec. *)
From Coq Require Import ZArith List Lia Bool.
Require Import Gen.Consts Gen.CrcTable Gen.Preds Spec.CrcSpec Proofs.Hom.
Import ListNotations.
Open Scope Z_scope.

Definition T (i : Z) : Z := nth (Z.to_nat i) tableCRC32 0.
Definition byte_ok (b : Z) : Prop := 0 <= b < 256.
Definition reg_ok (c : Z) : Prop := 0 <= c < 2 ^ 32.

(* ---- table ---- *)

Lemma table_length : length tableCRC32 = 256%nat.
Proof. vm_compute. reflexivity. Qed.

Lemma table_sweep :
  forallb (fun i => Z.eqb (T (Z.of_nat i)) (bytestep (Z.of_nat i * 2 ^ 24) 0)) (seq 0 256) = true.
Proof. vm_compute. reflexivity. Qed.

Lemma table_entry i : 0 <= i < 256 -> T i = bytestep (i * 2 ^ 24) 0.
Proof.
  intros Hi. pose proof table_sweep as H. rewrite forallb_forall in H.
  specialize (H (Z.to_nat i)). rewrite Z2Nat.id in H by lia.
  apply Z.eqb_eq, H, in_seq. lia.
Qed.

(* ---- both step functions are XOR-homomorphisms of the 40 bit pair (c, b) ---- *)

Lemma bitstep_hom c d p q :
  bitstep (Z.lxor c d) (xorb p q) = Z.lxor (bitstep c p) (bitstep d q).
Proof.
  unfold bitstep. rewrite Z.lxor_spec.
  rewrite (hom_shiftl 1 c d), (hom_mod_pow2 32 ltac:(lia) (Z.shiftl c 1) (Z.shiftl d 1)).
  set (a := (Z.shiftl c 1) mod 2 ^ 32). set (b := (Z.shiftl d 1) mod 2 ^ 32).
  set (P := crc_poly).
  destruct (Z.testbit c 31), (Z.testbit d 31), p, q; cbn [xorb];
    try reflexivity;
    try (rewrite lxor_swap, Z.lxor_nilpotent, Z.lxor_0_r; reflexivity);
    try (rewrite Z.lxor_assoc; reflexivity);
    try (rewrite <- Z.lxor_assoc, (Z.lxor_comm (Z.lxor a b) P), (Z.lxor_comm a P), !Z.lxor_assoc; reflexivity);
    try (rewrite (Z.lxor_comm a b), (Z.lxor_comm (Z.lxor a P) b), <- !Z.lxor_assoc; reflexivity).
Qed.

Lemma bytestep_hom c d a b :
  bytestep (Z.lxor c d) (Z.lxor a b) = Z.lxor (bytestep c a) (bytestep d b).
Proof.
  unfold bytestep. generalize msb_first8 c d.
  induction l as [|j l IH]; intros c0 d0; cbn [fold_left]; [reflexivity|].
  rewrite Z.lxor_spec, bitstep_hom. apply IH.
Qed.

Lemma T_hom_sweep :
  forallb (fun i => forallb (fun j =>
     Z.eqb (T (Z.lxor (Z.of_nat i) (Z.of_nat j))) (Z.lxor (T (Z.of_nat i)) (T (Z.of_nat j))))
     (seq 0 256)) (seq 0 256) = true.
Proof. vm_compute. reflexivity. Qed.

Lemma T_hom x y : 0 <= x < 256 -> 0 <= y < 256 -> T (Z.lxor x y) = Z.lxor (T x) (T y).
Proof.
  intros Hx Hy. pose proof T_hom_sweep as H. rewrite forallb_forall in H.
  specialize (H (Z.to_nat x) ltac:(apply in_seq; lia)).
  rewrite forallb_forall in H.
  specialize (H (Z.to_nat y) ltac:(apply in_seq; lia)).
  rewrite !Z2Nat.id in H by lia. apply Z.eqb_eq in H. exact H.
Qed.

Lemma land_255_range x : 0 <= Z.land x 255 < 256.
Proof.
  change 255 with (Z.ones 8). rewrite Z.land_ones by lia. apply Z.mod_pos_bound. lia.
Qed.

Definition lo8 (x : Z) := Z.land x 255.
Definition hi (x : Z) := Z.shiftr x 8.
Definition f40 (x : Z) := updateCRC32_loop1 (hi x) (lo8 x).
Definition g40 (x : Z) := bytestep (hi x) (lo8 x).

Lemma f40_hom : hom f40.
Proof.
  intros x y. unfold f40, updateCRC32_loop1, hi, lo8.
  rewrite (hom_shiftr 8 x y), (hom_land 255 x y).
  set (cx := Z.shiftr x 8). set (cy := Z.shiftr y 8).
  set (bx := Z.land x 255). set (by_ := Z.land y 255).
  rewrite (hom_shiftl 8 cx cy).
  change 4294967296 with (2 ^ 32).
  rewrite (hom_mod_pow2 32 ltac:(lia) (Z.shiftl cx 8) (Z.shiftl cy 8)).
  rewrite (hom_shiftr 24 cx cy).
  rewrite (lxor_swap (Z.shiftr cx 24) (Z.shiftr cy 24) bx by_).
  rewrite (hom_land 255 _ _).
  fold (T (Z.land (Z.lxor (Z.shiftr cx 24) bx) 255)).
  fold (T (Z.land (Z.lxor (Z.shiftr cy 24) by_) 255)).
  fold (T (Z.lxor (Z.land (Z.lxor (Z.shiftr cx 24) bx) 255) (Z.land (Z.lxor (Z.shiftr cy 24) by_) 255))).
  rewrite T_hom by apply land_255_range.
  apply lxor_swap.
Qed.

Lemma g40_hom : hom g40.
Proof.
  intros x y. unfold g40, hi, lo8.
  rewrite (hom_shiftr 8 x y), (hom_land 255 x y). apply bytestep_hom.
Qed.

Lemma basis40 :
  forallb (fun i => Z.eqb (f40 (2 ^ Z.of_nat i)) (g40 (2 ^ Z.of_nat i))) (seq 0 40) = true.
Proof. vm_compute. reflexivity. Qed.

Lemma pack40 c b : reg_ok c -> byte_ok b ->
  hi (c * 256 + b) = c /\ lo8 (c * 256 + b) = b /\ 0 <= c * 256 + b < 2 ^ 40.
Proof.
  unfold reg_ok, byte_ok, hi, lo8. intros Hc Hb. repeat split.
  - rewrite Z.shiftr_div_pow2 by lia. change (2 ^ 8) with 256.
    rewrite Z.div_add_l by lia. rewrite Z.div_small by lia. lia.
  - change 255 with (Z.ones 8). rewrite Z.land_ones by lia. change (2 ^ 8) with 256.
    rewrite Z.add_comm, Z.mod_add by lia. apply Z.mod_small. lia.
  - lia.
  - change (2 ^ 40) with (2 ^ 32 * 256). nia.
Qed.

(* the byte step of the code equals eight reference bit steps, for ALL 2^40 pairs *)
Theorem step_eq c b : reg_ok c -> byte_ok b -> updateCRC32_loop1 c b = bytestep c b.
Proof.
  intros Hc Hb.
  assert (H : forall x, 0 <= x < 2 ^ 40 -> f40 x = g40 x).
  { intros x Hx. replace x with (x * 2 ^ 0) by (rewrite Z.pow_0_r; lia).
    apply (hom_basis f40 g40 f40_hom g40_hom 40 0); [lia| |exact Hx].
    intros i Hi. rewrite Z.add_0_r. pose proof basis40 as B. rewrite forallb_forall in B.
    specialize (B (Z.to_nat i)). rewrite Z2Nat.id in B by lia. apply Z.eqb_eq, B, in_seq. lia. }
  destruct (pack40 c b Hc Hb) as (E1 & E2 & R).
  specialize (H _ R). unfold f40, g40 in H. rewrite E1, E2 in H. exact H.
Qed.

(* ---- register stays in range ---- *)

Lemma bitstep_range c bit : reg_ok (bitstep c bit).
Proof.
  unfold reg_ok, bitstep.
  assert (R : 0 <= (Z.shiftl c 1) mod 2 ^ 32 < 2 ^ 32) by (apply Z.mod_pos_bound; lia).
  destruct (xorb _ _); [|exact R].
  split.
  - apply Z.lxor_nonneg. unfold crc_poly. lia.
  - set (a := (Z.shiftl c 1) mod 2 ^ 32) in *.
    destruct (Z.eq_dec (Z.lxor a crc_poly) 0) as [E|NE]; [rewrite E; lia|].
    apply Z.log2_lt_pow2.
    + assert (0 <= Z.lxor a crc_poly) by (apply Z.lxor_nonneg; unfold crc_poly; lia). lia.
    + eapply Z.le_lt_trans; [apply Z.log2_lxor; unfold crc_poly; lia|].
      apply Z.max_lub_lt.
      * destruct (Z.eq_dec a 0) as [->|Ha]; [cbn; lia|]. apply Z.log2_lt_pow2; lia.
      * vm_compute. reflexivity.
Qed.

Lemma bytestep_range c b : reg_ok c -> reg_ok (bytestep c b).
Proof.
  unfold bytestep. generalize msb_first8. intros l. revert c.
  induction l as [|j l IH]; intros c Hc; cbn [fold_left]; [exact Hc|].
  apply IH, bitstep_range.
Qed.

(* ---- whole messages ---- *)

Lemma update_eq c msg : reg_ok c -> Forall byte_ok msg -> updateCRC32 c msg = crc_update c msg.
Proof.
  unfold updateCRC32, crc_update. revert c.
  induction msg as [|b msg IH]; intros c Hc Hm; cbn [fold_left]; [reflexivity|].
  inversion Hm as [|? ? Hb Hm']; subst.
  rewrite step_eq by assumption. apply IH; [apply bytestep_range|]; assumption.
Qed.

Lemma init_eq : C_crc32Polynomial = crc_init.
Proof. reflexivity. Qed.

Theorem compute_eq msg : Forall byte_ok msg -> computeCRC32 msg = crc32_mpeg2 msg.
Proof.
  intros H. unfold computeCRC32, crc32_mpeg2. rewrite init_eq.
  apply update_eq; [unfold reg_ok, crc_init; lia|exact H].
Qed.

Theorem update_chunks c a b : updateCRC32 (updateCRC32 c a) b = updateCRC32 c (a ++ b).
Proof. unfold updateCRC32. rewrite fold_left_app. reflexivity. Qed.

Lemma crc_update_range c msg : reg_ok c -> reg_ok (crc_update c msg).
Proof.
  unfold crc_update. revert c. induction msg as [|b msg IH]; intros c Hc; cbn [fold_left]; [exact Hc|].
  apply IH, bytestep_range, Hc.
Qed.

(* ---- residue: a register fed its own four bytes, high byte first, becomes 0 ---- *)

(* conversion heuristic only: unfold the reference steps last *)
Strategy 1000 [bytestep bitstep].

Definition self4 (c : Z) : Z :=
  bytestep (bytestep (bytestep (bytestep c (Z.land (Z.shiftr c 24) 255)) (Z.land (Z.shiftr c 16) 255))
    (Z.land (Z.shiftr c 8) 255)) (Z.land c 255).

Lemma self4_hom : hom self4.
Proof.
  intros x y. unfold self4.
  rewrite (hom_land 255 x y).
  rewrite (hom_shiftr 8 x y), (hom_land 255 (Z.shiftr x 8) (Z.shiftr y 8)).
  rewrite (hom_shiftr 16 x y), (hom_land 255 (Z.shiftr x 16) (Z.shiftr y 16)).
  rewrite (hom_shiftr 24 x y), (hom_land 255 (Z.shiftr x 24) (Z.shiftr y 24)).
  rewrite !bytestep_hom. reflexivity.
Qed.

Lemma self4_basis :
  forallb (fun i => Z.eqb (self4 (2 ^ Z.of_nat i)) 0) (seq 0 32) = true.
Proof. vm_compute. reflexivity. Qed.

Lemma self4_zero c : reg_ok c -> self4 c = 0.
Proof.
  intros Hc. replace c with (c * 2 ^ 0) by (rewrite Z.pow_0_r; lia).
  assert (Hz : hom (fun _ : Z => 0)) by (intros x y; reflexivity).
  apply (hom_basis self4 (fun _ => 0) self4_hom Hz 32 0); [lia| |exact Hc].
  intros i Hi. rewrite Z.add_0_r. pose proof self4_basis as B. rewrite forallb_forall in B.
  specialize (B (Z.to_nat i)). rewrite Z2Nat.id in B by lia. apply Z.eqb_eq, B, in_seq. lia.
Qed.

Lemma be32_bytes v : reg_ok v ->
  be32 v = [Z.land (Z.shiftr v 24) 255; Z.land (Z.shiftr v 16) 255; Z.land (Z.shiftr v 8) 255; Z.land v 255].
Proof.
  intros Hv. unfold be32. change 255 with (Z.ones 8).
  rewrite !Z.land_ones, !Z.shiftr_div_pow2 by lia. reflexivity.
Qed.

Lemma be32_ok v : Forall byte_ok (be32 v).
Proof.
  unfold be32, byte_ok. repeat constructor; apply Z.mod_pos_bound; lia.
Qed.

Lemma fold_left_4 {A B} (f : A -> B -> A) x a b c d :
  fold_left f [a; b; c; d] x = f (f (f (f x a) b) c) d.
Proof. reflexivity. Qed.

Theorem residue_spec msg : crc_update (crc32_mpeg2 msg) (be32 (crc32_mpeg2 msg)) = 0.
Proof.
  assert (R : reg_ok (crc32_mpeg2 msg)) by (apply crc_update_range; unfold reg_ok, crc_init; lia).
  rewrite be32_bytes by exact R. pose proof (self4_zero _ R) as H. unfold self4 in H.
  unfold crc_update. rewrite fold_left_4. exact H.
Qed.

Theorem residue msg : Forall byte_ok msg -> computeCRC32 (msg ++ be32 (computeCRC32 msg)) = 0.
Proof.
  intros H. rewrite compute_eq by (apply Forall_app; split; [exact H|apply be32_ok]).
  rewrite compute_eq by exact H.
  unfold crc32_mpeg2 at 1, crc_update. rewrite fold_left_app.
  apply residue_spec.
Qed.
