(* writePSIData on a TS program map section = the reference encoding, relative to C14's statement that
   writeDescriptorsWithLength emits the reference encoding of a descriptor loop. *)
From Coq Require Import ZArith List Lia Bool ZifyBool.
Require Import Base.Bits Base.Iter Base.Wr Gen.Consts Gen.Types Gen.Preds Model.Packet Model.Desc Model.Dvb Model.Psi.
Require Import Spec.CrcSpec Spec.PsiSpec Proofs.CrcProofs Proofs.PsiProofs Proofs.PsiParse Proofs.PsiParsePmt.
Import ListNotations.
Open Scope Z_scope.

Section WritePMT.
  Variable desc_enc : list Descriptor -> list Z -> Prop.
  (* C14: for a descriptor list and its reference encoding, the writer succeeds, emits whole bytes, namely the
     loop `reserved(4) length(12) bytes`, and the calculated length is the number of those bytes *)
  Hypothesis desc_write : forall ds bytes, desc_enc ds bytes ->
    Z.of_nat (length bytes) < 4096 /\ calc_descriptors_length ds = Z.of_nat (length bytes) /\
    exists its, enc_descriptors_with_length ds = Ok its /\ items_bytes_ok its /\
                length (items_bits its) = (8 * (2 + length bytes))%nat /\
                bytes_of_items its = spec_desc_loop bytes.

  Definition wstream_ok (x : stream) : Prop := desc_enc (st_descs x) (st_bytes x).

  Lemma enc_pmt_ess_bytes xs : Forall wstream_ok xs ->
    exists its, enc_pmt_ess (map stream_value xs) = Ok its /\ items_bytes_ok its /\
      length (items_bits its) = (8 * length (flat_map stream_bytes xs))%nat /\
      bytes_of_items its = flat_map stream_bytes xs /\
      pmt_streams_len (map stream_value xs) = Z.of_nat (length (flat_map stream_bytes xs)).
  Proof.
    induction 1 as [|x xs Hx _ (its & E & Ok_ & Len & By & Cl)].
    - exists []. repeat split; constructor.
    - destruct (desc_write _ _ Hx) as (Hlt & Hc & dits & Ed & Dok & Dlen & Dby).
      cbn [map enc_pmt_ess]. unfold enc_pmt_es. cbn [stream_value PMTElementaryStream_ElementaryStreamDescriptors
        PMTElementaryStream_StreamType PMTElementaryStream_ElementaryPID].
      rewrite Ed. cbn [res_bind]. rewrite E. cbn [res_bind].
      set (hd := [wu8 (st_type x); WBits 3 255; WBits 13 (st_pid x)]).
      assert (Hhd : items_bytes_ok hd) by repeat constructor.
      assert (Lhd : length (items_bits hd) = (8 * 3)%nat) by reflexivity.
      assert (Bhd : bytes_of_items hd = bytes_of_fields [(8%nat, st_type x); (3%nat, 7); (13%nat, st_pid x)]).
      { rewrite chunks_concat by exact Hhd. reflexivity. }
      exists ((hd ++ dits) ++ its).
      assert (Ok1 : items_bytes_ok (hd ++ dits)) by (apply items_bytes_ok_app; assumption).
      assert (Len1 : length (items_bits (hd ++ dits)) = (8 * (5 + length (st_bytes x)))%nat).
      { rewrite items_bits_app, app_length, Lhd, Dlen. lia. }
      pose proof (stream_bytes_length x) as Lx.
      split; [reflexivity|]. split; [apply items_bytes_ok_app; assumption|]. split; [|split].
      + rewrite items_bits_app, app_length, Len1, Len. cbn [flat_map]. rewrite app_length, Lx. lia.
      + rewrite (bytes_of_items_app _ _ _ Ok1 Ok_ Len1), By.
        rewrite (bytes_of_items_app _ _ _ Hhd Dok Lhd), Bhd, Dby. reflexivity.
      + cbn [pmt_streams_len fold_right map flat_map]. fold (pmt_streams_len (map stream_value xs)).
        rewrite Cl, app_length, Lx. cbn [stream_value PMTElementaryStream_ElementaryStreamDescriptors]. rewrite Hc. lia.
  Qed.

  Theorem write_pmt p c h sh d ext_pn pcr pds pbytes xs : 0 <= p < 256 ->
    PSISectionHeader_TableID h = 2 -> PSISectionHeader_SectionLength h > 0 ->
    PSISectionSyntaxData_PMT d = Some {| PMTData_ElementaryStreams := map stream_value xs; PMTData_PCRPID := pcr;
                                         PMTData_ProgramDescriptors := pds; PMTData_ProgramNumber := ext_pn |} ->
    desc_enc pds pbytes -> Forall wstream_ok xs ->
    9 + Z.of_nat (length pbytes) + Z.of_nat (length (flat_map stream_bytes xs)) + 4 < 4096 ->
    write_psi_data {| PSIData_PointerField := p; PSIData_Sections := [mk_section c h sh d] |} =
    Ok (p :: repeat 0 (Z.to_nat p) ++
        spec_pmt_section (PSISectionHeader_SectionSyntaxIndicator h) (PSISectionHeader_PrivateBit h)
          (PSISectionSyntaxHeader_TableIDExtension sh) (PSISectionSyntaxHeader_VersionNumber sh)
          (PSISectionSyntaxHeader_CurrentNextIndicator sh) (PSISectionSyntaxHeader_SectionNumber sh)
          (PSISectionSyntaxHeader_LastSectionNumber sh) pcr pbytes (map stream_spec xs)).
  Proof.
    intros Hp Ht Hl Hd Hpd Hxs Hfit.
    set (pmt := {| PMTData_ElementaryStreams := map stream_value xs; PMTData_PCRPID := pcr;
                   PMTData_ProgramDescriptors := pds; PMTData_ProgramNumber := ext_pn |}) in *.
    destruct (desc_write _ _ Hpd) as (Plt & Pc & pits & Ep & Pok & Plen & Pby).
    destruct (enc_pmt_ess_bytes xs Hxs) as (eits & Ee & Eok & Elen & Eby & Ecl).
    set (flat := flat_map stream_bytes xs) in *.
    (* the body items *)
    set (pcrit := [WBits 3 255; WBits 13 pcr]).
    assert (Ebody : enc_pmt_section pmt = Ok (pcrit ++ pits ++ eits)).
    { unfold enc_pmt_section, pmt. cbn [PMTData_ProgramDescriptors PMTData_ElementaryStreams PMTData_PCRPID].
      rewrite Ep. cbn [res_bind]. rewrite Ee. reflexivity. }
    (* the calculated length *)
    assert (Hcalc : calc_pmt_section_length pmt = 4 + Z.of_nat (length pbytes) + Z.of_nat (length flat)).
    { assert (Hnn : Forall (fun es => 0 <= calc_descriptors_length (PMTElementaryStream_ElementaryStreamDescriptors es))
                      (PMTData_ElementaryStreams pmt)).
      { unfold pmt. cbn [PMTData_ElementaryStreams]. apply Forall_forall. intros es Hin. apply in_map_iff in Hin.
        destruct Hin as (x & <- & Hx). rewrite Forall_forall in Hxs.
        destruct (desc_write _ _ (Hxs x Hx)) as (_ & Hc & _).
        cbn [stream_value PMTElementaryStream_ElementaryStreamDescriptors]. rewrite Hc. lia. }
      assert (Hbl : pmt_body_len pmt = 4 + Z.of_nat (length pbytes) + Z.of_nat (length flat)).
      { unfold pmt_body_len, pmt. cbn [PMTData_ProgramDescriptors PMTData_ElementaryStreams]. rewrite Pc, Ecl. reflexivity. }
      rewrite (calc_pmt_no_wrap (fun _ => True) pmt I Hnn) by (try (unfold pmt; cbn [PMTData_ProgramDescriptors]; rewrite Pc); lia).
      exact Hbl. }
    unfold write_psi_data, enc_psi_data. cbn [PSIData_Sections PSIData_PointerField enc_psi_sections].
    rewrite (enc_psi_section_pmt c h sh d pmt Ht Hl Hd). cbn zeta. rewrite Ebody. cbn [res_bind res_map]. rewrite app_nil_r.
    rewrite Hcalc.
    set (L := ((5 + (4 + Z.of_nat (length pbytes) + Z.of_nat (length flat))) mod 65536 + 4) mod 65536).
    set (rest := enc_psi_section_syntax_header sh ++ pcrit ++ pits ++ eits).
    set (body := spec_pmt_body (PSISectionSyntaxHeader_TableIDExtension sh) (PSISectionSyntaxHeader_VersionNumber sh)
          (PSISectionSyntaxHeader_CurrentNextIndicator sh) (PSISectionSyntaxHeader_SectionNumber sh)
          (PSISectionSyntaxHeader_LastSectionNumber sh) pcr pbytes (map stream_spec xs)).
    (* items of the body: aligned, and their bytes are the reference body *)
    assert (Cok : items_bytes_ok pcrit) by repeat constructor.
    assert (Clen : length (items_bits pcrit) = (8 * 2)%nat) by reflexivity.
    assert (PEok : items_bytes_ok (pits ++ eits)) by (apply items_bytes_ok_app; assumption).
    assert (Rok : items_bytes_ok rest).
    { unfold rest. apply items_bytes_ok_app; [repeat constructor|]. apply items_bytes_ok_app; assumption. }
    assert (Rlen : length (items_bits rest) = (8 * (9 + length pbytes + length flat))%nat).
    { unfold rest. rewrite !items_bits_app, !app_length, Clen, Plen, Elen.
      change (length (items_bits (enc_psi_section_syntax_header sh))) with 40%nat. lia. }
    assert (Rby : bytes_of_items rest = body).
    { unfold rest, body. rewrite pmt_body_eq. fold flat.
      rewrite (bytes_of_items_app _ _ 5) by (try assumption; try reflexivity; try (repeat constructor);
                                             apply items_bytes_ok_app; assumption).
      rewrite (bytes_of_items_app _ _ _ Cok PEok Clen). rewrite (bytes_of_items_app _ _ _ Pok Eok Plen), Pby, Eby.
      assert (A1 : bytes_of_items (enc_psi_section_syntax_header sh) =
                   bytes_of_fields (spec_syntax_header (PSISectionSyntaxHeader_TableIDExtension sh)
                     (PSISectionSyntaxHeader_VersionNumber sh) (PSISectionSyntaxHeader_CurrentNextIndicator sh)
                     (PSISectionSyntaxHeader_SectionNumber sh) (PSISectionSyntaxHeader_LastSectionNumber sh))).
      { rewrite chunks_concat by repeat constructor. rewrite syntax_header_bits. reflexivity. }
      assert (A2 : bytes_of_items pcrit = bytes_of_bits (bits_of 3 7 ++ bits_of 13 pcr)).
      { rewrite chunks_concat by exact Cok. reflexivity. }
      rewrite A1, A2. reflexivity. }
    assert (Lbody : length body = (9 + length pbytes + length flat)%nat).
    { rewrite <- Rby. apply (bytes_of_items_length _ _ Rok Rlen). }
    assert (HL : L = Z.of_nat (9 + length pbytes + length flat) + 4).
    { unfold L. rewrite (Z.mod_small (5 + _)) by lia. rewrite Z.mod_small by lia. lia. }
    assert (HL2 : L < 4096) by lia.
    destruct (framed_section h L rest _ Rok Rlen HL HL2) as (F1 & F2 & F3 & F4). cbn zeta in F1.
    set (pre := section_head h L ++ rest) in *.
    assert (Pok' : items_bytes_ok pre) by (apply items_bytes_ok_app; [repeat constructor|exact Rok]).
    assert (Plen' : length (items_bits pre) = (8 * (3 + (9 + length pbytes + length flat)))%nat).
    { unfold pre. rewrite items_bits_app, app_length, Rlen. change (length (items_bits (section_head h L))) with 24%nat. lia. }
    assert (Hpre : bytes_of_items pre =
                   spec_section_prefix 2 (PSISectionHeader_SectionSyntaxIndicator h) (PSISectionHeader_PrivateBit h) body).
    { unfold pre. rewrite (bytes_of_items_app _ _ 3) by (try exact Rok; try reflexivity; repeat constructor).
      rewrite Rby. unfold spec_section_prefix. f_equal.
      rewrite chunks_concat by repeat constructor. rewrite head_bits, Ht, Lbody, <- HL. reflexivity. }
    destruct (repeat_wu8_bits (Z.to_nat p) 0) as (Zok & Zlen & Zby).
    assert (Cok' : items_bytes_ok (pre ++ [wu32 (updateCRC32 C_crc32Polynomial (bytes_of_items pre))])).
    { apply items_bytes_ok_app; [exact Pok'|repeat constructor]. }
    unfold rest in pre. fold pcrit in pre.
    change (section_head h L ++ enc_psi_section_syntax_header sh ++ pcrit ++ pits ++ eits) with pre.
    rewrite (bytes_of_items_app [wu8 p] _ 1); [| repeat constructor | apply items_bytes_ok_app; assumption | reflexivity].
    unfold repeat_item. rewrite (bytes_of_items_app _ _ (Z.to_nat p) Zok Cok' Zlen). rewrite Zby, F1, Hpre.
    rewrite (chunks_concat [wu8 p]) by repeat constructor. cbn [items_bits flat_map item_bits wu8 app].
    rewrite app_nil_r, bytes_of_bits_bits_of_8, (Z.mod_small p) by lia. reflexivity.
  Qed.
End WritePMT.
