(* The descriptor premises of the table theorems (C13) and of the composed round trip (C01), discharged for loops
   of TYPED descriptors: any mix of the 23 typed DVB / MPEG tags, unknown tags and user-defined tags (the 25 classes
   of Proofs.DescRoundTripAll.typed_rt), zero-item bodies included, any number of them below the 12-bit loop length.

   typed_desc ds bytes: ds is a list of descriptors in the form parseDescriptors returns them (Length = body size,
   only the body of the tag present: wf_entry d d, the fixed points of C14's round trip), inside the per-tag domains
   of C14, and bytes are what writeDescriptors emits for them.  typed_desc_of_written shows that this loses nothing:
   whatever list ds0 of C14's domain a caller hands to the writer (any Length fields, any other bodies set), the
   bytes written are the bytes of its parsed form ds, and (ds, bytes) is in typed_desc. *)
From Coq Require Import ZArith List Lia Bool ZifyBool.
Require Import Base.Bits Base.Iter Base.Wr Gen.Consts Gen.Types Gen.Preds Model.Packet Model.Desc Model.Dvb Model.Psi.
Require Import Spec.CrcSpec Spec.DescSpec Spec.PsiSpec Proofs.DescProofs Proofs.DescRoundTripAll Proofs.DescOffset
  Proofs.PsiProofs Proofs.PsiParse Proofs.PsiParseSi Proofs.PsiDescLink Proofs.PsiSiLink.
Import ListNotations.
Open Scope Z_scope.

Definition typed_desc (ds : list Descriptor) (bytes : list Z) : Prop :=
  Forall2 wf_entry ds ds /\ loop_size ds < 4096 /\
  exists its, enc_descriptors ds = Ok its /\ items_bytes_ok its /\ bytes = bytes_of_items its.

Lemma typed_desc_dom ds bytes : typed_desc ds bytes -> desc_dom ds.
Proof.
  intros (HR & Hl & its & E & Hok & _). split; [apply (wf_entries_small _ _ HR)|]. split; [exact Hl|].
  exists its. split; assumption.
Qed.

(* the writer emits those bytes *)
Theorem typed_desc_bytes ds bytes : typed_desc ds bytes -> desc_bytes ds bytes.
Proof.
  intros H. split; [apply (typed_desc_dom _ _ H)|]. destruct H as (_ & _ & its & E & _ & Eb).
  exists its. split; assumption.
Qed.

Lemma typed_desc_length ds bytes : typed_desc ds bytes ->
  bytes_ok bytes /\ Z.of_nat (length bytes) = loop_size ds.
Proof.
  intros H. pose proof (typed_desc_dom _ _ H) as Hd. destruct H as (_ & Hl & its & E & Hok & ->).
  destruct (desc_dom_facts ds its Hd E) as (_ & _ & Hb). pose proof (DescProofs.loop_size_nonneg ds) as Hnn.
  split; [rewrite chunks_concat by exact Hok; apply bytes_of_bits_ok|].
  rewrite (PsiProofs.bytes_of_items_length _ _ Hok Hb). lia.
Qed.

(* parseDescriptors inverts the loop wherever it lies, whatever the four bits in front of its length *)
Theorem typed_desc_premises : desc_premises typed_desc.
Proof.
  split.
  - intros ds bytes H. destruct (typed_desc_length _ _ H) as [Hb Hl]. split; [exact Hb|]. destruct H as (_ & Hlt & _). lia.
  - intros top4 ds bytes i r Ht H Hat.
    destruct (typed_desc_length _ _ H) as [_ Hlen]. destruct H as (HR & Hl & its & E & Hok & ->).
    pose proof (DescProofs.loop_size_nonneg ds) as Hnn.
    unfold spec_loop16 in Hat. rewrite Hlen in Hat.
    destruct (len12_field top4 (loop_size ds) ltac:(lia)) as [L2 F]. cbn zeta in L2, F.
    destruct (bytes_of_fields [(4%nat, top4); (12%nat, loop_size ds)]) as [|h0 [|h1 [|h2 hl]]] eqn:Eh; try discriminate L2.
    assert (Hh : (h0 mod 16) * 256 + h1 mod 256 = loop_size ds).
    { rewrite <- (loop_length_bits [h0; h1] h0 h1 eq_refl eq_refl eq_refl). exact F. }
    destruct Hat as [H0 Hs]. rewrite <- app_assoc in Hs. cbn [app] in Hs.
    destruct (cursor_split i _ H0 Hs ltac:(discriminate)) as (pre & ->). cbn [ibs ioff].
    rewrite Hlen. apply (loop_body_at ds ds its pre h0 h1 r E Hok HR Hh).
Qed.

Lemma typed_desc_nil : typed_desc [] [].
Proof. split; [constructor|]. split; [unfold loop_size; cbn; lia|]. exists []. repeat split. constructor. Qed.

(* the Muxer's PMT size check adds up their number *)
Theorem typed_desc_size ds bytes : typed_desc ds bytes ->
  fold_left (fun k d => k + (2 + calc_descriptor_length d)) ds 0 = Z.of_nat (length bytes).
Proof.
  intros H. destruct (typed_desc_length _ _ H) as [_ ->]. pose proof (typed_desc_dom _ _ H) as (HF & _). clear H.
  assert (G : forall a, fold_left (fun k d => k + (2 + calc_descriptor_length d)) ds a = a + loop_size ds).
  { induction HF as [|d ds Hd _ IH]; intros a; cbn [fold_left]; [unfold loop_size; cbn; lia|].
    rewrite IH, loop_size_cons. destruct (emitted_nowrap d Hd) as [_ ->]. lia. }
  rewrite G. lia.
Qed.

(* nothing is lost by asking for the parsed form: any list of C14's domain is written as the bytes of its parsed form *)
Theorem typed_desc_of_written ds0 ds its : Forall2 wf_entry ds0 ds ->
  enc_descriptors ds0 = Ok its -> items_bytes_ok its -> loop_size ds0 < 4096 ->
  typed_desc ds (bytes_of_items its) /\ desc_bytes ds0 (bytes_of_items its).
Proof.
  intros HR E Hok Hl. destruct (wf_entries_same _ _ HR) as (E1 & E2 & _ & _ & HR').
  split.
  - split; [exact HR'|]. split; [rewrite E2; exact Hl|]. exists its. rewrite E1. repeat split; assumption.
  - split; [|exists its; split; [exact E|reflexivity]].
    split; [apply (wf_entries_small _ _ HR)|]. split; [exact Hl|]. exists its. split; assumption.
Qed.

(* the table theorems and the PMT theorem read for a loop as the caller wrote it: parseDescriptors at any offset of
   any buffer returns the parsed form *)
Theorem typed_desc_written_parses ds0 ds its top4 i r : Forall2 wf_entry ds0 ds ->
  enc_descriptors ds0 = Ok its -> items_bytes_ok its -> loop_size ds0 < 4096 -> 0 <= top4 < 16 ->
  at_ i (spec_loop16 top4 (bytes_of_items its) ++ r) ->
  parse_descriptors i = Ok (ds, mk_iter (ibs i) (ioff i + 2 + loop_size ds0)).
Proof.
  intros HR E Hok Hl Ht Hat. destruct (typed_desc_of_written ds0 ds its HR E Hok Hl) as [Hd _].
  destruct (typed_desc_length _ _ Hd) as [_ Hlen]. destruct (wf_entries_same _ _ HR) as (_ & E2 & _).
  rewrite (proj2 typed_desc_premises top4 ds _ i r Ht Hd Hat), Hlen, E2. reflexivity.
Qed.

(* ---------- the table theorems for typed loops: no premise left ---------- *)
Require Import Proofs.PsiParsePmt Proofs.PsiUserDesc.

Definition pmt_parses_typed := pmt_sec_parses_p typed_desc typed_desc_premises.
Definition sdt_parses_typed := sdt_parses_p typed_desc typed_desc_premises.
Definition nit_parses_typed := nit_parses_p typed_desc typed_desc_premises.
Definition eit_parses_typed := eit_parses_p typed_desc typed_desc_premises.
Definition tot_parses_typed := tot_parses_p typed_desc typed_desc_premises.

(* ---------- the domain is inhabited: five different tags, as a caller may write them and as they come back ---------- *)
Definition ex_iso639 : DescriptorISO639LanguageAndAudioType :=
  {| DescriptorISO639LanguageAndAudioType_Language := [102; 114; 97]; DescriptorISO639LanguageAndAudioType_Type := 1 |}.
Definition ex_sid : DescriptorStreamIdentifier := {| DescriptorStreamIdentifier_ComponentTag := 7 |}.
Definition ex_reg : DescriptorRegistration :=
  {| DescriptorRegistration_AdditionalIdentificationInfo := [1; 2]; DescriptorRegistration_FormatIdentifier := 1094921523 |}.
Definition ex_mbr : DescriptorMaximumBitrate := {| DescriptorMaximumBitrate_Bitrate := 50 * 1000 |}.

(* as written by a caller: struct Length fields wrong or left 0, a content descriptor without items, a stray body *)
Definition ex_typed_written : list Descriptor :=
  [ set_ISO639LanguageAndAudioType (desc_hdr 10 0) ex_iso639;
    set_StreamIdentifier (set_UserDefined (desc_hdr 82 99) [9; 9]) ex_sid;
    set_Registration (desc_hdr 5 0) ex_reg;
    set_Content (desc_hdr 84 3) {| DescriptorContent_Items := [] |};
    set_MaximumBitrate (desc_hdr 14 200) ex_mbr;
    set_UserDefined (desc_hdr 200 0) [1; 2; 3] ].
(* as parseDescriptors returns them *)
Definition ex_typed_loop : list Descriptor :=
  [ set_ISO639LanguageAndAudioType (desc_hdr 10 4) ex_iso639;
    set_StreamIdentifier (desc_hdr 82 1) ex_sid;
    set_Registration (desc_hdr 5 6) ex_reg;
    desc_hdr 84 0;
    set_MaximumBitrate (desc_hdr 14 3) ex_mbr;
    set_UserDefined (desc_hdr 200 3) [1; 2; 3] ].
Definition ex_typed_bytes : list Z :=
  [10; 4; 102; 114; 97; 1;  82; 1; 7;  5; 6; 65; 67; 45; 51; 1; 2;  84; 0;  14; 3; 192; 3; 232;  200; 3; 1; 2; 3].

Lemma ex_typed_entries : Forall2 wf_entry ex_typed_written ex_typed_loop.
Proof.
  repeat (apply Forall2_cons; [split; [cbv; intuition discriminate|]; split; [reflexivity|]|]); [| | | | | |apply Forall2_nil].
  - right. split; [reflexivity|]. apply (trt_iso639 _ ex_iso639); [reflexivity|reflexivity|reflexivity|cbv; intuition discriminate].
  - right. split; [reflexivity|]. apply (trt_stream_identifier _ ex_sid); [reflexivity|reflexivity|cbv; intuition discriminate].
  - right. split; [reflexivity|]. apply (trt_registration _ ex_reg); [reflexivity|reflexivity|cbv; intuition discriminate|reflexivity].
  - left. split; reflexivity.
  - right. split; [reflexivity|]. apply (trt_maximum_bitrate _ ex_mbr 1000); [reflexivity|reflexivity|reflexivity|cbv; intuition discriminate].
  - right. split; [reflexivity|].
    apply (trt_user_defined (set_UserDefined (desc_hdr 200 0) [1; 2; 3])); cbv; intuition discriminate.
Qed.

Lemma ex_typed_ok : typed_desc ex_typed_loop ex_typed_bytes /\ desc_bytes ex_typed_written ex_typed_bytes.
Proof.
  assert (E : exists its, enc_descriptors ex_typed_written = Ok its /\ items_bytes_ok its /\ bytes_of_items its = ex_typed_bytes).
  { eexists. split; [vm_compute; reflexivity|]. split; [repeat constructor; cbv; intuition discriminate|vm_compute; reflexivity]. }
  destruct E as (its & E & Hok & <-).
  apply (typed_desc_of_written _ _ _ ex_typed_entries E Hok). reflexivity.
Qed.
