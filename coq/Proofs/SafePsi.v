(* C03 for data_psi.go and the six table parsers: parsePSIData never panics, on any bytes; the "out of fuel" error of
   the model's loops is never produced (every round of every loop consumes input, the fuel is the input length + 1).

   What the proofs rest on:
   - section_length > 0 before the syntax section is parsed, so for a table with a CRC_32 the recomputation range
     [offsetStart, offsetSectionsEnd) has offsetSectionsEnd = offsetStart + 3 + section_length - 4 >= offsetStart;
   - sh.TableIDExtension is only read for table ids that have a syntax header: is_nit/pat/pmt/sdt/eit imply
     PSITableID.hasPSISyntaxHeader (both sides are the definitions re-translated from the source on every run);
   - Skip(-1) only ever follows a successful NextByte;
   - pointer_field is a byte (Skip forward), every length is a bit field (non-negative);
   - a section that does not stop the parse ends with Seek(offsetStart + 3 + section_length), past its start. *)
From Coq Require Import ZArith List Lia Bool ZifyBool.
Require Import Base.Bits Base.Iter Gen.Consts Gen.Types Gen.Preds Model.Packet Model.Dvb Model.Desc Model.Psi.
Require Import Proofs.SafeProofs Proofs.SafeUnits Proofs.SafeDesc.
Import ListNotations.
Open Scope Z_scope.
Open Scope iter_scope.

(* ---------------- the loops ---------------- *)

(* `for i.Offset() < end { item }` with fuel > bytes left: an item that succeeds started inside the input and
   moved forward, so the fuel is never used up *)
Lemma osafe_loop_until {A} (item : IM A) L e :
  (forall o1, 0 <= o1 -> osafe item L o1 (fun _ o' => o1 < o' /\ o1 < L)) ->
  forall fuel o, 0 <= o -> (Z.to_nat (L - o) < fuel)%nat ->
  osafe (loop_until fuel e item) L o (fun _ o' => o <= o').
Proof.
  intros Hitem. induction fuel as [|k IH]; intros o Ho Hf; [lia|].
  cbn [loop_until]. eapply osafe_bind; [apply osafe_ioffset|]. intros off o' [-> ->].
  destruct (o <? e) eqn:E; [|apply osafe_iret; lia].
  eapply osafe_bind; [apply Hitem; lia|]. cbv beta. intros a o1 [Ho1 HL].
  eapply osafe_bind; [apply IH; lia|]. cbv beta. intros r o2 Ho2. apply osafe_iret. lia.
Qed.

Lemma osafe_loop_fuel L o : osafe loop_fuel L o (fun f o' => f = S (Z.to_nat L) /\ o' = o).
Proof. unfold loop_fuel. osafe_go fail. Qed.

(* fuel <- loop_fuel ;; loop_until fuel e item *)
Lemma osafe_fuelled_loop {A B} (item : IM A) (k : list A -> IM B) L e o Q :
  (forall o1, 0 <= o1 -> osafe item L o1 (fun _ o' => o1 < o' /\ o1 < L)) -> 0 <= o ->
  (forall l o', o <= o' -> osafe (k l) L o' Q) ->
  osafe (fuel <- loop_fuel ;; l <- loop_until fuel e item ;; k l) L o Q.
Proof.
  intros Hitem Ho Hk. eapply osafe_bind; [apply osafe_loop_fuel|]. cbv beta. intros f o' [-> ->].
  eapply osafe_bind; [apply osafe_loop_until; [exact Hitem|lia|lia]|]. cbv beta. exact Hk.
Qed.

(* ---------------- items ---------------- *)

Ltac psi_hint0 :=
  first [ apply osafe_parse_descriptors; lia | apply osafe_dvb_time; lia | apply osafe_dvb_duration_seconds; lia ].

Lemma osafe_parse_pat_program L o : 0 <= o -> osafe parse_pat_program L o (fun _ o' => o < o' /\ o < L).
Proof. intros. unfold parse_pat_program. osafe_go fail. Qed.

Lemma osafe_parse_pmt_es L o : 0 <= o -> osafe parse_pmt_es L o (fun _ o' => o < o' /\ o < L).
Proof. intros. unfold parse_pmt_es. osafe_go psi_hint0. Qed.

(* Skip(-1) after four bytes have been read *)
Lemma osafe_parse_sdt_service L o : 0 <= o -> osafe parse_sdt_service L o (fun _ o' => o < o' /\ o < L).
Proof. intros. unfold parse_sdt_service. osafe_go psi_hint0. Qed.

Lemma osafe_parse_nit_ts L o : 0 <= o -> osafe parse_nit_ts L o (fun _ o' => o < o' /\ o < L).
Proof. intros. unfold parse_nit_ts. osafe_go psi_hint0. Qed.

Lemma osafe_parse_eit_event L o : 0 <= o -> osafe parse_eit_event L o (fun _ o' => o < o' /\ o < L).
Proof. intros. unfold parse_eit_event. osafe_go psi_hint0. Qed.

(* ---------------- the six tables ---------------- *)

Lemma osafe_parse_pat_section e ext L o : 0 <= o -> osafe (parse_pat_section e ext) L o (fun _ o' => 0 <= o').
Proof.
  intros. unfold parse_pat_section. apply osafe_fuelled_loop; [exact (osafe_parse_pat_program _)|lia|].
  intros. apply osafe_iret. lia.
Qed.

Lemma osafe_parse_pmt_section e ext L o : 0 <= o -> osafe (parse_pmt_section e ext) L o (fun _ o' => 0 <= o').
Proof.
  intros. unfold parse_pmt_section.
  eapply osafe_bind; [apply osafe_next_bytes_nocopy; lia|]. cbv beta. intros bs o1 (_ & _ & -> & _).
  eapply osafe_bind; [apply osafe_parse_descriptors; lia|]. cbv beta. intros pds o2 [Ho2 _].
  apply osafe_fuelled_loop; [exact (osafe_parse_pmt_es _)|lia|].
  intros. apply osafe_iret. lia.
Qed.

Lemma osafe_parse_sdt_section e ext L o : 0 <= o -> osafe (parse_sdt_section e ext) L o (fun _ o' => 0 <= o').
Proof.
  intros. unfold parse_sdt_section.
  eapply osafe_bind; [apply osafe_next_bytes_nocopy; lia|]. cbv beta. intros bs o1 (_ & _ & -> & _).
  eapply osafe_bind; [apply osafe_iskip|]. cbv beta. intros _ o2 ->.
  apply osafe_fuelled_loop; [exact (osafe_parse_sdt_service _)|lia|].
  intros. apply osafe_iret. lia.
Qed.

Lemma osafe_parse_nit_section ext L o : 0 <= o -> osafe (parse_nit_section ext) L o (fun _ o' => 0 <= o').
Proof.
  intros. unfold parse_nit_section.
  eapply osafe_bind; [apply osafe_parse_descriptors; lia|]. cbv beta. intros nds o1 [Ho1 _].
  eapply osafe_bind; [apply osafe_next_bytes_nocopy; lia|]. cbv beta. intros bs o2 (_ & _ & -> & _).
  eapply osafe_bind; [apply osafe_ioffset|]. cbv beta. intros off o3 [-> ->]. cbv zeta.
  apply osafe_fuelled_loop; [exact (osafe_parse_nit_ts _)|lia|].
  intros. apply osafe_iret. lia.
Qed.

Lemma osafe_parse_eit_section e ext L o : 0 <= o -> osafe (parse_eit_section e ext) L o (fun _ o' => 0 <= o').
Proof.
  intros. unfold parse_eit_section.
  eapply osafe_bind; [apply osafe_next_bytes_nocopy; lia|]. cbv beta. intros bs1 o1 (_ & _ & -> & _).
  eapply osafe_bind; [apply osafe_next_bytes_nocopy; lia|]. cbv beta. intros bs2 o2 (_ & _ & -> & _).
  eapply osafe_bind; [apply osafe_next_byte; lia|]. cbv beta. intros b1 o3 (_ & -> & _).
  eapply osafe_bind; [apply osafe_next_byte; lia|]. cbv beta. intros b2 o4 (_ & -> & _).
  apply osafe_fuelled_loop; [exact (osafe_parse_eit_event _)|lia|].
  intros. apply osafe_iret. lia.
Qed.

Lemma osafe_parse_tot_section L o : 0 <= o -> osafe parse_tot_section L o (fun _ o' => 0 <= o').
Proof. intros. unfold parse_tot_section. osafe_go psi_hint0. Qed.

(* ---------------- section syntax ---------------- *)

Lemma osafe_parse_psi_section_syntax_header L o : 0 <= o ->
  osafe parse_psi_section_syntax_header L o (fun _ o' => 0 <= o').
Proof. intros. unfold parse_psi_section_syntax_header. osafe_go fail. Qed.

Lemma osafe_sh_ext x L o : osafe (sh_ext (Some x)) L o (fun _ o' => o' = o).
Proof. intros i Ho Hl Hb. cbn. auto. Qed.

(* the table ids whose parser reads sh.TableIDExtension all have a syntax header *)
Lemma ext_readers_have_header tid : PSITableID_hasPSISyntaxHeader tid = false ->
  is_nit_id tid = false /\ (tid =? C_PSITableIDPAT) = false /\ (tid =? C_PSITableIDPMT) = false /\
  is_sdt_id tid = false /\ is_eit_id tid = false.
Proof.
  unfold PSITableID_hasPSISyntaxHeader, is_nit_id, is_sdt_id, is_eit_id. intros H. lia.
Qed.

Ltac psi_hint1 :=
  first [ apply osafe_sh_ext | apply osafe_parse_nit_section; lia | apply osafe_parse_pat_section; lia
        | apply osafe_parse_pmt_section; lia | apply osafe_parse_sdt_section; lia | apply osafe_parse_tot_section; lia
        | apply osafe_parse_eit_section; lia ].

Lemma osafe_parse_psi_section_syntax_data h sh e L o : 0 <= o ->
  (PSITableID_hasPSISyntaxHeader (PSISectionHeader_TableID h) = true -> sh <> None) ->
  osafe (parse_psi_section_syntax_data h sh e) L o (fun _ o' => 0 <= o').
Proof.
  intros Ho Hsh. unfold parse_psi_section_syntax_data. cbv zeta.
  destruct sh as [x|].
  - osafe_go psi_hint1.
  - destruct (PSITableID_hasPSISyntaxHeader (PSISectionHeader_TableID h)) eqn:E; [exfalso; apply Hsh; reflexivity|].
    destruct (ext_readers_have_header _ E) as (E1 & E2 & E3 & E4 & E5). rewrite E1, E2, E3, E4, E5.
    osafe_go psi_hint1.
Qed.

Lemma osafe_parse_psi_section_syntax h e L o : 0 <= o ->
  osafe (parse_psi_section_syntax h e) L o (fun _ o' => 0 <= o').
Proof.
  intros Ho. unfold parse_psi_section_syntax.
  destruct (PSITableID_hasPSISyntaxHeader (PSISectionHeader_TableID h)) eqn:E.
  - apply osafe_assoc. eapply osafe_bind; [apply osafe_parse_psi_section_syntax_header; lia|]. cbv beta. intros x o1 Ho1.
    apply osafe_ret_bind.
    eapply osafe_bind; [apply osafe_parse_psi_section_syntax_data; [lia|discriminate]|]. cbv beta. intros d o2 Ho2.
    apply osafe_iret. lia.
  - apply osafe_ret_bind.
    eapply osafe_bind; [apply osafe_parse_psi_section_syntax_data; [lia|rewrite E; discriminate]|]. cbv beta. intros d o2 Ho2.
    apply osafe_iret. lia.
Qed.

(* the CRC gate: Seek(offsetSectionsEnd), 4 bytes, Seek(offsetStart), NextBytesNoCopy(offsetSectionsEnd - offsetStart) *)
Lemma osafe_check_crc32 offs L o : 0 <= po_start offs -> po_start offs <= po_sections_end offs ->
  osafe (check_crc32 offs) L o (fun _ o' => 0 <= o').
Proof. intros. unfold check_crc32, parse_crc32. osafe_go fail. Qed.

(* parsePSISection: a section that does not stop the parse leaves the offset past where it started *)
Lemma osafe_parse_psi_section L o : 0 <= o ->
  osafe parse_psi_section L o (fun x o' => 0 <= o' /\ (snd x = false -> o < o')).
Proof.
  intros Ho. unfold parse_psi_section, parse_psi_section_header.
  apply osafe_assoc. eapply osafe_bind; [apply osafe_ioffset|]. cbv beta. intros off o1 [-> ->].
  apply osafe_assoc. eapply osafe_bind; [apply osafe_next_byte; lia|]. cbv beta. intros b o1 (Hb & -> & HL).
  cbv zeta. destruct (shouldStopPSIParsing b) eqn:Estop.
  - apply osafe_ret_bind. cbv beta iota. cbn [PSISectionHeader_TableID]. rewrite Estop.
    apply osafe_iret. cbn [snd]. split; [lia|discriminate].
  - apply osafe_assoc. eapply osafe_bind; [apply osafe_next_bytes_nocopy; lia|]. cbv beta. intros bs o2 (Hbs & Hlen & -> & HL2).
    apply osafe_assoc. eapply osafe_bind; [apply osafe_ioffset|]. cbv beta. intros off o3 [-> ->].
    apply osafe_ret_bind. cbv beta iota zeta.
    cbn [PSISectionHeader_TableID PSISectionHeader_SectionLength po_start po_sections_start po_sections_end po_end].
    rewrite Estop.
    pose proof (bitsf_nonneg bs 4 12) as Hlen0. set (len := bitsf bs 4 12) in *.
    eapply (osafe_bind _ _ _ _ (fun _ o' => 0 <= o')).
    + destruct (len >? 0) eqn:El; [|apply osafe_iret; lia].
      eapply osafe_bind; [apply osafe_parse_psi_section_syntax; lia|]. cbv beta. intros s o4 Ho4.
      destruct (PSITableID_hasCRC32 b); [|apply osafe_iret; lia].
      eapply osafe_bind; [apply osafe_check_crc32; cbn [po_start po_sections_end]; lia|]. cbv beta. intros c o5 Ho5.
      apply osafe_iret. lia.
    + intros [crc syn] o4 Ho4.
      eapply osafe_bind; [apply osafe_iseek|]. cbv beta. intros _ o5 ->.
      apply osafe_iret. cbn [snd]. split; [lia|intros _; lia].
Qed.

(* `for i.HasBytesLeft() && !stop`: fuel > bytes left is enough; every section starts inside the input and the next
   one starts further on, so there are at most as many sections as bytes left *)
Lemma osafe_psi_sections L : forall fuel o, 0 <= o -> (Z.to_nat (L - o) < fuel)%nat ->
  osafe (psi_sections fuel) L o (fun l o' => 0 <= o' /\ Z.of_nat (length l) <= Z.max 0 (L - o)).
Proof.
  induction fuel as [|k IH]; intros o Ho Hf; [lia|].
  cbn [psi_sections]. eapply osafe_bind; [apply osafe_has_bytes_left|]. cbv beta. intros more o1 [-> ->].
  destruct (o <? L) eqn:E; [|apply osafe_iret; cbn [length]; lia].
  eapply osafe_bind; [apply osafe_parse_psi_section; lia|]. cbv beta. intros [s stop] o1 [Ho1 Hst]. cbn [snd] in Hst.
  destruct stop; [apply osafe_iret; cbn [length]; lia|].
  specialize (Hst eq_refl).
  eapply osafe_bind; [apply IH; lia|]. cbv beta. intros r o2 [Ho2 Hr]. apply osafe_iret. cbn [length]. lia.
Qed.

(* parsePSIData: pointer_field, Skip(pointer_field), sections *)
Theorem osafe_parse_psi_data L o : 0 <= o ->
  osafe parse_psi_data L o (fun d o' => 0 <= o' /\ Z.of_nat (length (PSIData_Sections d)) <= L - o - 1).
Proof.
  intros Ho. unfold parse_psi_data.
  eapply osafe_bind; [apply osafe_next_byte; lia|]. cbv beta. intros b o1 (Hb & -> & HL).
  eapply osafe_bind; [apply osafe_iskip|]. cbv beta. intros _ o2 ->.
  eapply osafe_bind; [apply osafe_loop_fuel|]. cbv beta. intros f o3 [-> ->].
  unfold is_byte in Hb.
  eapply osafe_bind; [apply osafe_psi_sections; lia|]. cbv beta. intros ss o4 [Ho4 Hss].
  apply osafe_iret. cbn [PSIData_Sections]. lia.
Qed.

Theorem safe_parse_psi_data : safe parse_psi_data any.
Proof.
  apply safe_of_osafe. intros L o Ho. eapply osafe_weaken; [apply osafe_parse_psi_data; exact Ho|].
  cbv beta. unfold any. intros a o' [H _]. auto.
Qed.

(* a PSI unit of L bytes has at most L - 1 sections *)
Theorem parse_psi_data_sections bs d : bytes_ok bs -> parse_psi_data_bytes bs = Ok d ->
  Z.of_nat (length (PSIData_Sections d)) <= Z.of_nat (length bs) - 1.
Proof.
  intros Hb E. destruct (osafe_run_post parse_psi_data _ bs d Hb (osafe_parse_psi_data _ 0 ltac:(lia)) E) as [o' [_ H]]. lia.
Qed.

(* parsePSIData on any byte string: no panic, only the generic error (never the fuel code) *)
Theorem parse_psi_data_no_panic bs : bytes_ok bs ->
  match parse_psi_data_bytes bs with Panic => False | Err c => ok_code c | Ok _ => True end.
Proof. intros Hb. unfold parse_psi_data_bytes. eapply osafe_run; [exact Hb|apply osafe_parse_psi_data; lia]. Qed.
