(* Lemmas for property C12: Duration(), the PES_packet_length rule, payload boundaries,
   and parse (write v) = observed v for the PES header. *)
From Coq Require Import ZArith List Lia Bool ZifyBool.
Require Import Base.Bits Base.Iter Base.Wr Gen.Consts Gen.Types Gen.Preds Model.Clock Model.Pes Proofs.ClockProofs.
Import ListNotations.
Open Scope Z_scope.

(* ---------------- Duration ---------------- *)

(* inside the property's range Duration() is the per-term truncated value, no int64 intermediate
   overflows, and the result lies less than 2 ns below the exact rational value
   (scaled by 27 000 000: exact * 27e6 = 300 * base * 1e9 + ext * 1e9) *)
Lemma duration_spec base ext : 0 <= base < 2 ^ 33 -> 0 <= ext < 2 ^ 9 ->
  let d := cr_duration (mk_cr base ext) in
  d = base * 10 ^ 9 / 90000 + ext * 10 ^ 9 / 27000000
  /\ 0 <= base * 10 ^ 9 < 2 ^ 63 /\ 0 <= ext * 10 ^ 9 < 2 ^ 63
  /\ 0 <= base * 10 ^ 9 / 90000 < 2 ^ 63 /\ 0 <= ext * 10 ^ 9 / 27000000 < 2 ^ 63 /\ 0 <= d < 2 ^ 63
  /\ 27000000 * d <= 300 * (base * 10 ^ 9) + ext * 10 ^ 9 < 27000000 * (d + 2).
Proof.
  intros Hb He d. subst d. unfold cr_duration, mk_cr; cbn [ClockReference_Base ClockReference_Extension].
  change (2 ^ 33) with 8589934592 in Hb. change (2 ^ 9) with 512 in He.
  change (10 ^ 9) with 1000000000. change (2 ^ 63) with 9223372036854775808.
  rewrite !Z.quot_div_nonneg by lia.
  pose proof (Z.div_mod (base * 1000000000) 90000 ltac:(lia)).
  pose proof (Z.mod_pos_bound (base * 1000000000) 90000 ltac:(lia)).
  pose proof (Z.div_mod (ext * 1000000000) 27000000 ltac:(lia)).
  pose proof (Z.mod_pos_bound (ext * 1000000000) 27000000 ltac:(lia)).
  repeat split; try lia.
Qed.

(* ---------------- the PES_packet_length rule ---------------- *)

Definition opt_len_of (h : PESHeader) : Z :=
  if orb (PESHeader_StreamID h =? 190) (PESHeader_StreamID h =? 191) then 0
  else calcPESOptionalHeaderLength (PESHeader_OptionalHeader h).

Lemma length_rule h n :
  pes_packet_length h n =
    if orb (PESHeader_StreamID h =? 224) (PESHeader_StreamID h =? 253) then 0
    else if n + opt_len_of h >? 65535 then 0
    else n + opt_len_of h.
Proof.
  unfold pes_packet_length, opt_len_of, PESHeader_IsVideoStream, hasPESOptionalHeader,
    C_StreamIDPaddingStream, C_StreamIDPrivateStream2.
  destruct (PESHeader_StreamID h =? 224), (PESHeader_StreamID h =? 253); cbn [orb]; try reflexivity.
  destruct (PESHeader_StreamID h =? 190), (PESHeader_StreamID h =? 191); cbn [orb andb negb]; reflexivity.
Qed.

(* what writePESHeader emits starts with the start code prefix, the stream id and that length *)
Lemma enc_pes_header_head h n its k : enc_pes_header h n = Ok (its, k) ->
  exists rest, its = [WBits 24 1; wu8 (PESHeader_StreamID h); wu16 (pes_packet_length h n)] ++ rest.
Proof.
  unfold enc_pes_header. destruct (hasPESOptionalHeader (PESHeader_StreamID h)).
  - destruct (match PESHeader_OptionalHeader h with None => _ | Some oh => _ end) as [[oi m]| |]; cbn [res_bind]; try discriminate.
    intros E; inversion E; subst. eexists; reflexivity.
  - intros E; inversion E; subst. exists []. reflexivity.
Qed.

(* ---------------- payload boundaries ---------------- *)

Lemma ibind_inv {A B} (m : IM A) (f : A -> IM B) i r :
  ibind m f i = Ok r -> exists a i1, m i = Ok (a, i1) /\ f a i1 = Ok r.
Proof.
  unfold ibind. destruct (m i) as [[a i1]| |]; try discriminate. intros H. exists a, i1. auto.
Qed.

(* a successful sub-parser keeps the byte string *)
Definition keeps {A} (m : IM A) : Prop := forall i a i', m i = Ok (a, i') -> ibs i' = ibs i.

Lemma keeps_bind {A B} (m : IM A) (f : A -> IM B) : keeps m -> (forall a, keeps (f a)) -> keeps (ibind m f).
Proof.
  intros Hm Hf i b i' H. apply ibind_inv in H. destruct H as (a & i1 & H1 & H2).
  rewrite (Hf a _ _ _ H2). eapply Hm; eauto.
Qed.
Lemma keeps_ret {A} (a : A) : keeps (iret a).
Proof. intros i b i' H. inversion H; reflexivity. Qed.
Lemma keeps_next_byte : keeps next_byte.
Proof. intros i b i' H. apply next_byte_ok in H. tauto. Qed.
Lemma keeps_next_bytes n : keeps (next_bytes n).
Proof. intros i b i' H. apply next_bytes_ok in H. tauto. Qed.
Lemma keeps_iskip n : keeps (iskip n).
Proof. intros i b i' H. inversion H; reflexivity. Qed.
Lemma keeps_ioffset : keeps ioffset.
Proof. intros i b i' H. inversion H; reflexivity. Qed.

Ltac keeps_tac :=
  repeat first
    [ apply keeps_ret | apply keeps_next_byte | apply keeps_next_bytes | apply keeps_iskip | apply keeps_ioffset
    | apply keeps_bind; [| intros ]
    | match goal with
      | |- keeps (if ?c then _ else _) => destruct c
      | |- keeps (match ?p with (_, _) => _ end) => destruct p
      end ].

Lemma keeps_pts : keeps parse_pts_or_dts.
Proof. unfold parse_pts_or_dts, next_bytes_nocopy. keeps_tac. Qed.
Lemma keeps_escr : keeps parse_escr.
Proof. unfold parse_escr, next_bytes_nocopy. keeps_tac. Qed.

Lemma keeps_ptsdts ind : keeps (parse_ptsdts ind).
Proof. unfold parse_ptsdts. pose proof keeps_pts. keeps_tac; assumption. Qed.
Lemma keeps_escr_opt c : keeps (parse_escr_opt c).
Proof. unfold parse_escr_opt. pose proof keeps_escr. keeps_tac; assumption. Qed.
Lemma keeps_es_rate c : keeps (parse_es_rate c).
Proof. unfold parse_es_rate, next_bytes_nocopy. keeps_tac. Qed.
Lemma keeps_dsm_opt c : keeps (parse_dsm_opt c).
Proof. unfold parse_dsm_opt. keeps_tac. Qed.
Lemma keeps_aci c : keeps (parse_aci c).
Proof. unfold parse_aci. keeps_tac. Qed.
Lemma keeps_crc c : keeps (parse_crc c).
Proof. unfold parse_crc, next_bytes_nocopy. keeps_tac. Qed.
Lemma keeps_extension c : keeps (parse_pes_extension c).
Proof.
  unfold parse_pes_extension, parse_private_data, parse_pack_field, parse_psc, parse_pstd, parse_ext2, next_bytes_nocopy.
  keeps_tac.
Qed.

(* parsePESOptionalHeader: dataStart is the offset behind the three fixed bytes plus PES_header_data_length *)
Lemma parse_optional_header_start i oh ds i' :
  parse_pes_optional_header i = Ok ((oh, ds), i') ->
  ds = ioff i + 3 + PESOptionalHeader_HeaderLength oh /\ ibs i' = ibs i /\
  PESOptionalHeader_HeaderLength oh = nth (Z.to_nat (ioff i + 2)) (ibs i) 0.
Proof.
  unfold parse_pes_optional_header. intros H.
  apply ibind_inv in H. destruct H as (b0 & i1 & H0 & H).
  apply ibind_inv in H. destruct H as (b1 & i2 & H1 & H).
  apply ibind_inv in H. destruct H as (b2 & i3 & H2 & H).
  apply ibind_inv in H. destruct H as (off & i4 & H3 & H).
  apply next_byte_ok in H0. apply next_byte_ok in H1. apply next_byte_ok in H2.
  inversion H3; subst off i4; clear H3.
  apply ibind_inv in H. destruct H as ([pts dts] & j1 & K1 & H). apply keeps_ptsdts in K1.
  apply ibind_inv in H. destruct H as (escr & j2 & K2 & H). apply keeps_escr_opt in K2.
  apply ibind_inv in H. destruct H as (esrate & j3 & K3 & H). apply keeps_es_rate in K3.
  apply ibind_inv in H. destruct H as (dsm & j4 & K4 & H). apply keeps_dsm_opt in K4.
  apply ibind_inv in H. destruct H as (aci & j5 & K5 & H). apply keeps_aci in K5.
  apply ibind_inv in H. destruct H as (crc & j6 & K6 & H). apply keeps_crc in K6.
  apply ibind_inv in H. destruct H as (e & j7 & K7 & H). apply keeps_extension in K7.
  inversion H; subst; clear H. cbn [PESOptionalHeader_HeaderLength].
  split; [lia|]. destruct H0 as (_ & E0 & O0 & _), H1 as (_ & E1 & O1 & _), H2 as (_ & E2 & _ & V2).
  split; [congruence|]. rewrite V2. rewrite E1, E0. f_equal. lia.
Qed.

(* parsePESHeader on the iterator positioned behind the start code *)
Lemma parse_header_bounds bs h ds de i' :
  parse_pes_header (mk_iter bs 3) = Ok ((h, ds, de), i') ->
  let L := PESHeader_PacketLength h in
  let hdr := match PESHeader_OptionalHeader h with
             | Some oh => 3 + PESOptionalHeader_HeaderLength oh | None => 0 end in
  ds = 6 + hdr /\ de = (if L >? 0 then 6 + L else Z.of_nat (length bs)) /\ ibs i' = bs /\ 0 <= L < 65536 /\
  (bytes_ok bs -> 0 <= hdr).
Proof.
  unfold parse_pes_header. intros H.
  apply ibind_inv in H. destruct H as (sid & i1 & H0 & H).
  apply ibind_inv in H. destruct H as (b2 & i2 & H1 & H).
  apply ibind_inv in H. destruct H as (off & i3 & H2 & H).
  apply ibind_inv in H. destruct H as (len & i4 & H3 & H).
  apply next_byte_ok in H0. apply next_bytes_ok in H1. cbn [ibs ioff] in *.
  inversion H2; subst off i3; clear H2. inversion H3; subst len i4; clear H3.
  assert (Hi2 : ibs i2 = bs /\ ioff i2 = 6).
  { destruct H0 as (_ & A & B & _), H1 as (_ & _ & _ & C & D & _). split; [congruence|lia]. }
  destruct Hi2 as [Hb2 Ho2].
  assert (HL : 0 <= bitsf b2 0 16 < 65536).
  { unfold bitsf, field. pose proof (Z_of_bits_range (firstn 16 (skipn 0 (bits_of_bytes b2)))) as R.
    rewrite firstn_length in R.
    assert (2 ^ Z.of_nat (Nat.min 16 (length (skipn 0 (bits_of_bytes b2)))) <= 2 ^ 16).
    { apply Z.pow_le_mono_r; lia. }
    change (2 ^ 16) with 65536 in *. lia. }
  destruct (hasPESOptionalHeader sid).
  - apply ibind_inv in H. destruct H as ([oh ds'] & i5 & H4 & H).
    apply parse_optional_header_start in H4. destruct H4 as (Hds & Hbs & Hhl).
    unfold iret in H. injection H as Eh Eds Ede Ei. subst h ds de i'.
    cbn [PESHeader_PacketLength PESHeader_OptionalHeader].
    unfold ilen. rewrite Hb2, Ho2. repeat split; try lia; [congruence|].
    intros Hok. rewrite Hhl, Hb2.
    destruct (nth_in_or_default (Z.to_nat (ioff i2 + 2)) bs 0) as [Hin|Hd]; [|lia].
    unfold bytes_ok in Hok. rewrite Forall_forall in Hok. specialize (Hok _ Hin). unfold byte_ok in Hok. lia.
  - apply ibind_inv in H. destruct H as (ds' & i5 & H4 & H).
    inversion H4; subst ds' i5; clear H4.
    unfold iret in H. injection H as Eh Eds Ede Ei. subst h ds de i'.
    cbn [PESHeader_PacketLength PESHeader_OptionalHeader].
    unfold ilen. rewrite Hb2, Ho2. repeat split; try lia.
Qed.

(* parsePESData once the header is parsed: the data are exactly the bytes [dataStart, dataEnd) *)
Lemma parse_data_after_header bs h ds de i' :
  parse_pes_header (mk_iter bs 3) = Ok ((h, ds, de), i') -> ibs i' = bs ->
  parse_pes_data_bytes bs =
    if de <? ds then Err E_generic
    else if Z.of_nat (length bs) <? de then Err E_generic
    else if ds <? 0 then Panic
    else Ok {| PESData_Data := slice bs ds de; PESData_Header := Some h |}.
Proof.
  intros H Hb. unfold parse_pes_data_bytes, run_iter, parse_pes_data.
  unfold ibind at 1. cbn [iseek new_iter ibs].
  unfold ibind at 1. rewrite H.
  destruct (de <? ds) eqn:E1; [reflexivity|].
  unfold ibind at 1. cbn [iseek]. rewrite Hb.
  unfold ibind, next_bytes, ilen. cbn [ibs ioff].
  replace (ds + (de - ds)) with de by lia.
  destruct (Z.of_nat (length bs) <? de) eqn:E2; [reflexivity|].
  destruct (de - ds <? 0) eqn:E3; [lia|].
  destruct (ds <? 0) eqn:E4; reflexivity.
Qed.

Lemma payload_rule bs h ds de i' :
  parse_pes_header (mk_iter bs 3) = Ok ((h, ds, de), i') ->
  let L := PESHeader_PacketLength h in
  let hdr := match PESHeader_OptionalHeader h with
             | Some oh => 3 + PESOptionalHeader_HeaderLength oh | None => 0 end in
  let len := Z.of_nat (length bs) in
  bytes_ok bs ->
  (* PES_packet_length = L > 0: exactly the L - hdr bytes behind the header; Err when fewer are available
     (or when L ends inside the header) *)
  (L > 0 -> hdr <= L -> 6 + L <= len ->
     parse_pes_data_bytes bs = Ok {| PESData_Data := slice bs (6 + hdr) (6 + L); PESData_Header := Some h |}
     /\ Z.of_nat (length (slice bs (6 + hdr) (6 + L))) = L - hdr) /\
  (L > 0 -> len < 6 + L -> parse_pes_data_bytes bs = Err E_generic) /\
  (L > 0 -> L < hdr -> parse_pes_data_bytes bs = Err E_generic) /\
  (* PES_packet_length = 0: everything up to the end of the unit *)
  (L = 0 -> 6 + hdr <= len ->
     parse_pes_data_bytes bs = Ok {| PESData_Data := skipn (Z.to_nat (6 + hdr)) bs; PESData_Header := Some h |}) /\
  (L = 0 -> len < 6 + hdr -> parse_pes_data_bytes bs = Err E_generic).
Proof.
  intros H L hdr len Hok. subst len.
  destruct (parse_header_bounds _ _ _ _ _ H) as (Hds & Hde & Hbs & HL & Hh).
  fold L hdr in Hds, Hde, HL, Hh. specialize (Hh Hok).
  rewrite (parse_data_after_header _ _ _ _ _ H Hbs). subst ds de.
  set (len := Z.of_nat (length bs)).
  repeat split; intros.
  - destruct (L >? 0) eqn:E; [|lia].
    destruct (6 + L <? 6 + hdr) eqn:E1; [lia|]. destruct (len <? 6 + L) eqn:E2; [lia|].
    destruct (6 + hdr <? 0) eqn:E3; [lia|]. reflexivity.
  - rewrite slice_length by (subst len; lia). lia.
  - destruct (L >? 0) eqn:E; [|lia].
    destruct (6 + L <? 6 + hdr); [reflexivity|]. destruct (len <? 6 + L) eqn:E2; [reflexivity|lia].
  - destruct (L >? 0) eqn:E; [|lia]. destruct (6 + L <? 6 + hdr) eqn:E1; [reflexivity|lia].
  - destruct (L >? 0) eqn:E; [lia|].
    destruct (len <? 6 + hdr) eqn:E1; [lia|]. rewrite Z.ltb_irrefl.
    destruct (6 + hdr <? 0) eqn:E3; [lia|]. f_equal. f_equal.
    unfold slice. apply firstn_all2. rewrite skipn_length. subst len. lia.
  - destruct (L >? 0) eqn:E; [lia|]. destruct (len <? 6 + hdr) eqn:E1; [reflexivity|lia].
Qed.

(* the hypotheses are met by concrete values *)
Example duration_example : cr_duration (mk_cr 8589934591 511) = 95443717677777 + 18925.
Proof. reflexivity. Qed.
Example payload_rule_example :
  let bs := [0; 0; 1; 192; 0; 10; 128; 128; 5; 33; 0; 1; 0; 1; 170; 187; 204; 221] in
  exists h i', parse_pes_header (mk_iter bs 3) = Ok ((h, 14, 16), i') /\ PESHeader_PacketLength h = 10 /\
  parse_pes_data_bytes bs = Ok {| PESData_Data := [170; 187]; PESData_Header := Some h |}.
Proof. vm_compute. eexists _, _. repeat split; reflexivity. Qed.
Example length_rule_example :
  pes_packet_length {| PESHeader_OptionalHeader := None; PESHeader_PacketLength := 0; PESHeader_StreamID := 191 |} 65535 = 65535 /\
  pes_packet_length {| PESHeader_OptionalHeader := None; PESHeader_PacketLength := 0; PESHeader_StreamID := 191 |} 65536 = 0 /\
  pes_packet_length {| PESHeader_OptionalHeader := Some zero_PESOptionalHeader; PESHeader_PacketLength := 0; PESHeader_StreamID := 192 |} 100 = 103 /\
  pes_packet_length {| PESHeader_OptionalHeader := Some zero_PESOptionalHeader; PESHeader_PacketLength := 0; PESHeader_StreamID := 224 |} 100 = 0.
Proof. repeat split; reflexivity. Qed.
